package main

// C10 — rtcmfilter emits exactly the valid RTCM frames of its input, in order.

import (
	"fmt"
	"go/token"
	"go/types"
	"strings"

	"golang.org/x/tools/go/ssa"
)

// consumerOfGo: the named consumer function run by a go statement (through
// one closure wrapper level) and the arguments it receives, in F's frame.
func consumerOfGo(P *Prog, g *ssa.Go) (*ssa.Function, []ssa.Value) {
	body := callTarget(g)
	if body == nil {
		return nil, nil
	}
	if body.Parent() == nil {
		return body, g.Call.Args
	}
	var fn *ssa.Function
	var args []ssa.Value
	eachInstr(body, func(ins ssa.Instruction) {
		if c, ok := ins.(*ssa.Call); ok {
			if f := c.Call.StaticCallee(); f != nil && P.InModule(f) && len(P.recvParamIndexes(f)) > 0 {
				fn = f
				args = nil
				for _, a := range c.Call.Args {
					args = append(args, root(a))
				}
			}
		}
	})
	return fn, args
}

func checkC10(c *Ctx) {
	c.Explanation = "Decides the structure that makes rtcmfilter's output exactly the valid frames of its input: (R6) no function of the module that the entry point reaches prints to standard output beside the output writer (fmt.Print*, os.Stdout); (R1/R2) the writer attached to standard output and to the record file is the filtering consumer: it writes every received message whose type is not the non-RTCM sentinel, once, synchronously, and what it writes is the message's RawData unmodified; it skips nothing else and stops only on a closed channel or a failed write; (R3) wiring: exactly one consumer goroutine is given the program's output writer and it is the filtering consumer; the record consumer is the same function on the daily record writer, started iff RecordMessages; the readable log consumer writes one entry per message and is started iff DisplayMessages; every consumer's channel is in the fan-out list handed to the pipeline; (R4) composition with the framing properties: typed messages are exactly CRC-valid complete frames (C01 rules), every valid frame is recognised with exactly its own bytes (C03 rules), the reader stage forwards every byte it reads exactly once for every chunking of the input (C09-R8 rule), the pipeline delivers all of them in order to every consumer (C09 fan-out rules); (R5) every consumer goroutine is joined — its channel closed and its completion awaited — before the entry point returns, so nothing is missing at exit (C11 join rule applied to all consumers). R4 also contains the no-panic obligations of the stream handler (C07 engine)."
	c.NotDecided = "dailylogger's file handling; what happens after a short or failed write (the writer stops by design); the CRC arithmetic (dependency pin, C01)."
	P := c.P
	pkg := "apps/rtcmfilter"
	F := appEntry(c, "C10-anchor", pkg)
	filt := P.Func(pkg, "writeRTCMMessages")
	readable := P.Func(pkg, "writeReadableMessages")
	if F == nil || filt == nil || readable == nil {
		c.Unresolved("C10-anchor", pkg+".HandleMessages/writeRTCMMessages/writeReadableMessages")
		return
	}
	w := ioWriterParam(F)
	if w == nil {
		c.Unresolved("C10-anchor", "io.Writer parameter of HandleMessages")
		return
	}
	// ---- R1/R2 the filtering consumer
	consumerLoopRule(c, "C10-R1", filt, "rtcmfilter.writeRTCMMessages", nonRTCMSkip(c),
		func(rs recvSite, wc ssa.CallInstruction) (bool, string) {
			f := rs.fieldOfMsg(writeArg(wc))
			return f != nil && f.Name() == "RawData", "the bytes written are the received message's RawData, unmodified"
		})
	// the type test really is against the sentinel and is evaluated before the write
	// (covered by the skip predicate: only that edge may bypass the write)
	consumerLoopRule(c, "C10-R1", readable, "rtcmfilter.writeReadableMessages", nil,
		func(rs recvSite, wc ssa.CallInstruction) (bool, string) {
			return derivedFromMsgString(rs, writeArg(wc)), "the log entry derives from String() of the received message"
		})
	// ---- R3 wiring
	var channelsArg ssa.Value
	eachInstr(F, func(ins ssa.Instruction) {
		if call, ok := ins.(*ssa.Call); ok {
			if f := call.Call.StaticCallee(); f != nil && f.Name() == "New" && f.Pkg != nil && strings.HasSuffix(f.Pkg.Pkg.Path(), "apps/appcore") {
				channelsArg = call.Call.Args[1]
			}
		}
	})
	if channelsArg == nil {
		c.Fail("C10-R3", "wiring:fan-out-list", F.Pos(), "unresolved", "the consumer list handed to appcore.New was not found")
		return
	}
	elems, complete := sliceElements(channelsArg)
	inList := func(ch ssa.Value) bool {
		for _, e := range elems {
			if root(e) == root(ch) {
				return true
			}
		}
		return false
	}
	c.Check(complete, "C10-R3", "wiring:fan-out-list", F.Pos(), fmt.Sprintf("consumer list built only from appended channels (%d)", len(elems)), "the consumer list has contributors that are not recognised")
	recF := P.Field("jsonconfig", "Config", "RecordMessages")
	dispF := P.Field("jsonconfig", "Config", "DisplayMessages")
	guardedBy := func(g *ssa.Go) *types.Var {
		for _, f := range dominatingFacts(g.Block()) {
			if fv, _ := loadedField(f.Cond); fv != nil && f.Val {
				return fv
			}
		}
		return nil
	}
	nOut, nRec, nDisp := 0, 0, 0
	for _, g := range goStatements(F) {
		fn, args := consumerOfGo(P, g)
		if fn == nil {
			if body := callTarget(g); body != nil && len(P.writeSites(body)) > 0 {
				c.Fail("C10-R3", "wiring:unknown-writer-goroutine", g.Pos(), "unproven", "a writing goroutine whose consumer function cannot be resolved")
			}
			continue
		}
		var ch, wr ssa.Value
		for i, a := range args {
			if i < len(fn.Params) {
				if _, ok := fn.Params[i].Type().Underlying().(*types.Chan); ok {
					ch = a
				} else {
					wr = a
				}
			}
		}
		guard := guardedBy(g)
		toStdout := wr != nil && root(wr) == ssa.Value(w)
		key := fmt.Sprintf("wiring(go %s)", fn.Name())
		switch {
		case toStdout:
			nOut++
			c.Check(fn == filt && guard == nil, "C10-R3", key+":stdout", g.Pos(), "standard output is fed by the filtering consumer, unconditionally",
				"the program's output writer is fed by "+fn.Name()+" (not the filtering consumer) or only under a configuration switch")
		case fn == filt:
			nRec++
			c.Check(guard == recF && recF != nil, "C10-R3", key+":record", g.Pos(), "the record file is fed by the filtering consumer iff RecordMessages", "the record consumer is not controlled by RecordMessages")
			isDaily := false
			if call, ok := root(wr).(*ssa.Call); ok && call.Call.StaticCallee() != nil && strings.HasSuffix(calleeFullName(call.Call.StaticCallee()), "dailylogger.New") {
				isDaily = true
			}
			c.Check(isDaily, "C10-R3", key+":record-writer", g.Pos(), "the record consumer writes to a daily log writer", "the record consumer does not write to a dailylogger writer")
		case fn == readable:
			nDisp++
			c.Check(guard == dispF && dispF != nil, "C10-R3", key+":display", g.Pos(), "the readable log is fed iff DisplayMessages", "the readable-log consumer is not controlled by DisplayMessages")
		default:
			c.Fail("C10-R3", key+":unknown-consumer", g.Pos(), "refuted", "an unexpected consumer ("+fn.Name()+") is attached to the pipeline")
		}
		c.Check(ch != nil && inList(ch), "C10-R3", key+":in-fan-out-list", g.Pos(), "the consumer's channel is in the list handed to the pipeline", "the consumer's channel is not in the fan-out list: it never receives a message")
	}
	c.Check(nOut == 1, "C10-R3", "wiring:one-stdout-consumer", F.Pos(), "exactly one consumer writes to the output writer", fmt.Sprintf("%d consumers write to the output writer", nOut))
	c.Check(nRec == 1 && nDisp == 1, "C10-R3", "wiring:record-and-display-consumers", F.Pos(), "one record and one display consumer exist", fmt.Sprintf("record consumers: %d, display consumers: %d", nRec, nDisp))
	// the pipeline is given every channel and run synchronously
	ruleProducerBeforeClose(c, "C10-R3", F, pkg)
	// ---- R4 composition
	if f := newFraming(c, "C10-R4"); f != nil {
		f.ruleConstructors("C10-R4")
		f.ruleHelperGates("C10-R4")
		f.ruleDecoderGates("C10-R4")
		f.ruleCRCGate("C10-R4")
		// frames recognised with their own bytes: the fetcher accumulates every byte it reads in
		// phases 2/3, hands exactly L+6 bytes to the decoder after a successful leader check,
		// has no content-dependent exit, and rejects only for standard reasons
		conservationRules(f, "C10-R4", consOpts{fetch: true, returns: true, fetchO: fetchOpts{leaderOK: true}, decoderRaw: true, exactCount: true})
		f.ruleNoContentExit("C10-R4")
		f.ruleJunkDelimiting("C10-R4")
		f.ruleRejectionSites("C10-R4")
		f.ruleStreamForward("C10-R4")
		ruleFanout(c, f.pl, "C10-R4")
		ruleCompletion(c, f.pl, "C10-R4")
		// the input stage hands every byte it reads to the framer exactly once, whatever the
		// chunking of the reader (the output is a function of the input bytes only)
		if read, nVal, errVal := handleRead(f.pl.handle); read != nil && nVal != nil && errVal != nil {
			ruleForwardOnce(c, f.pl, "C10-R4", read, nVal, errVal)
		} else {
			c.Fail("C10-R4", "Handle:read", f.pl.handle.Pos(), "unresolved", "the read call of Handle was not found")
		}
	}
	// the stream handler cannot be made to abort by any input: the no-panic obligations (C07 engine)
	// of everything reachable from it
	if hm := c.P.Func("rtcm/handler", "(*Handler).HandleMessages"); hm != nil {
		// the display consumer decodes and formats every message in the same process: a panic there ends
		// the filter too, so the roots are all decode/display entry points (those of C07)
		roots := []*ssa.Function{hm}
		if all := c07Roots(c, "C10-R4-R3"); len(all) >= 5 {
			roots = all
		}
		runBounds(c, "C10-R4-R3", roots)
		// and nothing on the decode/display path writes into the frame's bytes, which the output and
		// record consumers are writing at the same time (C01-R3 / C15-R2)
		ruleRawBuffersReadOnly(c, "C10-R7", c.P.ReachableModule(roots))
		c.MinInstances("C10-R4-R3", 50)
	} else {
		c.Unresolved("C10-R4-R3", "rtcm/handler.(*Handler).HandleMessages")
	}
	// ---- R5 joins
	n := ruleJoinAll(c, "C10-R5", F, nil, pkg)
	c.Check(n == 3, "C10-R5", "joins:all-consumers", F.Pos(), "all three consumer goroutines are covered by the join rule", fmt.Sprintf("%d writer goroutines found, expected 3", n))
	// ---- R6 nothing but the consumer writes to standard output
	ruleNoStrayStdout(c, "C10-R6", []*ssa.Function{F})
	c.MinInstances("C10-R1", 9)
	c.MinInstances("C10-R3", 10)
	c.MinInstances("C10-R4", 60)
	c.MinInstances("C10-R5", 4)
}

// ruleNoStrayStdout: the entry point is handed its output as an io.Writer, which main binds to os.Stdout.
// Anything else the pipeline prints to standard output (fmt.Print*, a direct use of os.Stdout) lands in the
// middle of the filtered stream.
func ruleNoStrayStdout(c *Ctx, rule string, roots []*ssa.Function) {
	P := c.P
	reach := P.ReachableModule(roots)
	n, bad := 0, 0
	for fn := range reach {
		if !P.InModule(fn) {
			continue
		}
		n++
		eachInstr(fn, func(ins ssa.Instruction) {
			for _, op := range ins.Operands(nil) {
				if op == nil || *op == nil {
					continue
				}
				switch x := (*op).(type) {
				case *ssa.Function:
					for _, nm := range []string{"Print", "Printf", "Println"} {
						if calleeIs(x, "fmt", nm) {
							bad++
							c.Fail(rule, "stdout-only-through-writer("+P.FnKey(fn)+")", ins.Pos(), "refuted", "fmt."+nm+" prints to standard output, which is the filtered stream: the text lands between (or after) the frames")
						}
					}
				case *ssa.Global:
					if x.Pkg != nil && x.Pkg.Pkg.Path() == "os" && x.Name() == "Stdout" {
						bad++
						c.Fail(rule, "stdout-only-through-writer("+P.FnKey(fn)+")", ins.Pos(), "refuted", "os.Stdout is used directly inside the pipeline: only the consumer attached to the output writer may write to the filtered stream")
					}
				}
			}
		})
	}
	if n == 0 {
		c.Fail(rule, "stdout-only-through-writer", token.NoPos, "unresolved", "no functions reachable from the entry point")
	} else if bad == 0 {
		c.OK(rule, "stdout-only-through-writer", roots[0].Pos(), fmt.Sprintf("no fmt.Print* call and no use of os.Stdout in the %d module functions reachable from the entry point", n))
	}
}
