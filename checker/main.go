// ntripcheck: repository-specific static analyser for goblimey/go-ntrip.
// It inspects the current working tree of the repository (type-checked
// syntax, go/ssa, call graph); it never builds or runs the code under test.
package main

import (
	"flag"
	"fmt"
	"os"
	"runtime/debug"
	"sort"
	"strconv"
	"strings"
	"time"
)

var checks = map[string]func(*Ctx){
	"C19": checkC19,
	"C20": checkC20,
	"C01": checkC01,
	"C02": checkC02,
	"C03": checkC03,
	"C04": checkC04,
	"C05": checkC05,
	"C06": checkC06,
	"C07": checkC07,
	"C08": checkC08,
	"C12": checkC12,
	"C13": checkC13,
	"C15": checkC15,
	"C09": checkC09,
	"C10": checkC10,
	"C11": checkC11,
	"C16": checkC16,
	"C17": checkC17,
	"C18": checkC18,
}

func main() {
	property := flag.String("property", "", "property id (C01..C20)")
	tier := flag.String("tier", "quick", "quick | thorough")
	repo := flag.String("repo", "/repo", "repository working tree")
	verif := flag.String("verif", "/verif", "verification directory (evidence, oracles, known findings)")
	list := flag.Bool("list", false, "list implemented properties")
	mutants := flag.String("mutant", "", "apply the named mutant (file under mutants/) as an in-memory overlay")
	flag.Parse()
	if *list {
		var ids []string
		for k := range checks {
			ids = append(ids, k)
		}
		sort.Strings(ids)
		fmt.Println(strings.Join(ids, " "))
		return
	}
	if d := os.Getenv("VERIF_DEBUG_AFF"); d != "" {
		p, err := LoadProg(*repo, nil)
		if err != nil {
			fmt.Println(err)
			os.Exit(2)
		}
		parts := strings.SplitN(d, ":", 2)
		debugAff(p, parts[0], parts[1])
		return
	}
	fn, ok := checks[*property]
	if !ok {
		fmt.Printf("error: no check for property %q\n", *property)
		os.Exit(2)
	}
	if t := os.Getenv("VERIF_TIER"); t != "" && (t == "quick" || t == "thorough") {
		// the explicit flag wins; VERIF_TIER is only a default
		if !flagPassed("tier") {
			*tier = t
		}
	}
	seed := 0
	if s := os.Getenv("VERIF_SEED"); s != "" {
		if n, err := strconv.Atoi(s); err == nil {
			seed = n
		}
	}
	overlay, oerr := loadMutantOverlay(*verif, *repo, *mutants)
	if oerr != nil {
		fmt.Printf("error: %v\n", oerr)
		os.Exit(2)
	}
	code := run(*property, *tier, *repo, *verif, seed, overlay, fn)
	os.Exit(code)
}

func flagPassed(name string) bool {
	found := false
	flag.Visit(func(f *flag.Flag) {
		if f.Name == name {
			found = true
		}
	})
	return found
}

func run(property, tier, repo, verif string, seed int, overlay map[string][]byte, fn func(*Ctx)) (code int) {
	t0 := time.Now()
	verifDirForNormalize = verif
	p, err := LoadProg(repo, overlay)
	if err != nil {
		// A tree that cannot be loaded cannot be shown to satisfy anything.
		fmt.Printf("error: %v\n", err)
		fmt.Printf("VIOLATION property=%s replay=%s/evidence/violations/%s-load.json\n", property, verif, property)
		os.MkdirAll(verif+"/evidence/violations", 0o755)
		os.WriteFile(verif+"/evidence/violations/"+property+"-load.json", []byte(fmt.Sprintf("{\"property\":%q,\"kind\":\"load\",\"msg\":%q}\n", property, err.Error())), 0o644)
		return 1
	}
	c := NewCtx(p, property, tier, verif)
	c.OutDir = os.Getenv("VERIF_OUT")
	c.Start = t0
	defer func() {
		if r := recover(); r != nil {
			fmt.Printf("error: analyser panic: %v\n%s\n", r, debug.Stack())
			fmt.Printf("VIOLATION property=%s replay=%s/evidence/violations/%s-panic.json\n", property, verif, property)
			os.MkdirAll(verif+"/evidence/violations", 0o755)
			os.WriteFile(verif+"/evidence/violations/"+property+"-panic.json", []byte(fmt.Sprintf("{\"property\":%q,\"kind\":\"analyser-panic\",\"msg\":%q}\n", property, fmt.Sprint(r))), 0o644)
			code = 1
		}
	}()
	fn(c)
	if tier == "thorough" {
		thorough(c)
	}
	return c.Finish(seed)
}
