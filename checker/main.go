// ntripcheck: repository-specific static analyser for goblimey/go-ntrip.
// It inspects the current working tree of the repository (type-checked
// syntax, go/ssa, call graph); it never builds or runs the code under test.
package main

import (
	"bytes"
	"encoding/json"
	"flag"
	"fmt"
	"go/ast"
	"go/printer"
	"go/token"
	"go/types"
	"os"
	"path/filepath"
	"reflect"
	"runtime/debug"
	"sort"
	"strconv"
	"strings"
	"time"
)

var checks = map[string]func(*Ctx){
	"C19": checkC19,
	"C20": checkC20,
	"C01": checkC01,
	"C02": checkC02,
	"C03": checkC03,
	"C04": checkC04,
	"C05": checkC05,
	"C06": checkC06,
	"C07": checkC07,
	"C08": checkC08,
	"C12": checkC12,
	"C13": checkC13,
	"C15": checkC15,
	"C09": checkC09,
	"C10": checkC10,
	"C11": checkC11,
	"C16": checkC16,
	"C17": checkC17,
	"C18": checkC18,
}

func main() {
	property := flag.String("property", "", "property id (C01..C20)")
	tier := flag.String("tier", "quick", "quick | thorough")
	repo := flag.String("repo", "/repo", "repository working tree")
	verif := flag.String("verif", "/verif", "verification directory (evidence, oracles, known findings)")
	list := flag.Bool("list", false, "list implemented properties")
	mutants := flag.String("mutant", "", "apply the named mutant (file under mutants/) as an in-memory overlay")
	dump := flag.String("dump-normalised", "", "development aid: write the normalised source of every rewritten package over the files of this copy of the tree (same relative paths), then exit")
	genKnown := flag.Bool("gen-known", false, "maintenance: print the declared functions, methods and named types of the tree as JSON (oracles/known_functions.json)")
	flag.Parse()
	if *genKnown {
		os.Setenv("VERIF_NOINLINE", "1")
		p, err := LoadProg(*repo, nil)
		if err != nil {
			fmt.Println(err)
			os.Exit(2)
		}
		out := knownFuncs{Functions: map[string][]string{}, Types: map[string][]string{}, Prints: map[string]map[string]funcPrint{}, Fields: map[string]map[string][][2]string{}, Vars: map[string]map[string]string{}}
		out.Provenance = "functions, methods and named types declared in non-test code of the pinned tree (after the fix commits); any other unexported function is treated as a newly extracted helper and inlined before analysis, and local variables of any other struct type are split into one variable per field (normalize.go).  Regenerate with: ntripcheck -gen-known -repo /repo"
		for _, pk := range p.Pkgs {
			for _, f := range pk.Syntax {
				for _, d := range f.Decls {
					switch x := d.(type) {
					case *ast.FuncDecl:
						if obj, _ := pk.TypesInfo.Defs[x.Name].(*types.Func); obj != nil {
							out.Functions[rel(pk.PkgPath)] = append(out.Functions[rel(pk.PkgPath)], funcKey(obj))
							if out.Prints[rel(pk.PkgPath)] == nil {
								out.Prints[rel(pk.PkgPath)] = map[string]funcPrint{}
							}
							out.Prints[rel(pk.PkgPath)][funcKey(obj)] = funcFingerprint(pk.Types, pk.TypesInfo, x)
						}
					case *ast.GenDecl:
						for _, sp := range x.Specs {
							if vs, ok := sp.(*ast.ValueSpec); ok && x.Tok == token.VAR {
								for _, nm := range vs.Names {
									if v, _ := pk.TypesInfo.Defs[nm].(*types.Var); v != nil && !v.Exported() && nm.Name != "_" {
										q := func(p *types.Package) string {
											if p == pk.Types {
												return ""
											}
											return p.Path()
										}
										if out.Vars[rel(pk.PkgPath)] == nil {
											out.Vars[rel(pk.PkgPath)] = map[string]string{}
										}
										out.Vars[rel(pk.PkgPath)][nm.Name] = types.TypeString(v.Type(), q)
									}
								}
							}
							if ts, ok := sp.(*ast.TypeSpec); ok {
								out.Types[rel(pk.PkgPath)] = append(out.Types[rel(pk.PkgPath)], ts.Name.Name)
								if tn, _ := pk.TypesInfo.Defs[ts.Name].(*types.TypeName); tn != nil {
									if st, ok := tn.Type().Underlying().(*types.Struct); ok {
										q := func(p *types.Package) string {
											if p == pk.Types {
												return ""
											}
											return p.Path()
										}
										var fl [][2]string
										for i := 0; i < st.NumFields(); i++ {
											fl = append(fl, [2]string{st.Field(i).Name(), types.TypeString(st.Field(i).Type(), q)})
										}
										if out.Fields[rel(pk.PkgPath)] == nil {
											out.Fields[rel(pk.PkgPath)] = map[string][][2]string{}
										}
										out.Fields[rel(pk.PkgPath)][ts.Name.Name] = fl
									}
								}
							}
						}
					}
				}
			}
			sort.Strings(out.Functions[rel(pk.PkgPath)])
			sort.Strings(out.Types[rel(pk.PkgPath)])
		}
		b, _ := json.MarshalIndent(out, "", " ")
		fmt.Println(string(b))
		return
	}
	if *dump != "" {
		p, err := LoadProg(*repo, nil)
		if err != nil {
			fmt.Println(err)
			os.Exit(2)
		}
		n := 0
		for _, f := range p.Normalised {
			name := p.Fset.Position(f.Package).Filename
			relp, err := filepath.Rel(*repo, name)
			if err != nil || strings.HasPrefix(relp, "..") {
				continue
			}
			f.Comments = nil
			var buf bytes.Buffer
			if err := printer.Fprint(&buf, token.NewFileSet(), stripPos(f)); err != nil {
				fmt.Println("print:", err)
				os.Exit(2)
			}
			if err := os.WriteFile(filepath.Join(*dump, relp), buf.Bytes(), 0o644); err != nil {
				fmt.Println(err)
				os.Exit(2)
			}
			n++
		}
		fmt.Printf("wrote %d normalised files\n", n)
		for _, l := range p.NormalizeLog {
			fmt.Println("  " + l)
		}
		return
	}
	if *list {
		var ids []string
		for k := range checks {
			ids = append(ids, k)
		}
		sort.Strings(ids)
		fmt.Println(strings.Join(ids, " "))
		return
	}
	if d := os.Getenv("VERIF_DEBUG_AFF"); d != "" {
		p, err := LoadProg(*repo, nil)
		if err != nil {
			fmt.Println(err)
			os.Exit(2)
		}
		parts := strings.SplitN(d, ":", 2)
		debugAff(p, parts[0], parts[1])
		return
	}
	if *property == "all" {
		// development aid (tools/refcheck.sh, tools/matrix.sh): one load, every check, one line per property
		verifDirForNormalize = *verif
		p, err := LoadProg(*repo, nil)
		if err != nil {
			fmt.Printf("ALL load-error %v\n", err)
			os.Exit(1)
		}
		var ids []string
		for k := range checks {
			ids = append(ids, k)
		}
		sort.Strings(ids)
		bad := 0
		for _, id := range ids {
			code := func() (code int) {
				c := NewCtx(p, id, "quick", *verif)
				c.OutDir = os.Getenv("VERIF_OUT")
				c.Start = time.Now()
				c.Quiet = true
				defer func() {
					if r := recover(); r != nil {
						fmt.Printf("ALL %s PANIC %v\n", id, r)
						code = 1
					}
				}()
				checks[id](c)
				return c.Finish(0)
			}()
			if code != 0 {
				bad++
				fmt.Printf("ALL %s ALARM\n", id)
			} else {
				fmt.Printf("ALL %s ok\n", id)
			}
		}
		if bad > 0 {
			os.Exit(1)
		}
		return
	}
	fn, ok := checks[*property]
	if !ok {
		fmt.Printf("error: no check for property %q\n", *property)
		os.Exit(2)
	}
	if t := os.Getenv("VERIF_TIER"); t != "" && (t == "quick" || t == "thorough") {
		// the explicit flag wins; VERIF_TIER is only a default
		if !flagPassed("tier") {
			*tier = t
		}
	}
	seed := 0
	if s := os.Getenv("VERIF_SEED"); s != "" {
		if n, err := strconv.Atoi(s); err == nil {
			seed = n
		}
	}
	overlay, oerr := loadMutantOverlay(*verif, *repo, *mutants)
	if oerr != nil {
		fmt.Printf("error: %v\n", oerr)
		os.Exit(2)
	}
	code := run(*property, *tier, *repo, *verif, seed, overlay, fn)
	os.Exit(code)
}

func flagPassed(name string) bool {
	found := false
	flag.Visit(func(f *flag.Flag) {
		if f.Name == name {
			found = true
		}
	})
	return found
}

func run(property, tier, repo, verif string, seed int, overlay map[string][]byte, fn func(*Ctx)) (code int) {
	t0 := time.Now()
	verifDirForNormalize = verif
	p, err := LoadProg(repo, overlay)
	if err != nil {
		// A tree that cannot be loaded cannot be shown to satisfy anything.
		fmt.Printf("error: %v\n", err)
		fmt.Printf("VIOLATION property=%s replay=%s/evidence/violations/%s-load.json\n", property, verif, property)
		os.MkdirAll(verif+"/evidence/violations", 0o755)
		os.WriteFile(verif+"/evidence/violations/"+property+"-load.json", []byte(fmt.Sprintf("{\"property\":%q,\"kind\":\"load\",\"msg\":%q}\n", property, err.Error())), 0o644)
		return 1
	}
	c := NewCtx(p, property, tier, verif)
	c.OutDir = os.Getenv("VERIF_OUT")
	c.Start = t0
	defer func() {
		if r := recover(); r != nil {
			fmt.Printf("error: analyser panic: %v\n%s\n", r, debug.Stack())
			fmt.Printf("VIOLATION property=%s replay=%s/evidence/violations/%s-panic.json\n", property, verif, property)
			os.MkdirAll(verif+"/evidence/violations", 0o755)
			os.WriteFile(verif+"/evidence/violations/"+property+"-panic.json", []byte(fmt.Sprintf("{\"property\":%q,\"kind\":\"analyser-panic\",\"msg\":%q}\n", property, fmt.Sprint(r))), 0o644)
			code = 1
		}
	}()
	fn(c)
	if tier == "thorough" {
		thorough(c)
	}
	return c.Finish(seed)
}

// stripPos makes every valid position of the tree the same dummy position (in
// place), so that the printer lays the tree out from its structure alone.
func stripPos(f *ast.File) *ast.File {
	posType := reflect.TypeOf(token.NoPos)
	seen := map[uintptr]bool{}
	var walk func(v reflect.Value)
	walk = func(v reflect.Value) {
		switch v.Kind() {
		case reflect.Ptr:
			if v.IsNil() || seen[v.Pointer()] {
				return
			}
			seen[v.Pointer()] = true
			walk(v.Elem())
		case reflect.Interface:
			if !v.IsNil() {
				walk(v.Elem())
			}
		case reflect.Slice:
			for i := 0; i < v.Len(); i++ {
				walk(v.Index(i))
			}
		case reflect.Struct:
			for i := 0; i < v.NumField(); i++ {
				fv := v.Field(i)
				if fv.Type() == posType {
					if fv.CanSet() && fv.Int() != 0 {
						fv.SetInt(1)
					}
					continue
				}
				if fv.Type() == objType || fv.Type() == scopeType {
					continue
				}
				walk(fv)
			}
		}
	}
	walk(reflect.ValueOf(f))
	return f
}
