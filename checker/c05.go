package main

// C05 — base-position messages 1005/1006 decode exactly and display to 0.1 mm.

import (
	"fmt"
	"go/constant"
	"go/token"
	"go/types"
	"math/big"
	"strings"

	"golang.org/x/tools/go/ssa"
)

// fmtVerbs returns the verbs (with flags/precision) of a format string, in operand order.
func fmtVerbs(f string) []string {
	var out []string
	for i := 0; i < len(f); i++ {
		if f[i] != '%' {
			continue
		}
		j := i + 1
		for j < len(f) && strings.ContainsRune("+-# 0123456789.*[]", rune(f[j])) {
			j++
		}
		if j < len(f) {
			if f[j] != '%' {
				out = append(out, f[i:j+1])
			}
			i = j
		}
	}
	return out
}

// sprintfOperands returns the operands of a variadic fmt call (values stored in its scratch array).
func sprintfOperands(call *ssa.Call) []ssa.Value {
	if len(call.Call.Args) < 2 {
		return nil
	}
	sl, ok := call.Call.Args[len(call.Call.Args)-1].(*ssa.Slice)
	if !ok {
		return nil
	}
	al, ok := sl.X.(*ssa.Alloc)
	if !ok {
		return nil
	}
	vals := map[int64]ssa.Value{}
	var n int64
	for _, r := range referrers(al) {
		if ia, ok := r.(*ssa.IndexAddr); ok {
			k, _ := constInt(ia.Index)
			for _, r2 := range referrers(ia) {
				if st, ok := r2.(*ssa.Store); ok {
					vals[k] = stripIface(st.Val)
					if k+1 > n {
						n = k + 1
					}
				}
			}
		}
	}
	out := make([]ssa.Value, n)
	for k, v := range vals {
		out[k] = v
	}
	return out
}

// isLocalBuilder: v is the address of a strings.Builder variable of the function.
func isLocalBuilder(v ssa.Value) bool {
	al, ok := v.(*ssa.Alloc)
	if !ok {
		return false
	}
	n, ok := al.Type().Underlying().(*types.Pointer).Elem().(*types.Named)
	return ok && n.Obj().Pkg() != nil && n.Obj().Pkg().Path() == "strings" && n.Obj().Name() == "Builder"
}

func checkC05(c *Ctx) {
	c.Explanation = "Decides that the 1005 and 1006 decoders read the standard's layout into the right fields and display them to four decimals: (R1) the bit reads from bit 24 are, in order, 12,12,6,4,38s,2,38s,2,38s[,16] — width, signedness, contiguity — and each value reaches the like-named field (StationID, ITRFRealisationYear, Ignored1, AntennaRefX, Ignored2, AntennaRefY, Ignored3, AntennaRefZ[, AntennaHeight]); the message-length constant equals the sum of the widths; (R2) rejection sites are exactly the two stated ones — message shorter than its fields, wrong message type — and both dominate the construction; (R3) display: each coordinate (and the height) is float64(field) * k with the constant k exactly 1/10000 and is formatted with %.4f by a constant format that lists X, Y, Z in this order; the debug form prints the raw integers; (R4) the decoded result does not depend on trailing bytes (padding non-interference)."
	c.NotDecided = "floating-point rounding of x*1e-4 to four decimals (|x| < 2^37, error far below 5e-5); the bit reader (C14)."
	P := c.P
	or, err := loadLayoutOracle(c.Verifdir)
	if err != nil {
		c.Fail("C05-oracle", "layout.json", token.NoPos, "unresolved", err.Error())
		return
	}
	A := NewAff(P)
	for _, t := range []struct {
		pkg, sec string
		typ      int64
	}{{"rtcm/type1005", "t1005", 1005}, {"rtcm/type1006", "t1006", 1006}} {
		fn := P.Func(t.pkg, "GetMessage")
		newFn := P.Func(t.pkg, "New")
		str := P.Func(t.pkg, "(*Message).String")
		if fn == nil || newFn == nil || str == nil {
			c.Unresolved("C05-R1", t.pkg+".GetMessage/New/String")
			continue
		}
		sec := or.Sections[t.sec]
		reads := extractReads(P, A, fn, fn.Params[0])
		// the first read is the message type (compared, not stored through New)
		if len(reads) > 0 {
			r0 := reads[0]
			k, isC := r0.width.IsConst()
			ok0 := r0.posLin.Equal(LinConst(or.LeaderBits)) && isC && k == sec[0].Width && !r0.signed
			c.Check(ok0, "C05-R1", t.sec+":field#1(MessageType)", r0.call.Pos(), "12 unsigned bits at bit 24", "the message type is not read as 12 unsigned bits at bit 24")
			checkStraightLayoutP(c, "C05-R1", t.sec, A, reads[1:], sec[1:], or.LeaderBits+sec[0].Width, false)
		} else {
			c.Fail("C05-R1", t.sec+":reads", fn.Pos(), "unresolved", "no bit reads found")
			continue
		}
		// length constant
		if k := P.Const(t.pkg, "lengthOfMessageInBits"); k != nil {
			v, _ := constant.Int64Val(constant.ToInt(k.Val()))
			c.Check(v == or.sum(t.sec), "C05-R1", t.sec+":const(lengthOfMessageInBits)", k.Pos(), fmt.Sprintf("== %d", or.sum(t.sec)), fmt.Sprintf("lengthOfMessageInBits is %d, the fields sum to %d", v, or.sum(t.sec)))
		} else {
			// the constant may have been renamed or folded away; the length it stands for is checked
			// where it is used (R2: the too-short test is `message bits < sum of the field widths`)
			c.OK("C05-R1", t.sec+":const(lengthOfMessageInBits)", fn.Pos(), "no constant of that name; the length test is checked directly (C05-R2)")
		}
		// New stores the message type constant
		mtOK := false
		eachInstr(newFn, func(ins ssa.Instruction) {
			if st, ok := ins.(*ssa.Store); ok {
				if f, _ := fieldOf(st.Addr); f != nil && f.Name() == "MessageType" {
					if k, isC := constInt(st.Val); isC && k == t.typ {
						mtOK = true
					}
				}
			}
		})
		c.Check(mtOK, "C05-R1", t.sec+":New:MessageType", newFn.Pos(), fmt.Sprintf("MessageType = %d", t.typ), "New does not set the message type constant")
		// ---- R2 guards and rejection sites
		var ctor *ssa.Call
		eachInstr(fn, func(ins ssa.Instruction) {
			if call, ok := ins.(*ssa.Call); ok && call.Call.StaticCallee() == newFn {
				ctor = call
			}
		})
		nErr := 0
		kinds := map[string]bool{}
		for i, r := range returnsOf(fn) {
			if isNilConst(r.Results[1]) {
				continue
			}
			nErr++
			fs := dominatingFacts(r.Block())
			kind := ""
			if len(fs) > 0 {
				if bo, ok := fs[0].Cond.(*ssa.BinOp); ok {
					cons := A.condCons(fs[0].Cond, fs[0].Val)
					// too short: 8*len - 48 < sum  <=>  sum + 47 - 8*len >= 0
					if len(cons) == 1 {
						want := GT(LinConst(or.sum(t.sec)), A.LenOf(fn.Params[0]).Scale(8).AddConst(-2*or.LeaderBits))
						if cons[0].L.Equal(want.L) || sameIntegerBound(cons[0].L, want.L) {
							kind = "too-short"
						}
					}
					if stripConv(bo.X) == ssa.Value(reads[0].call) || bo.X == ssa.Value(reads[0].call) {
						if k, isC := constInt(bo.Y); isC && k == t.typ && ((bo.Op == token.NEQ && fs[0].Val) || (bo.Op == token.EQL && !fs[0].Val)) {
							kind = "wrong-type"
						}
					}
				}
			}
			label := fmt.Sprintf("%s:error-exit#%d", t.sec, i+1)
			if kind == "" {
				if A.Infeasible(r.Block()) {
					c.OK("C05-R2", label+":unreachable", r.Pos(), "defensive exit that can never be taken (its guard contradicts what is known at that point)")
					continue
				}
				c.Fail("C05-R2", label+":unlisted-rejection", r.Pos(), "refuted", "the decoder rejects for a reason other than {message too short for its fields, wrong message type} (or the length test is not 'message bits < sum of field widths')")
			} else {
				kinds[kind] = true
				c.OK("C05-R2", label+":"+kind, r.Pos(), "stated rejection reason")
			}
		}
		c.Check(kinds["too-short"] && kinds["wrong-type"], "C05-R2", t.sec+":both-rejections-present", fn.Pos(), "too-short and wrong-type are rejected", "a stated rejection (too short / wrong type) is missing")
		if ctor != nil {
			// both guards dominate the construction
			g := 0
			for _, f := range dominatingFacts(ctor.Block()) {
				if _, ok := f.Cond.(*ssa.BinOp); ok {
					g++
				}
			}
			c.Check(g >= 2, "C05-R2", t.sec+":guards-dominate-construction", ctor.Pos(), "the construction is dominated by the length and type guards", "the message can be constructed without passing both guards")
		}
		// ---- R3 display
		checkBaseDisplay(c, "C05-R3", t.sec, str, t.sec == "t1006")
	}
	// ---- R4 padding
	rulePaddingNonInterference(c, "C05-R4", decoderFuncs(P, "base"))
	// ---- R5 "too short is rejected with an error", not with a crash: every bit read of the two decoders
	// lies inside the buffer under the guards in force (arithmetic obligations of the C07 engine)
	{
		var roots []*ssa.Function
		for _, pkg := range []string{"rtcm/type1005", "rtcm/type1006"} {
			if f := P.Func(pkg, "GetMessage"); f != nil {
				roots = append(roots, f)
			}
		}
		if len(roots) == 2 {
			runBoundsLite(c, "C05-R5", roots, nil)
		} else {
			c.Unresolved("C05-R5", "rtcm/type1005.GetMessage / rtcm/type1006.GetMessage")
		}
	}
	c.MinInstances("C05-R1", 23)
	c.MinInstances("C05-R2", 8)
	c.MinInstances("C05-R3", 8)
	c.MinInstances("C05-R4", 2)
}

func checkBaseDisplay(c *Ctx, rule, label string, str *ssa.Function, withHeight bool) {
	scaled := func(v ssa.Value) (string, bool) {
		// float64(field) * 0.0001
		bo, ok := v.(*ssa.BinOp)
		if !ok || bo.Op != token.MUL {
			return "", false
		}
		x, y := bo.X, bo.Y
		if _, isC := x.(*ssa.Const); isC {
			x, y = y, x
		}
		k, isC := y.(*ssa.Const)
		if !isC || k.Value == nil {
			return "", false
		}
		if constant.Compare(constant.ToFloat(k.Value), token.EQL, constant.BinaryOp(constant.MakeInt64(1), token.QUO, constant.MakeInt64(10000))) == false {
			// the constant 0.0001 as float64: compare through float64 values
			f1, _ := constant.Float64Val(constant.ToFloat(k.Value))
			if f1 != 0.0001 {
				return "", false
			}
		}
		cv, ok := x.(*ssa.Convert)
		if !ok {
			return "", false
		}
		f, _ := loadedField(cv.X)
		if f == nil {
			return "", false
		}
		return f.Name(), true
	}
	want := []string{"AntennaRefX", "AntennaRefY", "AntennaRefZ"}
	gotCoords, gotHeight := false, !withHeight
	var shown []*ssa.Call
	singles := map[string]*ssa.Call{} // one formatting call per coordinate (a helper that formats one value, expanded)
	rawInts := map[string]bool{}
	eachInstr(str, func(ins ssa.Instruction) {
		call, ok := ins.(*ssa.Call)
		if !ok {
			return
		}
		fmtArg := 0
		switch {
		case calleeIs(call.Call.StaticCallee(), "fmt", "Sprintf"):
		case calleeIs(call.Call.StaticCallee(), "fmt", "Fprintf") && len(call.Call.Args) == 3:
			// building the text in a local strings.Builder whose String() is the result
			if !isLocalBuilder(stripIface(call.Call.Args[0])) {
				return
			}
			fmtArg = 1
		default:
			return
		}
		format, ok := constString(call.Call.Args[fmtArg])
		if !ok {
			return
		}
		verbs := fmtVerbs(format)
		ops := sprintfOperands(call)
		if len(verbs) != len(ops) {
			return
		}
		var names []string
		all4 := true
		for i, op := range ops {
			if n, ok := scaled(op); ok {
				names = append(names, n)
				if verbs[i] != "%.4f" {
					all4 = false
					c.Fail(rule, label+":verb("+n+")", call.Pos(), "refuted", "the "+n+" value is formatted with "+verbs[i]+", not %.4f")
				}
			} else if f, _ := loadedField(op); f != nil && strings.HasPrefix(f.Name(), "AntennaRef") && verbs[i] == "%d" {
				rawInts[f.Name()] = true
			}
		}
		if len(names) == 3 && names[0] == want[0] && names[1] == want[1] && names[2] == want[2] && all4 {
			gotCoords = true
			shown = append(shown, call)
			c.OK(rule, label+":coords", call.Pos(), "X, Y, Z in order, each float64(field)*0.0001 formatted %.4f")
		} else if len(names) == 3 {
			c.Fail(rule, label+":coords", call.Pos(), "refuted", fmt.Sprintf("the coordinate line shows %v, expected X, Y, Z", names))
		}
		if len(names) == 1 && all4 && strings.HasPrefix(names[0], "AntennaRef") {
			singles[names[0]] = call
		}
		if len(names) == 1 && names[0] == "AntennaHeight" && all4 {
			gotHeight = true
			shown = append(shown, call)
			c.OK(rule, label+":height", call.Pos(), "height = float64(AntennaHeight)*0.0001 formatted %.4f")
		}
	})
	if !gotCoords && singles[want[0]] != nil && singles[want[1]] != nil && singles[want[2]] != nil {
		x, y, z := singles[want[0]], singles[want[1]], singles[want[2]]
		if instrDominates(x, y) && instrDominates(y, z) {
			gotCoords = true
			shown = append(shown, x, y, z)
			c.OK(rule, label+":coords", x.Pos(), "X, Y, Z formatted one after the other, each float64(field)*0.0001 with %.4f")
		} else {
			c.Fail(rule, label+":coords", x.Pos(), "refuted", "the three coordinates are not formatted in the order X, Y, Z")
		}
	}
	c.Check(gotCoords, rule, label+":coords-present", str.Pos(), "the readable form shows the three coordinates scaled by 0.0001 to four decimals", "the readable form does not show X, Y, Z as field*0.0001 with %.4f")
	if withHeight {
		c.Check(gotHeight, rule, label+":height-present", str.Pos(), "the readable form shows the antenna height scaled by 0.0001 to four decimals", "the readable form does not show the height as field*0.0001 with %.4f")
	}
	// shown for every value: no path through the display function goes round the formatting call
	for _, call := range shown {
		q := pathQuery{avoid: func(i ssa.Instruction) bool { return i == ssa.Instruction(call) }, goal: isReturn}
		path, _ := q.search(str.Blocks[0], -1)
		if path != nil {
			c.Fail(rule, label+":always-shown", call.Pos(), "refuted", "the display can return without formatting this value (for some field values another text is shown instead of the encoded integer times 0.0001)", c.P.blockPath(path)...)
		} else {
			c.OK(rule, label+":always-shown", call.Pos(), "every path through the display function passes the formatting call")
		}
	}
	c.Check(rawInts["AntennaRefX"] && rawInts["AntennaRefY"] && rawInts["AntennaRefZ"], rule, label+":debug-raw-integers", str.Pos(), "the debug form prints the raw integers", "the debug form does not print the raw coordinate integers")
}

// sameIntegerBound: a and b are constraints `k*x + c >= 0` over one and the same integer quantity x with
// k < 0, and they admit the same integers (x <= floor(c/-k)): `len < 25` and `8*len - 48 < 152`.
func sameIntegerBound(a, b *Lin) bool {
	bound := func(l *Lin) (string, *big.Int, bool) {
		if len(l.T) != 1 {
			return "", nil, false
		}
		for sym, k := range l.T {
			if k.Sign() >= 0 {
				return "", nil, false
			}
			// x <= c / -k
			q := new(big.Rat).Quo(l.C, new(big.Rat).Neg(k))
			fl := new(big.Int).Div(q.Num(), q.Denom()) // Div rounds toward negative infinity for positive denominators (Euclidean)
			return sym, fl, true
		}
		return "", nil, false
	}
	sa, fa, oka := bound(a)
	sb, fb, okb := bound(b)
	return oka && okb && sa == sb && fa.Cmp(fb) == 0
}
