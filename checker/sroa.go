package main

// Normalisation, part 2: scalar replacement of newly introduced local structs.
//
// A clean-up commit often gathers a few related locals into a small struct
// ("a cursor over the bit stream", "shift and offset of a constellation") and
// gives it a method or two.  After the methods have been inlined
// (normalize.go) such a struct is only ever used field by field; because
// go/ssa keeps a struct whose fields are addressed in memory, the values the
// rules follow (bit positions, offsets) would disappear from the SSA value
// graph.  This pass replaces, in the cloned syntax, every local variable of a
// struct type that is NOT part of the pinned decomposition
// (oracles/known_functions.json, "types") and that is only used through its
// fields by one local variable per field:
//
//	v := T{a: x, b: y}   ->  var v_a A = x; var v_b B = y
//	p := &T{...}         ->  the same; p names that storage
//	var v T              ->  var v_a A; var v_b B
//	w := p / w := &v     ->  removed; w names the same storage
//	w := v / w := *p     ->  var w_a A = v_a; var w_b B = v_b   (a copy)
//	x.f                  ->  the field variable of the storage x names
//
// A variable qualifies only if every use is a direct field selection, the
// source of one of the alias/copy definitions above, or a blank assignment;
// anything else (passed to a call, returned, compared, reassigned, captured by
// a function literal, defined in an if/for/switch header) disqualifies it and
// everything connected to it.  The result is type-checked again by the caller;
// on failure the package is used without this step.

import (
	"fmt"
	"go/ast"
	"go/constant"
	"go/token"
	"go/types"

	"golang.org/x/tools/go/ast/astutil"
)

type sroaVar struct {
	obj   types.Object
	st    *types.Struct
	mode  string // lit, ptrlit, zero, ident (alias or copy, decided by kinds), addr, deref
	isPtr bool   // the variable holds a pointer to the storage
	lit   *ast.CompositeLit
	src   types.Object
	stmt  ast.Stmt // defining statement
	idx   int      // position in a parallel definition
	bad   bool
	pfx   string // prefix of the field variables of the storage this variable owns (value kind / ptrlit)
}

func (in *inliner) sroaEligibleType(t types.Type, file *ast.File) *types.Struct {
	n, ok := t.(*types.Named)
	if !ok || n.Obj().Pkg() != in.pkg.Types || in.known["type "+n.Obj().Name()] || n.TypeArgs() != nil {
		return nil
	}
	st, ok := n.Underlying().(*types.Struct)
	if !ok || st.NumFields() == 0 {
		return nil
	}
	for i := 0; i < st.NumFields(); i++ {
		f := st.Field(i)
		if f.Embedded() || f.Name() == "_" {
			return nil
		}
		if _, ok := in.typeExpr(f.Type(), file); !ok {
			return nil
		}
	}
	return st
}

// litSplittable: a struct literal keyed by field names, or fully positional.
func litSplittable(lit *ast.CompositeLit, st *types.Struct) bool {
	for _, e := range lit.Elts {
		if kv, ok := e.(*ast.KeyValueExpr); ok {
			if _, ok := kv.Key.(*ast.Ident); !ok {
				return false
			}
		} else if len(lit.Elts) != st.NumFields() {
			return false
		}
	}
	return true
}

// stripIdentConv removes parentheses and identity conversions `(T)(e)` to the variable's own type.
func stripIdentConv(info *types.Info, e ast.Expr, t types.Type) ast.Expr {
	for {
		e = stripParens(e)
		ce, ok := e.(*ast.CallExpr)
		if !ok || len(ce.Args) != 1 {
			return e
		}
		tv, ok := info.Types[ce.Fun]
		if !ok || !tv.IsType() || !types.Identical(tv.Type, t) {
			return e
		}
		e = ce.Args[0]
	}
}

func stripParens(e ast.Expr) ast.Expr {
	for {
		p, ok := e.(*ast.ParenExpr)
		if !ok {
			return e
		}
		e = p.X
	}
}

// sroaFunc rewrites one function declaration; returns the number of variables replaced.
func (in *inliner) sroaFunc(fd *ast.FuncDecl, file *ast.File) int {
	info := in.pkg.TypesInfo
	vars := map[types.Object]*sroaVar{}
	srcIdent := map[*ast.Ident]bool{} // identifiers that are the source operand of a candidate definition
	// ---- pass A: candidate definitions (statements that are members of a statement list)
	astutil.Apply(fd.Body, func(c *astutil.Cursor) bool {
		if _, isLit := c.Node().(*ast.FuncLit); isLit {
			return false
		}
		if c.Index() < 0 {
			return true
		}
		switch x := c.Node().(type) {
		case *ast.AssignStmt:
			if x.Tok != token.DEFINE || len(x.Lhs) != len(x.Rhs) {
				return true
			}
			for i := range x.Lhs {
				id, ok := x.Lhs[i].(*ast.Ident)
				if !ok || id.Name == "_" {
					continue
				}
				obj := info.Defs[id]
				if obj == nil {
					continue
				}
				t := obj.Type()
				isPtr := false
				if p, ok := t.(*types.Pointer); ok {
					t, isPtr = p.Elem(), true
				}
				st := in.sroaEligibleType(t, file)
				if st == nil {
					continue
				}
				v := &sroaVar{obj: obj, st: st, isPtr: isPtr, stmt: x, idx: i}
				switch r := stripIdentConv(info, x.Rhs[i], obj.Type()).(type) {
				case *ast.CompositeLit:
					if isPtr {
						continue
					}
					v.mode, v.lit = "lit", r
				case *ast.UnaryExpr:
					if r.Op != token.AND || !isPtr {
						continue
					}
					switch y := stripParens(r.X).(type) {
					case *ast.CompositeLit:
						v.mode, v.lit = "ptrlit", y
					case *ast.Ident:
						v.mode, v.src = "addr", info.Uses[y]
						srcIdent[y] = true
					default:
						continue
					}
				case *ast.Ident:
					v.mode, v.src = "ident", info.Uses[r]
					srcIdent[r] = true
				case *ast.StarExpr:
					y, ok := stripParens(r.X).(*ast.Ident)
					if !ok || isPtr {
						continue
					}
					v.mode, v.src = "deref", info.Uses[y]
					srcIdent[y] = true
				default:
					continue
				}
				if v.lit != nil {
					// keyed by field name or fully positional
					for _, e := range v.lit.Elts {
						if kv, ok := e.(*ast.KeyValueExpr); ok {
							if _, ok := kv.Key.(*ast.Ident); !ok {
								v.bad = true
							}
						} else if len(v.lit.Elts) != st.NumFields() {
							v.bad = true
						}
					}
				}
				vars[obj] = v
			}
		case *ast.DeclStmt:
			gd, ok := x.Decl.(*ast.GenDecl)
			if !ok || gd.Tok != token.VAR || len(gd.Specs) != 1 {
				return true
			}
			vs, ok := gd.Specs[0].(*ast.ValueSpec)
			if !ok || len(vs.Names) != 1 || len(vs.Values) != 0 || vs.Names[0].Name == "_" {
				return true
			}
			obj := info.Defs[vs.Names[0]]
			if obj == nil {
				return true
			}
			if st := in.sroaEligibleType(obj.Type(), file); st != nil {
				vars[obj] = &sroaVar{obj: obj, st: st, mode: "zero", stmt: x}
			}
		}
		return true
	}, nil)
	if len(vars) == 0 {
		return 0
	}
	// ---- pass B: sources must be candidates of the right kind
	for _, v := range vars {
		if v.src == nil {
			continue
		}
		s := vars[v.src]
		switch {
		case s == nil:
			v.bad = true
		case v.mode == "addr" && s.isPtr, v.mode == "deref" && !s.isPtr:
			v.bad = true
		case v.mode == "ident" && s.isPtr != v.isPtr:
			v.bad = true
		case s.st != v.st:
			v.bad = true
		}
	}
	// ---- pass C: every use is a field selection, a definition source or a blank assignment
	blankUse := map[*ast.Ident]bool{}
	wholeAssign := map[*ast.AssignStmt]bool{}
	listMember := map[*ast.AssignStmt]bool{}
	astutil.Apply(fd.Body, func(c *astutil.Cursor) bool {
		if as, ok := c.Node().(*ast.AssignStmt); ok && c.Index() >= 0 {
			listMember[as] = true
		}
		return true
	}, nil)
	type cmpPair struct{ a, b *sroaVar }
	var cmps []cmpPair
	cmpExpr := map[*ast.BinaryExpr]bool{}
	basicFields := func(st *types.Struct) bool {
		for i := 0; i < st.NumFields(); i++ {
			if _, ok := st.Field(i).Type().Underlying().(*types.Basic); !ok {
				return false
			}
		}
		return true
	}
	var stack []ast.Node
	inLit := 0
	ast.Inspect(fd.Body, func(n ast.Node) bool {
		if n == nil {
			if _, ok := stack[len(stack)-1].(*ast.FuncLit); ok {
				inLit--
			}
			stack = stack[:len(stack)-1]
			return true
		}
		if _, ok := n.(*ast.FuncLit); ok {
			inLit++
		}
		if id, ok := n.(*ast.Ident); ok {
			if v := vars[info.Uses[id]]; v != nil {
				good := false
				if inLit > 0 && len(stack) > 0 {
					// a closure that only selects fields captures the field variables instead (by
					// reference, like the whole variable before)
					if p, ok := stack[len(stack)-1].(*ast.SelectorExpr); ok && p.X == ast.Expr(id) {
						if sel := info.Selections[p]; sel != nil && sel.Kind() == types.FieldVal && len(sel.Index()) == 1 {
							good = true
						}
					}
				}
				if inLit == 0 && len(stack) > 0 {
					switch p := stack[len(stack)-1].(type) {
					case *ast.SelectorExpr:
						if p.X == ast.Expr(id) {
							if sel := info.Selections[p]; sel != nil && sel.Kind() == types.FieldVal && len(sel.Index()) == 1 {
								good = true
							}
						}
					case *ast.BinaryExpr:
						// whole-value comparison of two split variables of the same type
						if p.Op == token.EQL || p.Op == token.NEQ {
							xi, ok1 := p.X.(*ast.Ident)
							yi, ok2 := p.Y.(*ast.Ident)
							if ok1 && ok2 {
								va, vb := vars[info.Uses[xi]], vars[info.Uses[yi]]
								if va != nil && vb != nil && !va.isPtr && !vb.isPtr && va.st == vb.st && basicFields(va.st) {
									good = true
									if !cmpExpr[p] {
										cmpExpr[p] = true
										cmps = append(cmps, cmpPair{va, vb})
									}
								}
							}
						}
					case *ast.AssignStmt:
						if p.Tok == token.ASSIGN && len(p.Lhs) == len(p.Rhs) {
							for i := range p.Rhs {
								if p.Rhs[i] == ast.Expr(id) {
									if l, ok := p.Lhs[i].(*ast.Ident); ok && l.Name == "_" {
										good = true
										blankUse[id] = true
									}
									// v = w: whole-value assignment between two split variables
									if l, ok := p.Lhs[i].(*ast.Ident); ok && !v.isPtr {
										if lv := vars[info.Uses[l]]; lv != nil && !lv.isPtr && lv.st == v.st && listMember[p] {
											good = true
											wholeAssign[p] = true
											cmps = append(cmps, cmpPair{lv, v})
										}
									}
								}
								if p.Lhs[i] == ast.Expr(id) && !v.isPtr && listMember[p] {
									// v = T{...} or v = w
									switch r := stripParens(p.Rhs[i]).(type) {
									case *ast.CompositeLit:
										if tv := info.TypeOf(r); tv != nil && types.Identical(tv.Underlying(), v.st) && litSplittable(r, v.st) {
											good = true
											wholeAssign[p] = true
										}
									case *ast.Ident:
										if rv := vars[info.Uses[r]]; rv != nil && !rv.isPtr && rv.st == v.st {
											good = true
											wholeAssign[p] = true
										}
									}
								}
							}
						}
					}
					if srcIdent[id] {
						good = true
					}
				}
				if !good {
					v.bad = true
				}
			}
		}
		stack = append(stack, n)
		return true
	})
	// badness spreads along the source relation in both directions
	for changed := true; changed; {
		changed = false
		for _, v := range vars {
			if v.src == nil {
				continue
			}
			s := vars[v.src]
			if s == nil {
				continue
			}
			if v.bad && !s.bad {
				s.bad, changed = true, true
			}
			if s.bad && !v.bad {
				v.bad, changed = true, true
			}
		}
		for _, cp := range cmps {
			if cp.a.bad != cp.b.bad {
				cp.a.bad, cp.b.bad, changed = true, true, true
			}
		}
	}
	n := 0
	for _, v := range vars {
		if !v.bad {
			n++
		}
	}
	if n == 0 {
		return 0
	}
	// ---- storages
	var storageOf func(v *sroaVar, depth int) *sroaVar
	storageOf = func(v *sroaVar, depth int) *sroaVar {
		if depth > 50 {
			return nil
		}
		switch v.mode {
		case "lit", "ptrlit", "zero", "deref":
			return v
		case "addr":
			return storageOf(vars[v.src], depth+1)
		case "ident":
			if v.isPtr {
				return storageOf(vars[v.src], depth+1)
			}
			return v // a copy owns new storage
		}
		return nil
	}
	for _, v := range vars {
		if !v.bad && storageOf(v, 0) == v {
			in.seq++
			v.pfx = fmt.Sprintf("__sr%d_%s_", in.seq, v.obj.Name())
		}
	}
	fieldVar := func(v *sroaVar, f string) *ast.Ident {
		s := storageOf(v, 0)
		return ident(s.pfx + f)
	}
	// ---- pass D1: whole-value comparisons, then field selections
	astutil.Apply(fd.Body, func(c *astutil.Cursor) bool {
		if be, ok := c.Node().(*ast.BinaryExpr); ok && cmpExpr[be] {
			va, vb := vars[info.Uses[be.X.(*ast.Ident)]], vars[info.Uses[be.Y.(*ast.Ident)]]
			if va == nil || vb == nil || va.bad || vb.bad {
				return true
			}
			var e ast.Expr
			for i := 0; i < va.st.NumFields(); i++ {
				f := va.st.Field(i).Name()
				var one ast.Expr = &ast.BinaryExpr{X: fieldVar(va, f), Op: be.Op, Y: fieldVar(vb, f)}
				if e == nil {
					e = one
				} else if be.Op == token.EQL {
					e = &ast.BinaryExpr{X: e, Op: token.LAND, Y: one}
				} else {
					e = &ast.BinaryExpr{X: e, Op: token.LOR, Y: one}
				}
			}
			c.Replace(&ast.ParenExpr{X: e})
			return false
		}
		return true
	}, nil)
	astutil.Apply(fd.Body, func(c *astutil.Cursor) bool {
		if se, ok := c.Node().(*ast.SelectorExpr); ok {
			if id, ok := se.X.(*ast.Ident); ok {
				if v := vars[info.Uses[id]]; v != nil && !v.bad {
					c.Replace(fieldVar(v, se.Sel.Name))
					return false
				}
			}
		}
		return true
	}, nil)
	// ---- pass D2: definitions and blank uses
	declare := func(v *sroaVar, init func(i int) ast.Expr) []ast.Stmt {
		var out []ast.Stmt
		var l, r []ast.Expr
		for i := 0; i < v.st.NumFields(); i++ {
			f := v.st.Field(i)
			te, _ := in.typeExpr(f.Type(), file)
			spec := &ast.ValueSpec{Names: []*ast.Ident{ident(v.pfx + f.Name())}, Type: te}
			if e := init(i); e != nil {
				spec.Values = []ast.Expr{e}
			}
			out = append(out, &ast.DeclStmt{Decl: &ast.GenDecl{Tok: token.VAR, Specs: []ast.Spec{spec}}})
			l = append(l, ident("_"))
			r = append(r, ident(v.pfx+f.Name()))
		}
		return append(out, &ast.AssignStmt{Lhs: l, Tok: token.ASSIGN, Rhs: r})
	}
	// the order of the declarations follows the order of evaluation of the literal
	declareLit := func(v *sroaVar) []ast.Stmt {
		vals := map[int]ast.Expr{}
		var order []int
		for k, e := range v.lit.Elts {
			if kv, ok := e.(*ast.KeyValueExpr); ok {
				name := kv.Key.(*ast.Ident).Name
				for i := 0; i < v.st.NumFields(); i++ {
					if v.st.Field(i).Name() == name {
						vals[i] = kv.Value
						order = append(order, i)
					}
				}
			} else {
				vals[k] = e
				order = append(order, k)
			}
		}
		all := declare(v, func(i int) ast.Expr { return vals[i] })
		// declarations with initialisers first, in literal order; then the zero-valued ones; then the blank use
		var out []ast.Stmt
		seen := map[int]bool{}
		for _, i := range order {
			out = append(out, all[i])
			seen[i] = true
		}
		for i := 0; i < v.st.NumFields(); i++ {
			if !seen[i] {
				out = append(out, all[i])
			}
		}
		return append(out, all[len(all)-1])
	}
	astutil.Apply(fd.Body, func(c *astutil.Cursor) bool {
		if _, isLit := c.Node().(*ast.FuncLit); isLit {
			return false
		}
		if c.Index() < 0 {
			return true
		}
		switch x := c.Node().(type) {
		case *ast.DeclStmt:
			for _, v := range vars {
				if v.stmt == ast.Stmt(x) && !v.bad {
					for _, s := range declare(v, func(int) ast.Expr { return nil }) {
						c.InsertBefore(s)
					}
					c.Delete()
					return false
				}
			}
		case *ast.AssignStmt:
			var keepL, keepR []ast.Expr
			touched := false
			if wholeAssign[x] && x.Tok == token.ASSIGN && len(x.Lhs) == len(x.Rhs) {
				// v = T{...} / v = w between split variables: field-wise, still one parallel assignment
				var nl, nr []ast.Expr
				for i := range x.Lhs {
					lid, _ := x.Lhs[i].(*ast.Ident)
					var lv *sroaVar
					if lid != nil {
						lv = vars[info.Uses[lid]]
					}
					if lv == nil || lv.bad || lv.isPtr {
						nl, nr = append(nl, x.Lhs[i]), append(nr, x.Rhs[i])
						continue
					}
					switch r := stripParens(x.Rhs[i]).(type) {
					case *ast.CompositeLit:
						vals := map[int]ast.Expr{}
						for k, e := range r.Elts {
							if kv, ok := e.(*ast.KeyValueExpr); ok {
								for fi := 0; fi < lv.st.NumFields(); fi++ {
									if lv.st.Field(fi).Name() == kv.Key.(*ast.Ident).Name {
										vals[fi] = kv.Value
									}
								}
							} else {
								vals[k] = e
							}
						}
						for fi := 0; fi < lv.st.NumFields(); fi++ {
							nl = append(nl, fieldVar(lv, lv.st.Field(fi).Name()))
							if e, ok := vals[fi]; ok {
								nr = append(nr, e)
							} else {
								te, _ := in.typeExpr(lv.st.Field(fi).Type(), file)
								nr = append(nr, &ast.StarExpr{X: &ast.CallExpr{Fun: ident("new"), Args: []ast.Expr{te}}})
							}
						}
					case *ast.Ident:
						rv := vars[info.Uses[r]]
						for fi := 0; fi < lv.st.NumFields(); fi++ {
							nl = append(nl, fieldVar(lv, lv.st.Field(fi).Name()))
							nr = append(nr, fieldVar(rv, lv.st.Field(fi).Name()))
						}
					default:
						nl, nr = append(nl, x.Lhs[i]), append(nr, x.Rhs[i])
					}
				}
				x.Lhs, x.Rhs = nl, nr
				return true
			}
			for i := range x.Lhs {
				drop := false
				if x.Tok == token.DEFINE {
					if id, ok := x.Lhs[i].(*ast.Ident); ok {
						if v := vars[info.Defs[id]]; v != nil && !v.bad && v.stmt == ast.Stmt(x) {
							drop = true
							switch {
							case v.mode == "lit" || v.mode == "ptrlit":
								for _, s := range declareLit(v) {
									c.InsertBefore(s)
								}
							case v.mode == "deref" || (v.mode == "ident" && !v.isPtr):
								src := vars[v.src]
								for _, s := range declare(v, func(i int) ast.Expr { return fieldVar(src, v.st.Field(i).Name()) }) {
									c.InsertBefore(s)
								}
							}
						}
					}
				} else if x.Tok == token.ASSIGN && len(x.Lhs) == len(x.Rhs) {
					if id, ok := x.Rhs[i].(*ast.Ident); ok && blankUse[id] {
						if v := vars[info.Uses[id]]; v != nil && !v.bad {
							drop = true
						}
					}
				}
				if drop {
					touched = true
					continue
				}
				keepL = append(keepL, x.Lhs[i])
				if len(x.Lhs) == len(x.Rhs) {
					keepR = append(keepR, x.Rhs[i])
				}
			}
			if touched {
				if len(keepL) == 0 {
					c.Delete()
					return false
				}
				x.Lhs, x.Rhs = keepL, keepR
				// `s, pos := a, b` with s split off: if nothing that remains is new, it is an assignment
				if x.Tok == token.DEFINE {
					anyNew := false
					for _, l := range keepL {
						if id, ok := l.(*ast.Ident); ok && id.Name != "_" && info.Defs[id] != nil {
							anyNew = true
						}
					}
					if !anyNew {
						x.Tok = token.ASSIGN
					}
				}
			}
		}
		return true
	}, nil)
	for _, v := range vars {
		if !v.bad {
			in.log = append(in.log, fmt.Sprintf("struct variable %s (%s) of %s split into field variables", v.obj.Name(), v.mode, fd.Name.Name))
		}
	}
	return n
}

// sroaPackage applies sroaFunc to every function of the package.
func sroaPackage(pk *pkgView, known map[string]bool) (int, []string) {
	in := &inliner{pkg: pk, known: known, fset: pk.Fset, seq: normSeq}
	defer func() { normSeq = in.seq }()
	total := 0
	for _, f := range pk.Syntax {
		for _, d := range f.Decls {
			if fd, ok := d.(*ast.FuncDecl); ok && fd.Body != nil {
				total += in.sroaFunc(fd, f)
				total += in.sroaArrays(fd, f)
			}
		}
	}
	return total, in.log
}

// ---- small local arrays -----------------------------------------------------------

// smallArray: t is an array type [N]T with 1 <= N <= 8.
func smallArray(t types.Type) (*types.Array, bool) {
	if t == nil {
		return nil, false
	}
	a, ok := t.Underlying().(*types.Array)
	if !ok || a.Len() < 1 || a.Len() > 8 {
		return nil, false
	}
	return a, true
}

type arrVar struct {
	obj  types.Object
	n    int64             // number of elements
	elem types.Type        // element type
	lit  *ast.CompositeLit // nil for `var x [N]T`
	stmt ast.Stmt
	idx  int
	bad  bool
	pfx  string
}

// sroaArrays splits local arrays `x := [N]T{...}` / `var x [N]T` (N <= 8)
// that are only used as x[<constant>] or len(x) into one variable per element.
func (in *inliner) sroaArrays(fd *ast.FuncDecl, file *ast.File) int {
	info := in.pkg.TypesInfo
	vars := map[types.Object]*arrVar{}
	astutil.Apply(fd.Body, func(c *astutil.Cursor) bool {
		if _, isLit := c.Node().(*ast.FuncLit); isLit {
			return false
		}
		if c.Index() < 0 {
			return true
		}
		switch x := c.Node().(type) {
		case *ast.AssignStmt:
			if x.Tok != token.DEFINE || len(x.Lhs) != len(x.Rhs) {
				return true
			}
			for i := range x.Lhs {
				id, ok := x.Lhs[i].(*ast.Ident)
				lit, ok2 := stripParens(x.Rhs[i]).(*ast.CompositeLit)
				if !ok || !ok2 || id.Name == "_" || info.Defs[id] == nil {
					continue
				}
				var n int64
				var et types.Type
				if arr, ok := smallArray(info.Defs[id].Type()); ok {
					n, et = arr.Len(), arr.Elem()
				} else if sl, ok := info.Defs[id].Type().Underlying().(*types.Slice); ok && len(lit.Elts) >= 1 && len(lit.Elts) <= 16 {
					// a slice literal that is only ever indexed by constants (checked below) is a
					// fixed set of variables as well: nothing can append to it or alias it
					n, et = int64(len(lit.Elts)), sl.Elem()
				} else {
					continue
				}
				if _, tok := in.typeExpr(et, file); !tok {
					continue
				}
				good := int64(len(lit.Elts)) <= n
				for _, e := range lit.Elts {
					if _, isKV := e.(*ast.KeyValueExpr); isKV {
						good = false
					}
				}
				if good {
					vars[info.Defs[id]] = &arrVar{obj: info.Defs[id], n: n, elem: et, lit: lit, stmt: x, idx: i}
				}
			}
		case *ast.DeclStmt:
			gd, ok := x.Decl.(*ast.GenDecl)
			if !ok || gd.Tok != token.VAR || len(gd.Specs) != 1 {
				return true
			}
			vs, ok := gd.Specs[0].(*ast.ValueSpec)
			if !ok || len(vs.Names) != 1 || len(vs.Values) != 0 || vs.Names[0].Name == "_" || info.Defs[vs.Names[0]] == nil {
				return true
			}
			obj := info.Defs[vs.Names[0]]
			if arr, ok := smallArray(obj.Type()); ok {
				if _, tok := in.typeExpr(arr.Elem(), file); tok {
					vars[obj] = &arrVar{obj: obj, n: arr.Len(), elem: arr.Elem(), stmt: x}
				}
			}
		}
		return true
	}, nil)
	if len(vars) == 0 {
		return 0
	}
	// uses
	constIndex := func(e ast.Expr, n int64) (int64, bool) {
		tv, ok := info.Types[e]
		if !ok || tv.Value == nil {
			return 0, false
		}
		k, exact := constantInt64(tv)
		if !exact || k < 0 || k >= n {
			return 0, false
		}
		return k, true
	}
	blankUse := map[*ast.Ident]bool{}
	var stack []ast.Node
	inLit := 0
	ast.Inspect(fd.Body, func(n ast.Node) bool {
		if n == nil {
			if _, ok := stack[len(stack)-1].(*ast.FuncLit); ok {
				inLit--
			}
			stack = stack[:len(stack)-1]
			return true
		}
		if _, ok := n.(*ast.FuncLit); ok {
			inLit++
		}
		if id, ok := n.(*ast.Ident); ok {
			if v := vars[info.Uses[id]]; v != nil {
				good := false
				if inLit == 0 && len(stack) > 0 {
					switch p := stack[len(stack)-1].(type) {
					case *ast.IndexExpr:
						if p.X == ast.Expr(id) {
							if _, ok := constIndex(p.Index, v.n); ok {
								good = true
							}
						}
					case *ast.CallExpr:
						if f, ok := p.Fun.(*ast.Ident); ok && f.Name == "len" && len(p.Args) == 1 && p.Args[0] == ast.Expr(id) {
							if _, isB := info.Uses[f].(*types.Builtin); isB {
								good = true
							}
						}
					case *ast.AssignStmt:
						if p.Tok == token.ASSIGN && len(p.Lhs) == len(p.Rhs) {
							for i := range p.Rhs {
								if p.Rhs[i] == ast.Expr(id) {
									if l, ok := p.Lhs[i].(*ast.Ident); ok && l.Name == "_" {
										good = true
										blankUse[id] = true
									}
								}
							}
						}
					}
				}
				if !good {
					v.bad = true
				}
			}
		}
		stack = append(stack, n)
		return true
	})
	n := 0
	for _, v := range vars {
		if !v.bad {
			n++
			in.seq++
			v.pfx = fmt.Sprintf("__sr%d_%s_", in.seq, v.obj.Name())
		}
	}
	if n == 0 {
		return 0
	}
	elem := func(v *arrVar, k int64) *ast.Ident { return ident(fmt.Sprintf("%s%d", v.pfx, k)) }
	// element accesses and len
	astutil.Apply(fd.Body, func(c *astutil.Cursor) bool {
		switch x := c.Node().(type) {
		case *ast.IndexExpr:
			if id, ok := x.X.(*ast.Ident); ok {
				if v := vars[info.Uses[id]]; v != nil && !v.bad {
					k, _ := constIndex(x.Index, v.n)
					c.Replace(elem(v, k))
					return false
				}
			}
		case *ast.CallExpr:
			if f, ok := x.Fun.(*ast.Ident); ok && f.Name == "len" && len(x.Args) == 1 {
				if id, ok := x.Args[0].(*ast.Ident); ok {
					if v := vars[info.Uses[id]]; v != nil && !v.bad {
						c.Replace(&ast.CallExpr{Fun: ident("int"), Args: []ast.Expr{&ast.BasicLit{Kind: token.INT, Value: fmt.Sprint(v.n)}}})
						return false
					}
				}
			}
		}
		return true
	}, nil)
	declare := func(v *arrVar) []ast.Stmt {
		var out []ast.Stmt
		var l, r []ast.Expr
		for k := int64(0); k < v.n; k++ {
			te, _ := in.typeExpr(v.elem, file)
			spec := &ast.ValueSpec{Names: []*ast.Ident{elem(v, k)}, Type: te}
			if v.lit != nil && k < int64(len(v.lit.Elts)) {
				spec.Values = []ast.Expr{v.lit.Elts[k]}
			}
			out = append(out, &ast.DeclStmt{Decl: &ast.GenDecl{Tok: token.VAR, Specs: []ast.Spec{spec}}})
			l = append(l, ident("_"))
			r = append(r, elem(v, k))
		}
		return append(out, &ast.AssignStmt{Lhs: l, Tok: token.ASSIGN, Rhs: r})
	}
	astutil.Apply(fd.Body, func(c *astutil.Cursor) bool {
		if _, isLit := c.Node().(*ast.FuncLit); isLit {
			return false
		}
		if c.Index() < 0 {
			return true
		}
		switch x := c.Node().(type) {
		case *ast.DeclStmt:
			for _, v := range vars {
				if v.stmt == ast.Stmt(x) && !v.bad {
					for _, s := range declare(v) {
						c.InsertBefore(s)
					}
					c.Delete()
					return false
				}
			}
		case *ast.AssignStmt:
			var keepL, keepR []ast.Expr
			touched := false
			for i := range x.Lhs {
				drop := false
				if x.Tok == token.DEFINE {
					if id, ok := x.Lhs[i].(*ast.Ident); ok {
						if v := vars[info.Defs[id]]; v != nil && !v.bad && v.stmt == ast.Stmt(x) {
							drop = true
							for _, s := range declare(v) {
								c.InsertBefore(s)
							}
						}
					}
				} else if x.Tok == token.ASSIGN && len(x.Lhs) == len(x.Rhs) {
					if id, ok := x.Rhs[i].(*ast.Ident); ok && blankUse[id] {
						if v := vars[info.Uses[id]]; v != nil && !v.bad {
							drop = true
						}
					}
				}
				if drop {
					touched = true
					continue
				}
				keepL = append(keepL, x.Lhs[i])
				if len(x.Lhs) == len(x.Rhs) {
					keepR = append(keepR, x.Rhs[i])
				}
			}
			if touched {
				if len(keepL) == 0 {
					c.Delete()
					return false
				}
				x.Lhs, x.Rhs = keepL, keepR
			}
		}
		return true
	}, nil)
	for _, v := range vars {
		if !v.bad {
			in.log = append(in.log, fmt.Sprintf("array variable %s of %s split into element variables", v.obj.Name(), fd.Name.Name))
		}
	}
	return n
}

// elementOf: the expression for element j of the ranged sequence: seq[j], or for a constant table the
// (constant) element expression itself, converted to the element type.
func elementOf(in *inliner, file *ast.File, tableElts []ast.Expr, seqName string, j int64, info *types.Info) ast.Expr {
	if tableElts == nil {
		return &ast.IndexExpr{X: ident(seqName), Index: &ast.BasicLit{Kind: token.INT, Value: fmt.Sprint(j)}}
	}
	e := tableElts[j]
	if te, ok := in.typeExpr(info.TypeOf(e), file); ok {
		return &ast.CallExpr{Fun: &ast.ParenExpr{X: te}, Args: []ast.Expr{cloneAST(e).(ast.Expr)}}
	}
	return &ast.IndexExpr{X: ident(seqName), Index: &ast.BasicLit{Kind: token.INT, Value: fmt.Sprint(j)}}
}

// constantTable: obj is an unexported package-level array or slice variable declared with a literal of
// 1..16 constant elements (no keys) that the package only ever ranges over, indexes for reading or
// takes the length of - a table in all but name.  Returns the element expressions.
func constantTable(pk *pkgView, obj *types.Var) []ast.Expr {
	if obj.Exported() {
		return nil
	}
	switch obj.Type().Underlying().(type) {
	case *types.Array, *types.Slice:
	default:
		return nil
	}
	info := pk.TypesInfo
	var elts []ast.Expr
	for _, f := range pk.Syntax {
		for _, d := range f.Decls {
			gd, ok := d.(*ast.GenDecl)
			if !ok || gd.Tok != token.VAR {
				continue
			}
			for _, sp := range gd.Specs {
				vs := sp.(*ast.ValueSpec)
				for i, nm := range vs.Names {
					if info.Defs[nm] != obj || len(vs.Values) != len(vs.Names) {
						continue
					}
					lit, ok := stripParens(vs.Values[i]).(*ast.CompositeLit)
					if !ok || len(lit.Elts) < 1 || len(lit.Elts) > 16 {
						return nil
					}
					for _, e := range lit.Elts {
						if _, isKV := e.(*ast.KeyValueExpr); isKV {
							return nil
						}
						if tv, ok := info.Types[e]; !ok || tv.Value == nil {
							return nil
						}
					}
					elts = lit.Elts
				}
			}
		}
	}
	if elts == nil {
		return nil
	}
	// every mention is a read of that kind
	good := true
	for _, f := range pk.Syntax {
		var stack []ast.Node
		ast.Inspect(f, func(n ast.Node) bool {
			if n == nil {
				stack = stack[:len(stack)-1]
				return true
			}
			if id, ok := n.(*ast.Ident); ok && info.Uses[id] == obj && len(stack) > 0 {
				okUse := false
				switch p := stack[len(stack)-1].(type) {
				case *ast.RangeStmt:
					okUse = p.X == ast.Expr(id)
				case *ast.IndexExpr:
					if p.X == ast.Expr(id) && len(stack) > 1 {
						okUse = true
						switch gp := stack[len(stack)-2].(type) {
						case *ast.AssignStmt:
							for _, l := range gp.Lhs {
								if l == ast.Expr(p) {
									okUse = false
								}
							}
						case *ast.IncDecStmt:
							okUse = false
						case *ast.UnaryExpr:
							if gp.Op == token.AND {
								okUse = false
							}
						}
					}
				case *ast.CallExpr:
					if fid, ok := p.Fun.(*ast.Ident); ok && fid.Name == "len" && len(p.Args) == 1 && p.Args[0] == ast.Expr(id) {
						_, okUse = info.Uses[fid].(*types.Builtin)
					}
				}
				if !okUse {
					good = false
				}
			}
			stack = append(stack, n)
			return true
		})
	}
	if !good {
		return nil
	}
	return elts
}

// sliceLitLen: obj is defined in fd by `obj := []T{e0, ..., ek-1}` (1 <= k <= 16, no keys); returns k, else 0.
func sliceLitLen(info *types.Info, fd *ast.FuncDecl, obj types.Object) int64 {
	if _, isSlice := obj.Type().Underlying().(*types.Slice); !isSlice {
		return 0
	}
	var n int64
	ast.Inspect(fd.Body, func(m ast.Node) bool {
		as, ok := m.(*ast.AssignStmt)
		if !ok || as.Tok != token.DEFINE || len(as.Lhs) != len(as.Rhs) {
			return true
		}
		for i, l := range as.Lhs {
			if id, ok := l.(*ast.Ident); ok && info.Defs[id] == obj {
				if lit, ok := stripParens(as.Rhs[i]).(*ast.CompositeLit); ok && len(lit.Elts) >= 1 && len(lit.Elts) <= 16 {
					n = int64(len(lit.Elts))
					for _, e := range lit.Elts {
						if _, isKV := e.(*ast.KeyValueExpr); isKV {
							n = 0
						}
					}
				}
			}
		}
		return true
	})
	return n
}

func constantInt64(tv types.TypeAndValue) (int64, bool) {
	if tv.Value == nil || tv.Value.Kind() != constant.Int {
		return 0, false
	}
	return constant.Int64Val(tv.Value)
}

// ---- unrolling of small constant loops over local arrays -----------------------------

// unrollPackage unrolls `for i := range a` / `for i := 0; i < K; i++` (K <= 8)
// whose body indexes a small local array with i and never assigns i, so that
// the array can then be split (sroaArrays).  continue/break of the loop become
// breaks of single-pass wrapper loops.
func unrollPackage(pk *pkgView, known map[string]bool) (int, []string) {
	in := &inliner{pkg: pk, known: known, fset: pk.Fset, seq: normSeq}
	defer func() { normSeq = in.seq }()
	info := pk.TypesInfo
	total := 0
	for _, f := range pk.Syntax {
		for _, d := range f.Decls {
			fd, ok := d.(*ast.FuncDecl)
			if !ok || fd.Body == nil {
				continue
			}
			astutil.Apply(fd.Body, func(c *astutil.Cursor) bool {
				if c.Index() < 0 {
					return true
				}
				var iv types.Object
				var n int64
				var body *ast.BlockStmt
				var seqName, valName string // range over a local slice literal: the slice and the element variable
				var tableElts []ast.Expr    // range over a constant package-level table: its element expressions
				switch x := c.Node().(type) {
				case *ast.RangeStmt:
					if xid, ok := x.X.(*ast.Ident); ok && x.Tok == token.DEFINE {
						if obj, isVar := info.Uses[xid].(*types.Var); isVar && obj.Parent() == pk.Types.Scope() {
							if elts := constantTable(pk, obj); elts != nil {
								kid, _ := x.Key.(*ast.Ident)
								vid, _ := x.Value.(*ast.Ident)
								if (x.Key == nil || kid != nil) && (x.Value == nil || vid != nil) {
									n, body, seqName, tableElts = int64(len(elts)), x.Body, xid.Name, elts
									if kid != nil && kid.Name != "_" {
										iv = info.Defs[kid]
									}
									if vid != nil && vid.Name != "_" {
										valName = vid.Name
									}
									break
								}
							}
						}
					}
					if xid, ok := x.X.(*ast.Ident); ok && x.Tok == token.DEFINE {
						if obj, isVar := info.Uses[xid].(*types.Var); isVar && !obj.IsField() && obj.Parent() != pk.Types.Scope() {
							if k := sliceLitLen(info, fd, obj); k >= 1 && in.readOnlyIn(obj, fd.Body, false) {
								kid, _ := x.Key.(*ast.Ident)
								vid, _ := x.Value.(*ast.Ident)
								if (x.Key == nil || kid != nil) && (x.Value == nil || vid != nil) {
									n, body, seqName = k, x.Body, xid.Name
									if kid != nil && kid.Name != "_" {
										iv = info.Defs[kid]
									}
									if vid != nil && vid.Name != "_" {
										valName = vid.Name
									}
									break
								}
							}
						}
					}
					key, ok := x.Key.(*ast.Ident)
					xid, ok2 := x.X.(*ast.Ident)
					if !ok || !ok2 || x.Tok != token.DEFINE || x.Value != nil || key.Name == "_" {
						return true
					}
					t := info.TypeOf(xid)
					if p, isPtr := t.Underlying().(*types.Pointer); isPtr {
						t = p.Elem()
					}
					arr, ok := smallArray(t)
					if !ok {
						return true
					}
					iv, n, body = info.Defs[key], arr.Len(), x.Body
				case *ast.ForStmt:
					init, ok := x.Init.(*ast.AssignStmt)
					cond, ok2 := x.Cond.(*ast.BinaryExpr)
					post, ok3 := x.Post.(*ast.IncDecStmt)
					if !ok || !ok2 || !ok3 || init.Tok != token.DEFINE || len(init.Lhs) != 1 || len(init.Rhs) != 1 || cond.Op != token.LSS || post.Tok != token.INC {
						return true
					}
					id, ok := init.Lhs[0].(*ast.Ident)
					if !ok || info.Defs[id] == nil {
						return true
					}
					if k, ok := constantInt64(info.Types[init.Rhs[0]]); !ok || k != 0 {
						return true
					}
					cx, ok := cond.X.(*ast.Ident)
					px, ok2 := post.X.(*ast.Ident)
					if !ok || !ok2 || info.Uses[cx] != info.Defs[id] || info.Uses[px] != info.Defs[id] {
						return true
					}
					k, ok := constantInt64(info.Types[cond.Y])
					if !ok || k < 1 || k > 8 {
						return true
					}
					if b, isB := info.Defs[id].Type().Underlying().(*types.Basic); !isB || b.Kind() != types.Int {
						return true
					}
					iv, n, body = info.Defs[id], k, x.Body
				default:
					return true
				}
				if seqName == "" && iv == nil {
					return true
				}
				if iv != nil && !in.readOnlyIn(iv, body, true) {
					return true
				}
				// the body indexes a small local array with the loop variable
				indexes := seqName != ""
				good := true
				ast.Inspect(body, func(m ast.Node) bool {
					switch y := m.(type) {
					case *ast.IndexExpr:
						if aid, ok := y.X.(*ast.Ident); ok {
							if iid, ok := y.Index.(*ast.Ident); ok && info.Uses[iid] == iv {
								if v, isVar := info.Uses[aid].(*types.Var); isVar && !v.IsField() && v.Parent() != pk.Types.Scope() {
									if _, ok := smallArray(v.Type()); ok {
										indexes = true
									}
								}
							}
						}
					case *ast.LabeledStmt:
						good = false
					case *ast.BranchStmt:
						// a labelled break/continue leaves for a statement outside the body (the body declares
						// no labels): it does the same from every copy
						if y.Tok == token.GOTO {
							good = false
						}
					}
					return true
				})
				if !indexes || !good {
					return true
				}
				in.seq++
				outer := fmt.Sprintf("__unr%d", in.seq)
				var copies []ast.Stmt
				for j := int64(0); j < n; j++ {
					lj := fmt.Sprintf("%s_%d", outer, j)
					lit := &ast.CallExpr{Fun: ident("int"), Args: []ast.Expr{&ast.BasicLit{Kind: token.INT, Value: fmt.Sprint(j)}}}
					sub := map[types.Object]ast.Expr{}
					if iv != nil {
						sub[iv] = lit
					}
					bj := in.substituteCloneNode(body, sub).(*ast.BlockStmt)
					if valName != "" {
						// the element is read when its iteration starts, as the range statement does
						bj.List = append([]ast.Stmt{
							&ast.AssignStmt{Lhs: []ast.Expr{ident(valName)}, Tok: token.DEFINE, Rhs: []ast.Expr{elementOf(in, f, tableElts, seqName, j, info)}},
							&ast.AssignStmt{Lhs: []ast.Expr{ident("_")}, Tok: token.ASSIGN, Rhs: []ast.Expr{ident(valName)}},
						}, bj.List...)
					}
					retarget(bj, outer, lj, false, false)
					bj.List = append(bj.List, &ast.BranchStmt{Tok: token.BREAK, Label: ident(lj)})
					copies = append(copies, &ast.LabeledStmt{Label: ident(lj), Stmt: &ast.ForStmt{Body: bj}})
				}
				copies = append(copies, &ast.BranchStmt{Tok: token.BREAK, Label: ident(outer)})
				c.Replace(&ast.LabeledStmt{Label: ident(outer), Stmt: &ast.ForStmt{Body: &ast.BlockStmt{List: copies}}})
				total++
				in.log = append(in.log, fmt.Sprintf("loop over %d constant indices unrolled in %s", n, fd.Name.Name))
				return false
			}, nil)
		}
	}
	return total, in.log
}

// retarget: unlabeled break (of the unrolled loop) -> break outer; unlabeled
// continue -> break inner.  Nested loops own their break/continue; nested
// switch/select own their break.
func retarget(n ast.Node, outer, inner string, inLoop, inSwitch bool) {
	ast.Inspect(n, func(m ast.Node) bool {
		if m == n {
			return true
		}
		switch x := m.(type) {
		case *ast.FuncLit:
			return false
		case *ast.ForStmt:
			retarget(x.Body, outer, inner, true, inSwitch)
			return false
		case *ast.RangeStmt:
			retarget(x.Body, outer, inner, true, inSwitch)
			return false
		case *ast.SwitchStmt:
			retarget(x.Body, outer, inner, inLoop, true)
			return false
		case *ast.TypeSwitchStmt:
			retarget(x.Body, outer, inner, inLoop, true)
			return false
		case *ast.SelectStmt:
			retarget(x.Body, outer, inner, inLoop, true)
			return false
		case *ast.BranchStmt:
			if x.Label != nil {
				return true
			}
			if x.Tok == token.BREAK && !inLoop && !inSwitch {
				x.Label = ident(outer)
			}
			if x.Tok == token.CONTINUE && !inLoop {
				x.Tok, x.Label = token.BREAK, ident(inner)
			}
		}
		return true
	})
}
