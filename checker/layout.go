package main

// E-layout: extraction of the bit-read sequence of a decoder function and
// comparison with the oracle layout (order, width, signedness, multiplicity,
// contiguity, destination field).

import (
	"encoding/json"
	"fmt"
	"go/token"
	"go/types"
	"os"
	"path/filepath"
	"sort"
	"strings"

	"golang.org/x/tools/go/ssa"
)

type oracleField struct {
	Name   string
	Width  int64
	Signed bool
}

type layoutOracle struct {
	LeaderBits int64
	Sections   map[string][]oracleField
}

func loadLayoutOracle(verifdir string) (*layoutOracle, error) {
	b, err := os.ReadFile(filepath.Join(verifdir, "oracles", "layout.json"))
	if err != nil {
		return nil, err
	}
	var raw map[string]json.RawMessage
	if err := json.Unmarshal(b, &raw); err != nil {
		return nil, err
	}
	o := &layoutOracle{Sections: map[string][]oracleField{}}
	for k, v := range raw {
		switch k {
		case "provenance":
		case "leader_bits":
			json.Unmarshal(v, &o.LeaderBits)
		default:
			var rows [][]interface{}
			if err := json.Unmarshal(v, &rows); err != nil {
				return nil, fmt.Errorf("layout.json section %s: %v", k, err)
			}
			for _, r := range rows {
				if len(r) != 3 {
					return nil, fmt.Errorf("layout.json section %s: bad row", k)
				}
				o.Sections[k] = append(o.Sections[k], oracleField{Name: r[0].(string), Width: int64(r[1].(float64)), Signed: r[2].(string) == "s"})
			}
		}
	}
	return o, nil
}

func (o *layoutOracle) sum(section string) int64 {
	var s int64
	for _, f := range o.Sections[section] {
		s += f.Width
	}
	return s
}

type fieldRead struct {
	call   *ssa.Call
	width  *Lin
	signed bool
	pos    ssa.Value
	posLin *Lin
	// loop context (nil header for straight-line reads)
	header *ssa.BasicBlock
	posPhi *ssa.Phi
	step   int64
	init   ssa.Value
	bound  *Lin
	dest   []string
}

// extractReads lists the bit reads of fn on buffer parameter buf, in
// control-flow (reverse post-order) order.
func extractReads(P *Prog, A *Aff, fn *ssa.Function, buf ssa.Value) []fieldRead {
	order, _ := topoBlocks(fn)
	var out []fieldRead
	for _, b := range order {
		for _, ins := range b.Instrs {
			call, ok := ins.(*ssa.Call)
			if !ok {
				continue
			}
			f := call.Call.StaticCallee()
			if f == nil || (f.Name() != "GetBitsAsUint64" && f.Name() != "GetBitsAsInt64") || !P.InModule(f) {
				continue
			}
			if call.Call.Args[0] != buf {
				continue
			}
			r := fieldRead{call: call, signed: f.Name() == "GetBitsAsInt64", pos: call.Call.Args[1], width: A.Lin(call.Call.Args[2])}
			r.posLin = A.Lin(r.pos)
			if phi, ok := r.pos.(*ssa.Phi); ok {
				h := phi.Block()
				isHdr := false
				for _, p := range h.Preds {
					if h.Dominates(p) {
						isHdr = true
					}
				}
				if isHdr {
					r.header, r.posPhi = h, phi
					n := 0
					for i, e := range phi.Edges {
						if h.Dominates(h.Preds[i]) {
							d := A.Lin(e).Sub(LinSym(A.sym(phi)))
							if k, isC := d.IsConst(); isC && (n == 0 || k == r.step) {
								r.step = k
								n++
							} else {
								r.step = -1
							}
						} else {
							r.init = e
						}
					}
					// loop bound: header test `i < N` / range index
					if ifi, ok := lastInstr(h).(*ssa.If); ok {
						if cmp, ok := ifi.Cond.(*ssa.BinOp); ok && cmp.Op == token.LSS {
							r.bound = A.Lin(cmp.Y)
							// the counter must start at 0 (i) or -1+1 (range index): value tested at first entry == 0
							_ = cmp
						}
					}
				}
			}
			r.dest = traceDest(P, call)
			out = append(out, r)
		}
	}
	// control-flow order: a before b when b is reachable from a but not the other way round
	sort.SliceStable(out, func(i, j int) bool {
		a, b := out[i].call, out[j].call
		if a.Block() == b.Block() {
			return instrIndex(a) < instrIndex(b)
		}
		ab, ba := pathBetween(a, b), pathBetween(b, a)
		if ab != ba {
			return ab
		}
		return a.Block().Index < b.Block().Index
	})
	// when every read is at a constant position the order of the statements is
	// immaterial (no cursor links them): compare them with the layout in stream order
	allConst := len(out) > 0
	for _, r := range out {
		if _, isC := r.posLin.IsConst(); !isC || r.header != nil {
			allConst = false
		}
	}
	if allConst {
		sort.SliceStable(out, func(i, j int) bool {
			a, _ := out[i].posLin.IsConst()
			b, _ := out[j].posLin.IsConst()
			return a < b
		})
	}
	return out
}

// ctorFieldOfParam: field of the constructed struct into which constructor fn
// stores parameter idx.
func ctorFieldOfParam(fn *ssa.Function, idx int) string {
	if fn == nil || fn.Blocks == nil || idx >= len(fn.Params) {
		return ""
	}
	res := ""
	eachInstr(fn, func(ins ssa.Instruction) {
		if st, ok := ins.(*ssa.Store); ok && st.Val == ssa.Value(fn.Params[idx]) {
			if f, _ := fieldOf(st.Addr); f != nil {
				res = f.Name()
			}
		}
	})
	return res
}

// traceDest follows a decoded value to the struct field(s) it ends up in.
func traceDest(P *Prog, start ssa.Value) []string {
	found := map[string]bool{}
	seen := map[ssa.Value]bool{}
	var visit func(v ssa.Value, depth int)
	visit = func(v ssa.Value, depth int) {
		if seen[v] || depth > 14 {
			return
		}
		seen[v] = true
		for _, r := range referrers(v) {
			switch x := r.(type) {
			case *ssa.Convert:
				visit(x, depth+1)
			case *ssa.ChangeType:
				visit(x, depth+1)
			case *ssa.BinOp:
				if x.Op == token.EQL || x.Op == token.NEQ {
					if _, isC := constInt(x.Y); isC && x.X == v {
						visit(x, depth+1)
					}
				}
			case *ssa.Phi:
				// a merge of the decoded number with some other number (a "normalised" or defaulted
				// value) is not the decoded number any more: only merges of containers (slices being
				// appended to) and trivial merges are followed
				if _, isBasic := x.Type().Underlying().(*types.Basic); isBasic {
					foreign := false
					for _, e := range x.Edges {
						if e != v && e != ssa.Value(x) {
							foreign = true
						}
					}
					if foreign {
						continue
					}
				}
				visit(x, depth+1)
			case *ssa.Store:
				if x.Val != v {
					continue
				}
				if f, _ := fieldOf(x.Addr); f != nil {
					found[f.Name()] = true
					continue
				}
				if ia, ok := x.Addr.(*ssa.IndexAddr); ok {
					if al, ok := ia.X.(*ssa.Alloc); ok {
						// variadic scratch array: follow to the append that consumes it
						for _, r2 := range referrers(al) {
							if sl, ok := r2.(*ssa.Slice); ok {
								for _, r3 := range referrers(sl) {
									if call, ok := r3.(*ssa.Call); ok {
										if b, ok := call.Call.Value.(*ssa.Builtin); ok && b.Name() == "append" && len(call.Call.Args) == 2 && call.Call.Args[1] == ssa.Value(sl) {
											visit(call, depth+1)
										}
									}
								}
							}
						}
					}
				}
				if al, ok := x.Addr.(*ssa.Alloc); ok {
					// local variable: follow its loads
					for _, r2 := range referrers(al) {
						if ld, ok := r2.(*ssa.UnOp); ok && ld.Op == token.MUL {
							visit(ld, depth+1)
						}
					}
				}
			case *ssa.IndexAddr:
				if x.X == v {
					for _, r2 := range referrers(x) {
						if ld, ok := r2.(*ssa.UnOp); ok && ld.Op == token.MUL {
							visit(ld, depth+1)
						}
					}
				}
			case *ssa.Call:
				if b, ok := x.Call.Value.(*ssa.Builtin); ok {
					if b.Name() == "append" && x.Call.Args[0] == v {
						visit(x, depth+1)
					}
					continue
				}
				f := x.Call.StaticCallee()
				if f == nil || !P.InModule(f) {
					continue
				}
				for j, a := range x.Call.Args {
					if a == v {
						if fld := ctorFieldOfParam(f, j); fld != "" {
							found[fld] = true
						}
					}
				}
			}
		}
	}
	visit(start, 0)
	var out []string
	for k := range found {
		out = append(out, k)
	}
	sort.Strings(out)
	return out
}

// checkStraightLayout: reads of fn from bit `startBit` are contiguous and equal the oracle section.
func checkStraightLayout(c *Ctx, rule, label string, A *Aff, reads []fieldRead, section []oracleField, startBit int64, lastWidthSymbolic bool) {
	if len(reads) != len(section) {
		c.Fail(rule, label+":field-count", token.NoPos, "refuted", fmt.Sprintf("%s: %d bit reads found, the layout has %d fields", label, len(reads), len(section)))
		return
	}
	pos := LinConst(startBit)
	for i, r := range reads {
		of := section[i]
		key := fmt.Sprintf("%s:field#%d(%s)", label, i+1, of.Name)
		wOK := false
		wDesc := r.width.String()
		if k, isC := r.width.IsConst(); isC && k == of.Width {
			wOK = true
		}
		if of.Width == 0 && lastWidthSymbolic && i == len(section)-1 {
			wOK = true // variable-length field (cell mask): width checked separately
		}
		posOK := r.posLin.Equal(pos)
		signOK := r.signed == of.Signed
		destOK := len(r.dest) == 1 && r.dest[0] == of.Name
		ok := wOK && posOK && signOK && destOK && r.header == nil
		msg := ""
		if !wOK {
			msg += fmt.Sprintf("width %s, layout says %d; ", wDesc, of.Width)
		}
		if !posOK {
			msg += fmt.Sprintf("read at bit %s, the previous field ends at bit %s (gap or overlap); ", r.posLin.String(), pos.String())
		}
		if !signOK {
			msg += fmt.Sprintf("read as signed=%v, layout says signed=%v; ", r.signed, of.Signed)
		}
		if !destOK {
			msg += fmt.Sprintf("value reaches field(s) %v, layout says %s; ", r.dest, of.Name)
		}
		c.Check(ok, rule, key, r.call.Pos(), fmt.Sprintf("bits [%s,+%s) %s -> %s", pos.String(), wDesc, map[bool]string{true: "signed", false: "unsigned"}[of.Signed], of.Name),
			label+" field "+of.Name+": "+strings.TrimSuffix(msg, "; "))
		pos = pos.Add(r.width)
	}
}

// checkLoopedLayout: a field-major section: one loop per field, each reading
// `bound` values of its width, contiguous, starting at `start`.
func checkLoopedLayout(c *Ctx, rule, label string, A *Aff, reads []fieldRead, section []oracleField, start ssa.Value, bound *Lin) {
	if len(reads) != len(section) {
		c.Fail(rule, label+":field-count", token.NoPos, "refuted", fmt.Sprintf("%s: %d bit reads found, the layout has %d fields", label, len(reads), len(section)))
		return
	}
	var prev *ssa.Phi
	for i, r := range reads {
		of := section[i]
		key := fmt.Sprintf("%s:field#%d(%s)", label, i+1, of.Name)
		var problems []string
		if r.header == nil || r.posPhi == nil {
			problems = append(problems, "not read in a per-field loop over a running bit position")
		} else {
			if k, isC := r.width.IsConst(); !isC || k != of.Width {
				problems = append(problems, fmt.Sprintf("width %s, layout says %d", r.width.String(), of.Width))
			}
			if r.step != of.Width {
				problems = append(problems, fmt.Sprintf("position advances by %d per value, field width is %d (values would overlap or leave gaps)", r.step, of.Width))
			}
			if i == 0 {
				if r.init != start {
					problems = append(problems, "the first field does not start at the section's start position")
				}
			} else if prev == nil || r.init != ssa.Value(prev) {
				problems = append(problems, "the field array does not start where the previous field array ended")
			}
			if r.bound == nil || !r.bound.Equal(bound) {
				b := "<none>"
				if r.bound != nil {
					b = r.bound.String()
				}
				problems = append(problems, fmt.Sprintf("repeated %s times, expected %s", b, bound.String()))
			}
			// the loop runs its counter from 0: the tested value at first entry is 0
			if !loopStartsAtZero(A, r.header) {
				problems = append(problems, "the loop counter does not start at zero")
			}
		}
		if r.signed != of.Signed {
			problems = append(problems, fmt.Sprintf("read as signed=%v, layout says signed=%v", r.signed, of.Signed))
		}
		if len(r.dest) != 1 || r.dest[0] != of.Name {
			problems = append(problems, fmt.Sprintf("values reach field(s) %v, layout says %s", r.dest, of.Name))
		}
		c.Check(len(problems) == 0, rule, key, r.call.Pos(), fmt.Sprintf("%d-bit %s x %s -> %s, contiguous", of.Width, map[bool]string{true: "signed", false: "unsigned"}[of.Signed], bound.String(), of.Name),
			label+" field "+of.Name+": "+strings.Join(problems, "; "))
		prev = r.posPhi
	}
}

// loopStartsAtZero: the counter compared in the header starts at 0 (i := 0; or range index -1 then +1).
func loopStartsAtZero(A *Aff, h *ssa.BasicBlock) bool {
	ifi, ok := lastInstr(h).(*ssa.If)
	if !ok {
		return false
	}
	cmp, ok := ifi.Cond.(*ssa.BinOp)
	if !ok {
		return false
	}
	// value tested = phi + off ; phi init = c ; need c + off == 0
	l := A.Lin(cmp.X)
	for _, ins := range h.Instrs {
		phi, ok := ins.(*ssa.Phi)
		if !ok {
			break
		}
		if !isInteger(phi.Type()) {
			continue
		}
		d := l.Sub(LinSym(A.sym(phi)))
		off, isC := d.IsConst()
		if !isC {
			continue
		}
		for i, e := range phi.Edges {
			if !h.Dominates(h.Preds[i]) {
				if k, ok := constInt(e); ok && k+off == 0 {
					return true
				}
			}
		}
	}
	return false
}

// paramOfType returns the first parameter of fn whose type is []byte.
func byteSliceParam(fn *ssa.Function) *ssa.Parameter {
	for _, p := range fn.Params {
		if sl, ok := p.Type().Underlying().(*types.Slice); ok {
			if b, ok := sl.Elem().Underlying().(*types.Basic); ok && b.Kind() == types.Byte {
				return p
			}
		}
	}
	return nil
}
