package main

// Reviewed lemmas about header.Header (R-lemma): statement, reason, and
// premises that are re-verified structurally on every run.
//
// L-header-shape: for every Header built by header.New (and completed by
//   GetMSMHeader), len(Cells) == len(Satellites), len(Cells[i]) ==
//   len(Signals), NumSignalCells >= 0.
// L-cells-shift: in getCells the signed shift count stays >= 0.

import (
	"fmt"
	"go/token"
	"go/types"

	"golang.org/x/tools/go/ssa"
)

type headerLemma struct {
	P                           *Prog
	ok                          bool
	shiftOKv                    bool
	cells, sats, sigs, numCells *types.Var
	hdrT                        *types.Named
	getCells                    *ssa.Function
	problems                    []string
}

func (h *headerLemma) shiftOK(x *ssa.BinOp) bool {
	return h.shiftOKv && x.Parent() == h.getCells
}

// countedAppendLoop: fn-level structural check used for getCells: a loop
// `for v := 0; v < bound; v++` whose header phi for `acc` appends exactly one
// element per iteration.  Returns the loop header.
func countedLoopOver(fn *ssa.Function, bound ssa.Value) *ssa.BasicBlock {
	for _, b := range fn.Blocks {
		ifi, ok := lastInstr(b).(*ssa.If)
		if !ok {
			continue
		}
		cmp, ok := ifi.Cond.(*ssa.BinOp)
		if !ok || cmp.Op != token.LSS || cmp.Y != bound {
			continue
		}
		phi, ok := cmp.X.(*ssa.Phi)
		if !ok || phi.Block() != b {
			continue
		}
		zero, inc := false, false
		for _, e := range phi.Edges {
			if k, ok := constInt(e); ok && k == 0 {
				zero = true
			}
			if bo, ok := e.(*ssa.BinOp); ok && bo.Op == token.ADD && bo.X == ssa.Value(phi) {
				if k, ok := constInt(bo.Y); ok && k == 1 {
					inc = true
				}
			}
		}
		if zero && inc {
			return b
		}
	}
	return nil
}

func newHeaderLemma(c *Ctx, rule string) *headerLemma {
	P := c.P
	h := &headerLemma{P: P}
	h.hdrT = P.Named("rtcm/header", "Header")
	h.cells = P.Field("rtcm/header", "Header", "Cells")
	h.sats = P.Field("rtcm/header", "Header", "Satellites")
	h.sigs = P.Field("rtcm/header", "Header", "Signals")
	h.numCells = P.Field("rtcm/header", "Header", "NumSignalCells")
	newFn := P.Func("rtcm/header", "New")
	getHdr := P.Func("rtcm/header", "GetMSMHeader")
	if h.hdrT == nil || h.cells == nil || h.sats == nil || h.sigs == nil || h.numCells == nil || newFn == nil || getHdr == nil {
		c.Unresolved(rule, "header.Header fields / header.New / header.GetMSMHeader")
		return h
	}
	bad := func(msg string) { h.problems = append(h.problems, msg) }
	// P1: in New: Cells = getCells(mask, len(S1), len(S2)) with S1, S2 the values stored to Satellites, Signals
	var vCells, vSats, vSigs ssa.Value
	eachInstr(newFn, func(ins ssa.Instruction) {
		if st, ok := ins.(*ssa.Store); ok {
			switch f, _ := fieldOf(st.Addr); f {
			case h.cells:
				vCells = st.Val
			case h.sats:
				vSats = st.Val
			case h.sigs:
				vSigs = st.Val
			}
		}
	})
	call, _ := vCells.(*ssa.Call)
	if call == nil || call.Call.StaticCallee() == nil || !P.InModule(call.Call.StaticCallee()) || len(call.Call.Args) != 3 {
		bad("New does not build Cells by a call getCells(mask, nSat, nSig)")
	} else {
		h.getCells = call.Call.StaticCallee()
		isLenOf := func(v, s ssa.Value) bool {
			lc, ok := v.(*ssa.Call)
			if !ok {
				return false
			}
			b, ok := lc.Call.Value.(*ssa.Builtin)
			return ok && b.Name() == "len" && lc.Call.Args[0] == s
		}
		if vSats == nil || vSigs == nil || !isLenOf(call.Call.Args[1], vSats) || !isLenOf(call.Call.Args[2], vSigs) {
			bad("getCells is not called with len(Satellites), len(Signals) of the slices stored in the same header")
		}
	}
	// P2: getCells(mask, a, b): outer counted loop to a appending one row per iteration; inner counted loop to b appending one bool per iteration; returns the outer accumulator
	if g := h.getCells; g != nil && len(g.Params) == 3 {
		outer := countedLoopOver(g, g.Params[1])
		inner := countedLoopOver(g, g.Params[2])
		if outer == nil || inner == nil || !outer.Dominates(inner) {
			bad("getCells is not a pair of nested counted loops bounded by its two integer parameters")
		} else {
			A := NewAff(P)
			// lengths: the returned slice advances by one per outer iteration, rows by one per inner iteration
			rowsOK, colsOK := false, false
			for _, ins := range outer.Instrs {
				if phi, ok := ins.(*ssa.Phi); ok {
					if _, isSl := phi.Type().Underlying().(*types.Slice); isSl {
						for i, e := range phi.Edges {
							if outer.Dominates(outer.Preds[i]) {
								if d, isC := A.LenOf(e).Sub(LinSym(A.lenSym(phi))).IsConst(); isC && d == 1 {
									// every return hands back the accumulator as it stands at the loop
									// header, and only once the loop over the satellites has run to its end
									all := len(returnsOf(g)) > 0
									for _, r := range returnsOf(g) {
										if r.Results[0] != ssa.Value(phi) || !outer.Dominates(r.Block()) {
											all = false
										}
									}
									if all {
										rowsOK = true
									}
								}
							} else if !A.LenOf(e).Equal(LinConst(0)) {
								rowsOK = false
							}
						}
					}
				}
			}
			for _, ins := range inner.Instrs {
				if phi, ok := ins.(*ssa.Phi); ok {
					if _, isSl := phi.Type().Underlying().(*types.Slice); isSl {
						for i, e := range phi.Edges {
							if inner.Dominates(inner.Preds[i]) {
								if d, isC := A.LenOf(e).Sub(LinSym(A.lenSym(phi))).IsConst(); isC && d == 1 {
									colsOK = true
								}
							} else if !A.LenOf(e).Equal(LinConst(0)) {
								colsOK = false
							}
						}
					}
				}
			}
			if !rowsOK || !colsOK {
				bad("getCells does not append exactly one row per satellite and one flag per signal")
			}
			// L-cells-shift premises
			h.shiftOKv = checkCellsShift(g, outer, inner)
		}
	} else {
		bad("getCells helper not resolved")
	}
	// P3: GetMSMHeader overwrites Satellites/Signals with the results of the same pure functions on the same masks given to New
	var newCall *ssa.Call
	eachInstr(getHdr, func(ins ssa.Instruction) {
		if cl, ok := ins.(*ssa.Call); ok && cl.Call.StaticCallee() == newFn {
			newCall = cl
		}
	})
	if newCall == nil {
		bad("GetMSMHeader does not build the header with header.New")
	} else {
		// which New parameters are the masks that feed getSatellites/getSignals inside New
		maskParam := func(stored ssa.Value) int {
			cl, ok := stored.(*ssa.Call)
			if !ok || len(cl.Call.Args) != 1 {
				return -1
			}
			for i, p := range newFn.Params {
				if cl.Call.Args[0] == ssa.Value(p) {
					return i
				}
			}
			return -1
		}
		calleeOf := func(v ssa.Value) *ssa.Function {
			if cl, ok := v.(*ssa.Call); ok {
				return cl.Call.StaticCallee()
			}
			return nil
		}
		eachInstr(getHdr, func(ins ssa.Instruction) {
			st, ok := ins.(*ssa.Store)
			if !ok {
				return
			}
			f, base := fieldOf(st.Addr)
			if f != h.sats && f != h.sigs && f != h.cells && f != h.numCells {
				return
			}
			if f == h.cells || f == h.numCells {
				bad("GetMSMHeader overwrites Cells/NumSignalCells after construction")
				return
			}
			if root(base) != ssa.Value(newCall) {
				bad("GetMSMHeader stores Satellites/Signals into an object other than the one New returned")
				return
			}
			inNew := vSats
			if f == h.sigs {
				inNew = vSigs
			}
			mp := maskParam(inNew)
			cl, isCall := st.Val.(*ssa.Call)
			if mp < 0 || !isCall || calleeOf(st.Val) != calleeOf(inNew) || len(cl.Call.Args) != 1 || cl.Call.Args[0] != newCall.Call.Args[mp] {
				bad("GetMSMHeader replaces " + f.Name() + " by something other than the same mask expansion that New used")
			}
		})
	}
	// the mask expanders and the cell-matrix builder are pure functions of their arguments:
	// they touch no package-level variable and call nothing outside themselves
	for _, v := range []ssa.Value{vSats, vSigs, vCells} {
		if cl, ok := v.(*ssa.Call); ok && cl.Call.StaticCallee() != nil {
			fnx := cl.Call.StaticCallee()
			eachInstr(fnx, func(ins ssa.Instruction) {
				var ops []*ssa.Value
				for _, op := range ins.Operands(ops) {
					if op != nil && *op != nil {
						if _, isG := (*op).(*ssa.Global); isG {
							bad(fnx.Name() + " uses package-level state (its result could depend on earlier messages)")
						}
					}
				}
				if ci, ok := ins.(ssa.CallInstruction); ok {
					if _, isB := ci.Common().Value.(*ssa.Builtin); !isB {
						bad(fnx.Name() + " calls other code (not a pure function of its arguments)")
					}
				}
			})
		}
	}
	// P4: no other stores to the three shape fields / NumSignalCells in non-test module code
	for _, f := range []*types.Var{h.cells, h.sats, h.sigs, h.numCells} {
		for _, st := range P.fieldStores(f) {
			fn := st.Parent()
			if fn == newFn || fn == getHdr {
				continue
			}
			bad(fmt.Sprintf("field %s is also stored in %s", f.Name(), P.FnKey(fn)))
		}
	}
	// NumSignalCells: only `x = x + 1` stores in New (starts at the zero value)
	for _, st := range P.fieldStores(h.numCells) {
		good := false
		if bo, ok := st.Val.(*ssa.BinOp); ok && bo.Op == token.ADD {
			lf, _ := loadedField(bo.X)
			if k, isC := constInt(bo.Y); isC && k >= 0 && lf == h.numCells {
				good = true
			}
		}
		if k, isC := constInt(st.Val); isC && k >= 0 {
			good = true
		}
		if nonNegCounter(st.Val, map[ssa.Value]bool{}) {
			good = true
		}
		if !good {
			bad("NumSignalCells is assigned something other than a non-negative constant or its own value plus a non-negative constant")
		}
	}
	// no element stores into Cells rows after construction
	for _, fn := range P.ModFuncs() {
		eachInstr(fn, func(ins ssa.Instruction) {
			if st, ok := ins.(*ssa.Store); ok {
				if ia, ok := st.Addr.(*ssa.IndexAddr); ok {
					x := ia.X
					if ld, ok := x.(*ssa.UnOp); ok && ld.Op == token.MUL {
						if ia2, ok := ld.X.(*ssa.IndexAddr); ok {
							x = ia2.X
						}
					}
					if f, _ := loadedField(x); f == h.cells {
						bad("an element of Header.Cells is stored to in " + P.FnKey(fn))
					}
				}
			}
		})
	}
	// P5: Header objects are allocated only in New
	for _, fn := range P.ModFuncs() {
		if fn == newFn {
			continue
		}
		eachInstr(fn, func(ins ssa.Instruction) {
			if al, ok := ins.(*ssa.Alloc); ok {
				if types.Identical(al.Type().Underlying().(*types.Pointer).Elem(), h.hdrT) {
					bad("a Header is constructed outside header.New in " + P.FnKey(fn))
				}
			}
		})
	}
	h.ok = len(h.problems) == 0
	if h.ok {
		c.OK(rule, "L-header-shape:premises", newFn.Pos(), "New builds Cells with getCells(mask, len(Satellites), len(Signals)); getCells appends one row per satellite and one flag per signal; GetMSMHeader re-stores the same mask expansions; no other writer; NumSignalCells only counts up")
		c.Lemmas = append(c.Lemmas, "L-header-shape: len(Cells)==len(Satellites), len(Cells[i])==len(Signals), NumSignalCells>=0 for every Header (premises re-verified on this run)")
	} else {
		for _, p := range h.problems {
			c.Fail(rule, "L-header-shape:premise", newFn.Pos(), "unproven", "lemma withdrawn: "+p)
		}
	}
	if h.getCells != nil {
		if h.shiftOKv {
			c.OK(rule, "L-cells-shift:premises", h.getCells.Pos(), "shift count starts at a*b-1, is decremented once per inner iteration and nowhere else, loops bounded by a and b")
			c.Lemmas = append(c.Lemmas, "L-cells-shift: the shift count in getCells stays >= 0 (premises re-verified on this run)")
		} else {
			c.Fail(rule, "L-cells-shift:premises", h.getCells.Pos(), "unproven", "lemma withdrawn: the shift count of getCells is not (a*b-1) decremented exactly once per inner iteration")
		}
	}
	return h
}

// checkCellsShift: premises of L-cells-shift.
func checkCellsShift(g *ssa.Function, outer, inner *ssa.BasicBlock) bool {
	a, b := g.Params[1], g.Params[2]
	// the shift instruction
	var sh *ssa.BinOp
	eachInstr(g, func(ins ssa.Instruction) {
		if bo, ok := ins.(*ssa.BinOp); ok && (bo.Op == token.SHR || bo.Op == token.SHL) && !isUnsigned(bo.Y.Type()) {
			if _, isC := constInt(bo.Y); !isC {
				sh = bo
			}
		}
	})
	if sh == nil {
		return false
	}
	cnt, ok := sh.Y.(*ssa.Phi)
	if !ok || cnt.Block() != inner {
		return false
	}
	// inner phi: [outer phi, cnt-1]
	var outerPhi *ssa.Phi
	dec := false
	for i, e := range cnt.Edges {
		if inner.Dominates(inner.Preds[i]) {
			bo, ok := e.(*ssa.BinOp)
			if !ok || bo.Op != token.SUB || bo.X != ssa.Value(cnt) {
				return false
			}
			if k, isC := constInt(bo.Y); !isC || k != 1 {
				return false
			}
			// decrement and the shift are in the inner body, executed once per iteration
			if !instrDominatesBlock(bo, inner.Preds[i]) || !instrDominatesBlock(sh, inner.Preds[i]) {
				return false
			}
			dec = true
		} else {
			p, ok := e.(*ssa.Phi)
			if !ok || p.Block() != outer {
				return false
			}
			outerPhi = p
		}
	}
	if !dec || outerPhi == nil {
		return false
	}
	// outer phi: [a*b-1, value of cnt at inner exit (= cnt itself)]
	initOK := false
	for i, e := range outerPhi.Edges {
		if outer.Dominates(outer.Preds[i]) {
			if e != ssa.Value(cnt) {
				return false
			}
		} else {
			sub, ok := e.(*ssa.BinOp)
			if !ok || sub.Op != token.SUB {
				return false
			}
			if k, isC := constInt(sub.Y); !isC || k != 1 {
				return false
			}
			mul, ok := sub.X.(*ssa.BinOp)
			if !ok || mul.Op != token.MUL {
				return false
			}
			if (mul.X == ssa.Value(a) && mul.Y == ssa.Value(b)) || (mul.X == ssa.Value(b) && mul.Y == ssa.Value(a)) {
				initOK = true
			}
		}
	}
	return initOK
}

func instrDominatesBlock(i ssa.Instruction, b *ssa.BasicBlock) bool {
	return i.Block() == b || i.Block().Dominates(b)
}

// objFieldLen is the symbol "length of field f of the header object rooted at r".
func objFieldLen(a *Aff, r ssa.Value, f *types.Var) *Lin {
	s := "len(" + a.sym(r) + "." + f.Name() + ")"
	a.symLen[s] = true
	a.desc[s] = "length of field " + f.Name() + " of the object"
	return LinSym(s)
}

// facts: lemma facts for function fn.  Every load of a shape field of a
// Header object is tied to one symbol per (object, field); the lemma relates
// those symbols.
func (h *headerLemma) facts(a *Aff, fn *ssa.Function) []Con {
	if !h.ok {
		return nil
	}
	var out []Con
	roots := map[ssa.Value]bool{}
	eachInstr(fn, func(ins ssa.Instruction) {
		u, ok := ins.(*ssa.UnOp)
		if !ok || u.Op != token.MUL {
			return
		}
		if fa, ok := u.X.(*ssa.FieldAddr); ok {
			f, base := fieldOf(fa)
			r := root(base)
			switch f {
			case h.cells, h.sats, h.sigs:
				roots[r] = true
				out = append(out, EQ(a.LenOf(u), objFieldLen(a, r, f))...)
			case h.numCells:
				out = append(out, GE(a.Lin(u), LinConst(0)))
			}
		}
		if ia, ok := u.X.(*ssa.IndexAddr); ok {
			if f, base := loadedField(ia.X); f == h.cells {
				r := root(base)
				roots[r] = true
				out = append(out, EQ(a.LenOf(u), objFieldLen(a, r, h.sigs))...)
			}
		}
	})
	// parameters of type *Header are objects too
	for _, p := range fn.Params {
		if pt, ok := p.Type().Underlying().(*types.Pointer); ok && types.Identical(pt.Elem(), h.hdrT) {
			roots[p] = true
		}
	}
	for r := range roots {
		out = append(out, EQ(objFieldLen(a, r, h.cells), objFieldLen(a, r, h.sats))...)
	}
	return out
}

// nonNegCounter: v is a non-negative constant, or a phi / sum built only from
// such constants and itself (a local counter that starts at >= 0 and is only
// incremented by non-negative constants).
func nonNegCounter(v ssa.Value, seen map[ssa.Value]bool) bool {
	if seen[v] {
		return true // coinductive: a cycle through phis adds nothing negative
	}
	seen[v] = true
	switch x := v.(type) {
	case *ssa.Const:
		k, ok := constInt(x)
		return ok && k >= 0
	case *ssa.Phi:
		for _, e := range x.Edges {
			if !nonNegCounter(e, seen) {
				return false
			}
		}
		return true
	case *ssa.BinOp:
		if x.Op != token.ADD || !isInteger(x.Type()) {
			return false
		}
		return nonNegCounter(x.X, seen) && nonNegCounter(x.Y, seen)
	}
	return false
}
