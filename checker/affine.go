package main

// E-affine: linear forms over symbolic lengths/integers, facts from
// dominating branches, loop-phi invariants, callee ensures, and
// Fourier–Motzkin entailment in exact rational arithmetic.  This is an
// abstract-domain operation inside the checker, not a solver call.

import (
	"fmt"
	"go/token"
	"go/types"
	"math/big"
	"sort"
	"strings"

	"golang.org/x/tools/go/ssa"
)

// ---- linear forms -------------------------------------------------------------

type Lin struct {
	C *big.Rat
	T map[string]*big.Rat
}

func NewLin() *Lin { return &Lin{C: new(big.Rat), T: map[string]*big.Rat{}} }
func LinConst(k int64) *Lin {
	l := NewLin()
	l.C.SetInt64(k)
	return l
}
func LinSym(s string) *Lin {
	l := NewLin()
	l.T[s] = big.NewRat(1, 1)
	return l
}
func (l *Lin) Clone() *Lin {
	n := NewLin()
	n.C.Set(l.C)
	for k, v := range l.T {
		n.T[k] = new(big.Rat).Set(v)
	}
	return n
}
func (l *Lin) AddScaled(o *Lin, k *big.Rat) *Lin {
	n := l.Clone()
	n.C.Add(n.C, new(big.Rat).Mul(o.C, k))
	for s, v := range o.T {
		x := new(big.Rat).Mul(v, k)
		if cur, ok := n.T[s]; ok {
			x.Add(x, cur)
		}
		if x.Sign() == 0 {
			delete(n.T, s)
		} else {
			n.T[s] = x
		}
	}
	return n
}
func (l *Lin) Add(o *Lin) *Lin    { return l.AddScaled(o, big.NewRat(1, 1)) }
func (l *Lin) Sub(o *Lin) *Lin    { return l.AddScaled(o, big.NewRat(-1, 1)) }
func (l *Lin) Scale(k int64) *Lin { return NewLin().AddScaled(l, big.NewRat(k, 1)) }
func (l *Lin) AddConst(k int64) *Lin {
	n := l.Clone()
	n.C.Add(n.C, big.NewRat(k, 1))
	return n
}
func (l *Lin) IsConst() (int64, bool) {
	if len(l.T) != 0 || !l.C.IsInt() {
		return 0, false
	}
	return l.C.Num().Int64(), l.C.Num().IsInt64()
}
func (l *Lin) Equal(o *Lin) bool {
	d := l.Sub(o)
	return len(d.T) == 0 && d.C.Sign() == 0
}
func (l *Lin) String() string {
	var ks []string
	for k := range l.T {
		ks = append(ks, k)
	}
	sort.Strings(ks)
	var parts []string
	for _, k := range ks {
		v := l.T[k]
		switch {
		case v.Cmp(big.NewRat(1, 1)) == 0:
			parts = append(parts, k)
		case v.Cmp(big.NewRat(-1, 1)) == 0:
			parts = append(parts, "-"+k)
		default:
			parts = append(parts, v.RatString()+"*"+k)
		}
	}
	if l.C.Sign() != 0 || len(parts) == 0 {
		parts = append(parts, l.C.RatString())
	}
	return strings.ReplaceAll(strings.Join(parts, " + "), "+ -", "- ")
}

// Con is the constraint  L >= 0.
type Con struct{ L *Lin }

func GE(a, b *Lin) Con       { return Con{a.Sub(b)} }
func GT(a, b *Lin) Con       { return Con{a.Sub(b).AddConst(-1)} } // integers
func LE(a, b *Lin) Con       { return GE(b, a) }
func LT(a, b *Lin) Con       { return GT(b, a) }
func EQ(a, b *Lin) []Con     { return []Con{GE(a, b), GE(b, a)} }
func (c Con) String() string { return c.L.String() + " >= 0" }

// infeasible decides whether the conjunction of constraints has no rational
// solution, by Fourier–Motzkin elimination.
func infeasible(cons []Con) bool {
	cur := make([]*Lin, 0, len(cons))
	for _, c := range cons {
		cur = append(cur, c.L)
	}
	for iter := 0; iter < 64; iter++ {
		// constant contradictions
		var next []*Lin
		for _, l := range cur {
			if len(l.T) == 0 {
				if l.C.Sign() < 0 {
					return true
				}
				continue
			}
			next = append(next, l)
		}
		cur = next
		if len(cur) == 0 {
			return false
		}
		// choose the variable minimising pos*neg
		cnt := map[string][2]int{}
		for _, l := range cur {
			for s, v := range l.T {
				c := cnt[s]
				if v.Sign() > 0 {
					c[0]++
				} else {
					c[1]++
				}
				cnt[s] = c
			}
		}
		best, bestCost := "", -1
		var names []string
		for s := range cnt {
			names = append(names, s)
		}
		sort.Strings(names)
		for _, s := range names {
			c := cnt[s]
			cost := c[0] * c[1]
			if bestCost < 0 || cost < bestCost {
				best, bestCost = s, cost
			}
		}
		var pos, neg, rest []*Lin
		for _, l := range cur {
			v, ok := l.T[best]
			switch {
			case !ok:
				rest = append(rest, l)
			case v.Sign() > 0:
				pos = append(pos, l)
			default:
				neg = append(neg, l)
			}
		}
		if len(pos)*len(neg) > 4000 {
			return false // give up: treated as "cannot prove"
		}
		for _, p := range pos {
			for _, n := range neg {
				// p: a*x + P >= 0 (a>0); n: -b*x + N >= 0 (b>0)  =>  b*P + a*N >= 0
				a := p.T[best]
				b := new(big.Rat).Neg(n.T[best])
				comb := NewLin().AddScaled(p, b).AddScaled(n, a)
				delete(comb.T, best)
				rest = append(rest, comb)
			}
		}
		cur = dedupLins(rest)
	}
	return false
}

func dedupLins(ls []*Lin) []*Lin {
	seen := map[string]bool{}
	var out []*Lin
	for _, l := range ls {
		k := l.String()
		if !seen[k] {
			seen[k] = true
			out = append(out, l)
		}
	}
	return out
}

// Entails: facts |= goal (goal.L >= 0), over the integers (approximated by
// rationals with the integer tightening goal < 0  <=>  goal <= -1).
func Entails(facts []Con, goal Con) bool {
	neg := Con{goal.L.Scale(-1).AddConst(-1)}
	return infeasible(append(append([]Con{}, facts...), neg))
}

// ---- analysis context -------------------------------------------------------------

type Aff struct {
	P        *Prog
	names    map[ssa.Value]string
	lenName  map[ssa.Value]string
	desc     map[string]string
	symType  map[string]types.Type
	symLen   map[string]bool
	memo     map[ssa.Value]*Lin
	loopInv  map[*ssa.Function][]Con
	loopDone map[*ssa.Function]bool
	ens      map[*ssa.Function]*ensures
	ensBusy  map[*ssa.Function]bool
	factMemo map[*ssa.BasicBlock][]Con
	nsym     int
	prepared map[*ssa.Function]bool
	hdrInv   map[*ssa.BasicBlock][]Con
	busy     map[*ssa.BasicBlock]bool
	hdrBusy  map[*ssa.BasicBlock]bool
	defFacts map[string][]Con // definitional facts of derived symbols (quotients, remainders)
	// Assume: facts taken as given at the entry of a function (verified requires clauses).
	Assume map[*ssa.Function][]Con
	// LemmaFacts: extra facts valid throughout a function, supplied by reviewed lemmas.
	LemmaFacts   func(a *Aff, fn *ssa.Function) []Con
	lemmaMemo    map[*ssa.Function][]Con
	resolvingPhi map[*ssa.Phi]bool
	hitBusy      int
	// Equate lets a property identify opaque values (lemmas), e.g. results of a pure helper on the same prefix.
	Equate func(v ssa.Value) ssa.Value
}

func NewAff(p *Prog) *Aff {
	return &Aff{P: p, names: map[ssa.Value]string{}, lenName: map[ssa.Value]string{}, desc: map[string]string{},
		symType: map[string]types.Type{}, symLen: map[string]bool{}, memo: map[ssa.Value]*Lin{},
		loopInv: map[*ssa.Function][]Con{}, loopDone: map[*ssa.Function]bool{}, ens: map[*ssa.Function]*ensures{}, ensBusy: map[*ssa.Function]bool{},
		factMemo: map[*ssa.BasicBlock][]Con{}, prepared: map[*ssa.Function]bool{}, hdrInv: map[*ssa.BasicBlock][]Con{}, busy: map[*ssa.BasicBlock]bool{}, hdrBusy: map[*ssa.BasicBlock]bool{}, defFacts: map[string][]Con{}, Assume: map[*ssa.Function][]Con{}, lemmaMemo: map[*ssa.Function][]Con{}, resolvingPhi: map[*ssa.Phi]bool{}}
}

func (a *Aff) fnTag(v ssa.Value) string {
	if p := v.Parent(); p != nil {
		return p.Name()
	}
	return "pkg"
}

// trivialPhi: a phi all of whose operands (other than itself) are one value denotes that value.
func trivialPhi(v ssa.Value) ssa.Value {
	for i := 0; i < 8; i++ {
		phi, ok := v.(*ssa.Phi)
		if !ok {
			return v
		}
		var only ssa.Value
		same := true
		for _, e := range phi.Edges {
			if e == ssa.Value(phi) {
				continue
			}
			if only == nil {
				only = e
			} else if e != only {
				same = false
			}
		}
		if !same || only == nil {
			return v
		}
		v = only
	}
	return v
}

func (a *Aff) sym(v ssa.Value) string {
	v = trivialPhi(v)
	if a.Equate != nil {
		v = a.Equate(v)
	}
	if s, ok := a.names[v]; ok {
		return s
	}
	a.nsym++
	s := fmt.Sprintf("%s.%s", a.fnTag(v), v.Name())
	if _, dup := a.desc[s]; dup {
		s = fmt.Sprintf("%s~%d", s, a.nsym)
	}
	a.names[v] = s
	a.desc[s] = v.String()
	a.symType[s] = v.Type()
	return s
}

func (a *Aff) lenSym(v ssa.Value) string {
	v = trivialPhi(v)
	if a.Equate != nil {
		v = a.Equate(v)
	}
	if s, ok := a.lenName[v]; ok {
		return s
	}
	a.nsym++
	s := fmt.Sprintf("len(%s.%s)", a.fnTag(v), v.Name())
	if _, dup := a.desc[s]; dup {
		s = fmt.Sprintf("%s~%d", s, a.nsym)
	}
	a.lenName[v] = s
	a.desc[s] = "len of " + v.String()
	a.symLen[s] = true
	return s
}

func isUnsigned(t types.Type) bool {
	b, ok := t.Underlying().(*types.Basic)
	return ok && b.Info()&types.IsUnsigned != 0
}
func isInteger(t types.Type) bool {
	b, ok := t.Underlying().(*types.Basic)
	return ok && b.Info()&types.IsInteger != 0
}

// LenOf returns the linear form of len(v) for a slice/string/array value.
func (a *Aff) LenOf(v ssa.Value) *Lin {
	v = trivialPhi(v)
	if a.Equate != nil {
		// a load that is known to equal another value (an earlier load, a constructor argument)
		if e := a.Equate(v); e != v && a.Equate(e) == e {
			return a.LenOf(e)
		}
	}
	switch x := v.(type) {
	case *ssa.Const:
		if x.Value == nil {
			return LinConst(0)
		}
		if s, ok := constString(x); ok {
			return LinConst(int64(len(s)))
		}
	case *ssa.MakeSlice:
		return a.Lin(x.Len)
	case *ssa.Slice:
		var hi, lo *Lin
		if x.Low != nil {
			lo = a.Lin(x.Low)
		} else {
			lo = LinConst(0)
		}
		if x.High != nil {
			hi = a.Lin(x.High)
		} else {
			// len of the operand
			switch t := x.X.Type().Underlying().(type) {
			case *types.Pointer:
				if arr, ok := t.Elem().Underlying().(*types.Array); ok {
					hi = LinConst(arr.Len())
				}
			}
			if hi == nil {
				hi = a.LenOf(x.X)
			}
		}
		return hi.Sub(lo)
	case *ssa.Call:
		if b, ok := x.Call.Value.(*ssa.Builtin); ok && b.Name() == "append" {
			base := a.LenOf(x.Call.Args[0])
			if len(x.Call.Args) > 1 {
				return base.Add(a.LenOf(x.Call.Args[1]))
			}
			return base
		}
	case *ssa.ChangeType:
		return a.LenOf(x.X)
	case *ssa.Convert:
		// []byte(string) / string([]byte) keep the byte length
		if _, ok := x.X.Type().Underlying().(*types.Basic); ok {
			if _, ok2 := x.Type().Underlying().(*types.Slice); ok2 {
				return a.LenOf(x.X)
			}
		}
	}
	if arr, ok := v.Type().Underlying().(*types.Array); ok {
		return LinConst(arr.Len())
	}
	return LinSym(a.lenSym(v))
}

// Lin translates an integer SSA value.
func (a *Aff) Lin(v ssa.Value) *Lin {
	if l, ok := a.memo[v]; ok {
		return l
	}
	hb := a.hitBusy
	l := a.lin(v)
	if a.hitBusy == hb {
		a.memo[v] = l
	}
	return l
}

func (a *Aff) lin(v ssa.Value) *Lin {
	v = trivialPhi(v)
	if k, ok := v.(*ssa.Const); ok {
		if i, ok := constInt(k); ok {
			return LinConst(i)
		}
		if b, ok := constBool(k); ok {
			if b {
				return LinConst(1)
			}
			return LinConst(0)
		}
	}
	switch x := v.(type) {
	case *ssa.Phi:
		// a two-way merge one of whose incoming edges contradicts what is known at its source
		// (`if want < 0 { want = 0 }` where want >= 2 is known): the value is the other edge's
		if isInteger(x.Type()) && len(x.Edges) == 2 && !a.resolvingPhi[x] {
			blk := x.Block()
			loop := false
			for _, p := range blk.Preds {
				if blk.Dominates(p) {
					loop = true
				}
			}
			if !loop {
				a.resolvingPhi[x] = true
				var live []int
				for i, p := range blk.Preds {
					dead := false
					if ifi, ok := lastInstr(p).(*ssa.If); ok && len(p.Succs) == 2 && p.Succs[0] != p.Succs[1] {
						if cons := a.condCons(ifi.Cond, p.Succs[0] == blk); len(cons) > 0 && a.Prove(p, Con{LinConst(-1)}, cons...) {
							dead = true
						}
					} else if len(p.Preds) == 1 && len(p.Succs) == 1 {
						// a then-block entered through a branch whose condition is contradicted
						q := p.Preds[0]
						if ifi, ok := lastInstr(q).(*ssa.If); ok && len(q.Succs) == 2 && q.Succs[0] != q.Succs[1] {
							if cons := a.condCons(ifi.Cond, q.Succs[0] == p); len(cons) > 0 && a.Prove(q, Con{LinConst(-1)}, cons...) {
								dead = true
							}
						}
					}
					if !dead {
						live = append(live, i)
					}
				}
				// `n := len(s); if n > k { n = k }`: a merge all of whose live incoming values are
				// provably non-negative where they come from is non-negative
				nonneg := len(live) > 0
				for _, i := range live {
					if !a.Prove(blk.Preds[i], GE(a.Lin(x.Edges[i]), LinConst(0))) {
						nonneg = false
					}
				}
				delete(a.resolvingPhi, x)
				if len(live) == 1 {
					return a.Lin(x.Edges[live[0]])
				}
				if nonneg {
					s := a.sym(v)
					if _, done := a.defFacts[s]; !done {
						a.defFacts[s] = []Con{GE(LinSym(s), LinConst(0))}
					}
					return LinSym(s)
				}
			}
		}
	case *ssa.BinOp:
		switch x.Op {
		case token.ADD:
			if isInteger(x.Type()) {
				return a.Lin(x.X).Add(a.Lin(x.Y))
			}
		case token.SUB:
			if isInteger(x.Type()) {
				if isUnsigned(x.Type()) {
					// wraps unless x >= y is known where it is computed
					if !a.Prove(x.Block(), GE(a.Lin(x.X), a.Lin(x.Y))) {
						return LinSym(a.sym(v))
					}
				}
				return a.Lin(x.X).Sub(a.Lin(x.Y))
			}
		case token.MUL:
			lx, ly := a.Lin(x.X), a.Lin(x.Y)
			if k, ok := lx.IsConst(); ok {
				return ly.Scale(k)
			}
			if k, ok := ly.IsConst(); ok {
				return lx.Scale(k)
			}
			// opaque product, canonical by operand forms
			p := []string{lx.String(), ly.String()}
			sort.Strings(p)
			key := "(" + p[0] + ")*(" + p[1] + ")"
			a.desc[key] = "product"
			a.symType[key] = x.Type()
			return LinSym(key)
		case token.SHL:
			if k, ok := a.Lin(x.Y).IsConst(); ok && k >= 0 && k < 40 {
				return a.Lin(x.X).Scale(1 << uint(k))
			}
		case token.QUO, token.REM:
			if !isInteger(x.Type()) {
				break
			}
			k, isC := a.Lin(x.Y).IsConst()
			lx := a.Lin(x.X)
			if isC && k > 0 && (isUnsigned(x.X.Type()) || a.Prove(x.Block(), GE(lx, LinConst(0)))) {
				s := a.sym(v)
				if _, done := a.defFacts[s]; !done {
					q := LinSym(s)
					if x.Op == token.QUO {
						// k*q <= x <= k*q + k-1, q >= 0
						a.defFacts[s] = []Con{GE(lx, q.Scale(k)), LE(lx, q.Scale(k).AddConst(k-1)), GE(q, LinConst(0))}
					} else {
						a.defFacts[s] = []Con{GE(q, LinConst(0)), LE(q, LinConst(k-1)), LE(q, lx)}
					}
				}
				return LinSym(s)
			}
		case token.SHR:
			if k, ok := a.Lin(x.Y).IsConst(); ok && k >= 0 && k < 40 && (isUnsigned(x.X.Type())) {
				s := a.sym(v)
				lx := a.Lin(x.X)
				if _, done := a.defFacts[s]; !done {
					q := LinSym(s)
					m := int64(1) << uint(k)
					a.defFacts[s] = []Con{GE(lx, q.Scale(m)), LE(lx, q.Scale(m).AddConst(m-1)), GE(q, LinConst(0))}
				}
				return LinSym(s)
			}
		case token.AND:
			// x & c  is within 0..c for a non-negative constant mask
			if k, ok := a.Lin(x.Y).IsConst(); ok && k >= 0 && isInteger(x.Type()) {
				s := a.sym(v)
				if _, done := a.defFacts[s]; !done {
					a.defFacts[s] = []Con{GE(LinSym(s), LinConst(0)), LE(LinSym(s), LinConst(k))}
				}
				return LinSym(s)
			}
		}
	case *ssa.Convert:
		if !isInteger(x.Type()) || !isInteger(x.X.Type()) {
			break
		}
		from, to := x.X.Type(), x.Type()
		if isUnsigned(to) && !isUnsigned(from) {
			if a.Prove(x.Block(), GE(a.Lin(x.X), LinConst(0))) {
				return a.Lin(x.X)
			}
			return LinSym(a.sym(v))
		}
		// narrowing conversions are not value preserving in general
		fb, tb := from.Underlying().(*types.Basic), to.Underlying().(*types.Basic)
		if intBits(tb) < intBits(fb) && intBits(tb) < 32 {
			return LinSym(a.sym(v))
		}
		return a.Lin(x.X) // R-ranges: values below 2^28
	case *ssa.ChangeType:
		return a.Lin(x.X)
	case *ssa.Call:
		if b, ok := x.Call.Value.(*ssa.Builtin); ok && b.Name() == "len" {
			return a.LenOf(x.Call.Args[0])
		}
		// the unsigned bit reader returns a value of the requested width (assumption: the reader
		// is correct, C14): 0 <= r <= 2^w - 1 for a constant width w < 31
		if f := x.Call.StaticCallee(); f != nil && f.Name() == "GetBitsAsUint64" && a.P.InModule(f) && len(x.Call.Args) == 3 {
			if w, isC := constInt(x.Call.Args[2]); isC && w >= 1 && w < 31 {
				s := a.sym(v)
				if _, done := a.defFacts[s]; !done {
					a.defFacts[s] = []Con{GE(LinSym(s), LinConst(0)), LE(LinSym(s), LinConst((int64(1)<<uint(w))-1))}
				}
				return LinSym(s)
			}
		}
	case *ssa.UnOp:
		if x.Op == token.SUB && isInteger(x.Type()) {
			return a.Lin(x.X).Scale(-1)
		}
	case *ssa.Extract:
		// n of `n, err := r.Read(p)`: the io.Reader contract, 0 <= n <= len(p)
		if p := readCallBuffer(x); p != nil {
			s := a.sym(v)
			if _, done := a.defFacts[s]; !done {
				a.defFacts[s] = []Con{GE(LinSym(s), LinConst(0)), LE(LinSym(s), a.LenOf(p))}
			}
			return LinSym(s)
		}
	}
	return LinSym(a.sym(v))
}

func intBits(b *types.Basic) int {
	switch b.Kind() {
	case types.Int8, types.Uint8:
		return 8
	case types.Int16, types.Uint16:
		return 16
	case types.Int32, types.Uint32:
		return 32
	}
	return 64
}

// condCons translates a branch condition known to be `val` into constraints.
func (a *Aff) condCons(cond ssa.Value, val bool) []Con {
	switch x := cond.(type) {
	case *ssa.UnOp:
		if x.Op == token.NOT {
			return a.condCons(x.X, !val)
		}
	case *ssa.BinOp:
		if !isInteger(x.X.Type()) {
			return nil
		}
		op := x.Op
		if !val {
			switch op {
			case token.LSS:
				op = token.GEQ
			case token.LEQ:
				op = token.GTR
			case token.GTR:
				op = token.LEQ
			case token.GEQ:
				op = token.LSS
			case token.EQL:
				op = token.NEQ
			case token.NEQ:
				op = token.EQL
			default:
				return nil
			}
		}
		lx, ly := a.Lin(x.X), a.Lin(x.Y)
		switch op {
		case token.LSS:
			return []Con{LT(lx, ly)}
		case token.LEQ:
			return []Con{LE(lx, ly)}
		case token.GTR:
			return []Con{GT(lx, ly)}
		case token.GEQ:
			return []Con{GE(lx, ly)}
		case token.EQL:
			return EQ(lx, ly)
		case token.NEQ:
			// usable when one side is bounded: x != c with x >= c  =>  x >= c+1
			d := lx.Sub(ly)
			base := a.intrinsic(d)
			if Entails(base, Con{d}) {
				return []Con{{d.AddConst(-1)}}
			}
			if Entails(base, Con{d.Scale(-1)}) {
				return []Con{{d.Scale(-1).AddConst(-1)}}
			}
		}
	}
	return nil
}

// intrinsic facts for the symbols of l: lengths and unsigned values are >= 0.
func (a *Aff) intrinsic(ls ...*Lin) []Con {
	seen := map[string]bool{}
	var out []Con
	work := append([]*Lin{}, ls...)
	for len(work) > 0 {
		l := work[len(work)-1]
		work = work[:len(work)-1]
		for s := range l.T {
			if seen[s] {
				continue
			}
			seen[s] = true
			for _, df := range a.defFacts[s] {
				out = append(out, df)
				work = append(work, df.L)
			}
			if a.symLen[s] {
				out = append(out, Con{LinSym(s)})
			} else if t, ok := a.symType[s]; ok && isUnsigned(t) {
				out = append(out, Con{LinSym(s)})
			} else if strings.HasPrefix(s, "(") && strings.Contains(s, ")*(") {
				// product of two non-negative factors is non-negative (checked when created)
			}
		}
	}
	return out
}

// FactsAt returns constraints that hold whenever control is in block b.
func (a *Aff) FactsAt(b *ssa.BasicBlock) []Con {
	if f, ok := a.factMemo[b]; ok {
		return f
	}
	if a.busy[b] {
		a.hitBusy++
		return nil
	}
	if fn := b.Parent(); !a.prepared[fn] {
		// compute facts in reverse post-order so that the facts of dominators
		// and of forward predecessors exist before they are needed
		a.prepared[fn] = true
		order, _ := topoBlocks(fn)
		for _, x := range order {
			a.FactsAt(x)
		}
		if f, ok := a.factMemo[b]; ok {
			return f
		}
	}
	a.busy[b] = true // break recursion through Lin()->Prove()->FactsAt()
	hb := a.hitBusy
	memoLen := len(a.memo)
	_ = memoLen
	var out []Con
	// facts of the immediate dominator stay valid (SSA values are immutable
	// and the dominator's last execution precedes b's)
	if d := b.Idom(); d != nil {
		out = append(out, a.FactsAt(d)...)
		if ifi, ok := lastInstr(d).(*ssa.If); ok && len(d.Succs) == 2 && d.Succs[0] != d.Succs[1] {
			for k, s := range d.Succs {
				if s == b && edgeDominates(d, b, b) {
					out = append(out, a.condCons(ifi.Cond, k == 0)...)
					out = append(out, a.ensuresFacts(ifi.Cond, k == 0)...)
					// flag threading (see dominatingFactsD)
					out = append(out, a.threadFlag(ifi.Cond, k == 0, d, b)...)
				}
			}
		}
	}
	if b.Index == 0 {
		out = append(out, a.phiWebFacts(b.Parent())...)
		out = append(out, a.Assume[b.Parent()]...)
		if a.LemmaFacts != nil {
			fn := b.Parent()
			lf, ok := a.lemmaMemo[fn]
			if !ok {
				a.lemmaMemo[fn] = nil
				lf = a.LemmaFacts(a, fn)
				a.lemmaMemo[fn] = lf
			}
			out = append(out, lf...)
		}
	}
	out = append(out, a.pathJoinFacts(b)...)
	out = append(out, a.headerInvariants(b)...)
	out = dedupCons(out)
	delete(a.busy, b)
	if a.hitBusy == hb {
		a.factMemo[b] = out
	}
	return out
}

// threadFlag: the branch on cond (taken with value val) at the end of d tells
// which predecessor src control entered d from (phiBoolSourceX).  What held at
// the end of src then holds now, and every phi of d has its src-edge value.
// If src -> d is a back edge (d is a loop header), the values defined in d were
// redefined on re-entry: in the facts taken from src their symbols denote the
// previous instance and are renamed apart.
func (a *Aff) threadFlag(cond ssa.Value, val bool, d, b *ssa.BasicBlock) []Con {
	src, xc, xv := phiBoolSourceX(cond, val, d)
	if src == nil || src == b {
		return nil
	}
	d = flagBlock(cond) // the block whose phis were fixed by entering from src (d itself, or a dominator)
	var old []Con       // expressed over the values as they were when control left src
	old = append(old, a.FactsAt(src)...)
	if sif, ok := lastInstr(src).(*ssa.If); ok && len(src.Succs) == 2 && src.Succs[0] != src.Succs[1] {
		old = append(old, a.condCons(sif.Cond, src.Succs[0] == d)...)
		old = append(old, a.ensuresFacts(sif.Cond, src.Succs[0] == d)...)
	}
	if xc != nil {
		old = append(old, a.condCons(xc, xv)...)
		old = append(old, a.ensuresFacts(xc, xv)...)
	}
	type pair struct{ phi, edge *Lin }
	var pairs []pair
	for pi, pp := range d.Preds {
		if pp != src {
			continue
		}
		for _, ins := range d.Instrs {
			phi, ok := ins.(*ssa.Phi)
			if !ok {
				break
			}
			e := phi.Edges[pi]
			if isInteger(phi.Type()) {
				pairs = append(pairs, pair{a.Lin(phi), a.Lin(e)})
			} else if _, isSl := phi.Type().Underlying().(*types.Slice); isSl {
				pairs = append(pairs, pair{a.LenOf(phi), a.LenOf(e)})
			}
		}
		break
	}
	rn := func(l *Lin) *Lin { return l }
	if d.Dominates(src) {
		ren := map[string]string{}
		mark := func(v ssa.Value, s string, isLen bool) {
			ins, ok := v.(ssa.Instruction)
			if !ok || ins.Block() != d {
				return
			}
			p := s + "@prev"
			ren[s] = p
			if isLen {
				a.symLen[p] = true
			} else if t, ok := a.symType[s]; ok {
				a.symType[p] = t
			}
			a.desc[p] = "previous instance of " + s
		}
		for v, s := range a.names {
			mark(v, s, false)
		}
		for v, s := range a.lenName {
			mark(v, s, true)
		}
		rn = func(l *Lin) *Lin {
			n := NewLin()
			n.C.Set(l.C)
			for s, v := range l.T {
				if t, ok := ren[s]; ok {
					s = t
				}
				if cur, ok := n.T[s]; ok {
					cur.Add(cur, v)
				} else {
					n.T[s] = new(big.Rat).Set(v)
				}
			}
			return n
		}
	}
	var out []Con
	for _, c := range old {
		out = append(out, Con{rn(c.L)})
	}
	for _, p := range pairs {
		out = append(out, EQ(p.phi, rn(p.edge))...)
	}
	return out
}

// Infeasible: control can never be in block b - the facts that hold there are
// contradictory, or a dominating (dis)equality between two values that are the
// same linear form has been taken the impossible way.
func (a *Aff) Infeasible(b *ssa.BasicBlock) bool {
	if blockDead(b) {
		return true
	}
	for _, ft := range dominatingFacts(b) {
		bo, ok := ft.Cond.(*ssa.BinOp)
		if !ok || (bo.Op != token.EQL && bo.Op != token.NEQ) || !isInteger(bo.X.Type()) {
			continue
		}
		same := a.Lin(bo.X).Equal(a.Lin(bo.Y)) || (a.Prove(ft.From, GE(a.Lin(bo.X), a.Lin(bo.Y))) && a.Prove(ft.From, LE(a.Lin(bo.X), a.Lin(bo.Y))))
		if same && ((bo.Op == token.NEQ) == ft.Val) {
			return true
		}
	}
	if a.Prove(b, Con{LinConst(-1)}) {
		return true
	}
	return a.infeasibleViaPreds(b, 0)
}

// infeasibleViaPreds: every edge into b is infeasible (its branch condition
// contradicts what is known at the end of the predecessor, or the predecessor
// itself is infeasible).  Covers exits reached from any false arm of a long
// `a && b && c` chain of checks that all hold.
func (a *Aff) infeasibleViaPreds(b *ssa.BasicBlock, depth int) bool {
	if depth > 8 || len(b.Preds) == 0 || b.Index == 0 {
		return false
	}
	for _, p := range b.Preds {
		if p.Dominates(b) && b.Dominates(p) {
			return false
		}
		edgeDead := false
		if ifi, ok := lastInstr(p).(*ssa.If); ok && len(p.Succs) == 2 && p.Succs[0] != p.Succs[1] {
			val := p.Succs[0] == b
			if k, isC := staticCond(ifi.Cond); isC && k != val {
				edgeDead = true
			} else if cons := a.condCons(ifi.Cond, val); len(cons) > 0 && a.Prove(p, Con{LinConst(-1)}, cons...) {
				edgeDead = true
			}
		}
		if edgeDead {
			continue
		}
		if a.Prove(p, Con{LinConst(-1)}) || a.infeasibleViaPreds(p, depth+1) {
			continue
		}
		return false
	}
	return true
}

// With closes a fact set with intrinsic facts for the goal and returns whether the goal is entailed.
func (a *Aff) Prove(b *ssa.BasicBlock, goal Con, extra ...Con) bool {
	facts := append(append([]Con{}, a.FactsAt(b)...), extra...)
	var ls []*Lin
	for _, f := range facts {
		ls = append(ls, f.L)
	}
	ls = append(ls, goal.L)
	facts = append(facts, a.intrinsic(ls...)...)
	return Entails(facts, goal)
}

// pathJoinFacts: for a block with several non-back-edge predecessors, keep
// constraints that hold on every incoming edge (one level, no recursion into
// joins of joins beyond dominating facts of the predecessors).
func (a *Aff) pathJoinFacts(b *ssa.BasicBlock) []Con {
	if len(b.Preds) < 2 {
		return nil
	}
	var sets [][]Con
	for _, p := range b.Preds {
		if b.Dominates(p) {
			continue // back edge
		}
		var fs []Con
		fs = append(fs, a.FactsAt(p)...)
		if ifi, ok := lastInstr(p).(*ssa.If); ok && len(p.Succs) == 2 && p.Succs[0] != p.Succs[1] {
			fs = append(fs, a.condCons(ifi.Cond, b == p.Succs[0])...)
			fs = append(fs, a.ensuresFacts(ifi.Cond, b == p.Succs[0])...)
		}
		sets = append(sets, fs)
	}
	if len(sets) < 2 {
		return nil
	}
	var out []Con
	for _, cand := range sets[0] {
		ok := true
		for _, other := range sets[1:] {
			var ls []*Lin
			for _, f := range other {
				ls = append(ls, f.L)
			}
			ls = append(ls, cand.L)
			if !Entails(append(append([]Con{}, other...), a.intrinsic(ls...)...), cand) {
				ok = false
				break
			}
		}
		if ok {
			out = append(out, cand)
		}
	}
	// also candidates from the other sets
	for i := 1; i < len(sets); i++ {
		for _, cand := range sets[i] {
			ok := true
			for j, other := range sets {
				if j == i {
					continue
				}
				var ls []*Lin
				for _, f := range other {
					ls = append(ls, f.L)
				}
				ls = append(ls, cand.L)
				if !Entails(append(append([]Con{}, other...), a.intrinsic(ls...)...), cand) {
					ok = false
					break
				}
			}
			if ok {
				out = append(out, cand)
			}
		}
	}
	return out
}

// ---- loop phi invariants -------------------------------------------------------------

// loopInvariants: for every loop header, relate phis that advance by constant
// steps per iteration:  d_k*p_j - d_j*p_k  is invariant, and p >= init when
// the step is non-negative.
func (a *Aff) loopInvariants(fn *ssa.Function) []Con {
	var out []Con
	for _, h := range fn.Blocks {
		out = append(out, a.headerInvariants(h)...)
	}
	return out
}

// headerInvariants: invariants of the loop headed by h (empty if h is not a loop header).
func (a *Aff) headerInvariants(h *ssa.BasicBlock) []Con {
	if inv, ok := a.hdrInv[h]; ok {
		return inv
	}
	hbH := a.hitBusy
	isHeader := false
	for _, p := range h.Preds {
		if h.Dominates(p) {
			isHeader = true
		}
	}
	if !isHeader {
		a.hdrInv[h] = nil
		return nil
	}
	if a.hdrBusy[h] {
		a.hitBusy++
		return nil
	}
	a.hdrBusy[h] = true
	defer delete(a.hdrBusy, h)
	var out []Con
	{
		type adv struct {
			cur  *Lin // the phi as a linear quantity (value, or length for slices)
			init *Lin
			step int64
		}
		var advs []adv
		for _, ins := range h.Instrs {
			phi, ok := ins.(*ssa.Phi)
			if !ok {
				break
			}
			isSlice := false
			if _, ok := phi.Type().Underlying().(*types.Slice); ok {
				isSlice = true
			} else if !isInteger(phi.Type()) {
				continue
			}
			var cur *Lin
			if isSlice {
				cur = LinSym(a.lenSym(phi))
			} else {
				cur = LinSym(a.sym(phi))
			}
			var init *Lin
			step := int64(0)
			okPhi := true
			nBack := 0
			mono := 0
			for i, e := range phi.Edges {
				pred := h.Preds[i]
				var le *Lin
				if isSlice {
					le = a.LenOf(e)
				} else {
					le = a.Lin(e)
				}
				if h.Dominates(pred) { // back edge
					d := le.Sub(cur)
					k, isC := d.IsConst()
					if !isC {
						// a variable but provably non-negative advance (`total += len(row)`): the
						// quantity never falls below its initial value
						if a.Prove(pred, Con{d}) {
							mono++
							continue
						}
						okPhi = false
						break
					}
					if nBack > 0 && k != step {
						okPhi = false
						break
					}
					step = k
					nBack++
				} else {
					if init != nil && !init.Equal(le) {
						okPhi = false
						break
					}
					init = le
				}
			}
			if okPhi && mono > 0 && init != nil && (nBack == 0 || step >= 0) {
				out = append(out, GE(cur, init))
				continue
			}
			if !okPhi || nBack == 0 || init == nil || mono > 0 {
				continue
			}
			// init must not depend on loop-variant symbols (it is evaluated before the loop): by construction it comes from outside
			advs = append(advs, adv{cur, init, step})
			if step >= 0 {
				out = append(out, GE(cur, init))
			} else {
				out = append(out, LE(cur, init))
			}
		}
		for j := 0; j < len(advs); j++ {
			for k := j + 1; k < len(advs); k++ {
				// all phis of one header advance together only if every back edge passes
				// both increments; phis are per header, and each back edge supplies both values,
				// so the steps are simultaneous.
				aj, ak := advs[j], advs[k]
				l := aj.cur.Scale(ak.step).Sub(ak.cur.Scale(aj.step))
				r := aj.init.Scale(ak.step).Sub(ak.init.Scale(aj.step))
				out = append(out, EQ(l, r)...)
			}
		}
		// upper bound for counted loops: i < N at the header with N invariant and init <= N  =>  i <= N always
		if ifi, ok := lastInstr(h).(*ssa.If); ok && len(advs) > 0 {
			if cmp, ok := ifi.Cond.(*ssa.BinOp); ok && (cmp.Op == token.LSS || cmp.Op == token.LEQ) && isInteger(cmp.X.Type()) {
				lx, ly := a.Lin(cmp.X), a.Lin(cmp.Y)
				// find the phi (possibly phi+const) on the left
				for _, ad := range advs {
					d := lx.Sub(ad.cur)
					if off, isC := d.IsConst(); isC && ad.step > 0 && !mentions(ly, ad.cur) && a.loopInvariantLin(ly, h) {
						// value tested is cur+off; continues while cur+off < N (or <=).
						// if init+off <= N (+1 for <=) before the loop then cur+off <= N (+step-1) throughout.
						bound := ly
						if cmp.Op == token.LEQ {
							bound = ly.AddConst(1)
						}
						// the bound holds on entry: at every forward predecessor of the header (the immediate
						// dominator may lie before the test that establishes it)
						entryOK, nEntry := true, 0
						for _, pp := range h.Preds {
							if h.Dominates(pp) {
								continue
							}
							nEntry++
							// ... including what the branch into the loop itself establishes
							var edge []Con
							if pif, ok := lastInstr(pp).(*ssa.If); ok && len(pp.Succs) == 2 && pp.Succs[0] != pp.Succs[1] {
								edge = a.condCons(pif.Cond, pp.Succs[0] == h)
							}
							if !a.Prove(pp, LE(ad.init.AddConst(off), bound), edge...) {
								entryOK = false
							}
						}
						if nEntry > 0 && entryOK {
							out = append(out, LE(ad.cur.AddConst(off), bound.AddConst(ad.step-1)))
						}
					}
				}
			}
		}
	}
	if a.hitBusy == hbH {
		a.hdrInv[h] = out
	}
	return out
}

func mentions(l, sym *Lin) bool {
	for s := range sym.T {
		if _, ok := l.T[s]; ok {
			return true
		}
	}
	return false
}

// loopInvariantLin: no symbol of l is defined inside the loop headed by h.
func (a *Aff) loopInvariantLin(l *Lin, h *ssa.BasicBlock) bool {
	for s := range l.T {
		for v, n := range a.names {
			if n == s {
				if ins, ok := v.(ssa.Instruction); ok && ins.Block() != nil && h.Dominates(ins.Block()) {
					return false
				}
			}
		}
		for v, n := range a.lenName {
			if n == s {
				if ins, ok := v.(ssa.Instruction); ok && ins.Block() != nil && h.Dominates(ins.Block()) {
					return false
				}
			}
		}
	}
	return true
}

// ---- callee ensures -----------------------------------------------------------------

// ensures: facts about the results of a module function that hold on every
// return whose error result is nil, expressed over result placeholders
// "$r<i>" / "len($r<i>)" and parameter placeholders "$p<i>" / "len($p<i>)".
type ensures struct {
	cons []Con
}

func (a *Aff) ensuresOf(f *ssa.Function) *ensures {
	if e, ok := a.ens[f]; ok {
		return e
	}
	if a.ensBusy[f] || f.Blocks == nil || !a.P.InModule(f) {
		return nil
	}
	a.ensBusy[f] = true
	defer delete(a.ensBusy, f)
	res := f.Signature.Results()
	errIdx := -1
	if res.Len() > 0 && isErrorType(res.At(res.Len()-1).Type()) {
		errIdx = res.Len() - 1
	}
	var per [][]Con
	for _, r := range returnsOf(f) {
		if errIdx >= 0 && !isNilConst(r.Results[errIdx]) {
			// a non-constant error value: treat as possibly nil unless provably a fresh error
			if _, isCall := r.Results[errIdx].(*ssa.Call); isCall {
				continue // errors.New(...) etc.: non-nil
			}
			if _, isPhi := r.Results[errIdx].(*ssa.Phi); isPhi {
				// unknown: this return contributes with no facts
				per = append(per, nil)
				continue
			}
			if a.provablyNonNilError(r.Results[errIdx], r.Block()) {
				continue
			}
		}
		// facts at this return, plus definitions of the results
		facts := append([]Con{}, a.FactsAt(r.Block())...)
		sub := map[string]string{}
		for i, rv := range r.Results {
			if i == errIdx {
				continue
			}
			ph := fmt.Sprintf("$r%d", i)
			switch rv.Type().Underlying().(type) {
			case *types.Slice:
				facts = append(facts, EQ(LinSym("len("+ph+")"), a.LenOf(rv))...)
			case *types.Basic:
				if isInteger(rv.Type()) {
					facts = append(facts, EQ(LinSym(ph), a.Lin(rv))...)
				}
			case *types.Pointer:
				// non-nil-ness: recorded as $r<i>.nonnil == 1
				if a.nonNil(rv, r.Block()) {
					facts = append(facts, EQ(LinSym(ph+".nonnil"), LinConst(1))...)
				}
			}
		}
		for i, p := range f.Params {
			ph := fmt.Sprintf("$p%d", i)
			switch p.Type().Underlying().(type) {
			case *types.Slice:
				sub[a.lenSym(p)] = "len(" + ph + ")"
			case *types.Basic:
				if isInteger(p.Type()) {
					sub[a.sym(p)] = ph
				}
			}
		}
		// include intrinsic facts before projection
		var ls []*Lin
		for _, c := range facts {
			ls = append(ls, c.L)
		}
		facts = append(facts, a.intrinsic(ls...)...)
		// rename params, then project onto placeholders
		var ren []Con
		for _, c := range facts {
			n := NewLin()
			n.C.Set(c.L.C)
			for s, v := range c.L.T {
				if t, ok := sub[s]; ok {
					s = t
				}
				if cur, ok := n.T[s]; ok {
					cur.Add(cur, v)
				} else {
					n.T[s] = new(big.Rat).Set(v)
				}
			}
			ren = append(ren, Con{n})
		}
		per = append(per, project(ren, func(s string) bool { return strings.HasPrefix(s, "$") || strings.HasPrefix(s, "len($") }))
	}
	e := &ensures{}
	if len(per) > 0 {
		// intersection: keep constraints of the first return entailed by all others
		for i, set := range per {
			for _, cand := range set {
				ok := true
				for j, other := range per {
					if i == j {
						continue
					}
					if !Entails(other, cand) {
						ok = false
						break
					}
				}
				if ok {
					e.cons = append(e.cons, cand)
				}
			}
		}
		e.cons = dedupCons(e.cons)
	}
	a.ens[f] = e
	return e
}

func dedupCons(cs []Con) []Con {
	seen := map[string]bool{}
	var out []Con
	for _, c := range cs {
		k := c.L.String()
		if !seen[k] {
			seen[k] = true
			out = append(out, c)
		}
	}
	return out
}

// project eliminates (Fourier–Motzkin) every symbol not accepted by keep.
func project(cons []Con, keep func(string) bool) []Con {
	cur := make([]*Lin, 0, len(cons))
	for _, c := range cons {
		cur = append(cur, c.L)
	}
	for iter := 0; iter < 200; iter++ {
		victim := ""
		var names []string
		seen := map[string]bool{}
		for _, l := range cur {
			for s := range l.T {
				if !keep(s) && !seen[s] {
					seen[s] = true
					names = append(names, s)
				}
			}
		}
		if len(names) == 0 {
			break
		}
		sort.Strings(names)
		victim = names[0]
		var pos, neg, rest []*Lin
		for _, l := range cur {
			v, ok := l.T[victim]
			switch {
			case !ok:
				rest = append(rest, l)
			case v.Sign() > 0:
				pos = append(pos, l)
			default:
				neg = append(neg, l)
			}
		}
		if len(pos)*len(neg) > 2000 {
			// drop constraints mentioning the victim (sound: weaker)
			cur = rest
			continue
		}
		for _, p := range pos {
			for _, n := range neg {
				av := p.T[victim]
				bv := new(big.Rat).Neg(n.T[victim])
				comb := NewLin().AddScaled(p, bv).AddScaled(n, av)
				delete(comb.T, victim)
				if len(comb.T) == 0 {
					continue
				}
				rest = append(rest, comb)
			}
		}
		cur = dedupLins(rest)
	}
	var out []Con
	for _, l := range cur {
		if len(l.T) > 0 {
			out = append(out, Con{l})
		}
	}
	return out
}

// ensuresFacts: when cond is `err != nil` / `err == nil` for the error result
// of a module call and that establishes err == nil, instantiate the callee's
// ensures with the call's arguments and results.
func (a *Aff) ensuresFacts(cond ssa.Value, val bool) []Con {
	b, ok := cond.(*ssa.BinOp)
	if !ok || (b.Op != token.EQL && b.Op != token.NEQ) {
		return nil
	}
	x, y := b.X, b.Y
	if isNilConst(x) {
		x, y = y, x
	}
	if !isNilConst(y) || !isErrorType(x.Type()) {
		return nil
	}
	isNil := (b.Op == token.EQL) == val
	if !isNil {
		return nil
	}
	ex, ok := x.(*ssa.Extract)
	if !ok {
		return nil
	}
	call, ok := ex.Tuple.(*ssa.Call)
	if !ok {
		return nil
	}
	return a.instantiateEnsures(call)
}

func (a *Aff) instantiateEnsures(call *ssa.Call) []Con {
	f := call.Call.StaticCallee()
	if f == nil {
		return nil
	}
	e := a.ensuresOf(f)
	if e == nil || len(e.cons) == 0 {
		return nil
	}
	results := map[int]ssa.Value{}
	if f.Signature.Results().Len() == 1 {
		results[0] = call
	} else {
		for _, r := range referrers(call) {
			if ex, ok := r.(*ssa.Extract); ok {
				results[ex.Index] = ex
			}
		}
	}
	var out []Con
	for _, c := range e.cons {
		n := LinConst(0)
		n.C.Set(c.L.C)
		okAll := true
		for s, v := range c.L.T {
			var repl *Lin
			var idx int
			switch {
			case strings.HasSuffix(s, ".nonnil"):
				okAll = false
			case strings.HasPrefix(s, "len($r"):
				fmt.Sscanf(s, "len($r%d)", &idx)
				if rv, ok := results[idx]; ok {
					repl = a.LenOf(rv)
				}
			case strings.HasPrefix(s, "$r"):
				fmt.Sscanf(s, "$r%d", &idx)
				if rv, ok := results[idx]; ok {
					repl = a.Lin(rv)
				}
			case strings.HasPrefix(s, "len($p"):
				fmt.Sscanf(s, "len($p%d)", &idx)
				if idx < len(call.Call.Args) {
					repl = a.LenOf(call.Call.Args[idx])
				}
			case strings.HasPrefix(s, "$p"):
				fmt.Sscanf(s, "$p%d", &idx)
				if idx < len(call.Call.Args) {
					repl = a.Lin(call.Call.Args[idx])
				}
			}
			if repl == nil {
				okAll = false
				break
			}
			n = n.AddScaled(repl, v)
		}
		if okAll {
			out = append(out, Con{n})
		}
	}
	return out
}

// EnsuresNonNil: does callee f guarantee a non-nil pointer result idx when its error is nil?
func (a *Aff) EnsuresNonNil(f *ssa.Function, idx int) bool {
	e := a.ensuresOf(f)
	if e == nil {
		return false
	}
	goal := EQ(LinSym(fmt.Sprintf("$r%d.nonnil", idx)), LinConst(1))
	return Entails(e.cons, goal[0]) && Entails(e.cons, goal[1])
}

// provablyNonNilError: the error value is certainly non-nil at block b.
func (a *Aff) provablyNonNilError(v ssa.Value, b *ssa.BasicBlock) bool {
	if call, ok := v.(*ssa.Call); ok {
		if f := call.Call.StaticCallee(); f != nil && (calleeIs(f, "errors", "New") || calleeIs(f, "fmt", "Errorf")) {
			return true
		}
	}
	for _, f := range dominatingFacts(b) {
		if bo, ok := f.Cond.(*ssa.BinOp); ok && (bo.Op == token.NEQ || bo.Op == token.EQL) {
			x, y := bo.X, bo.Y
			if isNilConst(x) {
				x, y = y, x
			}
			if isNilConst(y) && x == v {
				if (bo.Op == token.NEQ) == f.Val {
					return true
				}
			}
		}
	}
	return false
}

// nonNil: pointer value v is certainly non-nil at block b.
func (a *Aff) nonNil(v ssa.Value, b *ssa.BasicBlock) bool {
	switch x := v.(type) {
	case *ssa.Alloc, *ssa.FieldAddr, *ssa.IndexAddr, *ssa.MakeClosure, *ssa.Global, *ssa.Function, *ssa.MakeMap, *ssa.MakeChan, *ssa.MakeSlice:
		return true
	case *ssa.Const:
		return x.Value != nil
	case *ssa.Call:
		if f := x.Call.StaticCallee(); f != nil && a.P.InModule(f) && f.Signature.Results().Len() == 1 {
			return a.alwaysNonNilResult(f, 0)
		}
	case *ssa.Extract:
		if call, ok := x.Tuple.(*ssa.Call); ok {
			if f := call.Call.StaticCallee(); f != nil && a.P.InModule(f) {
				if a.alwaysNonNilResult(f, x.Index) {
					return true
				}
				// non-nil when the error is nil
				n := f.Signature.Results().Len()
				if n > 0 && isErrorType(f.Signature.Results().At(n-1).Type()) && a.EnsuresNonNil(f, x.Index) {
					// is err == nil known here?
					for _, r := range referrers(call) {
						if ex, ok := r.(*ssa.Extract); ok && ex.Index == n-1 {
							if a.errKnownNil(ex, b) {
								return true
							}
						}
					}
				}
			}
		}
	case *ssa.Phi:
		for _, e := range x.Edges {
			if !a.nonNil(e, b) {
				return false
			}
		}
		return true
	}
	// dominating nil test
	for _, f := range dominatingFacts(b) {
		if bo, ok := f.Cond.(*ssa.BinOp); ok && (bo.Op == token.NEQ || bo.Op == token.EQL) {
			x, y := bo.X, bo.Y
			if isNilConst(x) {
				x, y = y, x
			}
			if isNilConst(y) && x == v && (bo.Op == token.NEQ) == f.Val {
				return true
			}
		}
	}
	return false
}

func (a *Aff) errKnownNil(errv ssa.Value, b *ssa.BasicBlock) bool {
	for _, f := range dominatingFacts(b) {
		if bo, ok := f.Cond.(*ssa.BinOp); ok && (bo.Op == token.NEQ || bo.Op == token.EQL) {
			x, y := bo.X, bo.Y
			if isNilConst(x) {
				x, y = y, x
			}
			if isNilConst(y) && x == errv && (bo.Op == token.EQL) == f.Val {
				return true
			}
		}
	}
	return false
}

var nonNilMemo = map[*ssa.Function]map[int]int{}

// alwaysNonNilResult: every return of f yields a non-nil pointer at idx.
func (a *Aff) alwaysNonNilResult(f *ssa.Function, idx int) bool {
	if m, ok := nonNilMemo[f]; ok {
		if v, ok := m[idx]; ok {
			return v == 1
		}
	} else {
		nonNilMemo[f] = map[int]int{}
	}
	nonNilMemo[f][idx] = 0 // recursion guard
	if f.Blocks == nil {
		return false
	}
	ok := true
	for _, r := range returnsOf(f) {
		if idx >= len(r.Results) || !a.nonNil(r.Results[idx], r.Block()) {
			ok = false
		}
	}
	if ok {
		nonNilMemo[f][idx] = 1
	}
	return ok
}

// phiWebFacts: lower bounds for integer phis that are only ever initialised
// with values >= L (constants) and advanced by non-negative constants, also
// when the advance is conditional (so no constant-step invariant applies).
func (a *Aff) phiWebFacts(fn *ssa.Function) []Con {
	var out []Con
	for _, b := range fn.Blocks {
		for _, ins := range b.Instrs {
			phi, ok := ins.(*ssa.Phi)
			if !ok {
				break
			}
			if !isInteger(phi.Type()) {
				continue
			}
			seen := map[ssa.Value]bool{}
			lo := int64(1 << 60)
			okWeb := true
			var walk func(v ssa.Value, depth int)
			walk = func(v ssa.Value, depth int) {
				if !okWeb || seen[v] {
					return
				}
				if depth > 16 {
					okWeb = false
					return
				}
				seen[v] = true
				switch x := v.(type) {
				case *ssa.Phi:
					for _, e := range x.Edges {
						walk(e, depth+1)
					}
				case *ssa.BinOp:
					if x.Op == token.ADD {
						if k, isC := constInt(x.Y); isC && k >= 0 {
							walk(x.X, depth+1)
							return
						}
					}
					okWeb = false
				case *ssa.Const:
					if k, isC := constInt(x); isC {
						if k < lo {
							lo = k
						}
						return
					}
					okWeb = false
				default:
					okWeb = false
				}
			}
			walk(phi, 0)
			if okWeb && lo < (1<<60) {
				out = append(out, GE(LinSym(a.sym(phi)), LinConst(lo)))
			}
		}
	}
	return out
}

// substCon rewrites the symbols of c according to m.
func substCon(c Con, m map[string]*Lin) Con {
	n := NewLin()
	n.C.Set(c.L.C)
	for s, v := range c.L.T {
		if r, ok := m[s]; ok {
			n = n.AddScaled(r, v)
		} else {
			n = n.AddScaled(LinSym(s), v)
		}
	}
	return Con{n}
}

// ReturnInfeasibleAt: the callee's return `ret` cannot be taken for the call
// `call`: the facts that hold at the return (in terms of the actual
// arguments) contradict what is known at the call site.
func (a *Aff) ReturnInfeasibleAt(call *ssa.Call, ret *ssa.Return) bool {
	callee := call.Call.StaticCallee()
	if callee == nil || ret.Parent() != callee {
		return false
	}
	m := map[string]*Lin{}
	for i, p := range callee.Params {
		if i >= len(call.Call.Args) {
			break
		}
		arg := call.Call.Args[i]
		switch p.Type().Underlying().(type) {
		case *types.Slice:
			m[a.lenSym(p)] = a.LenOf(arg)
		case *types.Basic:
			if isInteger(p.Type()) {
				m[a.sym(p)] = a.Lin(arg)
			}
		}
	}
	var all []Con
	for _, c := range a.FactsAt(ret.Block()) {
		all = append(all, substCon(c, m))
	}
	all = append(all, a.FactsAt(call.Block())...)
	var ls []*Lin
	for _, c := range all {
		ls = append(ls, c.L)
	}
	all = append(all, a.intrinsic(ls...)...)
	return infeasible(all)
}

// readCallBuffer: x is the count result of a call of a method `Read([]byte) (int, error)` (io.Reader,
// *os.File, *bufio.Reader, net.Conn); returns the buffer argument.
func readCallBuffer(x *ssa.Extract) ssa.Value {
	if x.Index != 0 {
		return nil
	}
	call, ok := x.Tuple.(*ssa.Call)
	if !ok {
		return nil
	}
	cc := call.Common()
	var sig *types.Signature
	var buf ssa.Value
	if cc.IsInvoke() {
		if cc.Method.Name() != "Read" || len(cc.Args) != 1 {
			return nil
		}
		sig, _ = cc.Method.Type().(*types.Signature)
		buf = cc.Args[0]
	} else {
		f := cc.StaticCallee()
		if f == nil || f.Name() != "Read" || f.Signature.Recv() == nil || len(cc.Args) != 2 {
			return nil
		}
		if f.Pkg == nil || (f.Pkg.Pkg.Path() != "os" && f.Pkg.Pkg.Path() != "bufio" && f.Pkg.Pkg.Path() != "net" && f.Pkg.Pkg.Path() != "io") {
			return nil
		}
		sig = f.Signature
		buf = cc.Args[1]
	}
	if sig == nil || sig.Params().Len() != 1 || sig.Results().Len() != 2 {
		return nil
	}
	if sl, ok := sig.Params().At(0).Type().Underlying().(*types.Slice); !ok || !types.Identical(sl.Elem(), types.Typ[types.Byte]) {
		return nil
	}
	if b, ok := sig.Results().At(0).Type().Underlying().(*types.Basic); !ok || b.Kind() != types.Int {
		return nil
	}
	return buf
}
