package main

// E-paths: must-pass-through / exactly-once rules over the SSA CFG.

import (
	"go/token"
	"go/types"

	"golang.org/x/tools/go/ssa"
)

// recvSite describes `v, ok := <-ch` (or `v := <-ch`).
type recvSite struct {
	ins  *ssa.UnOp
	ok   ssa.Value // nil when not comma-ok
	val  ssa.Value // the received value (Extract #0 or the UnOp itself)
	slot *ssa.Alloc
}

// recvSites lists channel receives in fn.
func recvSites(fn *ssa.Function) []recvSite {
	var out []recvSite
	eachInstr(fn, func(ins ssa.Instruction) {
		u, ok := ins.(*ssa.UnOp)
		if !ok || u.Op != token.ARROW {
			return
		}
		rs := recvSite{ins: u, val: u}
		if u.CommaOk {
			for _, r := range referrers(u) {
				if ex, ok := r.(*ssa.Extract); ok {
					if ex.Index == 0 {
						rs.val = ex
					} else {
						rs.ok = ex
					}
				}
			}
		}
		// the local the value is stored to (address-taken variables)
		for _, r := range referrers(rs.val) {
			if st, ok := r.(*ssa.Store); ok {
				if al, ok := st.Addr.(*ssa.Alloc); ok {
					rs.slot = al
				}
			}
		}
		out = append(out, rs)
	})
	return out
}

// derivedFromRecv: v is the received value, a load of its slot, or a field of it.
func (rs recvSite) isMsg(v ssa.Value) bool {
	if v == rs.val {
		return true
	}
	if u, ok := v.(*ssa.UnOp); ok && u.Op == token.MUL {
		if rs.slot != nil && u.X == ssa.Value(rs.slot) {
			return true
		}
	}
	return false
}

// fieldOfMsg: v is a load of field f of the received message.
func (rs recvSite) fieldOfMsg(v ssa.Value) *types.Var {
	f, base := loadedField(v)
	if f == nil {
		return nil
	}
	if rs.slot != nil && base == ssa.Value(rs.slot) {
		return f
	}
	if rs.isMsg(base) {
		return f
	}
	return nil
}

// condIsOK: the If condition is the comma-ok flag of the receive.
func (rs recvSite) okEdge(b *ssa.BasicBlock) (succTrue *ssa.BasicBlock, found bool) {
	ifi, ok := lastInstr(b).(*ssa.If)
	if !ok || rs.ok == nil {
		return nil, false
	}
	if ifi.Cond == rs.ok {
		return b.Succs[0], true
	}
	if u, ok := ifi.Cond.(*ssa.UnOp); ok && u.Op == token.NOT && u.X == rs.ok {
		return b.Succs[1], true
	}
	return nil, false
}

// closedEdgeFact: block b is only reachable after the receive reported a
// closed channel (ok == false).
func (rs recvSite) dominatedByClosed(b *ssa.BasicBlock) bool {
	for _, f := range dominatingFacts(b) {
		if f.Cond == rs.ok && !f.Val {
			return true
		}
		if u, ok := f.Cond.(*ssa.UnOp); ok && u.Op == token.NOT && u.X == rs.ok && f.Val {
			return true
		}
	}
	return false
}

func (rs recvSite) dominatedByOpen(b *ssa.BasicBlock) bool {
	for _, f := range dominatingFacts(b) {
		if f.Cond == rs.ok && f.Val {
			return true
		}
		if u, ok := f.Cond.(*ssa.UnOp); ok && u.Op == token.NOT && u.X == rs.ok && !f.Val {
			return true
		}
	}
	return false
}

// mustPass: starting right after instruction `from`, every path to an
// instruction satisfying `until` passes an instruction satisfying `action`,
// with edges pruned by edgeOK.  Returns a counter-example path or nil.
func mustPass(from ssa.Instruction, action, until func(ssa.Instruction) bool, edgeOK func(a, b *ssa.BasicBlock) bool) ([]*ssa.BasicBlock, ssa.Instruction) {
	q := pathQuery{avoid: action, goal: until, edgeOK: edgeOK}
	return q.search(from.Block(), instrIndex(from))
}

// atMostOnce: after an action, no second action is reachable without passing
// `reset` first.  Returns a counter-example.
func atMostOnce(fn *ssa.Function, action, reset func(ssa.Instruction) bool) ([]*ssa.BasicBlock, ssa.Instruction) {
	var cex []*ssa.BasicBlock
	var at ssa.Instruction
	eachInstr(fn, func(ins ssa.Instruction) {
		if cex != nil || !action(ins) {
			return
		}
		q := pathQuery{avoid: reset, goal: action}
		if p, g := q.search(ins.Block(), instrIndex(ins)); p != nil {
			cex, at = p, g
		}
	})
	return cex, at
}

func isReturn(i ssa.Instruction) bool { _, ok := i.(*ssa.Return); return ok }
