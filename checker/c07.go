package main

// C07 — no input can crash or hang framing, decoding or display.

import (
	"fmt"
	"sort"

	"golang.org/x/tools/go/ssa"
)

func c07Roots(c *Ctx, rule string) []*ssa.Function {
	P := c.P
	var roots []*ssa.Function
	for _, r := range []struct{ pkg, name string }{
		{"rtcm/handler", "(*Handler).HandleMessages"},
		{"rtcm/handler", "(*Handler).GetMessage"},
		{"rtcm/handler", "Analyse"},
		{"rtcm/handler", "PrepareForDisplay"},
		{"rtcm/handler", "(*Message).String"},
	} {
		f := P.Func(r.pkg, r.name)
		if f == nil {
			c.Unresolved(rule, r.pkg+"."+r.name)
			continue
		}
		roots = append(roots, f)
	}
	return roots
}

// runBounds generates and discharges all obligations for the given roots.
func runBounds(c *Ctx, rule string, roots []*ssa.Function) *boundsRun {
	b := newBoundsRun(c, rule, roots)
	b.hdr = newHeaderLemma(c, rule)
	b.A.LemmaFacts = func(a *Aff, fn *ssa.Function) []Con { return b.hdr.facts(a, fn) }
	// requires of the MSM signal decoders: len(satCells) == len(header.Satellites)
	for _, pkg := range []string{"rtcm/type_msm4/signal", "rtcm/type_msm7/signal"} {
		f := c.P.Func(pkg, "GetSignalCells")
		if f == nil {
			c.Unresolved(rule, pkg+".GetSignalCells")
			continue
		}
		fn := f
		// params: bitStream, start, header, satCells, logLevel
		hdrP, satP := fn.Params[2], fn.Params[3]
		b.A.Assume[fn] = append(b.A.Assume[fn], satCellsRequires(b.A, fn, hdrP, satP)...)
		// and the start position lies inside the buffer: start <= 8*len(bitStream)
		b.A.Assume[fn] = append(b.A.Assume[fn], LE(b.A.Lin(fn.Params[1]), b.A.LenOf(fn.Params[0]).Scale(8)))
		b.requires[fn] = func(ci ssa.CallInstruction) []Con {
			args := ci.Common().Args
			// len(satCells) == len(header.Satellites), and the start position lies inside the buffer
			return []Con{
				GE(b.A.LenOf(args[3]), objFieldLen(b.A, root(args[2]), b.hdr.sats)),
				LE(b.A.LenOf(args[3]), objFieldLen(b.A, root(args[2]), b.hdr.sats)),
				LE(b.A.Lin(args[1]), b.A.LenOf(args[0]).Scale(8)),
			}
		}
	}
	b.ldone = checkLDone(c, rule, b.A)
	b.run()
	c.Extra["c07_stats"] = b.stats
	var ext []string
	for k, n := range b.external {
		ext = append(ext, fmt.Sprintf("%s x%d", k, n))
	}
	sort.Strings(ext)
	c.Extra["external_callees"] = ext
	c.Extra["reachable_functions"] = len(b.fns)
	return b
}

// runBoundsLite: the arithmetic obligations only (index, slice, bit-read preconditions, division, shift,
// type assertion, make, explicit panic) for the functions accepted by fnOK among those reachable from the
// roots.  For code outside the decoder whose nil-ness and external calls are not the property's subject.
func runBoundsLite(c *Ctx, rule string, roots []*ssa.Function, fnOK func(*ssa.Function) bool) *boundsRun {
	b := newBoundsRun(c, rule, roots)
	b.kinds = map[string]bool{"index": true, "slice": true, "requires": true, "div": true, "shift": true, "assert": true, "make": true, "panic": true}
	b.fnOK = fnOK
	b.run()
	return b
}

// satCellsRequires: facts assumed at the entry of GetSignalCells (verified at its call sites).
func satCellsRequires(a *Aff, fn *ssa.Function, hdrP, satP *ssa.Parameter) []Con {
	sats := a.P.Field("rtcm/header", "Header", "Satellites")
	return EQ(a.LenOf(satP), objFieldLen(a, hdrP, sats))
}

func checkC07(c *Ctx) {
	c.Explanation = "Every panic-capable operation and every loop in the code reachable from the entry points (stream handler, single-frame decoder, Analyse/PrepareForDisplay, Message.String and the String methods reached through fmt) is turned into an obligation: slice/array index and slice bounds, bit reads (pos+len <= 8*len(buf), lifted to every call site of the two bit readers and assumed inside them), integer division, signed shift counts, pointer dereferences and interface method calls (non-nil by constructor results, checked errors, address-of, field invariants over all stores, or lifted to all call sites), type assertions, make sizes, map updates, explicit panic/exit, calls leaving the module (must be on a reviewed no-panic list), recursion, and loop termination (range, counted with constant step towards an invariant bound, or input-consuming).  Obligations are discharged by exact linear entailment (Fourier-Motzkin over facts from dominating branches, path joins, loop-phi invariants, quotient definitions and callee ensures) or by three reviewed lemmas whose premises are re-verified on every run; anything not discharged fails the check."
	c.NotDecided = "stack/heap exhaustion; panics inside the allow-listed standard-library and crc24q calls; integer overflow for lengths >= 2^28; behaviour for callers that pass nil receivers, nil channels or hand-built Header/Message values to the exported API."
	c.Assumptions = append(c.Assumptions,
		"API preconditions: receivers and pointer arguments of the entry points are non-nil; the input channel of HandleMessages is non-nil (checked at in-repo call sites by C09/C19 wiring)",
		"exported struct fields are not modified by code outside the module between decode and display")
	roots := c07Roots(c, "C07")
	if len(roots) < 5 {
		return
	}
	b := runBounds(c, "C07", roots)
	// minimum instance counts (frozen from the confirmed run on the pinned tree)
	if len(b.fns) < 90 {
		c.Fail("C07", "reachable-functions", roots[0].Pos(), "unresolved", fmt.Sprintf("only %d functions reachable from the roots (expected about 100)", len(b.fns)))
	}
	c.MinInstances("C07", 300)
}

// checkLDone (lemma L-done premises): a nil message from the fetcher is
// accompanied by the junk eater's error, which comes only from the push-back
// channel reader, whose non-"done" error is dominated by byteChan == nil.
func checkLDone(c *Ctx, rule string, A *Aff) *pipeline {
	pl := resolvePipeline(c, rule)
	if pl == nil {
		return nil
	}
	ok := true
	// (1) fetcher: nil message only with the eat error
	var eatErr ssa.Value
	eachInstr(pl.fetch, func(ins ssa.Instruction) {
		if ex, isEx := ins.(*ssa.Extract); isEx && ex.Index == 1 {
			if call, isC := ex.Tuple.(*ssa.Call); isC && call.Call.StaticCallee() == pl.eat {
				eatErr = ex
			}
		}
	})
	for _, r := range returnsOf(pl.fetch) {
		if isNilConst(r.Results[0]) && r.Results[1] != eatErr {
			ok = false
		}
	}
	// (2) the junk eater returns only the reader's error
	for _, r := range returnsOf(pl.eat) {
		if isNilConst(r.Results[1]) {
			continue
		}
		ex, isEx := r.Results[1].(*ssa.Extract)
		if !isEx {
			ok = false
			continue
		}
		call, isC := ex.Tuple.(*ssa.Call)
		if !isC || call.Call.StaticCallee() != pl.pbNext {
			ok = false
		}
	}
	// (3) GetNextByte returns only get()'s error or nil
	for _, r := range returnsOf(pl.pbNext) {
		if isNilConst(r.Results[1]) {
			continue
		}
		ex, isEx := r.Results[1].(*ssa.Extract)
		if !isEx {
			ok = false
			continue
		}
		call, isC := ex.Tuple.(*ssa.Call)
		if !isC || call.Call.StaticCallee() != pl.pbGet {
			ok = false
		}
	}
	// (4) get(): errors are "done" (closed channel) or guarded by byteChan == nil
	for _, r := range returnsOf(pl.pbGet) {
		if isNilConst(r.Results[1]) {
			continue
		}
		call, isC := r.Results[1].(*ssa.Call)
		if !isC || !calleeIs(call.Call.StaticCallee(), "errors", "New") {
			ok = false
			continue
		}
		if s, _ := constString(call.Call.Args[0]); s == "done" {
			continue
		}
		guarded := false
		for _, f := range dominatingFacts(r.Block()) {
			if bo, isB := f.Cond.(*ssa.BinOp); isB && f.Val && (isNilConst(bo.X) || isNilConst(bo.Y)) {
				guarded = true
			}
		}
		if !guarded {
			ok = false
		}
	}
	// (5) every other return of the fetcher carries a non-nil message: a constructor result, or the
	// decoder's message, whose nil returns are infeasible for the buffer the framer passes (>= 5 bytes)
	for _, r := range returnsOf(pl.fetch) {
		msg := r.Results[0]
		if isNilConst(msg) {
			continue
		}
		if A.nonNil(msg, r.Block()) {
			continue
		}
		ex, isEx := msg.(*ssa.Extract)
		var call *ssa.Call
		if isEx {
			call, _ = ex.Tuple.(*ssa.Call)
		}
		if call == nil || call.Call.StaticCallee() != pl.getMsg {
			ok = false
			continue
		}
		for _, gr := range returnsOf(pl.getMsg) {
			if A.nonNil(gr.Results[0], gr.Block()) {
				continue
			}
			if !A.ReturnInfeasibleAt(call, gr) {
				ok = false
			}
		}
	}
	c.Check(ok, rule, "L-done:premises", pl.fetch.Pos(), "a nil message is returned only with the push-back reader's error, which is \"done\" unless the channel is nil (API precondition)",
		"lemma L-done withdrawn: a nil message can be returned with another error, so the stream handler may dereference nil")
	if ok {
		c.Lemmas = append(c.Lemmas, "L-done: FetchNextMessageFrame returns a nil message only together with the \"done\" error of a closed, non-nil input channel (premises re-verified on this run)")
		return pl
	}
	return nil
}
