package main

// E-tables: classification of message types by abstract interpretation over
// the complete finite domain {-2,-1,0..4095}.  A TySet is a set of message
// types; the partition engine propagates, block by block, the set of types
// for which control can reach each CFG edge, splitting on recognised
// conditions over the "subject" (the message-type value).  Nothing is
// executed: each condition form is interpreted set-wise.

import (
	"fmt"
	"go/token"
	"go/types"
	"sort"
	"strings"

	"golang.org/x/tools/go/ssa"
)

const tyMin = -2
const tyMax = 4095
const tyN = tyMax - tyMin + 1

type TySet struct{ w [(tyN + 63) / 64]uint64 }

func (s *TySet) Add(t int) {
	if t < tyMin || t > tyMax {
		return
	}
	i := t - tyMin
	s.w[i/64] |= 1 << (uint(i) % 64)
}
func (s TySet) Has(t int) bool {
	if t < tyMin || t > tyMax {
		return false
	}
	i := t - tyMin
	return s.w[i/64]&(1<<(uint(i)%64)) != 0
}
func FullSet() TySet {
	var s TySet
	for t := tyMin; t <= tyMax; t++ {
		s.Add(t)
	}
	return s
}
func SetOf(ts ...int) TySet {
	var s TySet
	for _, t := range ts {
		s.Add(t)
	}
	return s
}
func (s TySet) And(o TySet) TySet {
	for i := range s.w {
		s.w[i] &= o.w[i]
	}
	return s
}
func (s TySet) Or(o TySet) TySet {
	for i := range s.w {
		s.w[i] |= o.w[i]
	}
	return s
}
func (s TySet) Minus(o TySet) TySet {
	for i := range s.w {
		s.w[i] &^= o.w[i]
	}
	return s
}
func (s TySet) Empty() bool {
	for _, x := range s.w {
		if x != 0 {
			return false
		}
	}
	return true
}
func (s TySet) Eq(o TySet) bool { return s.w == o.w }
func (s TySet) Count() int {
	n := 0
	for t := tyMin; t <= tyMax; t++ {
		if s.Has(t) {
			n++
		}
	}
	return n
}
func (s TySet) List() []int {
	var out []int
	for t := tyMin; t <= tyMax; t++ {
		if s.Has(t) {
			out = append(out, t)
		}
	}
	return out
}
func (s TySet) String() string {
	l := s.List()
	if len(l) > 40 {
		return fmt.Sprintf("{%d types: %v ...}", len(l), l[:12])
	}
	return fmt.Sprint(l)
}
func (s TySet) Subset(o TySet) bool { return s.Minus(o).Empty() }

// filterCmp returns the subset of ctx for which (t op c) holds.
func filterCmp(ctx TySet, op token.Token, c int64) TySet {
	var out TySet
	for _, t := range ctx.List() {
		x := int64(t)
		ok := false
		switch op {
		case token.EQL:
			ok = x == c
		case token.NEQ:
			ok = x != c
		case token.LSS:
			ok = x < c
		case token.LEQ:
			ok = x <= c
		case token.GTR:
			ok = x > c
		case token.GEQ:
			ok = x >= c
		}
		if ok {
			out.Add(t)
		}
	}
	return out
}

func flipCmp(op token.Token) token.Token {
	switch op {
	case token.LSS:
		return token.GTR
	case token.LEQ:
		return token.GEQ
	case token.GTR:
		return token.LSS
	case token.GEQ:
		return token.LEQ
	}
	return op
}

// Tables is the table-extraction engine with memoised predicate summaries.
type Tables struct {
	P        *Prog
	predMemo map[*ssa.Function]*TySet
	inprog   map[*ssa.Function]bool
	mapKeys  map[*ssa.Global]*TySet
	Notes    []string
}

func NewTables(p *Prog) *Tables {
	return &Tables{P: p, predMemo: map[*ssa.Function]*TySet{}, inprog: map[*ssa.Function]bool{}, mapKeys: map[*ssa.Global]*TySet{}}
}

// MapKeys returns the set of constant int keys ever written to the
// package-level map g, requiring that every write is in an init function of
// the defining package and has a constant key.  ok=false if some write is not
// of that form.
func (t *Tables) MapKeys(g *ssa.Global) (TySet, bool, string) {
	if s, ok := t.mapKeys[g]; ok {
		if s == nil {
			return TySet{}, false, "non-constant or non-init write to " + g.Name()
		}
		return *s, true, ""
	}
	var set TySet
	okAll := true
	why := ""
	writes := 0
	for _, fn := range t.P.ModFuncs() {
		eachInstr(fn, func(ins ssa.Instruction) {
			switch x := ins.(type) {
			case *ssa.MapUpdate:
				if loadOfGlobal(x.Map) == g {
					writes++
					if !isInitFn(fn) || fn.Pkg != g.Pkg {
						okAll = false
						why = "map " + g.Name() + " updated outside init in " + t.P.FnKey(fn)
						return
					}
					k, ok := constInt(x.Key)
					if !ok {
						okAll = false
						why = "non-constant key written to " + g.Name()
						return
					}
					set.Add(int(k))
				}
			case *ssa.Call:
				// delete(m, k) on the global
				if b, ok := x.Call.Value.(*ssa.Builtin); ok && b.Name() == "delete" && len(x.Call.Args) > 0 && loadOfGlobal(x.Call.Args[0]) == g {
					okAll = false
					why = "delete on " + g.Name() + " in " + t.P.FnKey(fn)
				}
			case *ssa.Store:
				if x.Addr == g {
					// assignment of the map itself: allowed only in init with a fresh make
					if !isInitFn(fn) || fn.Pkg != g.Pkg {
						okAll = false
						why = "map variable " + g.Name() + " reassigned in " + t.P.FnKey(fn)
					} else if mk, isMake := x.Val.(*ssa.MakeMap); !isMake {
						okAll = false
						why = "map variable " + g.Name() + " assigned a non-fresh map"
					} else {
						// the map may be filled before it is published: every other use of the fresh
						// map is an update with a constant key
						for _, r := range referrers(mk) {
							switch u := r.(type) {
							case *ssa.MapUpdate:
								k, ok := constInt(u.Key)
								if u.Map != ssa.Value(mk) || !ok {
									okAll = false
									why = "non-constant key written to " + g.Name()
									continue
								}
								writes++
								set.Add(int(k))
							case *ssa.Store:
								if u != x {
									okAll = false
									why = "the map assigned to " + g.Name() + " is stored elsewhere too"
								}
							case *ssa.DebugRef:
							default:
								okAll = false
								why = "the map assigned to " + g.Name() + " escapes before it is published"
							}
						}
					}
				}
			}
		})
	}
	if writes == 0 {
		okAll = false
		why = "no writes to map " + g.Name() + " found"
	}
	if !okAll {
		t.mapKeys[g] = nil
		return TySet{}, false, why
	}
	t.mapKeys[g] = &set
	return set, true, ""
}

func loadOfGlobal(v ssa.Value) *ssa.Global {
	if u, ok := v.(*ssa.UnOp); ok && u.Op == token.MUL {
		if g, ok := u.X.(*ssa.Global); ok {
			return g
		}
	}
	return nil
}

// subject describes which SSA values denote "the message type" in a function.
type subject struct {
	isSubject func(v ssa.Value) bool
}

func paramSubject(fn *ssa.Function, idx int) subject {
	p := fn.Params[idx]
	return subject{func(v ssa.Value) bool { return stripIntConv(v) == ssa.Value(p) }}
}

// stripIntConv strips integer->integer conversions that cannot change a value
// in -2..4095 (int<->int64/uint etc. for non-negative; we only strip widening
// or same-size signed conversions: int, int64).
func stripIntConv(v ssa.Value) ssa.Value {
	for {
		c, ok := v.(*ssa.Convert)
		if !ok {
			if ct, ok := v.(*ssa.ChangeType); ok {
				v = ct.X
				continue
			}
			return v
		}
		from, ok1 := c.X.Type().Underlying().(*types.Basic)
		to, ok2 := c.Type().Underlying().(*types.Basic)
		if !ok1 || !ok2 {
			return v
		}
		if (from.Kind() == types.Int || from.Kind() == types.Int64 || from.Kind() == types.Int32 || from.Kind() == types.Int16) &&
			(to.Kind() == types.Int || to.Kind() == types.Int64) {
			v = c.X
			continue
		}
		return v
	}
}

// Partition is the result of the set-wise interpretation of one function.
type Partition struct {
	Fn      *ssa.Function
	Reach   map[*ssa.BasicBlock]TySet
	Edge    map[[2]*ssa.BasicBlock]TySet
	Unknown []ssa.Instruction // conditions that were not understood
	Cyclic  bool
	t       *Tables
	subj    subject
	strict  bool
	env     map[ssa.Value]*itab // parameter bindings for nested evaluation
	depth   int
}

// itab is a table of integer values over the type domain (finite-domain
// abstract value: one value per message type), defined on `def`.
type itab struct {
	v   [tyN]int64
	def TySet
}

func identityTab() *itab {
	t := &itab{def: FullSet()}
	for i := 0; i < tyN; i++ {
		t.v[i] = int64(i + tyMin)
	}
	return t
}

func constTab(k int64) *itab {
	t := &itab{def: FullSet()}
	for i := range t.v {
		t.v[i] = k
	}
	return t
}

// Partition interprets fn over the type domain.  In strict mode an
// unrecognised branch condition is recorded in Unknown (the caller fails);
// otherwise it simply does not split the set (sound over-approximation).
func (t *Tables) Partition(fn *ssa.Function, subj subject, strict bool) *Partition {
	pa := &Partition{Fn: fn, Reach: map[*ssa.BasicBlock]TySet{}, Edge: map[[2]*ssa.BasicBlock]TySet{}, t: t, subj: subj, strict: strict}
	order, acyclic := topoBlocks(fn)
	pa.Cyclic = !acyclic
	if len(order) == 0 {
		return pa
	}
	if !acyclic {
		// Loops: give every block the full set, then refine only along
		// forward (non-back) edges.  We handle this by iterating to a
		// fixpoint with union (monotone, finite).
		pa.Reach[order[0]] = FullSet()
		changed := true
		for iter := 0; changed && iter < 64; iter++ {
			changed = false
			for _, b := range order {
				if pa.flow(b) {
					changed = true
				}
			}
		}
		return pa
	}
	pa.Reach[order[0]] = FullSet()
	for _, b := range order {
		pa.flow(b)
	}
	return pa
}

// flow pushes Reach[b] over b's out-edges; returns whether anything grew.
func (pa *Partition) flow(b *ssa.BasicBlock) bool {
	in := pa.Reach[b]
	grew := false
	put := func(s *ssa.BasicBlock, set TySet) {
		k := [2]*ssa.BasicBlock{b, s}
		ne := pa.Edge[k].Or(set)
		if !ne.Eq(pa.Edge[k]) {
			pa.Edge[k] = ne
			grew = true
		}
		nr := pa.Reach[s].Or(set)
		if !nr.Eq(pa.Reach[s]) {
			pa.Reach[s] = nr
			grew = true
		}
	}
	switch x := lastInstr(b).(type) {
	case *ssa.If:
		tset, ok := pa.boolSet(x.Cond, in, map[ssa.Value]bool{})
		if !ok {
			if pa.strict {
				pa.noteUnknown(x)
			}
			put(b.Succs[0], in)
			put(b.Succs[1], in)
		} else {
			put(b.Succs[0], tset)
			put(b.Succs[1], in.Minus(tset))
		}
	case *ssa.Jump:
		put(b.Succs[0], in)
	}
	return grew
}

func (pa *Partition) noteUnknown(i ssa.Instruction) {
	for _, u := range pa.Unknown {
		if u == i {
			return
		}
	}
	pa.Unknown = append(pa.Unknown, i)
}

// boolSet returns the subset of ctx on which boolean v is true; ok=false if v
// is not a recognised predicate over the subject.
func (pa *Partition) boolSet(v ssa.Value, ctx TySet, visiting map[ssa.Value]bool) (TySet, bool) {
	if b, ok := constBool(v); ok {
		if b {
			return ctx, true
		}
		return TySet{}, true
	}
	switch x := v.(type) {
	case *ssa.BinOp:
		switch x.Op {
		case token.EQL, token.NEQ, token.LSS, token.LEQ, token.GTR, token.GEQ:
			// err == nil / err != nil for the error result of a classifier call
			if (x.Op == token.EQL || x.Op == token.NEQ) && (isNilConst(x.X) || isNilConst(x.Y)) {
				e := x.X
				if isNilConst(e) {
					e = x.Y
				}
				if ex, ok := e.(*ssa.Extract); ok && isErrorType(ex.Type()) {
					if call, ok := ex.Tuple.(*ssa.Call); ok {
						if res, ok := pa.evalCall(call, ctx); ok && ex.Index < len(res) && res[ex.Index] != nil && ctx.Subset(res[ex.Index].def) {
							var out TySet
							for _, t := range ctx.List() {
								nonNil := res[ex.Index].v[t-tyMin] != 0
								if (x.Op == token.NEQ) == nonNil {
									out.Add(t)
								}
							}
							return out, true
						}
					}
				}
			}
			if isInteger(x.X.Type()) {
				a, ok1 := pa.intTab(x.X, ctx, 0)
				b, ok2 := pa.intTab(x.Y, ctx, 0)
				if ok1 && ok2 && ctx.Subset(a.def) && ctx.Subset(b.def) {
					var out TySet
					for _, t := range ctx.List() {
						i := t - tyMin
						l, r := a.v[i], b.v[i]
						hold := false
						switch x.Op {
						case token.EQL:
							hold = l == r
						case token.NEQ:
							hold = l != r
						case token.LSS:
							hold = l < r
						case token.LEQ:
							hold = l <= r
						case token.GTR:
							hold = l > r
						case token.GEQ:
							hold = l >= r
						}
						if hold {
							out.Add(t)
						}
					}
					return out, true
				}
			}
			if pa.subj.isSubject(x.X) {
				if c, ok := constInt(x.Y); ok {
					return filterCmp(ctx, x.Op, c), true
				}
			}
			if pa.subj.isSubject(x.Y) {
				if c, ok := constInt(x.X); ok {
					return filterCmp(ctx, flipCmp(x.Op), c), true
				}
			}
		case token.AND, token.OR: // non-short-circuit & | on bools
			a, ok1 := pa.boolSet(x.X, ctx, visiting)
			b, ok2 := pa.boolSet(x.Y, ctx, visiting)
			if ok1 && ok2 {
				if x.Op == token.AND {
					return a.And(b), true
				}
				return a.Or(b), true
			}
		}
	case *ssa.UnOp:
		if x.Op == token.NOT {
			s, ok := pa.boolSet(x.X, ctx, visiting)
			if ok {
				return ctx.Minus(s), true
			}
		}
	case *ssa.Call:
		if f := x.Call.StaticCallee(); f != nil && pa.t.P.InModule(f) && len(x.Call.Args) == 1 && pa.subj.isSubject(x.Call.Args[0]) {
			if ps, ok := pa.t.PredicateTrueSet(f); ok {
				return ctx.And(ps), true
			}
		}
		if res, ok := pa.evalCall(x, ctx); ok && len(res) >= 1 && res[0] != nil {
			var out TySet
			for _, t := range ctx.List() {
				if res[0].def.Has(t) && res[0].v[t-tyMin] != 0 {
					out.Add(t)
				}
			}
			if ctx.Subset(res[0].def) {
				return out, true
			}
		}
	case *ssa.Extract:
		// comma-ok of a lookup in an init-built package map
		if lk, ok := x.Tuple.(*ssa.Lookup); ok && lk.CommaOk && x.Index == 1 {
			if g := loadOfGlobal(lk.X); g != nil && pa.subj.isSubject(lk.Index) {
				keys, ok, why := pa.t.MapKeys(g)
				if ok {
					return ctx.And(keys), true
				}
				pa.t.Notes = append(pa.t.Notes, why)
			}
		}
	case *ssa.Phi:
		if visiting[v] {
			return TySet{}, false
		}
		visiting[v] = true
		defer delete(visiting, v)
		var out TySet
		for i, e := range x.Edges {
			pred := x.Block().Preds[i]
			es := pa.Edge[[2]*ssa.BasicBlock{pred, x.Block()}].And(ctx)
			s, ok := pa.boolSet(e, es, visiting)
			if !ok {
				return TySet{}, false
			}
			out = out.Or(s)
		}
		return out, true
	}
	return TySet{}, false
}

// PredicateTrueSet summarises a module function func(int) bool: the set of
// argument values for which it returns true.  Requires a fully recognised
// (strict) partition.
func (t *Tables) PredicateTrueSet(fn *ssa.Function) (TySet, bool) {
	if s, ok := t.predMemo[fn]; ok {
		if s == nil {
			return TySet{}, false
		}
		return *s, true
	}
	if t.inprog[fn] || fn.Blocks == nil || len(fn.Params) != 1 {
		return TySet{}, false
	}
	res := fn.Signature.Results()
	if res.Len() != 1 {
		return TySet{}, false
	}
	if b, ok := res.At(0).Type().Underlying().(*types.Basic); !ok || b.Kind() != types.Bool {
		return TySet{}, false
	}
	if b, ok := fn.Params[0].Type().Underlying().(*types.Basic); !ok || b.Info()&types.IsInteger == 0 {
		return TySet{}, false
	}
	t.inprog[fn] = true
	defer delete(t.inprog, fn)
	pa := t.Partition(fn, paramSubject(fn, 0), true)
	if pa.Cyclic || len(pa.Unknown) > 0 {
		t.predMemo[fn] = nil
		return TySet{}, false
	}
	var out TySet
	for _, r := range returnsOf(fn) {
		s, ok := pa.boolSet(r.Results[0], pa.Reach[r.Block()], map[ssa.Value]bool{})
		if !ok {
			t.predMemo[fn] = nil
			return TySet{}, false
		}
		out = out.Or(s)
	}
	t.predMemo[fn] = &out
	return out, true
}

// ValueByType resolves, for a value v used in block b, which constant it
// denotes for each type in ctx: Const -> all of ctx; Phi -> per incoming edge.
// The callback receives (set, value) pairs; non-constant leaves are passed on
// as-is for the caller to interpret.
func (pa *Partition) ValueByType(v ssa.Value, ctx TySet, visit func(TySet, ssa.Value)) {
	if ph, ok := v.(*ssa.Phi); ok {
		for i, e := range ph.Edges {
			pred := ph.Block().Preds[i]
			es := pa.Edge[[2]*ssa.BasicBlock{pred, ph.Block()}].And(ctx)
			if es.Empty() {
				continue
			}
			pa.ValueByType(e, es, visit)
		}
		return
	}
	if !ctx.Empty() {
		visit(ctx, v)
	}
}

// describeUnknown renders unrecognised conditions for a report.
func (pa *Partition) describeUnknown() string {
	var s []string
	for _, u := range pa.Unknown {
		s = append(s, pa.t.P.Pos(u.Pos())+" "+u.String())
	}
	sort.Strings(s)
	return strings.Join(s, "; ")
}

// intTab evaluates an integer SSA value as a table over the type domain.
func (pa *Partition) intTab(v ssa.Value, ctx TySet, depth int) (*itab, bool) {
	if depth > 24 {
		return nil, false
	}
	if k, ok := constInt(v); ok {
		if _, isConst := stripConv(v).(*ssa.Const); isConst {
			return constTab(k), true
		}
	}
	if pa.env != nil {
		if t, ok := pa.env[v]; ok {
			return t, true
		}
	}
	if pa.subj.isSubject != nil && pa.subj.isSubject(v) {
		return identityTab(), true
	}
	switch x := v.(type) {
	case *ssa.Convert:
		if !isInteger(x.Type()) || !isInteger(x.X.Type()) {
			return nil, false
		}
		t, ok := pa.intTab(x.X, ctx, depth+1)
		if !ok {
			return nil, false
		}
		if isUnsigned(x.Type()) && !isUnsigned(x.X.Type()) {
			// negative values would wrap: leave them undefined
			out := &itab{}
			for _, ty := range t.def.List() {
				if t.v[ty-tyMin] >= 0 {
					out.v[ty-tyMin] = t.v[ty-tyMin]
					out.def.Add(ty)
				}
			}
			return out, true
		}
		return t, true
	case *ssa.ChangeType:
		return pa.intTab(x.X, ctx, depth+1)
	case *ssa.BinOp:
		if !isInteger(x.Type()) {
			return nil, false
		}
		a, ok1 := pa.intTab(x.X, ctx, depth+1)
		b, ok2 := pa.intTab(x.Y, ctx, depth+1)
		if !ok1 || !ok2 {
			return nil, false
		}
		out := &itab{}
		for _, ty := range a.def.And(b.def).List() {
			i := ty - tyMin
			l, r := a.v[i], b.v[i]
			var res int64
			okv := true
			switch x.Op {
			case token.ADD:
				res = l + r
			case token.SUB:
				res = l - r
				if isUnsigned(x.Type()) && res < 0 {
					okv = false
				}
			case token.MUL:
				res = l * r
			case token.QUO:
				if r == 0 {
					okv = false
				} else {
					res = l / r
				}
			case token.REM:
				if r == 0 {
					okv = false
				} else {
					res = l % r
				}
			case token.AND:
				res = l & r
			case token.OR:
				res = l | r
			case token.XOR:
				res = l ^ r
			case token.SHL:
				if r < 0 || r > 40 {
					okv = false
				} else {
					res = l << uint(r)
				}
			case token.SHR:
				if r < 0 || r > 62 || l < 0 {
					okv = false
				} else {
					res = l >> uint(r)
				}
			default:
				okv = false
			}
			if okv {
				out.v[i] = res
				out.def.Add(ty)
			}
		}
		return out, true
	case *ssa.Phi:
		out := &itab{}
		for i, e := range x.Edges {
			pred := x.Block().Preds[i]
			es := pa.Edge[[2]*ssa.BasicBlock{pred, x.Block()}]
			t, ok := pa.intTab(e, es, depth+1)
			if !ok {
				return nil, false
			}
			for _, ty := range es.And(t.def).List() {
				out.v[ty-tyMin] = t.v[ty-tyMin]
				out.def.Add(ty)
			}
		}
		return out, true
	case *ssa.Extract:
		if call, ok := x.Tuple.(*ssa.Call); ok {
			if res, ok := pa.evalCall(call, ctx); ok && x.Index < len(res) && res[x.Index] != nil {
				return res[x.Index], true
			}
		}
	case *ssa.Call:
		if res, ok := pa.evalCall(x, ctx); ok && len(res) == 1 && res[0] != nil {
			return res[0], true
		}
	}
	return nil, false
}

// evalCall evaluates a call of a module function whose integer/bool arguments
// are known as tables: the callee is partitioned with its parameters bound,
// and each integer or boolean result is returned as a table (nil for results
// of other types).  Loop-free callees only.
func (pa *Partition) evalCall(call *ssa.Call, ctx TySet) ([]*itab, bool) {
	f := call.Call.StaticCallee()
	if f == nil || !pa.t.P.InModule(f) || f.Blocks == nil || pa.depth > 4 {
		return nil, false
	}
	env := map[ssa.Value]*itab{}
	for i, p := range f.Params {
		if i >= len(call.Call.Args) {
			return nil, false
		}
		if isInteger(p.Type()) {
			t, ok := pa.intTab(call.Call.Args[i], ctx, 0)
			if !ok {
				return nil, false
			}
			env[p] = t
		}
	}
	if len(env) == 0 {
		return nil, false
	}
	sub := &Partition{Fn: f, Reach: map[*ssa.BasicBlock]TySet{}, Edge: map[[2]*ssa.BasicBlock]TySet{}, t: pa.t, strict: true, env: env, depth: pa.depth + 1}
	// in the callee the subject is a parameter bound to the message type itself
	sub.subj = subject{isSubject: func(v ssa.Value) bool {
		t := env[v]
		if t == nil || !FullSet().Subset(t.def) {
			return false
		}
		for i := 0; i < tyN; i++ {
			if t.v[i] != int64(i+tyMin) {
				return false
			}
		}
		return true
	}}
	order, acyclic := topoBlocks(f)
	if !acyclic || len(order) == 0 {
		return nil, false
	}
	sub.Reach[order[0]] = FullSet()
	for _, b := range order {
		sub.flow(b)
	}
	if len(sub.Unknown) > 0 {
		return nil, false
	}
	nres := f.Signature.Results().Len()
	out := make([]*itab, nres)
	for i := 0; i < nres; i++ {
		rt := f.Signature.Results().At(i).Type()
		if isErrorType(rt) {
			// nil-ness of an error result: 0 = nil, 1 = non-nil
			tab := &itab{}
			okAll := true
			for _, r := range returnsOf(f) {
				reach := sub.Reach[r.Block()]
				val := int64(-1)
				if isNilConst(r.Results[i]) {
					val = 0
				} else if c, isCall := r.Results[i].(*ssa.Call); isCall && (calleeIs(c.Call.StaticCallee(), "errors", "New") || calleeIs(c.Call.StaticCallee(), "fmt", "Errorf")) {
					val = 1
				}
				if val < 0 {
					okAll = false
					break
				}
				for _, ty := range reach.List() {
					tab.v[ty-tyMin] = val
					tab.def.Add(ty)
				}
			}
			if okAll {
				out[i] = tab
			}
			continue
		}
		bt, isBasic := rt.Underlying().(*types.Basic)
		if !isBasic || (bt.Info()&types.IsInteger == 0 && bt.Kind() != types.Bool) {
			continue
		}
		tab := &itab{}
		for _, r := range returnsOf(f) {
			reach := sub.Reach[r.Block()]
			if bt.Kind() == types.Bool {
				ts, ok := sub.boolSet(r.Results[i], reach, map[ssa.Value]bool{})
				if !ok {
					return nil, false
				}
				for _, ty := range reach.List() {
					if ts.Has(ty) {
						tab.v[ty-tyMin] = 1
					} else {
						tab.v[ty-tyMin] = 0
					}
					tab.def.Add(ty)
				}
			} else {
				t, ok := sub.intTab(r.Results[i], reach, 0)
				if !ok {
					return nil, false
				}
				for _, ty := range reach.And(t.def).List() {
					tab.v[ty-tyMin] = t.v[ty-tyMin]
					tab.def.Add(ty)
				}
			}
		}
		out[i] = tab
	}
	return out, true
}
