package main

// Normalisation, part 0: undoing renames of unexported names.
//
// The rules are anchored on the pinned tree's names (functions, methods and
// struct fields).  A clean-up commit that renames an unexported helper or
// field changes no behaviour, but would leave every name-based anchor
// unresolved.  Before anything else, each package is compared with the
// oracle (oracles/known_functions.json): a known function that is missing is
// matched with a new unexported function of identical signature (receiver
// type included) whose body refers to a similar set of fields, callees,
// package-level names and literals; a missing field of a known struct is
// matched with a new field of the same type (at the same position when the
// field count is unchanged).  The identifiers of a matched object are renamed
// back, in the cloned syntax, to the pinned name; the package is type-checked
// again and used unchanged if that fails.  Exported names are never touched:
// renaming them is an API change, not a clean-up.

import (
	"fmt"
	"go/ast"
	"go/token"
	"go/types"
	"os"
	"sort"
	"strings"
)

type funcPrint struct {
	Sig  string   `json:"sig"`
	Refs []string `json:"refs"`
}

// funcFingerprint: signature string (receiver included, package-relative) and
// the set of names the body refers to that do not depend on local naming.
func funcFingerprint(pkg *types.Package, info *types.Info, fd *ast.FuncDecl) funcPrint {
	obj, _ := info.Defs[fd.Name].(*types.Func)
	fp := funcPrint{}
	if obj == nil {
		return fp
	}
	q := func(p *types.Package) string {
		if p == pkg {
			return ""
		}
		return p.Path()
	}
	sig := obj.Type().(*types.Signature)
	// parameter and result TYPES only: their names are free to change
	tuple := func(t *types.Tuple) string {
		var parts []string
		for i := 0; i < t.Len(); i++ {
			parts = append(parts, types.TypeString(t.At(i).Type(), q))
		}
		return "(" + strings.Join(parts, ", ") + ")"
	}
	fp.Sig = "func" + tuple(sig.Params()) + tuple(sig.Results())
	if sig.Variadic() {
		fp.Sig += "..."
	}
	if r := sig.Recv(); r != nil {
		fp.Sig = "(" + types.TypeString(r.Type(), q) + ")" + fp.Sig
	}
	set := map[string]bool{}
	if fd.Body != nil {
		ast.Inspect(fd.Body, func(n ast.Node) bool {
			switch x := n.(type) {
			case *ast.SelectorExpr:
				if o := info.Uses[x.Sel]; o != nil && (o.Exported() || isFieldVar(o)) {
					if o.Pkg() != nil && o.Parent() == o.Pkg().Scope() {
						// a qualified identifier: which package matters (msm4 vs msm7 decoders)
						set[o.Pkg().Path()+"."+x.Sel.Name] = true
					} else {
						set["."+x.Sel.Name] = true
					}
				}
			case *ast.Ident:
				if o := info.Uses[x]; o != nil && o.Pkg() != nil && o.Parent() == o.Pkg().Scope() && o.Exported() {
					set[o.Pkg().Name()+"."+x.Name] = true
				}
			case *ast.BasicLit:
				if x.Kind == token.STRING && len(x.Value) > 4 {
					set["lit:"+x.Value] = true
				}
				if x.Kind == token.INT {
					set["int:"+x.Value] = true
				}
			}
			return true
		})
	}
	for k := range set {
		fp.Refs = append(fp.Refs, k)
	}
	sort.Strings(fp.Refs)
	return fp
}

func isFieldVar(o types.Object) bool {
	v, ok := o.(*types.Var)
	return ok && v.IsField()
}

func jaccard(a, b []string) float64 {
	if len(a) == 0 && len(b) == 0 {
		return 1
	}
	m := map[string]bool{}
	for _, x := range a {
		m[x] = true
	}
	inter := 0
	for _, x := range b {
		if m[x] {
			inter++
		}
	}
	union := len(a) + len(b) - inter
	if union == 0 {
		return 0
	}
	return float64(inter) / float64(union)
}

// undoRenames renames matched objects back to their pinned names in pk's syntax.
func undoRenames(pk *pkgView, dir string, or *knownFuncs) (int, []string) {
	if or == nil {
		return 0, nil
	}
	info := pk.TypesInfo
	var log []string
	n := 0
	rename := func(obj types.Object, to string) {
		for id, o := range info.Defs {
			if o == obj {
				id.Name = to
			}
		}
		for id, o := range info.Uses {
			if o == obj {
				id.Name = to
			}
		}
		n++
	}
	// ---- unexported package-level variables
	if vars := or.Vars[dir]; len(vars) > 0 {
		q := func(p *types.Package) string {
			if p == pk.Types {
				return ""
			}
			return p.Path()
		}
		var names []string
		for k := range vars {
			names = append(names, k)
		}
		sort.Strings(names)
		usedNew := map[string]bool{}
		for _, k := range names {
			if pk.Types.Scope().Lookup(k) != nil {
				continue
			}
			var cand *types.Var
			nc := 0
			for _, nm := range pk.Types.Scope().Names() {
				v, ok := pk.Types.Scope().Lookup(nm).(*types.Var)
				if !ok || v.Exported() || usedNew[nm] {
					continue
				}
				if _, known := vars[nm]; known {
					continue
				}
				if types.TypeString(v.Type(), q) == vars[k] {
					cand = v
					nc++
				}
			}
			if cand == nil || nc != 1 {
				continue
			}
			usedNew[cand.Name()] = true
			log = append(log, fmt.Sprintf("%s: variable %s recognised as the renamed %s", dir, cand.Name(), k))
			rename(cand, k)
		}
	}
	// ---- struct fields
	for tname, fields := range or.Fields[dir] {
		tn, _ := pk.Types.Scope().Lookup(tname).(*types.TypeName)
		if tn == nil {
			continue
		}
		st, _ := tn.Type().Underlying().(*types.Struct)
		if st == nil {
			continue
		}
		q := func(p *types.Package) string {
			if p == pk.Types {
				return ""
			}
			return p.Path()
		}
		have := map[string]bool{}
		for i := 0; i < st.NumFields(); i++ {
			have[st.Field(i).Name()] = true
		}
		known := map[string]bool{}
		for _, f := range fields {
			known[f[0]] = true
		}
		for idx, f := range fields {
			name, typ := f[0], f[1]
			if have[name] || ast.IsExported(name) {
				continue
			}
			var cand *types.Var
			nc := 0
			// same position when the number of fields is unchanged
			if st.NumFields() == len(fields) {
				c := st.Field(idx)
				if !known[c.Name()] && !c.Exported() && types.TypeString(c.Type(), q) == typ {
					cand, nc = c, 1
				}
			}
			if cand == nil {
				for i := 0; i < st.NumFields(); i++ {
					c := st.Field(i)
					if !known[c.Name()] && !c.Exported() && !c.Embedded() && types.TypeString(c.Type(), q) == typ {
						cand = c
						nc++
					}
				}
			}
			if cand == nil || nc != 1 {
				continue
			}
			log = append(log, fmt.Sprintf("%s: field %s.%s recognised as the renamed %s", dir, tname, cand.Name(), name))
			have[name] = true
			known[cand.Name()] = true
			rename(cand, name)
		}
	}
	// ---- functions and methods
	prints := or.Prints[dir]
	if len(prints) > 0 {
		present := map[string]*ast.FuncDecl{}
		for _, f := range pk.Syntax {
			for _, d := range f.Decls {
				if fd, ok := d.(*ast.FuncDecl); ok {
					if obj, _ := info.Defs[fd.Name].(*types.Func); obj != nil {
						present[funcKey(obj)] = fd
					}
				}
			}
		}
		var missing []string
		for k := range prints {
			if present[k] == nil {
				missing = append(missing, k)
			}
		}
		sort.Strings(missing)
		taken := map[string]bool{}
		for _, k := range missing {
			base := k
			if i := strings.LastIndex(k, "."); i >= 0 {
				base = k[i+1:]
			}
			if ast.IsExported(base) {
				continue
			}
			best, bestScore, second := "", -1.0, -1.0
			for key, fd := range present {
				if _, known := prints[key]; known || taken[key] || ast.IsExported(fd.Name.Name) {
					continue
				}
				// methods must keep their receiver type
				if strings.Contains(k, ".") != strings.Contains(key, ".") {
					continue
				}
				if i := strings.LastIndex(k, "."); i >= 0 && !strings.HasPrefix(key, k[:i+1]) {
					continue
				}
				fp := funcFingerprint(pk.Types, info, fd)
				if fp.Sig != prints[k].Sig {
					continue
				}
				sc := jaccard(fp.Refs, prints[k].Refs)
				if sc > bestScore {
					best, second, bestScore = key, bestScore, sc
				} else if sc > second {
					second = sc
				}
			}
			if os.Getenv("VERIF_DEBUG_NORM") != "" {
				fmt.Fprintf(os.Stderr, "rename: missing %s: best %s %.2f second %.2f\n", k, best, bestScore, second)
			}
			// one missing function and one new function of this signature: a rename whatever the body looks like
			sameSigMissing := 0
			for _, k2 := range missing {
				if prints[k2].Sig == prints[k].Sig {
					sameSigMissing++
				}
			}
			unique := second < 0 && sameSigMissing == 1
			if best == "" || (!unique && (bestScore < 0.34 || (second >= 0 && bestScore-second < 0.1))) {
				continue
			}
			taken[best] = true
			obj := info.Defs[present[best].Name]
			log = append(log, fmt.Sprintf("%s: %s recognised as the renamed %s (signature identical, body similarity %.2f)", dir, best, k, bestScore))
			rename(obj, base)
		}
	}
	return n, log
}
