package main

// Normalisation: newly extracted helpers are inlined before analysis (R-inline).
//
// The rules anchor on the decomposition of the pinned tree (which function is
// the framer, the leader helper, the junk eater, ...).  A maintainer who
// extracts a *new* unexported helper (a copy-pasted loop, a predicate, a small
// accessor) does not change behaviour, but would hide the constructs the rules
// look at.  Before the SSA is built, every call to an unexported function that
// is not part of the pinned decomposition (oracles/known_functions.json) is
// replaced, in a clone of the package's syntax, by the callee's body:
//
//   - expression inlining for callees that consist of a single `return <expr>`
//     and are called with simple arguments: the call is replaced by the
//     expression with parameters substituted;
//   - statement inlining for calls in statement context (`f(a)`, `x, y := f(a)`,
//     `x = f(a)`, `return f(a)`, `if f(a) {`, `if !f(a) {`): parameters become
//     local variables, every `return e` becomes `result = e; break L` inside a
//     single-pass `L: for { ...; break L }`.
//
// Both are semantics preserving (arguments evaluated once, left to right; no
// defer/recover/variadic/recursive callees; name capture checked).  The
// transformed package is type-checked again; if that fails the package is used
// unchanged.  On the pinned tree nothing is inlined.

import (
	"encoding/json"
	"fmt"
	"go/ast"
	"go/parser"
	"go/token"
	"go/types"
	"os"
	"path/filepath"
	"reflect"
	"sort"
	"strconv"
	"strings"

	"golang.org/x/tools/go/ast/astutil"
)

type knownFuncs struct {
	Provenance string                            `json:"provenance"`
	Functions  map[string][]string               `json:"functions"`
	Types      map[string][]string               `json:"types"`
	Prints     map[string]map[string]funcPrint   `json:"fingerprints"` // per package: function key -> signature and body references
	Fields     map[string]map[string][][2]string `json:"fields"`       // per package: struct type -> ordered (field, type)
	Vars       map[string]map[string]string      `json:"vars"`         // per package: unexported package-level variable -> type
}

// loadKnownOracle returns the whole oracle (for rename recognition).
func loadKnownOracle(verif string) *knownFuncs {
	b, err := os.ReadFile(filepath.Join(verif, "oracles", "known_functions.json"))
	if err != nil {
		return nil
	}
	var k knownFuncs
	if json.Unmarshal(b, &k) != nil {
		return nil
	}
	return &k
}

func loadKnownFuncs(verif string) map[string]map[string]bool {
	b, err := os.ReadFile(filepath.Join(verif, "oracles", "known_functions.json"))
	if err != nil {
		return nil
	}
	var k knownFuncs
	if json.Unmarshal(b, &k) != nil {
		return nil
	}
	out := map[string]map[string]bool{}
	for dir, fs := range k.Functions {
		out[dir] = map[string]bool{}
		for _, f := range fs {
			out[dir][f] = true
		}
	}
	// named types are recorded in the same per-package set as "type <Name>"
	for dir, ts := range k.Types {
		if out[dir] == nil {
			out[dir] = map[string]bool{}
		}
		for _, t := range ts {
			out[dir]["type "+t] = true
		}
	}
	return out
}

// cloneAST deep-copies a syntax tree (positions preserved, Obj/Scope dropped).
func cloneAST(n ast.Node) ast.Node {
	if n == nil || reflect.ValueOf(n).IsNil() {
		return n
	}
	v := cloneValue(reflect.ValueOf(n))
	return v.Interface().(ast.Node)
}

var objType = reflect.TypeOf((*ast.Object)(nil))
var scopeType = reflect.TypeOf((*ast.Scope)(nil))
var exprType = reflect.TypeOf((*ast.Expr)(nil)).Elem()

// cloneIdentHook, when set, may replace an identifier in expression position during cloning.
var cloneIdentHook func(*ast.Ident) ast.Expr

func cloneValue(v reflect.Value) reflect.Value {
	switch v.Kind() {
	case reflect.Ptr:
		if v.IsNil() {
			return v
		}
		if v.Type() == objType || v.Type() == scopeType {
			return reflect.Zero(v.Type())
		}
		n := reflect.New(v.Type().Elem())
		n.Elem().Set(cloneValue(v.Elem()))
		return n
	case reflect.Interface:
		if v.IsNil() {
			return v
		}
		if cloneIdentHook != nil && v.Type() == exprType {
			if id, ok := v.Interface().(*ast.Ident); ok {
				if r := cloneIdentHook(id); r != nil {
					n := reflect.New(v.Type()).Elem()
					n.Set(reflect.ValueOf(r))
					return n
				}
			}
		}
		n := reflect.New(v.Type()).Elem()
		n.Set(cloneValue(v.Elem()))
		return n
	case reflect.Slice:
		if v.IsNil() {
			return v
		}
		n := reflect.MakeSlice(v.Type(), v.Len(), v.Len())
		for i := 0; i < v.Len(); i++ {
			n.Index(i).Set(cloneValue(v.Index(i)))
		}
		return n
	case reflect.Struct:
		n := reflect.New(v.Type()).Elem()
		for i := 0; i < v.NumField(); i++ {
			if n.Field(i).CanSet() {
				n.Field(i).Set(cloneValue(v.Field(i)))
			}
		}
		return n
	}
	return v
}

// pkgView is the (possibly already transformed) package the inliner works on.
type pkgView struct {
	Fset      *token.FileSet
	Syntax    []*ast.File
	TypesInfo *types.Info
	Types     *types.Package
}

type inliner struct {
	pkg          *pkgView
	known        map[string]bool // names of the pinned decomposition in this package
	decls        map[*types.Func]*ast.FuncDecl
	declFile     map[*types.Func]*ast.File
	eligible     map[*types.Func]bool
	callFuns     map[*ast.Ident]bool
	deferred     int // expansions put off to the next round (their callee was rewritten in this one)
	addedImports []addedImport
	seq          int
	curSig       *types.Signature // signature of the function declaration being rewritten
	curDecl      *ast.FuncDecl
	contLhs      []ast.Expr      // return-continuation inlining: variables the call's results are assigned to
	contRet      *ast.ReturnStmt // ... and the return statement that follows the call
	scopes       []*types.Scope  // lexical scopes enclosing the node being rewritten (innermost last)
	dispatch     *dispatch       // result-dispatch threading requested for the next expansion (dispatch.go)
	loops        []*loopCtx      // loops enclosing the statement being rewritten (innermost last)
	pendingLabel string          // label of the labelled statement whose loop is entered next
	closures     map[types.Object]*closureInfo
	count        int
	log          []string
	fset         *token.FileSet
}

// normSeq numbers the temporaries of all normalisation passes (one sequence, so that the names a later
// round introduces cannot collide with those of an earlier one in the same block).
var normSeq int

func funcKey(fn *types.Func) string {
	sig := fn.Type().(*types.Signature)
	if r := sig.Recv(); r != nil {
		t := r.Type()
		if p, ok := t.(*types.Pointer); ok {
			t = p.Elem()
		}
		if n, ok := t.(*types.Named); ok {
			return n.Obj().Name() + "." + fn.Name()
		}
	}
	return fn.Name()
}

// newInliner decides which functions of the package are inlinable.
func newInliner(pk *pkgView, known map[string]bool) *inliner {
	in := &inliner{pkg: pk, known: known, decls: map[*types.Func]*ast.FuncDecl{}, declFile: map[*types.Func]*ast.File{}, eligible: map[*types.Func]bool{}, fset: pk.Fset}
	for _, f := range pk.Syntax {
		for _, d := range f.Decls {
			fd, ok := d.(*ast.FuncDecl)
			if !ok || fd.Body == nil {
				continue
			}
			obj, _ := pk.TypesInfo.Defs[fd.Name].(*types.Func)
			if obj == nil {
				continue
			}
			in.decls[obj] = fd
			in.declFile[obj] = f
		}
	}
	calls := map[*types.Func][]*types.Func{}
	for obj, fd := range in.decls {
		ast.Inspect(fd.Body, func(n ast.Node) bool {
			if ce, ok := n.(*ast.CallExpr); ok {
				if c := in.calleeOf(ce); c != nil {
					calls[obj] = append(calls[obj], c)
				}
			}
			return true
		})
	}
	for obj, fd := range in.decls {
		if obj.Name() == "main" || obj.Name() == "init" || known[funcKey(obj)] {
			continue
		}
		if obj.Exported() {
			// part of the package's API, unless it is a method of an unexported type
			// (String, Error ... of a new helper type): those are inlined at their static
			// call sites but never removed, because they may also be reached through an interface
			rt := obj.Type().(*types.Signature).Recv()
			if rt == nil {
				continue
			}
			t := rt.Type()
			if p, ok := t.(*types.Pointer); ok {
				t = p.Elem()
			}
			if n, ok := t.(*types.Named); !ok || n.Obj().Exported() {
				continue
			}
		}
		sig := obj.Type().(*types.Signature)
		if sig.TypeParams() != nil || sig.RecvTypeParams() != nil {
			continue
		}
		bad := false
		nstmts := 0
		bad, nstmts = bodyInlinable(fd.Body)
		if bad || nstmts > 120 {
			continue
		}
		// recursion (direct or mutual) within the package
		seen := map[*types.Func]bool{}
		var reach func(f *types.Func) bool
		reach = func(f *types.Func) bool {
			for _, c := range calls[f] {
				if c == obj {
					return true
				}
				if !seen[c] {
					seen[c] = true
					if reach(c) {
						return true
					}
				}
			}
			return false
		}
		if reach(obj) {
			continue
		}
		// (a function that is also used as a value is still expanded where it is called; it is
		// only removed when nothing refers to it any more)
		in.eligible[obj] = true
	}
	return in
}

// bodyInlinable: the body has no defer, label, goto or recover of its own
// (nested function literals are separate functions and are not inspected).
func bodyInlinable(body *ast.BlockStmt) (bad bool, nstmts int) {
	ast.Inspect(body, func(n ast.Node) bool {
		switch x := n.(type) {
		case *ast.FuncLit:
			nstmts += 5
			return false
		case *ast.DeferStmt:
			bad = true
		case *ast.BranchStmt:
			// labelled break/continue stay inside the body (labels are renamed apart on every
			// expansion, freshenLabels); goto is not handled
			if x.Tok == token.GOTO {
				bad = true
			}
		case *ast.CallExpr:
			if id, ok := x.Fun.(*ast.Ident); ok && id.Name == "recover" {
				bad = true
			}
		case ast.Stmt:
			nstmts++
		}
		return true
	})
	return
}

// isCallFun: identifier id is the function operand of some call expression.
func (in *inliner) isCallFun(id *ast.Ident) bool {
	// by node identity, not position: cloned statements keep the positions of their originals
	if in.callFuns == nil {
		in.callFuns = map[*ast.Ident]bool{}
		for _, f := range in.pkg.Syntax {
			ast.Inspect(f, func(n ast.Node) bool {
				if ce, ok := n.(*ast.CallExpr); ok {
					switch fun := ce.Fun.(type) {
					case *ast.SelectorExpr:
						// a go/defer of it is not inlinable but is still a call
						in.callFuns[fun.Sel] = true
					case *ast.Ident:
						in.callFuns[fun] = true
					}
				}
				return true
			})
		}
	}
	return in.callFuns[id]
}

func (in *inliner) calleeOf(ce *ast.CallExpr) *types.Func {
	var id *ast.Ident
	switch f := ce.Fun.(type) {
	case *ast.Ident:
		id = f
	case *ast.SelectorExpr:
		id = f.Sel
	default:
		return nil
	}
	obj, _ := in.pkg.TypesInfo.Uses[id].(*types.Func)
	if obj == nil || obj.Pkg() != in.pkg.Types {
		return nil
	}
	return obj
}

// ---- capture / import checks ---------------------------------------------------

// curScope is the innermost lexical scope at the node being rewritten.
func (in *inliner) curScope() *types.Scope {
	if n := len(in.scopes); n > 0 {
		return in.scopes[n-1]
	}
	return nil
}

func (in *inliner) push(n ast.Node) bool {
	if n == nil || reflect.ValueOf(n).IsNil() {
		return false
	}
	if sc := in.pkg.TypesInfo.Scopes[n]; sc != nil {
		in.scopes = append(in.scopes, sc)
		return true
	}
	return false
}

func (in *inliner) pop(pushed bool) {
	if pushed {
		in.scopes = in.scopes[:len(in.scopes)-1]
	}
}

// freeNamesOK: every identifier of the callee body that refers to an object
// declared outside the callee (package level, universe, an imported package,
// or - for a local closure - a variable of the enclosing function) denotes
// the same object at the call site.  The call site's scope is the innermost
// enclosing lexical scope; names are looked up without regard to position, so
// a later declaration in the same block also blocks the inlining (conservative).
func (in *inliner) freeNamesOK(body ast.Node, inner func(types.Object) bool, callerFile *ast.File) bool {
	scope := in.curScope()
	if scope == nil {
		return false
	}
	ok := true
	sels := map[*ast.Ident]bool{}
	ast.Inspect(body, func(n ast.Node) bool {
		if se, isSel := n.(*ast.SelectorExpr); isSel {
			sels[se.Sel] = true
		}
		return true
	})
	ast.Inspect(body, func(n ast.Node) bool {
		id, isID := n.(*ast.Ident)
		if !isID || !ok {
			return ok
		}
		obj := in.pkg.TypesInfo.Uses[id]
		if obj == nil || sels[id] {
			return true // selected names (fields, methods, qualified identifiers) resolve through their operand
		}
		switch o := obj.(type) {
		case *types.PkgName:
			// the caller's file must import the same package under the same name
			same := false
			for _, imp := range callerFile.Imports {
				p := strings.Trim(imp.Path.Value, `"`)
				name := ""
				if imp.Name != nil {
					name = imp.Name.Name
				} else {
					for _, ip := range in.pkg.Types.Imports() {
						if ip.Path() == p {
							name = ip.Name()
						}
					}
				}
				if p == o.Imported().Path() && name == o.Name() {
					same = true
				}
			}
			if !same && !in.addImport(callerFile, o) {
				ok = false
				return false
			}
			// and no local shadows it
			if _, got := scope.LookupParent(id.Name, token.NoPos); got != nil {
				if pn, isPN := got.(*types.PkgName); !isPN || pn.Imported() != o.Imported() {
					ok = false
				}
			}
		default:
			if obj.Parent() == nil || inner(obj) {
				return true // fields and methods; the callee's own parameters and locals
			}
			if _, got := scope.LookupParent(id.Name, token.NoPos); got != obj {
				ok = false
				if os.Getenv("VERIF_DEBUG_NORM") != "" {
					fmt.Fprintf(os.Stderr, "normalise: free name %s resolves differently at the call site (%v vs %v)\n", id.Name, got, obj)
				}
			}
		}
		return ok
	})
	return ok
}

// addImport makes callerFile import o's package under o's name (a helper that moved to another file
// of the package may use packages its caller's file does not import); refused when the name is taken
// in the file or the package.  Imports that end up unused are dropped by dropUnusedImports.
func (in *inliner) addImport(callerFile *ast.File, o *types.PkgName) bool {
	name := o.Name()
	if name == "_" || name == "." || in.pkg.Types.Scope().Lookup(name) != nil {
		return false
	}
	for _, imp := range callerFile.Imports {
		p := strings.Trim(imp.Path.Value, `"`)
		n := ""
		if imp.Name != nil {
			n = imp.Name.Name
		} else {
			for _, ip := range in.pkg.Types.Imports() {
				if ip.Path() == p {
					n = ip.Name()
				}
			}
		}
		if n == name || n == "." {
			return false
		}
	}
	spec := &ast.ImportSpec{Path: &ast.BasicLit{Kind: token.STRING, Value: strconv.Quote(o.Imported().Path())}}
	if o.Imported().Name() != name {
		spec.Name = ast.NewIdent(name)
	}
	callerFile.Imports = append(callerFile.Imports, spec)
	callerFile.Decls = append([]ast.Decl{&ast.GenDecl{Tok: token.IMPORT, Specs: []ast.Spec{spec}}}, callerFile.Decls...)
	in.addedImports = append(in.addedImports, addedImport{callerFile, spec, name})
	return true
}

type addedImport struct {
	file *ast.File
	spec *ast.ImportSpec
	name string
}

// dropUnusedImports removes the imports added by addImport that no qualified identifier uses
// (the expansion they were added for was given up for another reason).
func (in *inliner) dropUnusedImports() {
	for _, a := range in.addedImports {
		used := false
		ast.Inspect(a.file, func(n ast.Node) bool {
			if se, ok := n.(*ast.SelectorExpr); ok {
				if id, ok := se.X.(*ast.Ident); ok && id.Name == a.name {
					used = true
				}
			}
			return !used
		})
		if used {
			continue
		}
		var imps []*ast.ImportSpec
		for _, s := range a.file.Imports {
			if s != a.spec {
				imps = append(imps, s)
			}
		}
		a.file.Imports = imps
		var decls []ast.Decl
		for _, d := range a.file.Decls {
			if gd, ok := d.(*ast.GenDecl); ok && gd.Tok == token.IMPORT && len(gd.Specs) == 1 && gd.Specs[0] == ast.Spec(a.spec) {
				continue
			}
			decls = append(decls, d)
		}
		a.file.Decls = decls
	}
	in.addedImports = nil
}

// freshenLabels gives every label declared in the (cloned) body a new name, so that the body can be
// placed several times in one function.
func (in *inliner) freshenLabels(body *ast.BlockStmt) {
	names := map[string]string{}
	ast.Inspect(body, func(n ast.Node) bool {
		switch x := n.(type) {
		case *ast.FuncLit:
			return false
		case *ast.LabeledStmt:
			in.seq++
			names[x.Label.Name] = fmt.Sprintf("__l%d_%s", in.seq, strings.TrimLeft(x.Label.Name, "_"))
		}
		return true
	})
	if len(names) == 0 {
		return
	}
	ast.Inspect(body, func(n ast.Node) bool {
		switch x := n.(type) {
		case *ast.FuncLit:
			return false
		case *ast.LabeledStmt:
			x.Label = ident(names[x.Label.Name])
		case *ast.BranchStmt:
			if x.Label != nil {
				if nn, ok := names[x.Label.Name]; ok {
					x.Label = ident(nn)
				}
			}
		}
		return true
	})
}

// rewrittenThisRound: the node contains an identifier the type checker has not seen, i.e. syntax
// produced by an expansion of the current round.
func (in *inliner) rewrittenThisRound(n ast.Node) bool {
	info := in.pkg.TypesInfo
	found := false
	ast.Inspect(n, func(m ast.Node) bool {
		if id, ok := m.(*ast.Ident); ok && id.Name != "_" {
			_, d := info.Defs[id]
			_, u := info.Uses[id]
			if !d && !u {
				found = true
			}
		}
		return !found
	})
	return found
}

// innerOfFunc: objects local to a declared function (anything that is neither
// package-level nor predeclared).
func (in *inliner) innerOfFunc() func(types.Object) bool {
	return func(o types.Object) bool {
		return o.Parent() != in.pkg.Types.Scope() && o.Parent() != types.Universe
	}
}

// typeExpr builds a syntax expression for type t valid in the caller's file;
// ok=false if a needed package is not imported there under its own name.
func (in *inliner) typeExpr(t types.Type, callerFile *ast.File) (ast.Expr, bool) {
	ok := true
	q := func(p *types.Package) string {
		if p == in.pkg.Types {
			return ""
		}
		for _, imp := range callerFile.Imports {
			path := strings.Trim(imp.Path.Value, `"`)
			if path == p.Path() {
				if imp.Name != nil {
					if imp.Name.Name == "_" || imp.Name.Name == "." {
						ok = false
					}
					return imp.Name.Name
				}
				return p.Name()
			}
		}
		ok = false
		return p.Name()
	}
	s := types.TypeString(t, q)
	if !ok {
		return nil, false
	}
	e, err := parser.ParseExpr(s)
	if err != nil {
		return nil, false
	}
	clearPos(e)
	return e, true
}

func clearPos(n ast.Node) {
	ast.Inspect(n, func(x ast.Node) bool {
		if id, ok := x.(*ast.Ident); ok {
			id.NamePos = token.NoPos
		}
		return true
	})
}

func ident(name string) *ast.Ident { return &ast.Ident{Name: name} }

// ---- expression inlining ----------------------------------------------------------

// singleReturnExpr: the callee body is exactly `return <expr>` (one result).
func singleReturnExpr(fd *ast.FuncDecl) ast.Expr {
	if len(fd.Body.List) != 1 {
		return nil
	}
	rs, ok := fd.Body.List[0].(*ast.ReturnStmt)
	if !ok || len(rs.Results) != 1 {
		return nil
	}
	hasLit := false
	ast.Inspect(rs.Results[0], func(n ast.Node) bool {
		if _, ok := n.(*ast.FuncLit); ok {
			hasLit = true
		}
		return true
	})
	if hasLit {
		return nil
	}
	return rs.Results[0]
}

// simpleArg: an argument that can be duplicated/moved without changing
// behaviour: identifiers, selector chains of identifiers, literals, &ident, *ident.
func simpleArg(e ast.Expr) bool {
	switch x := e.(type) {
	case *ast.Ident, *ast.BasicLit:
		return true
	case *ast.SelectorExpr:
		return simpleArg(x.X)
	case *ast.ParenExpr:
		return simpleArg(x.X)
	case *ast.UnaryExpr:
		return (x.Op == token.AND || x.Op == token.SUB) && simpleArg(x.X)
	case *ast.StarExpr:
		return simpleArg(x.X)
	}
	return false
}

// receiverArg returns the expression to bind to the callee's receiver parameter.
func (in *inliner) receiverArg(ce *ast.CallExpr, callee *types.Func) (ast.Expr, bool) {
	sel, ok := ce.Fun.(*ast.SelectorExpr)
	if !ok {
		return nil, false
	}
	s := in.pkg.TypesInfo.Selections[sel]
	if s == nil || len(s.Index()) != 1 {
		return nil, false
	}
	recvT := callee.Type().(*types.Signature).Recv().Type()
	xT := in.pkg.TypesInfo.TypeOf(sel.X)
	if xT == nil {
		return nil, false
	}
	_, wantPtr := recvT.(*types.Pointer)
	_, havePtr := xT.Underlying().(*types.Pointer)
	x := cloneAST(sel.X).(ast.Expr)
	switch {
	case wantPtr == havePtr:
		return x, true
	case wantPtr && !havePtr:
		return &ast.UnaryExpr{Op: token.AND, X: x}, true
	default:
		return &ast.StarExpr{X: &ast.ParenExpr{X: x}}, true
	}
}

// substituteClone deep-copies e, replacing every identifier (in expression
// position) that denotes a parameter by a parenthesised copy of its argument.
// The lookup uses the identifiers of the original tree (the type information
// knows only those), so the copy is made and substituted in one pass.
func (in *inliner) substituteClone(e ast.Expr, sub map[types.Object]ast.Expr) ast.Expr {
	return in.substituteCloneNode(e, sub).(ast.Expr)
}

func (in *inliner) substituteCloneNode(e ast.Node, sub map[types.Object]ast.Expr) ast.Node {
	if len(sub) == 0 {
		return cloneAST(e)
	}
	cloneIdentHook = func(id *ast.Ident) ast.Expr {
		if obj := in.pkg.TypesInfo.Uses[id]; obj != nil {
			if arg, ok := sub[obj]; ok {
				h := cloneIdentHook
				cloneIdentHook = nil
				var r ast.Expr = cloneAST(arg).(ast.Expr)
				if _, isID := arg.(*ast.Ident); !isID {
					r = &ast.ParenExpr{X: r}
				}
				cloneIdentHook = h
				return r
			}
		}
		return nil
	}
	defer func() { cloneIdentHook = nil }()
	return simplifyAddrSelections(cloneAST(e))
}

// simplifyAddrSelections rewrites (&x).f to x.f and *(&x) to x for an identifier x (the forms a
// parameter substituted by &x leaves behind); x is a variable, so both pairs are the same operand.
func simplifyAddrSelections(n ast.Node) ast.Node {
	addrOfIdent := func(e ast.Expr) *ast.Ident {
		u, ok := stripParens(e).(*ast.UnaryExpr)
		if !ok || u.Op != token.AND {
			return nil
		}
		id, _ := stripParens(u.X).(*ast.Ident)
		return id
	}
	return astutil.Apply(n, nil, func(c *astutil.Cursor) bool {
		switch x := c.Node().(type) {
		case *ast.SelectorExpr:
			if id := addrOfIdent(x.X); id != nil {
				x.X = id
			}
		case *ast.IndexExpr:
			// indexing through a pointer to an array
			if id := addrOfIdent(x.X); id != nil {
				x.X = id
			}
		case *ast.StarExpr:
			if id := addrOfIdent(x.X); id != nil {
				if _, isExpr := c.Parent().(ast.Expr); isExpr || c.Name() == "Lhs" || c.Name() == "Rhs" || c.Name() == "Args" || c.Name() == "Results" {
					c.Replace(id)
				}
			}
		}
		return true
	})
}

// tryExprInline: returns the replacement expression for call ce, or nil.
func (in *inliner) tryExprInline(ce *ast.CallExpr, file *ast.File) ast.Expr {
	callee := in.calleeOf(ce)
	if callee == nil || !in.eligible[callee] {
		return nil
	}
	fd := in.decls[callee]
	body := singleReturnExpr(fd)
	if body == nil {
		return nil
	}
	if in.rewrittenThisRound(fd.Body) {
		in.deferred++
		return nil
	}
	sig := callee.Type().(*types.Signature)
	sub := map[types.Object]ast.Expr{}
	bind := func(param *types.Var, name *ast.Ident, arg ast.Expr) bool {
		if !simpleArg(arg) {
			return false
		}
		a := arg
		at := in.pkg.TypesInfo.TypeOf(arg)
		if at == nil || in.pkg.TypesInfo.Types[arg].Value != nil || in.pkg.TypesInfo.Types[arg].IsNil() || !types.Identical(at, param.Type()) {
			te, ok := in.typeExpr(param.Type(), file)
			if !ok {
				return false
			}
			a = &ast.CallExpr{Fun: &ast.ParenExpr{X: te}, Args: []ast.Expr{cloneAST(arg).(ast.Expr)}}
		}
		if name != nil && name.Name != "_" {
			if obj := in.pkg.TypesInfo.Defs[name]; obj != nil {
				sub[obj] = a
			}
		}
		return true
	}
	if sig.Recv() != nil {
		ra, ok := in.receiverArg(ce, callee)
		if !ok || !simpleArg(ra) {
			return nil
		}
		if fd.Recv != nil && len(fd.Recv.List) == 1 && len(fd.Recv.List[0].Names) == 1 {
			if obj := in.pkg.TypesInfo.Defs[fd.Recv.List[0].Names[0]]; obj != nil {
				sub[obj] = ra
			}
		}
	}
	if sig.Variadic() {
		return nil // statement mode packs the extra arguments into a slice
	}
	i := 0
	for _, fld := range fd.Type.Params.List {
		names := fld.Names
		if len(names) == 0 {
			names = []*ast.Ident{nil}
		}
		for _, nm := range names {
			if i >= len(ce.Args) {
				return nil
			}
			if !bind(sig.Params().At(i), nm, ce.Args[i]) {
				return nil
			}
			i++
		}
	}
	if i != len(ce.Args) {
		return nil
	}
	if !in.freeNamesOK(fd.Body, in.innerOfFunc(), file) {
		return nil
	}
	e := in.substituteClone(body, sub)
	// the result has the callee's result type
	rt := sig.Results().At(0).Type()
	te, ok := in.typeExpr(rt, file)
	if !ok {
		return nil
	}
	in.count++
	in.log = append(in.log, fmt.Sprintf("expression-inlined %s at %s", funcKey(callee), in.fset.Position(ce.Pos())))
	if _, isIface := rt.Underlying().(*types.Interface); isIface {
		return &ast.ParenExpr{X: e}
	}
	if bt := in.pkg.TypesInfo.TypeOf(body); bt != nil && types.Identical(bt, rt) {
		return &ast.ParenExpr{X: e}
	}
	if b, ok := rt.(*types.Basic); ok && b.Kind() == types.Bool {
		return &ast.ParenExpr{X: e}
	}
	return &ast.CallExpr{Fun: &ast.ParenExpr{X: te}, Args: []ast.Expr{e}}
}

// ---- statement inlining --------------------------------------------------------------

// expandCall builds the statements that replace a call in statement context.
// results: names of fresh variables holding the results (declared by the returned statements).
func (in *inliner) expandCall(ce *ast.CallExpr, file *ast.File, depth int, stack map[*types.Func]bool) (stmts []ast.Stmt, results []string, ok bool) {
	return in.expandCallMode(ce, file, depth, stack, false)
}

// inlTarget describes the function whose body replaces a call: a declared
// function or method of the package, or a local closure bound once to a
// variable of the enclosing function.
type inlTarget struct {
	key   string
	ftype *ast.FuncType
	body  *ast.BlockStmt
	sig   *types.Signature
	recv  *ast.Ident // receiver name (methods), may be nil
	fn    *types.Func
	clo   *closureInfo
}

// closureInfo: `name := func(...) {...}` whose variable is only ever called.
type closureInfo struct {
	obj       types.Object
	lit       *ast.FuncLit
	def       *ast.AssignStmt
	remaining int // uses not yet expanded
}

func (in *inliner) targetOf(ce *ast.CallExpr) *inlTarget {
	if callee := in.calleeOf(ce); callee != nil {
		if !in.eligible[callee] {
			return nil
		}
		fd := in.decls[callee]
		t := &inlTarget{key: funcKey(callee), ftype: fd.Type, body: fd.Body, sig: callee.Type().(*types.Signature), fn: callee}
		if fd.Recv != nil && len(fd.Recv.List) == 1 && len(fd.Recv.List[0].Names) == 1 {
			t.recv = fd.Recv.List[0].Names[0]
		}
		return t
	}
	if id, ok := ce.Fun.(*ast.Ident); ok {
		if ci := in.closures[in.pkg.TypesInfo.Uses[id]]; ci != nil {
			sig, _ := in.pkg.TypesInfo.TypeOf(ci.lit).(*types.Signature)
			if sig == nil || sig.Variadic() {
				return nil
			}
			return &inlTarget{key: "closure " + id.Name, ftype: ci.lit.Type, body: ci.lit.Body, sig: sig, clo: ci}
		}
	}
	return nil
}

// rootIdent: the identifier at the root of a selector/index/deref/paren chain.
func rootIdent(e ast.Expr) *ast.Ident {
	for {
		switch x := e.(type) {
		case *ast.Ident:
			return x
		case *ast.ParenExpr:
			e = x.X
		case *ast.SelectorExpr:
			e = x.X
		case *ast.IndexExpr:
			e = x.X
		case *ast.StarExpr:
			e = x.X
		case *ast.SliceExpr:
			e = x.X
		default:
			return nil
		}
	}
}

// readOnlyIn: obj (a variable) is only read in n: never assigned (wholly or
// in part), incremented, address-taken (explicitly, by slicing an array or by
// a pointer-receiver method call) and, with noClosure, not mentioned in a
// function literal.
func (in *inliner) readOnlyIn(obj types.Object, n ast.Node, noClosure bool) bool {
	info := in.pkg.TypesInfo
	is := func(e ast.Expr) bool {
		// the variable whose own storage e designates: a selection or dereference through a
		// pointer designates the pointee, which is not part of the variable
		for {
			switch x := e.(type) {
			case *ast.ParenExpr:
				e = x.X
				continue
			case *ast.StarExpr:
				return false
			case *ast.SelectorExpr:
				if t := info.TypeOf(x.X); t != nil {
					if _, isPtr := t.Underlying().(*types.Pointer); isPtr {
						return false
					}
				}
				e = x.X
				continue
			case *ast.IndexExpr:
				if t := info.TypeOf(x.X); t != nil {
					if _, isPtr := t.Underlying().(*types.Pointer); isPtr {
						return false
					}
				}
				e = x.X
				continue
			}
			break
		}
		id := rootIdent(e)
		return id != nil && (info.Uses[id] == obj || info.Defs[id] == obj)
	}
	good := true
	lit := 0
	var stack []ast.Node
	ast.Inspect(n, func(m ast.Node) bool {
		if m == nil {
			if _, ok := stack[len(stack)-1].(*ast.FuncLit); ok {
				lit--
			}
			stack = stack[:len(stack)-1]
			return true
		}
		stack = append(stack, m)
		switch x := m.(type) {
		case *ast.FuncLit:
			lit++
		case *ast.Ident:
			if noClosure && lit > 0 && info.Uses[x] == obj {
				good = false
			}
		case *ast.AssignStmt:
			for _, l := range x.Lhs {
				if is(l) {
					if id, ok := l.(*ast.Ident); ok && info.Defs[id] == obj {
						continue // its own declaration
					}
					good = false
				}
			}
		case *ast.IncDecStmt:
			if is(x.X) {
				good = false
			}
		case *ast.RangeStmt:
			if (x.Key != nil && is(x.Key)) || (x.Value != nil && is(x.Value)) {
				if x.Tok == token.ASSIGN {
					good = false
				}
			}
		case *ast.UnaryExpr:
			if x.Op == token.AND && is(x.X) {
				good = false
			}
		case *ast.SliceExpr:
			if is(x.X) {
				if t := info.TypeOf(x.X); t != nil {
					if _, isArr := t.Underlying().(*types.Array); isArr {
						good = false
					}
				}
			}
		case *ast.SelectorExpr:
			if sel := info.Selections[x]; sel != nil && sel.Kind() == types.MethodVal && is(x.X) {
				if _, ptrRecv := sel.Obj().Type().(*types.Signature).Recv().Type().(*types.Pointer); ptrRecv {
					if _, isPtr := info.TypeOf(x.X).Underlying().(*types.Pointer); !isPtr {
						good = false // implicit &
					}
				}
			}
		}
		return true
	})
	return good
}

// declaresName: n declares an object called name (which would capture a substituted identifier).
func (in *inliner) declaresName(n ast.Node, name string) bool {
	found := false
	ast.Inspect(n, func(m ast.Node) bool {
		switch x := m.(type) {
		case *ast.Ident:
			if x.Name == name && in.pkg.TypesInfo.Defs[x] != nil {
				found = true
			}
		case *ast.AssignStmt:
			// declarations placed earlier in this round have no type information yet
			if x.Tok == token.DEFINE {
				for _, l := range x.Lhs {
					if id, ok := l.(*ast.Ident); ok && id.Name == name {
						found = true
					}
				}
			}
		case *ast.ValueSpec:
			for _, id := range x.Names {
				if id.Name == name {
					found = true
				}
			}
		case *ast.RangeStmt:
			if x.Tok == token.DEFINE {
				for _, e := range []ast.Expr{x.Key, x.Value} {
					if id, ok := e.(*ast.Ident); ok && id.Name == name {
						found = true
					}
				}
			}
		}
		return !found
	})
	return found
}

// sameNameArgument: the argument is a local variable of the caller that has the parameter's own name and
// type, neither is ever assigned (in the callee body / anywhere in the calling function): the binding
// `x := x` would only rename the variable apart from itself, which hides it from closures of the caller
// that captured it, so the body is left to refer to the caller's variable directly.
func (in *inliner) sameNameArgument(nm *ast.Ident, arg ast.Expr, pt types.Type, body *ast.BlockStmt) bool {
	info := in.pkg.TypesInfo
	id, ok := stripParens(arg).(*ast.Ident)
	if !ok || id.Name != nm.Name || in.curDecl == nil {
		return false
	}
	v, ok := info.Uses[id].(*types.Var)
	if !ok || v.IsField() || v.Parent() == in.pkg.Types.Scope() || !types.Identical(v.Type(), pt) {
		return false
	}
	pobj := info.Defs[nm]
	if pobj == nil || !in.readOnlyIn(pobj, body, false) || !in.readOnlyIn(v, in.curDecl.Body, false) {
		return false
	}
	// every mention of the name in the body is the parameter (nothing placed there this round)
	resolved := true
	ast.Inspect(body, func(m ast.Node) bool {
		if x, ok := m.(*ast.Ident); ok && x.Name == nm.Name {
			if info.Uses[x] != pobj && info.Defs[x] != pobj {
				if _, isSel := info.Uses[x].(*types.Var); !isSel || !info.Uses[x].(*types.Var).IsField() {
					resolved = false
				}
			}
		}
		return resolved
	})
	return resolved
}

// paramSubstitutable: the parameter can be replaced textually by its argument
// instead of being bound to a new variable, which keeps the caller's values
// recognisable:
//   - the argument names a package-level function (keeps calls through it static);
//   - the argument is &x for a variable x (the address of a variable is a stable value);
//   - the parameter is a struct or array passed by value, the argument is a local
//     variable that is only ever read in the calling function, and the callee only
//     reads the parameter (so the copy is unobservable).
//
// In every case the parameter is never assigned or address-taken in the body,
// and the body declares nothing with the argument's name.
func (in *inliner) paramSubstitutable(param types.Object, arg ast.Expr, body *ast.BlockStmt) bool {
	info := in.pkg.TypesInfo
	arg = stripParens(arg)
	var id *ast.Ident
	kind := ""
	switch x := arg.(type) {
	case *ast.Ident:
		id = x
		if f, ok := info.Uses[x].(*types.Func); ok && f.Type().(*types.Signature).Recv() == nil && f.Parent() == in.pkg.Types.Scope() {
			kind = "func"
		} else if v, ok := info.Uses[x].(*types.Var); ok && !v.IsField() && v.Parent() != in.pkg.Types.Scope() {
			switch v.Type().Underlying().(type) {
			case *types.Struct, *types.Array:
				kind = "value"
			}
		}
	case *ast.UnaryExpr:
		if y, ok := stripParens(x.X).(*ast.Ident); ok && x.Op == token.AND {
			if v, ok := info.Uses[y].(*types.Var); ok && !v.IsField() {
				id, kind = y, "addr"
			}
		}
	}
	if kind == "" || in.declaresName(body, id.Name) {
		return false
	}
	// statements placed in the body earlier in this round have no type information yet: a mention of
	// the parameter among them could not be substituted
	unresolved := false
	ast.Inspect(body, func(m ast.Node) bool {
		if x, ok := m.(*ast.Ident); ok && x.Name == param.Name() && info.Uses[x] == nil && info.Defs[x] == nil {
			unresolved = true
		}
		return !unresolved
	})
	if unresolved {
		return false
	}
	if !in.readOnlyIn(param, body, false) {
		return false
	}
	if kind == "value" {
		if in.curDecl == nil || !in.readOnlyAfterInit(info.Uses[id], in.curDecl) {
			return false
		}
	}
	return true
}

// readOnlyAfterInit: the local variable is assigned only by its declaration /
// simple assignments in statements of its own (never in part, never through a
// pointer, not mentioned in closures).  Whole-variable assignments are allowed:
// they cannot happen while the callee's body runs.
func (in *inliner) readOnlyAfterInit(obj types.Object, fd *ast.FuncDecl) bool {
	info := in.pkg.TypesInfo
	good := true
	lit := 0
	var stack []ast.Node
	ast.Inspect(fd.Body, func(m ast.Node) bool {
		if m == nil {
			if _, ok := stack[len(stack)-1].(*ast.FuncLit); ok {
				lit--
			}
			stack = stack[:len(stack)-1]
			return true
		}
		stack = append(stack, m)
		switch x := m.(type) {
		case *ast.FuncLit:
			lit++
		case *ast.Ident:
			if lit > 0 && info.Uses[x] == obj {
				good = false
			}
		case *ast.UnaryExpr:
			if id := rootIdent(x.X); x.Op == token.AND && id != nil && info.Uses[id] == obj {
				good = false
			}
		case *ast.SliceExpr:
			if id := rootIdent(x.X); id != nil && info.Uses[id] == obj {
				if t := info.TypeOf(x.X); t != nil {
					if _, isArr := t.Underlying().(*types.Array); isArr {
						good = false
					}
				}
			}
		case *ast.SelectorExpr:
			if sel := info.Selections[x]; sel != nil && sel.Kind() == types.MethodVal {
				if id := rootIdent(x.X); id != nil && info.Uses[id] == obj {
					if _, ptrRecv := sel.Obj().Type().(*types.Signature).Recv().Type().(*types.Pointer); ptrRecv {
						if _, isPtr := info.TypeOf(x.X).Underlying().(*types.Pointer); !isPtr {
							good = false
						}
					}
				}
			}
		}
		return true
	})
	return good
}

// expandCallMode with tail=true expands `return f(args)`: the callee's return
// statements are kept as return statements of the caller (same result types
// required), so that every exit of the helper stays a distinct exit.
func (in *inliner) expandCallMode(ce *ast.CallExpr, file *ast.File, depth int, stack map[*types.Func]bool, tail bool) (stmts []ast.Stmt, results []string, ok bool) {
	tg := in.targetOf(ce)
	if tg == nil || depth > 4 {
		return nil, nil, false
	}
	if os.Getenv("VERIF_DEBUG_NORM") != "" {
		defer func() {
			fmt.Fprintf(os.Stderr, "normalise: expand %s at %s: ok=%v\n", tg.key, in.fset.Position(ce.Pos()), ok)
		}()
	}
	sig := tg.sig
	disp := in.dispatch
	in.dispatch = nil
	inner := in.innerOfFunc()
	if tg.clo != nil {
		litScope := in.pkg.TypesInfo.Scopes[tg.clo.lit.Type]
		if litScope == nil {
			return nil, nil, false
		}
		inner = func(o types.Object) bool {
			for sc := o.Parent(); sc != nil; sc = sc.Parent() {
				if sc == litScope {
					return true
				}
			}
			return false
		}
	}
	if in.rewrittenThisRound(tg.body) {
		// the body holds statements placed earlier in this round, for which there is no type
		// information yet: none of the checks below could see into them.  The next round does it.
		in.deferred++
		return nil, nil, false
	}
	if !in.freeNamesOK(tg.body, inner, file) {
		return nil, nil, false
	}
	in.seq++
	tag := fmt.Sprintf("__inl%d", in.seq)
	// result temporaries
	for i := 0; i < sig.Results().Len(); i++ {
		te, tok := in.typeExpr(sig.Results().At(i).Type(), file)
		if !tok {
			return nil, nil, false
		}
		name := fmt.Sprintf("%s_r%d", tag, i)
		results = append(results, name)
		if tail {
			continue
		}
		stmts = append(stmts, &ast.DeclStmt{Decl: &ast.GenDecl{Tok: token.VAR, Specs: []ast.Spec{&ast.ValueSpec{Names: []*ast.Ident{ident(name)}, Type: te}}}})
	}
	var innerStmts []ast.Stmt
	// parameters (receiver first), one parallel short variable declaration
	var lhs []ast.Expr
	var rhs []ast.Expr
	var used []ast.Expr
	sub := map[types.Object]ast.Expr{}
	fresh := 0
	addParam := func(nm *ast.Ident, arg ast.Expr, pt types.Type) bool {
		name := ""
		if nm != nil && nm.Name != "_" {
			name = nm.Name
			if pobj := in.pkg.TypesInfo.Defs[nm]; pobj != nil && in.paramSubstitutable(pobj, arg, tg.body) {
				sub[pobj] = arg
				return true
			}
			if in.sameNameArgument(nm, arg, pt, tg.body) {
				return true
			}
		} else {
			fresh++
			name = fmt.Sprintf("%s_p%d", tag, fresh)
		}
		a := cloneAST(arg).(ast.Expr)
		at := in.pkg.TypesInfo.TypeOf(arg)
		// constants (possibly untyped) and nil take the parameter's type explicitly
		isConst := in.pkg.TypesInfo.Types[arg].Value != nil || in.pkg.TypesInfo.Types[arg].IsNil()
		if at == nil || isConst || !types.Identical(at, pt) {
			te, tok := in.typeExpr(pt, file)
			if !tok {
				return false
			}
			a = &ast.CallExpr{Fun: &ast.ParenExpr{X: te}, Args: []ast.Expr{a}}
		}
		lhs = append(lhs, ident(name))
		rhs = append(rhs, a)
		used = append(used, ident(name))
		return true
	}
	if sig.Recv() != nil {
		ra, rok := in.receiverArg(ce, tg.fn)
		if !rok {
			return nil, nil, false
		}
		nm := tg.recv
		// ra already has the receiver's type
		name := ""
		substituted := false
		if nm != nil && nm.Name != "_" {
			name = nm.Name
			if u, isAddr := stripParens(ra).(*ast.UnaryExpr); isAddr && u.Op == token.AND {
				// x.m() with a pointer receiver and a variable x: the receiver is &x (judged on the
				// call's own identifier, which the type information knows)
				if fsel, ok := ce.Fun.(*ast.SelectorExpr); ok {
					if oid, ok := stripParens(fsel.X).(*ast.Ident); ok {
						orig := &ast.UnaryExpr{Op: token.AND, X: oid}
						if pobj := in.pkg.TypesInfo.Defs[nm]; pobj != nil && in.paramSubstitutable(pobj, orig, tg.body) {
							sub[pobj] = orig
							substituted = true
						}
					}
				}
			}
		} else {
			fresh++
			name = fmt.Sprintf("%s_p%d", tag, fresh)
		}
		if !substituted && nm != nil && nm.Name != "_" {
			if fsel, ok := ce.Fun.(*ast.SelectorExpr); ok {
				if _, isID := stripParens(ra).(*ast.Ident); isID {
					if in.sameNameArgument(nm, stripParens(fsel.X), sig.Recv().Type(), tg.body) {
						substituted = true
					}
				}
			}
		}
		if !substituted {
			lhs = append(lhs, ident(name))
			rhs = append(rhs, ra)
			used = append(used, ident(name))
		}
	}
	i := 0
	for _, fld := range tg.ftype.Params.List {
		names := fld.Names
		if len(names) == 0 {
			names = []*ast.Ident{nil}
		}
		for _, nm := range names {
			if sig.Variadic() && i == sig.Params().Len()-1 && ce.Ellipsis == token.NoPos {
				// f(a, b, c) for f(xs ...T): xs is the slice []T{a, b, c} (nil when nothing is passed)
				pt := sig.Params().At(i).Type()
				te, tok := in.typeExpr(pt, file)
				if !tok {
					return nil, nil, false
				}
				var packed ast.Expr = &ast.CallExpr{Fun: &ast.ParenExpr{X: te}, Args: []ast.Expr{ident("nil")}}
				if len(ce.Args) > i {
					lit := &ast.CompositeLit{Type: te}
					for _, a := range ce.Args[i:] {
						lit.Elts = append(lit.Elts, cloneAST(a).(ast.Expr))
					}
					packed = lit
				}
				name := ""
				if nm != nil && nm.Name != "_" {
					name = nm.Name
				} else {
					fresh++
					name = fmt.Sprintf("%s_p%d", tag, fresh)
				}
				lhs = append(lhs, ident(name))
				rhs = append(rhs, packed)
				used = append(used, ident(name))
				i = len(ce.Args)
				if i < sig.Params().Len()-1 {
					return nil, nil, false
				}
				continue
			}
			if i >= len(ce.Args) {
				return nil, nil, false
			}
			if !addParam(nm, ce.Args[i], sig.Params().At(i).Type()) {
				return nil, nil, false
			}
			i++
		}
	}
	if i != len(ce.Args) {
		return nil, nil, false
	}
	if len(lhs) > 0 {
		innerStmts = append(innerStmts, &ast.AssignStmt{Lhs: lhs, Tok: token.DEFINE, Rhs: rhs})
		var blanks []ast.Expr
		for range used {
			blanks = append(blanks, ident("_"))
		}
		innerStmts = append(innerStmts, &ast.AssignStmt{Lhs: blanks, Tok: token.ASSIGN, Rhs: used})
	}
	// named results are locals of the callee
	var named []string
	if tg.ftype.Results != nil {
		k := 0
		for _, fld := range tg.ftype.Results.List {
			for _, nm := range fld.Names {
				if nm.Name == "_" {
					k++
					continue
				}
				te, tok := in.typeExpr(sig.Results().At(k).Type(), file)
				if !tok {
					return nil, nil, false
				}
				innerStmts = append(innerStmts, &ast.DeclStmt{Decl: &ast.GenDecl{Tok: token.VAR, Specs: []ast.Spec{&ast.ValueSpec{Names: []*ast.Ident{ident(nm.Name)}, Type: te}}}})
				innerStmts = append(innerStmts, &ast.AssignStmt{Lhs: []ast.Expr{ident("_")}, Tok: token.ASSIGN, Rhs: []ast.Expr{ident(nm.Name)}})
				named = append(named, nm.Name)
				k++
			}
			if len(fld.Names) == 0 {
				k++
			}
		}
	}
	// body with returns rewritten
	body := in.substituteCloneNode(tg.body, sub).(*ast.BlockStmt)
	in.freshenLabels(body)
	label := tag + "_L"
	okBody := true
	if disp != nil && (tail || sig.Results().Len() != 1) {
		disp = nil
	}
	if disp != nil {
		in.prepareDispatch(disp, tg, ce)
	}
	var rewriteList func(list []ast.Stmt) []ast.Stmt
	var rewriteStmt func(s ast.Stmt) []ast.Stmt
	rewriteStmt = func(s ast.Stmt) []ast.Stmt {
		switch x := s.(type) {
		case *ast.ReturnStmt:
			var out []ast.Stmt
			if tail {
				if len(x.Results) == 0 && len(results) > 0 {
					if len(named) != len(results) {
						okBody = false
						return nil
					}
					for k := range named {
						x.Results = append(x.Results, ident(named[k]))
					}
				}
				if in.contRet != nil {
					// `v, err := f(...); return g(v), err`: every return of f continues with its own copy
					// of the caller's return statement, so the exits stay distinct
					var lhs, used, blanks []ast.Expr
					anyNew := false
					for _, l := range in.contLhs {
						id := l.(*ast.Ident)
						lhs = append(lhs, ident(id.Name))
						if id.Name != "_" {
							anyNew = true
							used = append(used, ident(id.Name))
							blanks = append(blanks, ident("_"))
						}
					}
					tok := token.DEFINE
					if !anyNew {
						tok = token.ASSIGN
					}
					rhs := x.Results
					if len(rhs) == sig.Results().Len() {
						// give every value the callee's declared result type (nil and untyped constants need it)
						var typed []ast.Expr
						for k, e := range rhs {
							te, tok := in.typeExpr(sig.Results().At(k).Type(), file)
							if !tok {
								okBody = false
								return nil
							}
							typed = append(typed, &ast.CallExpr{Fun: &ast.ParenExpr{X: te}, Args: []ast.Expr{e}})
						}
						rhs = typed
					}
					blk := []ast.Stmt{&ast.AssignStmt{Lhs: lhs, Tok: tok, Rhs: rhs}}
					if anyNew {
						blk = append(blk, &ast.AssignStmt{Lhs: blanks, Tok: token.ASSIGN, Rhs: used})
					}
					blk = append(blk, cloneAST(in.contRet).(*ast.ReturnStmt))
					return []ast.Stmt{&ast.BlockStmt{List: blk}}
				}
				return []ast.Stmt{x}
			}
			if disp != nil {
				if moved := in.dispatchReturn(disp, x); moved != nil {
					return moved
				}
			}
			switch {
			case len(results) == 0:
			case len(x.Results) == 0:
				if len(named) != len(results) {
					okBody = false
					return nil
				}
				var l, r []ast.Expr
				for k := range results {
					l = append(l, ident(results[k]))
					r = append(r, ident(named[k]))
				}
				out = append(out, &ast.AssignStmt{Lhs: l, Tok: token.ASSIGN, Rhs: r})
			default:
				var l []ast.Expr
				for k := range results {
					l = append(l, ident(results[k]))
				}
				out = append(out, &ast.AssignStmt{Lhs: l, Tok: token.ASSIGN, Rhs: x.Results})
			}
			out = append(out, &ast.BranchStmt{Tok: token.BREAK, Label: ident(label)})
			return out
		case *ast.BlockStmt:
			x.List = rewriteList(x.List)
		case *ast.IfStmt:
			x.Body.List = rewriteList(x.Body.List)
			if x.Else != nil {
				r := rewriteStmt(x.Else)
				if len(r) == 1 {
					x.Else = r[0]
				} else {
					x.Else = &ast.BlockStmt{List: r}
				}
			}
		case *ast.ForStmt:
			x.Body.List = rewriteList(x.Body.List)
		case *ast.RangeStmt:
			x.Body.List = rewriteList(x.Body.List)
		case *ast.SwitchStmt:
			x.Body.List = rewriteList(x.Body.List)
		case *ast.TypeSwitchStmt:
			x.Body.List = rewriteList(x.Body.List)
		case *ast.SelectStmt:
			x.Body.List = rewriteList(x.Body.List)
		case *ast.CaseClause:
			x.Body = rewriteList(x.Body)
		case *ast.CommClause:
			x.Body = rewriteList(x.Body)
		}
		return []ast.Stmt{s}
	}
	rewriteList = func(list []ast.Stmt) []ast.Stmt {
		var out []ast.Stmt
		for _, s := range list {
			out = append(out, rewriteStmt(s)...)
		}
		return out
	}
	body.List = rewriteList(body.List)
	if !okBody {
		return nil, nil, false
	}
	if tail {
		innerStmts = append(innerStmts, body.List...)
		stmts = append(stmts, &ast.BlockStmt{List: innerStmts})
		in.count++
		if tg.clo != nil {
			tg.clo.remaining--
		}
		in.log = append(in.log, fmt.Sprintf("tail-inlined %s at %s", tg.key, in.fset.Position(ce.Pos())))
		return stmts, results, true
	}
	body.List = append(body.List, &ast.BranchStmt{Tok: token.BREAK, Label: ident(label)})
	innerStmts = append(innerStmts, &ast.LabeledStmt{Label: ident(label), Stmt: &ast.ForStmt{Body: body}})
	stmts = append(stmts, &ast.BlockStmt{List: innerStmts})
	in.count++
	if tg.clo != nil {
		tg.clo.remaining--
	}
	in.log = append(in.log, fmt.Sprintf("statement-inlined %s at %s", tg.key, in.fset.Position(ce.Pos())))
	return stmts, results, true
}

// hoistCalls: every expression is a plain identifier / literal or a call of an
// inlinable single-result callee; the calls are expanded (in order) in front
// of the statement and replaced by their result variables.  Plain identifiers
// of local variables cannot be changed by the callee, so evaluation order is
// preserved.
func (in *inliner) hoistCalls(exprs []ast.Expr, file *ast.File, depth int, stack map[*types.Func]bool) (pre []ast.Stmt, out []ast.Expr, ok bool) {
	hoisted := 0
	for _, e := range exprs {
		switch x := e.(type) {
		case *ast.Ident, *ast.BasicLit:
			out = append(out, e)
			continue
		default:
			_ = x
		}
		ce := asCall(e)
		if ce == nil {
			return nil, nil, false
		}
		for _, a := range ce.Args {
			if !simpleArg(a) {
				return nil, nil, false
			}
		}
		st, res, eok := in.expandCall(ce, file, depth, stack)
		if !eok || len(res) != 1 {
			return nil, nil, false
		}
		pre = append(pre, st...)
		out = append(out, ident(res[0]))
		hoisted++
	}
	return pre, out, hoisted > 0
}

// rotateReadAhead rewrites the read-ahead loop idiom
//
//	a, b := f(x)
//	for cond { body; a, b = f(x) }
//
// (the same call expression before the loop and as the last statement of its
// body, no continue in the body) into the equivalent read-at-the-top form
//
//	var a A; var b B
//	for { a, b = f(x); if !(cond) { break }; body }
//
// so that the loop has a single read site whose results are used directly.
// Both forms evaluate f(x), cond and body in exactly the same sequence.
func (in *inliner) rotateReadAhead(list []ast.Stmt, file *ast.File) []ast.Stmt {
	var out []ast.Stmt
	for i := 0; i < len(list); i++ {
		s := list[i]
		def, ok := s.(*ast.AssignStmt)
		if !ok || def.Tok != token.DEFINE || len(def.Rhs) != 1 || i+1 >= len(list) {
			out = append(out, s)
			continue
		}
		call, ok := def.Rhs[0].(*ast.CallExpr)
		loop, ok2 := list[i+1].(*ast.ForStmt)
		if !ok || !ok2 || loop.Init != nil || loop.Post != nil || loop.Cond == nil || len(loop.Body.List) == 0 {
			out = append(out, s)
			continue
		}
		last, ok := loop.Body.List[len(loop.Body.List)-1].(*ast.AssignStmt)
		if !ok || last.Tok != token.ASSIGN || len(last.Rhs) != 1 || len(last.Lhs) != len(def.Lhs) {
			out = append(out, s)
			continue
		}
		call2, ok := last.Rhs[0].(*ast.CallExpr)
		if !ok || !sameExpr(in, call, call2) {
			out = append(out, s)
			continue
		}
		good := true
		var decls []ast.Stmt
		for k := range def.Lhs {
			a, ok1 := def.Lhs[k].(*ast.Ident)
			b, ok2 := last.Lhs[k].(*ast.Ident)
			if !ok1 || !ok2 || a.Name == "_" || in.pkg.TypesInfo.Defs[a] == nil || in.pkg.TypesInfo.Uses[b] != in.pkg.TypesInfo.Defs[a] {
				good = false
				break
			}
			te, tok := in.typeExpr(in.pkg.TypesInfo.Defs[a].Type(), file)
			if !tok {
				good = false
				break
			}
			decls = append(decls, &ast.DeclStmt{Decl: &ast.GenDecl{Tok: token.VAR, Specs: []ast.Spec{&ast.ValueSpec{Names: []*ast.Ident{ident(a.Name)}, Type: te}}}})
		}
		// no continue that targets this loop, no labels
		if good {
			var scan func(n ast.Node, inner bool)
			scan = func(n ast.Node, inner bool) {
				ast.Inspect(n, func(m ast.Node) bool {
					switch x := m.(type) {
					case *ast.FuncLit:
						return false
					case *ast.LabeledStmt:
						good = false
					case *ast.BranchStmt:
						if x.Label != nil || x.Tok == token.GOTO {
							good = false
						}
						if x.Tok == token.CONTINUE && !inner {
							good = false
						}
					case *ast.ForStmt:
						if m != n {
							scan(x.Body, true)
							return false
						}
					case *ast.RangeStmt:
						scan(x.Body, true)
						return false
					}
					return good
				})
			}
			scan(loop.Body, false)
		}
		if !good {
			out = append(out, s)
			continue
		}
		var lhs []ast.Expr
		for _, l := range def.Lhs {
			lhs = append(lhs, ident(l.(*ast.Ident).Name))
		}
		read := &ast.AssignStmt{Lhs: lhs, Tok: token.ASSIGN, Rhs: []ast.Expr{call}}
		exit := &ast.IfStmt{Cond: &ast.UnaryExpr{Op: token.NOT, X: &ast.ParenExpr{X: loop.Cond}}, Body: &ast.BlockStmt{List: []ast.Stmt{&ast.BranchStmt{Tok: token.BREAK}}}}
		body := append([]ast.Stmt{read, exit}, loop.Body.List[:len(loop.Body.List)-1]...)
		out = append(out, decls...)
		out = append(out, &ast.ForStmt{Body: &ast.BlockStmt{List: body}})
		in.count++
		in.log = append(in.log, fmt.Sprintf("read-ahead loop rotated at %s", in.fset.Position(loop.Pos())))
		i++
	}
	return out
}

// sameExpr: two expressions are syntactically identical and their identifiers denote the same objects.
func sameExpr(in *inliner, a, b ast.Expr) bool {
	if types.ExprString(a) != types.ExprString(b) {
		return false
	}
	var ia, ib []*ast.Ident
	ast.Inspect(a, func(n ast.Node) bool {
		if id, ok := n.(*ast.Ident); ok {
			ia = append(ia, id)
		}
		_, lit := n.(*ast.FuncLit)
		return !lit
	})
	ast.Inspect(b, func(n ast.Node) bool {
		if id, ok := n.(*ast.Ident); ok {
			ib = append(ib, id)
		}
		_, lit := n.(*ast.FuncLit)
		return !lit
	})
	if len(ia) != len(ib) {
		return false
	}
	for i := range ia {
		oa, ob := in.pkg.TypesInfo.Uses[ia[i]], in.pkg.TypesInfo.Uses[ib[i]]
		if oa != ob {
			return false
		}
	}
	// literals are elided by ExprString: require none
	lit := false
	ast.Inspect(a, func(n ast.Node) bool {
		switch n.(type) {
		case *ast.BasicLit, *ast.CompositeLit, *ast.FuncLit:
			lit = true
		}
		return !lit
	})
	return !lit
}

// processList rewrites a statement list, expanding inlinable calls.
func (in *inliner) processList(list []ast.Stmt, file *ast.File, depth int) []ast.Stmt {
	list = in.rotateReadAhead(list, file)
	var out []ast.Stmt
	for i := 0; i < len(list); i++ {
		s := list[i]
		if i+1 < len(list) {
			if st, ok := in.tryReturnContinuation(s, list[i+1], file, depth); ok {
				out = append(out, st...)
				i++
				continue
			}
			if st, ok := in.tryNilDispatch(s, list[i+1], file, depth); ok {
				out = append(out, st...)
				i++
				continue
			}
		}
		out = append(out, in.processStmt(s, file, depth)...)
	}
	return out
}

// tryReturnContinuation: `a, b := f(x)` followed directly by `return <pure expressions over a, b>`.
func (in *inliner) tryReturnContinuation(s, next ast.Stmt, file *ast.File, depth int) ([]ast.Stmt, bool) {
	as, ok := s.(*ast.AssignStmt)
	ret, ok2 := next.(*ast.ReturnStmt)
	if !ok || !ok2 || as.Tok != token.DEFINE || len(as.Rhs) != 1 || len(ret.Results) == 0 {
		return nil, false
	}
	ce := asCall(as.Rhs[0])
	if ce == nil {
		return nil, false
	}
	tg := in.targetOf(ce)
	if tg == nil || tg.sig.Results().Len() != len(as.Lhs) || tg.sig.Results().Len() == 0 {
		return nil, false
	}
	defined := map[types.Object]bool{}
	for _, l := range as.Lhs {
		id, ok := l.(*ast.Ident)
		if !ok {
			return nil, false
		}
		if o := in.pkg.TypesInfo.Defs[id]; o != nil {
			defined[o] = true
		} else if id.Name != "_" {
			return nil, false // redeclaration of an existing variable: keep the ordinary path
		}
	}
	// the return statement is free of calls (conversions excepted) and receives, and the caller's
	// variables it mentions cannot be captured by declarations of the callee
	pure := true
	ast.Inspect(ret, func(n ast.Node) bool {
		switch x := n.(type) {
		case *ast.CallExpr:
			if tv, ok := in.pkg.TypesInfo.Types[x.Fun]; !ok || !tv.IsType() {
				pure = false
			}
		case *ast.UnaryExpr:
			if x.Op == token.ARROW {
				pure = false
			}
		case *ast.FuncLit:
			pure = false
		case *ast.Ident:
			if o := in.pkg.TypesInfo.Uses[x]; o != nil && !defined[o] {
				if v, isVar := o.(*types.Var); isVar && !v.IsField() && o.Parent() != in.pkg.Types.Scope() && in.declaresName(tg.body, x.Name) {
					pure = false
				}
			}
		}
		return pure
	})
	if !pure {
		return nil, false
	}
	// the callee's parameters must not shadow what the return statement reads either
	for _, fld := range tg.ftype.Params.List {
		for _, nm := range fld.Names {
			clash := false
			ast.Inspect(ret, func(n ast.Node) bool {
				if id, ok := n.(*ast.Ident); ok && id.Name == nm.Name {
					if o := in.pkg.TypesInfo.Uses[id]; o != nil && !defined[o] {
						clash = true
					}
				}
				return !clash
			})
			if clash {
				return nil, false
			}
		}
	}
	in.contLhs, in.contRet = as.Lhs, ret
	st, _, ok3 := in.expandCallMode(ce, file, depth, map[*types.Func]bool{}, true)
	in.contLhs, in.contRet = nil, nil
	if !ok3 {
		return nil, false
	}
	return st, true
}

func asCall(e ast.Expr) *ast.CallExpr {
	if p, ok := e.(*ast.ParenExpr); ok {
		return asCall(p.X)
	}
	ce, _ := e.(*ast.CallExpr)
	return ce
}

func (in *inliner) processStmt(s ast.Stmt, file *ast.File, depth int) []ast.Stmt {
	stack := map[*types.Func]bool{}
	idents := func(names []string) []ast.Expr {
		var out []ast.Expr
		for _, n := range names {
			out = append(out, ident(n))
		}
		return out
	}
	var pre []ast.Stmt
	// `if v := f(); cond {` / `switch v := f(); tag {` with an inlinable f: move the init statement
	// into an enclosing block (same scoping), where the ordinary statement rules apply
	{
		var init ast.Stmt
		switch x := s.(type) {
		case *ast.IfStmt:
			init = x.Init
		case *ast.SwitchStmt:
			init = x.Init
		}
		if as, ok := init.(*ast.AssignStmt); ok && len(as.Rhs) == 1 {
			if ce := asCall(as.Rhs[0]); ce != nil && in.targetOf(ce) != nil {
				switch x := s.(type) {
				case *ast.IfStmt:
					x.Init = nil
				case *ast.SwitchStmt:
					x.Init = nil
				}
				blk := &ast.BlockStmt{List: []ast.Stmt{as, s}}
				return in.processStmt(blk, file, depth)
			}
		}
	}
	// `switch { case !pred(x): … case …: … default: … }` with an expandable call in a case expression:
	// a tagless switch without fallthrough or break is an if/else-if chain (the cases are tried in order)
	if x, ok := s.(*ast.SwitchStmt); ok && x.Tag == nil && x.Init == nil {
		if chain, ok := in.switchToIfChain(x); ok {
			return in.processStmt(chain, file, depth)
		}
	}
	switch x := s.(type) {
	case *ast.SwitchStmt:
		if st, ok := in.dispatchSwitch(x, file, depth, stack); ok {
			return st
		}
	}
	switch x := s.(type) {
	case *ast.ExprStmt:
		if ce := asCall(x.X); ce != nil {
			if st, res, ok := in.expandCall(ce, file, depth, stack); ok {
				for _, r := range res {
					st = append(st, &ast.AssignStmt{Lhs: []ast.Expr{ident("_")}, Tok: token.ASSIGN, Rhs: []ast.Expr{ident(r)}})
				}
				return st
			}
		}
	case *ast.AssignStmt:
		if len(x.Rhs) == 1 && (x.Tok == token.ASSIGN || x.Tok == token.DEFINE) {
			if ce := asCall(x.Rhs[0]); ce != nil {
				if st, res, ok := in.expandCall(ce, file, depth, stack); ok && len(res) == len(x.Lhs) {
					return append(st, &ast.AssignStmt{Lhs: x.Lhs, Tok: x.Tok, Rhs: idents(res)})
				}
			}
		}
		if len(x.Rhs) > 1 && len(x.Rhs) == len(x.Lhs) && (x.Tok == token.ASSIGN || x.Tok == token.DEFINE) {
			if pre, ne, ok := in.hoistCalls(x.Rhs, file, depth, stack); ok {
				return append(pre, &ast.AssignStmt{Lhs: x.Lhs, Tok: x.Tok, Rhs: ne})
			}
		}
	case *ast.ReturnStmt:
		if len(x.Results) == 1 {
			if ce := asCall(x.Results[0]); ce != nil {
				if callee := in.calleeOf(ce); callee != nil && in.curSig != nil && in.curSig.Results().Len() > 0 &&
					types.Identical(callee.Type().(*types.Signature).Results(), in.curSig.Results()) {
					if st, _, ok := in.expandCallMode(ce, file, depth, stack, true); ok {
						return st
					}
				}
				if st, res, ok := in.expandCall(ce, file, depth, stack); ok && len(res) >= 1 {
					return append(st, &ast.ReturnStmt{Results: idents(res)})
				}
			}
		}
		if len(x.Results) > 1 {
			if pre, ne, ok := in.hoistCalls(x.Results, file, depth, stack); ok {
				return append(pre, &ast.ReturnStmt{Results: ne})
			}
		}
	case *ast.IfStmt:
		if x.Init == nil {
			cond := x.Cond
			neg := false
			if u, ok := cond.(*ast.UnaryExpr); ok && u.Op == token.NOT {
				cond, neg = u.X, true
			}
			if ce := asCall(cond); ce != nil {
				if st, ok := in.dispatchIf(x, ce, neg, file, depth, stack); ok {
					return st
				}
				if st, res, ok := in.expandCall(ce, file, depth, stack); ok && len(res) == 1 {
					var c ast.Expr = ident(res[0])
					if neg {
						c = &ast.UnaryExpr{Op: token.NOT, X: c}
					}
					x.Cond = c
					pre = append(pre, st...)
				}
			}
		}
	}
	// calls nested deeper in the statement's expressions
	pre = append(pre, in.hoistStmt(s, file, depth)...)
	// recurse into nested statement lists (tracking the lexical scopes)
	p1 := in.push(s)
	defer in.pop(p1)
	body := func(b *ast.BlockStmt) {
		if b == nil {
			return
		}
		p := in.push(b)
		b.List = in.processList(b.List, file, depth)
		in.pop(p)
	}
	switch x := s.(type) {
	case *ast.BlockStmt:
		// scope pushed above
		x.List = in.processList(x.List, file, depth)
	case *ast.IfStmt:
		body(x.Body)
		if x.Else != nil {
			r := in.processStmt(x.Else, file, depth)
			if len(r) == 1 {
				x.Else = r[0]
			} else {
				x.Else = &ast.BlockStmt{List: r}
			}
		}
	case *ast.ForStmt:
		lc := in.pushLoop()
		body(x.Body)
		in.popLoop()
		if lc.used && lc.generated {
			return append(pre, &ast.LabeledStmt{Label: ident(lc.label), Stmt: x})
		}
	case *ast.RangeStmt:
		lc := in.pushLoop()
		body(x.Body)
		in.popLoop()
		if lc.used && lc.generated {
			return append(pre, &ast.LabeledStmt{Label: ident(lc.label), Stmt: x})
		}
	case *ast.SwitchStmt:
		body(x.Body)
	case *ast.TypeSwitchStmt:
		body(x.Body)
	case *ast.SelectStmt:
		body(x.Body)
	case *ast.CaseClause:
		x.Body = in.processList(x.Body, file, depth)
	case *ast.CommClause:
		x.Body = in.processList(x.Body, file, depth)
	case *ast.LabeledStmt:
		switch x.Stmt.(type) {
		case *ast.ForStmt, *ast.RangeStmt:
			in.pendingLabel = x.Label.Name
		}
		r := in.processStmt(x.Stmt, file, depth)
		in.pendingLabel = ""
		if len(r) == 1 {
			x.Stmt = r[0]
		} else {
			x.Stmt = &ast.BlockStmt{List: r}
		}
	}
	return append(pre, s)
}

// hoistStmt hoists inlinable single-result calls out of the expressions of a
// simple statement (they are expanded in front of it and replaced by their
// result variable).  Calls are taken strictly in evaluation order and the
// hoisting stops at the first call, receive or conditionally evaluated operand
// that cannot be moved, so the order of all calls is preserved; operands that
// stay behind are plain reads of variables the hoisted call does not receive
// a pointer to.
func (in *inliner) hoistStmt(s ast.Stmt, file *ast.File, depth int) []ast.Stmt {
	h := &hoister{in: in, file: file, depth: depth, reads: map[string]bool{}, through: map[string]bool{}}
	// is there a call in the statement's own expressions that can be expanded?
	scan := func(e ast.Expr) {
		if e == nil {
			return
		}
		ast.Inspect(e, func(n ast.Node) bool {
			switch y := n.(type) {
			case *ast.FuncLit:
				return false
			case *ast.CallExpr:
				if in.targetOf(y) != nil {
					h.wantTemps = true
				}
			}
			return !h.wantTemps
		})
	}
	switch x := s.(type) {
	case *ast.ExprStmt:
		scan(x.X)
	case *ast.AssignStmt:
		for _, e := range x.Rhs {
			scan(e)
		}
	case *ast.ReturnStmt:
		for _, e := range x.Results {
			scan(e)
		}
	}
	switch x := s.(type) {
	case *ast.ExprStmt:
		h.walk(&x.X)
	case *ast.AssignStmt:
		opAssign := x.Tok != token.ASSIGN && x.Tok != token.DEFINE // x op= y reads x as well
		for _, l := range x.Lhs {
			if _, isID := l.(*ast.Ident); isID && !opAssign {
				continue // a plain variable is only written, after the right-hand side has been evaluated
			}
			if !h.pureReads(l) {
				return nil
			}
		}
		for i := range x.Rhs {
			if !h.walk(&x.Rhs[i]) {
				break
			}
		}
	case *ast.ReturnStmt:
		for i := range x.Results {
			if !h.walk(&x.Results[i]) {
				break
			}
		}
	case *ast.IfStmt:
		if x.Init == nil {
			h.walk(&x.Cond)
		}
	case *ast.SwitchStmt:
		if x.Init == nil && x.Tag != nil {
			h.walk(&x.Tag)
		}
	case *ast.SendStmt:
		if h.walk(&x.Chan) {
			h.walk(&x.Value)
		}
	case *ast.DeclStmt:
		if gd, ok := x.Decl.(*ast.GenDecl); ok && gd.Tok == token.VAR && len(gd.Specs) == 1 {
			if vs, ok := gd.Specs[0].(*ast.ValueSpec); ok {
				for i := range vs.Values {
					if !h.walk(&vs.Values[i]) {
						break
					}
				}
			}
		}
	}
	return h.pre
}

type hoister struct {
	in    *inliner
	file  *ast.File
	depth int
	pre   []ast.Stmt
	reads map[string]bool // identifiers read by operands that stay in the statement
	// through: those of them that are read through a selection, index or dereference (a callee handed
	// the same pointer, slice or map can change what such an operand yields; it cannot change the
	// variable itself)
	through map[string]bool
	// wantTemps: the statement contains an expandable call, so calls evaluated before it that cannot be
	// expanded are moved into temporaries (in order) instead of stopping the hoisting
	wantTemps bool
}

// tempHoist moves the call x (a statically resolved function or method with one result) into a
// temporary declared in front of the statement.  Operands evaluated earlier that stay behind are read
// later than before, so they must be local variables the call cannot reach: not package-level, never
// address-taken or captured, and not handed to the call through a pointer-like argument.
func (h *hoister) tempHoist(slot *ast.Expr, x *ast.CallExpr, snap, snapThrough map[string]bool) bool {
	info := h.in.pkg.TypesInfo
	var fid *ast.Ident
	switch f := x.Fun.(type) {
	case *ast.Ident:
		fid = f
	case *ast.SelectorExpr:
		fid = f.Sel
	}
	if fid == nil {
		return false
	}
	fn, ok := info.Uses[fid].(*types.Func)
	if !ok {
		return false
	}
	sig := fn.Type().(*types.Signature)
	if sig.Results().Len() != 1 || h.in.curDecl == nil {
		return false
	}
	if tv, ok := info.Types[x]; !ok || tv.Type == nil {
		return false
	}
	if h.in.curScope() == nil {
		return false
	}
	for name := range snap {
		_, obj := h.in.curScope().LookupParent(name, token.NoPos)
		v, isVar := obj.(*types.Var)
		if !isVar {
			if _, isConst := obj.(*types.Const); isConst || obj == nil {
				continue
			}
			if _, isPkg := obj.(*types.PkgName); isPkg {
				continue
			}
			if _, isFn := obj.(*types.Func); isFn {
				continue
			}
			if _, isNil := obj.(*types.Nil); isNil {
				continue
			}
			if _, isT := obj.(*types.TypeName); isT {
				continue
			}
			return false
		}
		if v.Parent() == h.in.pkg.Types.Scope() || v.IsField() {
			return false
		}
		if !h.in.neverAddressedOrCaptured(v, h.in.curDecl) {
			return false
		}
	}
	conflict := false
	for _, a := range x.Args {
		switch typeUnder(info.TypeOf(a)).(type) {
		case *types.Pointer, *types.Slice, *types.Map, *types.Chan, *types.Signature, *types.Interface:
			if reachesReads(a, snap, snapThrough) {
				conflict = true
			}
		}
	}
	if sel, ok := x.Fun.(*ast.SelectorExpr); ok && sig.Recv() != nil {
		if reachesReads(sel.X, snap, snapThrough) {
			conflict = true
		}
	}
	if conflict {
		return false
	}
	h.in.seq++
	name := fmt.Sprintf("__h%d", h.in.seq)
	h.pre = append(h.pre, &ast.AssignStmt{Lhs: []ast.Expr{ident(name)}, Tok: token.DEFINE, Rhs: []ast.Expr{x}})
	*slot = ident(name)
	h.reads, h.through = snap, snapThrough
	return true
}

// neverAddressedOrCaptured: the local variable is never the operand of &, never sliced as an array,
// never the receiver of a pointer method and never mentioned in a function literal.
func (in *inliner) neverAddressedOrCaptured(obj types.Object, fd *ast.FuncDecl) bool {
	info := in.pkg.TypesInfo
	good := true
	lit := 0
	var stack []ast.Node
	ast.Inspect(fd.Body, func(m ast.Node) bool {
		if m == nil {
			if _, ok := stack[len(stack)-1].(*ast.FuncLit); ok {
				lit--
			}
			stack = stack[:len(stack)-1]
			return true
		}
		stack = append(stack, m)
		switch x := m.(type) {
		case *ast.FuncLit:
			lit++
		case *ast.Ident:
			if lit > 0 && info.Uses[x] == obj {
				good = false
			}
		case *ast.UnaryExpr:
			if id := rootIdent(x.X); x.Op == token.AND && id != nil && info.Uses[id] == obj {
				good = false
			}
		case *ast.SliceExpr:
			if id := rootIdent(x.X); id != nil && info.Uses[id] == obj {
				if t := info.TypeOf(x.X); t != nil {
					if _, isArr := t.Underlying().(*types.Array); isArr {
						good = false
					}
				}
			}
		case *ast.SelectorExpr:
			if sel := info.Selections[x]; sel != nil && sel.Kind() == types.MethodVal {
				if id := rootIdent(x.X); id != nil && info.Uses[id] == obj {
					if _, ptrRecv := sel.Obj().Type().(*types.Signature).Recv().Type().(*types.Pointer); ptrRecv {
						if _, isPtr := info.TypeOf(x.X).Underlying().(*types.Pointer); !isPtr {
							good = false
						}
					}
				}
			}
		}
		return true
	})
	return good
}

// pureReads: e consists of identifiers, selectors, indexing, dereferences and
// literals only; its identifiers are recorded as reads.
func (h *hoister) pureReads(e ast.Expr) bool {
	ok := true
	ast.Inspect(e, func(n ast.Node) bool {
		switch x := n.(type) {
		case *ast.CallExpr, *ast.FuncLit, *ast.CompositeLit:
			ok = false
		case *ast.UnaryExpr:
			if x.Op == token.ARROW {
				ok = false
			}
		case *ast.SelectorExpr:
			// the selected name is not a variable read
			ast.Inspect(x.X, func(m ast.Node) bool {
				if id, isID := m.(*ast.Ident); isID {
					h.reads[id.Name] = true
					h.through[id.Name] = true
				}
				return true
			})
			if !h.pureReads(x.X) {
				ok = false
			}
			return false
		case *ast.Ident:
			h.reads[x.Name] = true
		}
		return ok
	})
	return ok
}

// hasEvent: e contains a call (other than a conversion or a pure builtin) or a receive.
func (h *hoister) hasEvent(e ast.Expr) bool {
	found := false
	ast.Inspect(e, func(n ast.Node) bool {
		switch x := n.(type) {
		case *ast.FuncLit:
			return false
		case *ast.UnaryExpr:
			if x.Op == token.ARROW {
				found = true
			}
		case *ast.CallExpr:
			if !h.isConversion(x) && !h.isPureBuiltin(x) {
				found = true
			}
		}
		return !found
	})
	return found
}

func (h *hoister) isConversion(ce *ast.CallExpr) bool {
	tv, ok := h.in.pkg.TypesInfo.Types[ce.Fun]
	return ok && tv.IsType()
}

func (h *hoister) isPureBuiltin(ce *ast.CallExpr) bool {
	fun := ce.Fun
	if p, ok := fun.(*ast.ParenExpr); ok {
		fun = p.X
	}
	id, ok := fun.(*ast.Ident)
	if !ok {
		return false
	}
	if _, isB := h.in.pkg.TypesInfo.Uses[id].(*types.Builtin); !isB {
		return false
	}
	switch id.Name {
	case "len", "cap", "min", "max", "real", "imag", "complex":
		return true
	}
	return false
}

// walk visits *slot in evaluation order; it returns false when hoisting must stop.
func (h *hoister) walk(slot *ast.Expr) bool {
	switch x := (*slot).(type) {
	case nil:
		return true
	case *ast.Ident:
		h.reads[x.Name] = true
		return true
	case *ast.BasicLit, *ast.FuncLit:
		return true
	case *ast.ParenExpr:
		return h.walk(&x.X)
	case *ast.SelectorExpr:
		h.markThrough(x.X)
		return h.walk(&x.X)
	case *ast.StarExpr:
		h.markThrough(x.X)
		return h.walk(&x.X)
	case *ast.TypeAssertExpr:
		return h.walk(&x.X)
	case *ast.UnaryExpr:
		if x.Op == token.ARROW {
			return false
		}
		return h.walk(&x.X)
	case *ast.BinaryExpr:
		if x.Op == token.LAND || x.Op == token.LOR {
			if !h.walk(&x.X) {
				return false
			}
			if h.hasEvent(x.Y) {
				return false // conditionally evaluated
			}
			return h.pureReads(x.Y)
		}
		return h.walk(&x.X) && h.walk(&x.Y)
	case *ast.IndexExpr:
		h.markThrough(x.X)
		return h.walk(&x.X) && h.walk(&x.Index)
	case *ast.SliceExpr:
		h.markThrough(x.X)
		return h.walk(&x.X) && h.walk(&x.Low) && h.walk(&x.High) && h.walk(&x.Max)
	case *ast.KeyValueExpr:
		return h.walk(&x.Value)
	case *ast.CompositeLit:
		_, isStruct := typeUnder(h.in.pkg.TypesInfo.TypeOf(x)).(*types.Struct)
		for i := range x.Elts {
			if kv, ok := x.Elts[i].(*ast.KeyValueExpr); ok {
				if !isStruct && !h.walk(&kv.Key) {
					return false
				}
				if !h.walk(&kv.Value) {
					return false
				}
				continue
			}
			if !h.walk(&x.Elts[i]) {
				return false
			}
		}
		return true
	case *ast.CallExpr:
		if h.isConversion(x) || h.isPureBuiltin(x) {
			for i := range x.Args {
				if !h.walk(&x.Args[i]) {
					return false
				}
			}
			return true
		}
		snap := map[string]bool{}
		for k := range h.reads {
			snap[k] = true
		}
		snapThrough := map[string]bool{}
		for k := range h.through {
			snapThrough[k] = true
		}
		// operands of the call: receiver, then arguments
		if sel, ok := x.Fun.(*ast.SelectorExpr); ok {
			if !h.walk(&sel.X) {
				return false
			}
		} else if _, ok := x.Fun.(*ast.Ident); !ok {
			return false
		}
		for i := range x.Args {
			if !h.walk(&x.Args[i]) {
				return false
			}
		}
		tg := h.in.targetOf(x)
		if tg == nil && h.wantTemps {
			// a call that cannot be expanded but precedes one that can: it moves into a temporary,
			// so that the order of the calls is kept
			if h.tempHoist(slot, x, snap, snapThrough) {
				return true
			}
			return false
		}
		if tg == nil || tg.sig.Results().Len() != 1 {
			return false
		}
		// the call must not be able to change what earlier operands (left behind) read
		conflict := false
		mention := func(e ast.Expr) {
			if reachesReads(e, snap, snapThrough) {
				conflict = true
			}
		}
		if sel, ok := x.Fun.(*ast.SelectorExpr); ok && tg.fn != nil && tg.sig.Recv() != nil {
			mention(sel.X)
		}
		for i, a := range x.Args {
			if i < tg.sig.Params().Len() {
				switch typeUnder(tg.sig.Params().At(i).Type()).(type) {
				case *types.Pointer, *types.Slice, *types.Map, *types.Chan, *types.Signature, *types.Interface:
					mention(a)
				}
			}
		}
		if tg.clo != nil && len(snap) > 0 {
			// a closure may change any variable it captures
			ast.Inspect(tg.clo.lit.Body, func(n ast.Node) bool {
				if id, ok := n.(*ast.Ident); ok && snap[id.Name] {
					conflict = true
				}
				return !conflict
			})
		}
		if conflict {
			return false
		}
		st, res, ok := h.in.expandCall(x, h.file, h.depth, map[*types.Func]bool{})
		if !ok || len(res) != 1 {
			return false
		}
		h.pre = append(h.pre, st...)
		*slot = ident(res[0])
		h.reads, h.through = snap, snapThrough
		return true
	}
	return false
}

// markThrough records that the variable at the root of e is read through a selection, index or dereference.
func (h *hoister) markThrough(e ast.Expr) {
	if id := rootIdent(e); id != nil {
		h.through[id.Name] = true
	}
}

// reachesReads: handing the pointer-like operand e to a call lets the callee change what an operand
// left behind yields: e mentions a variable that is read through a selection/index/dereference, or
// takes the address of a variable that is read at all.
func reachesReads(e ast.Expr, reads, through map[string]bool) bool {
	hit := false
	ast.Inspect(e, func(n ast.Node) bool {
		switch x := n.(type) {
		case *ast.Ident:
			if through[x.Name] {
				hit = true
			}
		case *ast.UnaryExpr:
			if x.Op == token.AND {
				if id := rootIdent(x.X); id != nil && reads[id.Name] {
					hit = true
				}
			}
		}
		return !hit
	})
	return hit
}

func typeUnder(t types.Type) types.Type {
	if t == nil {
		return nil
	}
	return t.Underlying()
}

// findClosures: `name := func(...) {...}` in fd whose variable is used only as
// the operand of plain calls (never reassigned, passed, deferred or started
// as a goroutine) and whose body is inlinable.
func (in *inliner) findClosures(fd *ast.FuncDecl) {
	in.closures = map[types.Object]*closureInfo{}
	cands := map[types.Object]*closureInfo{}
	ast.Inspect(fd.Body, func(n ast.Node) bool {
		as, ok := n.(*ast.AssignStmt)
		if !ok || as.Tok != token.DEFINE || len(as.Lhs) != len(as.Rhs) {
			return true
		}
		// also one of several variables of a parallel definition (a bound function parameter)
		for i := range as.Lhs {
			id, ok := as.Lhs[i].(*ast.Ident)
			lit, ok2 := as.Rhs[i].(*ast.FuncLit)
			if !ok || !ok2 || id.Name == "_" {
				continue
			}
			obj := in.pkg.TypesInfo.Defs[id]
			if obj == nil {
				continue
			}
			if bad, n := bodyInlinable(lit.Body); bad || n > 120 {
				continue
			}
			cands[obj] = &closureInfo{obj: obj, lit: lit, def: as}
		}
		return true
	})
	if len(cands) == 0 {
		return
	}
	// every use must be the function operand of a call that is not the call of a go/defer statement
	bad := map[types.Object]bool{}
	var stack []ast.Node
	ast.Inspect(fd.Body, func(n ast.Node) bool {
		if n == nil {
			stack = stack[:len(stack)-1]
			return true
		}
		if id, ok := n.(*ast.Ident); ok {
			if ci := cands[in.pkg.TypesInfo.Uses[id]]; ci != nil {
				good := false
				if len(stack) >= 1 {
					// `_ = f` keeps an otherwise unused variable alive: not a use
					if as, ok := stack[len(stack)-1].(*ast.AssignStmt); ok && as.Tok == token.ASSIGN && len(as.Lhs) == len(as.Rhs) {
						blank := false
						for i := range as.Rhs {
							if as.Rhs[i] == ast.Expr(id) {
								if l, ok := as.Lhs[i].(*ast.Ident); ok && l.Name == "_" {
									blank = true
								}
							}
						}
						if blank {
							stack = append(stack, n)
							return true
						}
					}
					if ce, ok := stack[len(stack)-1].(*ast.CallExpr); ok && ce.Fun == ast.Expr(id) {
						good = true
						if len(stack) >= 2 {
							switch stack[len(stack)-2].(type) {
							case *ast.GoStmt, *ast.DeferStmt:
								good = false
							}
						}
						// not from inside the closure itself or another function literal (the variable would be captured)
						for _, anc := range stack {
							if _, isLit := anc.(*ast.FuncLit); isLit {
								good = false
							}
						}
					}
				}
				if good {
					ci.remaining++
				} else {
					bad[ci.obj] = true
				}
			}
		}
		stack = append(stack, n)
		return true
	})
	for obj, ci := range cands {
		if !bad[obj] && ci.remaining > 0 {
			in.closures[obj] = ci
		}
	}
}

// dropExpandedClosures removes the definitions of closures all of whose calls were expanded (and the
// blank assignments that kept them alive).
func (in *inliner) dropExpandedClosures(fd *ast.FuncDecl) {
	gone := map[types.Object]bool{}
	for obj, ci := range in.closures {
		if ci.remaining == 0 {
			gone[obj] = true
		}
	}
	if len(gone) == 0 {
		return
	}
	info := in.pkg.TypesInfo
	astutil.Apply(fd.Body, func(c *astutil.Cursor) bool {
		as, ok := c.Node().(*ast.AssignStmt)
		if !ok || len(as.Lhs) != len(as.Rhs) {
			return true
		}
		var keepL, keepR []ast.Expr
		touched := false
		for i := range as.Lhs {
			drop := false
			switch as.Tok {
			case token.DEFINE:
				if id, ok := as.Lhs[i].(*ast.Ident); ok && gone[info.Defs[id]] {
					if _, isLit := as.Rhs[i].(*ast.FuncLit); isLit {
						drop = true
					}
				}
			case token.ASSIGN:
				if l, ok := as.Lhs[i].(*ast.Ident); ok && l.Name == "_" {
					if id, ok := as.Rhs[i].(*ast.Ident); ok && gone[info.Uses[id]] {
						drop = true
					}
				}
			}
			if drop {
				touched = true
				continue
			}
			keepL = append(keepL, as.Lhs[i])
			keepR = append(keepR, as.Rhs[i])
		}
		if !touched {
			return true
		}
		if len(keepL) == 0 {
			if c.Index() >= 0 {
				c.Delete()
			} else {
				c.Replace(&ast.EmptyStmt{})
			}
			return false
		}
		as.Lhs, as.Rhs = keepL, keepR
		return true
	}, nil)
}

// normalizePackage inlines new helpers in pk; returns the files to use and how
// many call sites were expanded.  The original syntax trees are mutated in
// place (they belong to this process only), after the eligible callee bodies
// have been cloned on demand.
func normalizePackage(pk *pkgView, known map[string]bool) (int, []string) {
	in := newInliner(pk, known)
	in.seq = normSeq
	defer func() { normSeq = in.seq }()
	for _, f := range pk.Syntax {
		// expression inlining first (any context), tracking lexical scopes
		in.scopes = nil
		var pushed []bool
		astutil.Apply(f, func(c *astutil.Cursor) bool {
			n := c.Node()
			var pd bool
			switch x := n.(type) {
			case *ast.FuncDecl:
				pd = in.push(x.Type)
			case *ast.FuncLit:
				pd = in.push(x.Type)
			case *ast.FuncType:
			default:
				pd = in.push(n)
			}
			if ce, ok := n.(*ast.CallExpr); ok {
				if repl := in.tryExprInline(ce, f); repl != nil {
					c.Replace(repl)
					in.pop(pd)
					return false
				}
			}
			pushed = append(pushed, pd)
			return true
		}, func(c *astutil.Cursor) bool {
			in.pop(pushed[len(pushed)-1])
			pushed = pushed[:len(pushed)-1]
			return true
		})
		for _, d := range f.Decls {
			fd, ok := d.(*ast.FuncDecl)
			if !ok || fd.Body == nil {
				continue
			}
			in.curSig = nil
			if obj, _ := pk.TypesInfo.Defs[fd.Name].(*types.Func); obj != nil {
				in.curSig, _ = obj.Type().(*types.Signature)
			}
			in.scopes = nil
			in.loops = nil
			in.curDecl = fd
			in.push(f)
			in.push(fd.Type)
			in.findClosures(fd)
			fd.Body.List = in.processList(fd.Body.List, f, 0)
			in.dropExpandedClosures(fd)
			in.closures = nil
		}
	}
	in.dropUnusedImports()
	sort.Strings(in.log)
	return in.count, in.log
}

// recheck type-checks a (transformed) package against the given import map.
func recheck(path string, fset *token.FileSet, files []*ast.File, imp map[string]*types.Package, sizes types.Sizes) (*types.Package, *types.Info, error) {
	info := &types.Info{
		Types:        map[ast.Expr]types.TypeAndValue{},
		Defs:         map[*ast.Ident]types.Object{},
		Uses:         map[*ast.Ident]types.Object{},
		Implicits:    map[ast.Node]types.Object{},
		Instances:    map[*ast.Ident]types.Instance{},
		Scopes:       map[ast.Node]*types.Scope{},
		Selections:   map[*ast.SelectorExpr]*types.Selection{},
		FileVersions: map[*ast.File]string{},
	}
	var firstErr error
	conf := types.Config{
		Importer: importerFunc(func(p string) (*types.Package, error) {
			if p == "unsafe" {
				return types.Unsafe, nil
			}
			if tp, ok := imp[p]; ok && tp != nil {
				return tp, nil
			}
			return nil, fmt.Errorf("package %q not loaded", p)
		}),
		Sizes: sizes,
		Error: func(err error) {
			if firstErr == nil {
				firstErr = err
			}
		},
	}
	tp, _ := conf.Check(path, fset, files, info)
	if firstErr != nil {
		return nil, nil, firstErr
	}
	return tp, info, nil
}

type importerFunc func(path string) (*types.Package, error)

func (f importerFunc) Import(path string) (*types.Package, error) { return f(path) }

// switchToIfChain rewrites a tagless switch as an if/else-if chain when one of its case expressions
// contains a call of an expandable helper (otherwise there is nothing to gain) and the rewrite is exact:
// no fallthrough, and no break that would leave the switch (after the rewrite it would leave an enclosing loop).
func (in *inliner) switchToIfChain(x *ast.SwitchStmt) (ast.Stmt, bool) {
	if x.Body == nil || len(x.Body.List) == 0 {
		return nil, false
	}
	gain := false
	var clauses []*ast.CaseClause
	var def *ast.CaseClause
	for _, st := range x.Body.List {
		cc, ok := st.(*ast.CaseClause)
		if !ok {
			return nil, false
		}
		if cc.List == nil {
			def = cc
		} else {
			clauses = append(clauses, cc)
			for _, e := range cc.List {
				ast.Inspect(e, func(n ast.Node) bool {
					if ce, ok := n.(*ast.CallExpr); ok && in.targetOf(ce) != nil {
						gain = true
					}
					return true
				})
			}
		}
		bad := false
		var walk func(n ast.Node, breakable bool)
		walk = func(n ast.Node, breakable bool) {
			ast.Inspect(n, func(m ast.Node) bool {
				if bad || m == nil {
					return false
				}
				switch y := m.(type) {
				case *ast.FuncLit:
					return false
				case *ast.BranchStmt:
					if y.Tok == token.FALLTHROUGH || y.Tok == token.GOTO {
						bad = true
					}
					if y.Tok == token.BREAK && (y.Label != nil || !breakable) {
						bad = true
					}
				case *ast.ForStmt, *ast.RangeStmt, *ast.SwitchStmt, *ast.TypeSwitchStmt, *ast.SelectStmt:
					if m != n {
						walk2 := m
						// breaks inside belong to the inner construct
						ast.Inspect(walk2, func(k ast.Node) bool {
							if b, ok := k.(*ast.BranchStmt); ok && (b.Tok == token.FALLTHROUGH && false || b.Tok == token.GOTO || (b.Tok == token.BREAK && b.Label != nil)) {
								bad = true
							}
							return !bad
						})
						return false
					}
				}
				return true
			})
		}
		for _, b := range cc.Body {
			walk(b, false)
		}
		if bad {
			return nil, false
		}
	}
	if !gain || len(clauses) == 0 {
		return nil, false
	}
	var tail ast.Stmt
	if def != nil {
		tail = &ast.BlockStmt{List: def.Body}
	}
	for i := len(clauses) - 1; i >= 0; i-- {
		cc := clauses[i]
		var cond ast.Expr
		for _, e := range cc.List {
			var pe ast.Expr = &ast.ParenExpr{X: e}
			if cond == nil {
				cond = pe
			} else {
				cond = &ast.BinaryExpr{X: cond, Op: token.LOR, Y: pe}
			}
		}
		ifs := &ast.IfStmt{Cond: cond, Body: &ast.BlockStmt{List: cc.Body}}
		if tail != nil {
			ifs.Else = tail
		}
		tail = ifs
	}
	in.log = append(in.log, "tagless switch rewritten as an if/else-if chain")
	return tail, true
}
