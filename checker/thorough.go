package main

// Thorough-tier extras shared by all properties (filled in incrementally).

func thorough(c *Ctx) {}

func loadMutantOverlay(verif, repo, name string) (map[string][]byte, error) {
	return nil, nil
}

// debugAff prints the facts known at each block of a function (diagnostics).
func debugAff(p *Prog, pkg, name string) {
	fn := p.Func(pkg, name)
	if fn == nil {
		println("no such function")
		return
	}
	a := NewAff(p)
	for _, b := range fn.Blocks {
		println("block", b.Index, b.Comment)
		for _, f := range a.FactsAt(b) {
			println("   ", f.String())
		}
	}
	println("loop invariants:")
	for _, f := range a.loopInvariants(fn) {
		println("   ", f.String())
	}
	for _, callee := range []string{"eatUntilStartOfFrame"} {
		if g := p.Func(pkg, callee); g != nil {
			if e := a.ensuresOf(g); e != nil {
				println("ensures of", callee)
				for _, c := range e.cons {
					println("   ", c.String())
				}
			}
		}
	}
}
