package main

// Thorough-tier extras shared by all properties (filled in incrementally).

func thorough(c *Ctx) {}

func loadMutantOverlay(verif, repo, name string) (map[string][]byte, error) {
	return nil, nil
}
