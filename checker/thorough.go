package main

// Thorough-tier extras: call-graph cross-check, build-coverage reload,
// compiler bounds-check cross-reference (C07), sensitivity matrix over the
// in-memory mutants, cross-reference tool counts.

import (
	"bytes"
	"encoding/json"
	"fmt"
	"os"
	"os/exec"
	"path/filepath"
	"regexp"
	"sort"
	"strings"
	"sync"

	"golang.org/x/tools/go/ssa"
)

type mutantDef struct {
	ID       string `json:"id"`
	Property string `json:"property"`
	File     string `json:"file"`
	Old      string `json:"old"`
	New      string `json:"new"`
	Nth      int    `json:"nth"`
	Expect   string `json:"expect"`
}

func loadMutants(verif string) ([]mutantDef, error) {
	b, err := os.ReadFile(filepath.Join(verif, "mutants", "mutants.json"))
	if err != nil {
		return nil, err
	}
	var m []mutantDef
	if err := json.Unmarshal(b, &m); err != nil {
		return nil, err
	}
	return m, nil
}

// loadMutantOverlay builds the packages.Config overlay for one named mutant.
func loadMutantOverlay(verif, repo, name string) (map[string][]byte, error) {
	if name == "" {
		return nil, nil
	}
	ms, err := loadMutants(verif)
	if err != nil {
		return nil, err
	}
	for _, m := range ms {
		if m.ID != name {
			continue
		}
		path := filepath.Join(repo, m.File)
		src, err := os.ReadFile(path)
		if err != nil {
			return nil, err
		}
		s := string(src)
		if strings.Count(s, m.Old) < 1 {
			return nil, fmt.Errorf("INAPPLICABLE mutant %s: pattern not found in %s", name, m.File)
		}
		idx := -1
		from := 0
		for k := 0; k <= m.Nth; k++ {
			j := strings.Index(s[from:], m.Old)
			if j < 0 {
				return nil, fmt.Errorf("INAPPLICABLE mutant %s: occurrence %d not found", name, m.Nth)
			}
			idx = from + j
			from = idx + len(m.Old)
		}
		out := s[:idx] + m.New + s[idx+len(m.Old):]
		return map[string][]byte{path: []byte(out)}, nil
	}
	return nil, fmt.Errorf("no mutant named %q", name)
}

func thorough(c *Ctx) {
	P := c.P
	// 1. call-graph cross-check: CHA (used by the rules) must be a superset of VTA
	roots := c07Roots(&Ctx{P: P, ruleCount: map[string]int{}, seenKeys: map[string]bool{}, Extra: map[string]interface{}{}}, "x")
	if len(roots) > 0 {
		cha := P.ReachableModule(roots)
		vta := P.VTA()
		n := 0
		seen := map[*ssa.Function]bool{}
		var walk func(f *ssa.Function)
		walk = func(f *ssa.Function) {
			if seen[f] {
				return
			}
			seen[f] = true
			if P.InModule(f) {
				n++
			}
			if node := vta.Nodes[f]; node != nil {
				for _, e := range node.Out {
					if P.InModule(e.Callee.Func) {
						walk(e.Callee.Func)
					}
				}
			}
		}
		for _, r := range roots {
			walk(r)
		}
		missing := 0
		for f := range seen {
			if P.InModule(f) && f.Synthetic == "" && !cha[f] {
				missing++
			}
		}
		c.Extra["callgraph_crosscheck"] = map[string]int{"cha_reachable_module_functions": len(cha), "vta_reachable_module_functions": n, "in_vta_not_in_cha": missing}
	}
	// 2. build coverage: reload for a 32-bit target; the package/function sets must match
	c.Extra["build_coverage"] = buildCoverage(c)
	// 3. C07: compiler bounds-check cross-reference
	if c.Property == "C07" {
		c.Extra["bce_crosscheck"] = bceCrossCheck(c)
	}
	// 4. sensitivity matrix
	c.Extra["mutants"] = runMutantMatrix(c)
	// 4b. the confirmed seeded changes for this property (seeded/<id>/patch.diff), applied to scratch copies
	c.Extra["seeded_changes"] = runSeededMatrix(c)
	// 5. cross-reference tools (counts only; nothing they report decides a property)
	c.Extra["cross_reference"] = crossReference(c)
}

func buildCoverage(c *Ctx) map[string]interface{} {
	out := map[string]interface{}{}
	os.Setenv("VERIF_GOARCH", "386")
	p2, err := LoadProg(c.P.Repo, nil)
	os.Unsetenv("VERIF_GOARCH")
	if err != nil {
		out["goarch_386"] = "load failed: " + err.Error()
		return out
	}
	out["goarch_386_packages"] = len(p2.Pkgs)
	out["goarch_386_functions"] = len(p2.modFns)
	out["default_packages"] = len(c.P.Pkgs)
	out["default_functions"] = len(c.P.modFns)
	out["same_function_set"] = len(p2.modFns) == len(c.P.modFns) && len(p2.Pkgs) == len(c.P.Pkgs)
	return out
}

// bceCrossCheck compiles (does not run) the rtcm packages with the compiler's
// bounds-check debug output and verifies that every bounds check the compiler
// could not eliminate, inside a function reachable from the C07 roots, is one
// of the enumerated index/slice obligations (by source position).
func bceCrossCheck(c *Ctx) map[string]interface{} {
	out := map[string]interface{}{}
	cache, err := os.MkdirTemp("", "verif-gocache-")
	if err != nil {
		out["error"] = err.Error()
		return out
	}
	defer os.RemoveAll(cache)
	cmd := exec.Command("go", "build", "-gcflags=all=-d=ssa/check_bce/debug=1", "./rtcm/...")
	cmd.Dir = c.P.Repo
	cmd.Env = append(os.Environ(), "GOFLAGS=-mod=readonly", "GOCACHE="+cache, "GOPROXY=off", "GOWORK=off", "GOTOOLCHAIN=local")
	var buf bytes.Buffer
	cmd.Stdout, cmd.Stderr = &buf, &buf
	cmd.Run()
	re := regexp.MustCompile(`(?m)^(\S+\.go):(\d+):(\d+): Found Is(Slice)?InBounds`)
	// obligation positions (file:line) from this run
	have := map[string]bool{}
	for _, o := range c.Obligs {
		if strings.Contains(o.Key, ":index(") || strings.Contains(o.Key, ":slice(") || strings.Contains(o.Key, "requires(") {
			if i := strings.LastIndex(o.Pos, ":"); i > 0 {
				have[o.Pos[:i]] = true
			}
		}
	}
	// functions analysed: by file+line ranges
	type span struct {
		file     string
		from, to int
	}
	var spans []span
	roots := c07Roots(&Ctx{P: c.P, ruleCount: map[string]int{}, seenKeys: map[string]bool{}, Extra: map[string]interface{}{}}, "x")
	for f := range c.P.ReachableModule(roots) {
		if d := c.P.fnDecl[f]; d != nil {
			a, b := c.P.Fset.Position(d.Pos()), c.P.Fset.Position(d.End())
			rel, _ := filepath.Rel(c.P.Repo, a.Filename)
			spans = append(spans, span{rel, a.Line, b.Line})
		}
	}
	total, inReach, matched := 0, 0, 0
	var unmatched []string
	for _, m := range re.FindAllStringSubmatch(buf.String(), -1) {
		file := m[1]
		if strings.HasPrefix(file, "./") {
			file = file[2:]
		}
		if filepath.IsAbs(file) {
			if r, err := filepath.Rel(c.P.Repo, file); err == nil {
				file = r
			}
		}
		if !strings.HasPrefix(file, "rtcm/") {
			continue
		}
		total++
		var line int
		fmt.Sscanf(m[2], "%d", &line)
		in := false
		for _, s := range spans {
			if s.file == file && line >= s.from && line <= s.to {
				in = true
			}
		}
		if !in {
			continue
		}
		inReach++
		// our positions are file:line:col of the SSA instruction; compare by file:line
		ok := false
		for k := range have {
			if strings.HasPrefix(k, file+":"+m[2]) {
				ok = true
			}
		}
		if ok {
			matched++
		} else {
			unmatched = append(unmatched, file+":"+m[2]+":"+m[3])
		}
	}
	sort.Strings(unmatched)
	out["compiler_unproven_bounds_checks_in_rtcm"] = total
	out["of_which_in_reachable_functions"] = inReach
	out["matched_to_an_obligation"] = matched
	out["unmatched"] = unmatched
	return out
}

func runMutantMatrix(c *Ctx) map[string]interface{} {
	out := map[string]interface{}{}
	ms, err := loadMutants(c.Verifdir)
	if err != nil {
		out["error"] = err.Error()
		return out
	}
	self, err := os.Executable()
	if err != nil {
		out["error"] = err.Error()
		return out
	}
	var mine []mutantDef
	for _, m := range ms {
		if m.Property == c.Property {
			mine = append(mine, m)
		}
	}
	type res struct {
		id, status, detail string
	}
	results := make([]res, len(mine))
	sem := make(chan struct{}, 6)
	var wg sync.WaitGroup
	for i, m := range mine {
		wg.Add(1)
		go func(i int, m mutantDef) {
			defer wg.Done()
			sem <- struct{}{}
			defer func() { <-sem }()
			tmp, _ := os.MkdirTemp("", "verif-mut-")
			defer os.RemoveAll(tmp)
			cmd := exec.Command(self, "-property", c.Property, "-tier", "quick", "-repo", c.P.Repo, "-verif", c.Verifdir, "-mutant", m.ID)
			cmd.Env = append(os.Environ(), "VERIF_OUT="+tmp)
			var buf bytes.Buffer
			cmd.Stdout, cmd.Stderr = &buf, &buf
			err := cmd.Run()
			o := buf.String()
			switch {
			case strings.Contains(o, "INAPPLICABLE"):
				results[i] = res{m.ID, "inapplicable", "pattern no longer present"}
			case strings.Contains(o, "package errors"):
				results[i] = res{m.ID, "inapplicable", "variant does not type-check"}
			case err != nil && strings.Contains(o, m.Expect):
				results[i] = res{m.ID, "killed", "reported " + m.Expect}
			case err != nil:
				results[i] = res{m.ID, "killed-other-rule", firstViolationKey(o)}
			default:
				results[i] = res{m.ID, "survived", ""}
			}
		}(i, m)
	}
	wg.Wait()
	counts := map[string]int{}
	var list []string
	for _, r := range results {
		counts[r.status]++
		list = append(list, r.id+": "+r.status+" "+r.detail)
	}
	out["applied"] = len(mine)
	out["counts"] = counts
	out["results"] = list
	return out
}

// runSeededMatrix: every confirmed property-breaking change stored under
// seeded/ for this property is applied to a scratch copy of the tree under
// analysis (outside /repo and /verif, removed afterwards) and the quick check
// is run on the copy; it must report a violation.  A patch that no longer
// applies to the tree (the tree has moved on) is counted as inapplicable.
// This exercises the checker, not the tree: survivors are evidence, not violations.
func runSeededMatrix(c *Ctx) map[string]interface{} {
	out := map[string]interface{}{}
	dirs, _ := filepath.Glob(filepath.Join(c.Verifdir, "seeded", c.Property+"-*"))
	sort.Strings(dirs)
	self, err := os.Executable()
	if err != nil || len(dirs) == 0 {
		out["applied"] = 0
		return out
	}
	type res struct{ id, status, detail string }
	results := make([]res, len(dirs))
	sem := make(chan struct{}, 4)
	var wg sync.WaitGroup
	for i, d := range dirs {
		wg.Add(1)
		go func(i int, d string) {
			defer wg.Done()
			sem <- struct{}{}
			defer func() { <-sem }()
			id := filepath.Base(d)
			tmp, err := os.MkdirTemp("", "verif-seed-")
			if err != nil {
				results[i] = res{id, "error", err.Error()}
				return
			}
			defer os.RemoveAll(tmp)
			tree := filepath.Join(tmp, "tree")
			// copy the working tree without its git metadata
			cp := exec.Command("rsync", "-a", "--exclude", ".git", c.P.Repo+"/", tree+"/")
			if b, err := cp.CombinedOutput(); err != nil {
				results[i] = res{id, "error", "copy: " + string(b)}
				return
			}
			ap := exec.Command("git", "apply", "--whitespace=nowarn", filepath.Join(d, "patch.diff"))
			ap.Dir = tree
			if _, err := ap.CombinedOutput(); err != nil {
				results[i] = res{id, "inapplicable", "patch does not apply to this tree"}
				return
			}
			ev := filepath.Join(tmp, "ev")
			cmd := exec.Command(self, "-property", c.Property, "-tier", "quick", "-repo", tree, "-verif", c.Verifdir)
			cmd.Env = append(os.Environ(), "VERIF_OUT="+ev)
			var buf bytes.Buffer
			cmd.Stdout, cmd.Stderr = &buf, &buf
			rerr := cmd.Run()
			o := buf.String()
			switch {
			case strings.Contains(o, "package errors") || strings.Contains(o, "error: load"):
				results[i] = res{id, "inapplicable", "variant does not load"}
			case rerr != nil:
				results[i] = res{id, "caught", firstViolationKey(o)}
			default:
				results[i] = res{id, "missed", ""}
			}
		}(i, d)
	}
	wg.Wait()
	counts := map[string]int{}
	var list []string
	for _, r := range results {
		counts[r.status]++
		list = append(list, r.id+": "+r.status+" "+r.detail)
	}
	out["applied"] = len(dirs)
	out["counts"] = counts
	out["results"] = list
	return out
}

func firstViolationKey(o string) string {
	for _, l := range strings.Split(o, "\n") {
		if i := strings.Index(l, "key="); i >= 0 {
			return l[i:]
		}
	}
	return ""
}

func crossReference(c *Ctx) map[string]interface{} {
	out := map[string]interface{}{}
	run := func(name string, args ...string) {
		cmd := exec.Command(name, args...)
		cmd.Dir = c.P.Repo
		cache, _ := os.MkdirTemp("", "verif-xref-")
		defer os.RemoveAll(cache)
		cmd.Env = append(os.Environ(), "GOFLAGS=-mod=readonly", "GOPROXY=off", "GOWORK=off", "GOTOOLCHAIN=local", "GOCACHE="+cache)
		var buf bytes.Buffer
		cmd.Stdout, cmd.Stderr = &buf, &buf
		cmd.Run()
		n := 0
		for _, l := range strings.Split(buf.String(), "\n") {
			if strings.Contains(l, ".go:") {
				n++
			}
		}
		out[name+" "+strings.Join(args, " ")] = n
	}
	if os.Getenv("VERIF_XREF") != "" {
		run("go", "vet", "./...")
		run("staticcheck", "./...")
	} else {
		out["note"] = "set VERIF_XREF=1 to record go vet / staticcheck diagnostic counts (cross-reference only; surveyed once: nothing they report decides a property)"
	}
	return out
}

// debugAff prints the facts known at each block of a function (diagnostics).
func debugAff(p *Prog, pkg, name string) {
	fn := p.Func(pkg, name)
	if fn == nil {
		println("no such function")
		return
	}
	a := NewAff(p)
	for _, b := range fn.Blocks {
		println("block", b.Index, b.Comment)
		for _, f := range a.FactsAt(b) {
			println("   ", f.String())
		}
	}
}
