package main

// Generic helpers over go/ssa: constants, conversions, dominating edge
// facts, path searches, def-use.

import (
	"go/constant"
	"go/token"
	"go/types"
	"sort"

	"golang.org/x/tools/go/ssa"
)

// strip removes value-preserving wrappers (conversions between integer types
// are *not* value preserving in general; callers that care use stripRepr).
func stripIface(v ssa.Value) ssa.Value {
	for {
		switch x := v.(type) {
		case *ssa.MakeInterface:
			v = x.X
		case *ssa.ChangeInterface:
			v = x.X
		case *ssa.ChangeType:
			v = x.X
		default:
			return v
		}
	}
}

// stripConv removes ChangeType/Convert/MakeInterface wrappers.
func stripConv(v ssa.Value) ssa.Value {
	for {
		switch x := v.(type) {
		case *ssa.MakeInterface:
			v = x.X
		case *ssa.ChangeInterface:
			v = x.X
		case *ssa.ChangeType:
			v = x.X
		case *ssa.Convert:
			v = x.X
		default:
			return v
		}
	}
}

// constInt returns the integer value of a constant (through conversions).
func constInt(v ssa.Value) (int64, bool) {
	v = stripConv(v)
	c, ok := v.(*ssa.Const)
	if !ok || c.Value == nil {
		return 0, false
	}
	if c.Value.Kind() != constant.Int {
		if c.Value.Kind() == constant.Float {
			if i, ok := constant.Int64Val(constant.ToInt(c.Value)); ok {
				return i, true
			}
		}
		return 0, false
	}
	i, ok := constant.Int64Val(c.Value)
	return i, ok
}

func constString(v ssa.Value) (string, bool) {
	v = stripIface(v)
	c, ok := v.(*ssa.Const)
	if !ok || c.Value == nil || c.Value.Kind() != constant.String {
		return "", false
	}
	return constant.StringVal(c.Value), true
}

func constBool(v ssa.Value) (bool, bool) {
	c, ok := v.(*ssa.Const)
	if !ok || c.Value == nil || c.Value.Kind() != constant.Bool {
		return false, false
	}
	return constant.BoolVal(c.Value), true
}

func isNilConst(v ssa.Value) bool {
	c, ok := v.(*ssa.Const)
	return ok && c.Value == nil
}

// staticCallee returns the statically resolved callee of a call value/instr.
func staticCallee(ins ssa.Instruction) *ssa.Function {
	if c, ok := ins.(ssa.CallInstruction); ok {
		return c.Common().StaticCallee()
	}
	return nil
}

// isCallTo reports whether v is a call to a function with the given package
// path and name (for functions outside the module, e.g. "errors", "New").
func isCallTo(v ssa.Value, pkgPath, name string) (*ssa.Call, bool) {
	c, ok := v.(*ssa.Call)
	if !ok {
		return nil, false
	}
	f := c.Call.StaticCallee()
	if f == nil || f.Object() == nil || f.Object().Pkg() == nil {
		return nil, false
	}
	if f.Object().Pkg().Path() == pkgPath && f.Object().Name() == name {
		return c, true
	}
	return nil, false
}

func calleeIs(f *ssa.Function, pkgPath, name string) bool {
	if f == nil || f.Object() == nil || f.Object().Pkg() == nil {
		return false
	}
	return f.Object().Pkg().Path() == pkgPath && f.Object().Name() == name
}

// calleeFullName returns "pkgpath.Name" or "pkgpath.(T).Name".
func calleeFullName(f *ssa.Function) string {
	if f == nil {
		return ""
	}
	if f.Object() == nil {
		return f.String()
	}
	return f.Object().(*types.Func).FullName()
}

// eachInstr visits every instruction of fn.
func eachInstr(fn *ssa.Function, f func(ssa.Instruction)) {
	for _, b := range fn.Blocks {
		for _, ins := range b.Instrs {
			f(ins)
		}
	}
}

// EdgeFact is a branch condition known to hold (Val) on entry to a block.
type EdgeFact struct {
	Cond ssa.Value
	Val  bool
	From *ssa.BasicBlock
}

// edgeTaken reports whether the edge d->s, once taken, "dominates" b: s
// dominates b, s is entered only via d or via back edges from blocks it
// dominates, and the other successor of d is not s.
func edgeDominates(d, s, b *ssa.BasicBlock) bool {
	if !s.Dominates(b) {
		return false
	}
	for _, p := range s.Preds {
		if p == d {
			continue
		}
		if !s.Dominates(p) {
			return false
		}
	}
	return true
}

// dominatingFacts returns the branch conditions that hold whenever control is
// in block b (from If terminators of dominators whose taken edge dominates b).
func dominatingFacts(b *ssa.BasicBlock) []EdgeFact {
	return dominatingFactsD(b, 0)
}

func dominatingFactsD(b *ssa.BasicBlock, depth int) []EdgeFact {
	var out []EdgeFact
	for d := b.Idom(); d != nil; d = d.Idom() {
		ifi, ok := lastInstr(d).(*ssa.If)
		if !ok || len(d.Succs) != 2 || d.Succs[0] == d.Succs[1] {
			continue
		}
		t, f := d.Succs[0], d.Succs[1]
		td, fd := edgeDominates(d, t, b), edgeDominates(d, f, b)
		var fact *EdgeFact
		if td && !fd {
			fact = &EdgeFact{ifi.Cond, true, d}
		} else if fd && !td {
			fact = &EdgeFact{ifi.Cond, false, d}
		}
		if fact == nil {
			continue
		}
		out = append(out, *fact)
		// flag threading: the condition is a phi of boolean constants defined in d
		// (a helper's "ok" result after inlining, a flag variable): the taken edge tells
		// which predecessor control came from, and that predecessor's facts hold too.
		if depth < 4 {
			if src, xc, xv := phiBoolSourceX(fact.Cond, fact.Val, d); src != nil {
				// across a back edge (d is a loop header) the values defined in d were
				// redefined on re-entry: conditions over them describe the previous instance
				pb := flagBlock(fact.Cond)
				back := pb.Dominates(src)
				add := func(f EdgeFact) {
					if back && dependsOnBlock(f.Cond, pb, 8) {
						return
					}
					out = append(out, f)
				}
				if xc != nil {
					add(EdgeFact{xc, xv, src})
				}
				if sif, ok := lastInstr(src).(*ssa.If); ok && len(src.Succs) == 2 && src.Succs[0] != src.Succs[1] {
					add(EdgeFact{sif.Cond, src.Succs[0] == pb, src})
				}
				for _, f := range dominatingFactsD(src, depth+1) {
					add(f)
				}
			}
		}
	}
	// facts within b itself do not exist (terminator is last)
	return out
}

// onEveryPath reports whether on every path from the entry to block b some
// branch fact satisfying pred has been established (and, being a fact about
// SSA values, still holds): either a dominating fact, or every incoming edge
// carries such a fact or comes from a block for which this holds.  Back edges
// are treated conservatively (false).
func onEveryPath(b *ssa.BasicBlock, pred func(EdgeFact) bool) bool {
	memo := map[*ssa.BasicBlock]int{}
	var rec func(b *ssa.BasicBlock) bool
	rec = func(b *ssa.BasicBlock) bool {
		switch memo[b] {
		case 1, 3:
			return false
		case 2:
			return true
		}
		memo[b] = 1
		res := false
		for _, f := range dominatingFacts(b) {
			if pred(f) {
				res = true
			}
		}
		if !res && len(b.Preds) > 0 {
			res = true
			for _, p := range b.Preds {
				edge := false
				if ifi, ok := lastInstr(p).(*ssa.If); ok && len(p.Succs) == 2 && p.Succs[0] != p.Succs[1] {
					edge = pred(EdgeFact{ifi.Cond, p.Succs[0] == b, p})
				}
				if !edge && !rec(p) {
					res = false
					break
				}
			}
		}
		if res {
			memo[b] = 2
		} else {
			memo[b] = 3
		}
		return res
	}
	return rec(b)
}

// instrDominatesT: every execution reaching b has passed a.  Besides plain
// dominance this follows flags: if a dominating branch, taken towards b, can
// only have been taken when control entered its block from one predecessor
// (phiBoolSourceX), it is enough that a dominates the end of that predecessor.
func instrDominatesT(a, b ssa.Instruction) bool {
	if instrDominates(a, b) {
		return true
	}
	return blockPassedT(a, b.Block(), 0)
}

func blockPassedT(a ssa.Instruction, blk *ssa.BasicBlock, depth int) bool {
	if depth > 4 {
		return false
	}
	for d := blk.Idom(); d != nil; d = d.Idom() {
		ifi, ok := lastInstr(d).(*ssa.If)
		if !ok || len(d.Succs) != 2 || d.Succs[0] == d.Succs[1] {
			continue
		}
		t, f := d.Succs[0], d.Succs[1]
		td, fd := edgeDominates(d, t, blk), edgeDominates(d, f, blk)
		if td == fd {
			continue
		}
		if src, _, _ := phiBoolSourceX(ifi.Cond, td, d); src != nil {
			if a.Block() == src || a.Block().Dominates(src) || blockPassedT(a, src, depth+1) {
				return true
			}
		}
	}
	return false
}

// dependsOnBlock: v is computed (through at most depth operand steps) from a
// value defined in block d.
func dependsOnBlock(v ssa.Value, d *ssa.BasicBlock, depth int) bool {
	ins, ok := v.(ssa.Instruction)
	if !ok {
		return false
	}
	if ins.Block() == d {
		return true
	}
	if depth == 0 {
		return true // unknown: assume it does
	}
	for _, op := range ins.Operands(nil) {
		if *op != nil && dependsOnBlock(*op, d, depth-1) {
			return true
		}
	}
	return false
}

// flagBlock: the block in which the boolean phi tested by cond is defined (nil if cond is not such a phi).
func flagBlock(cond ssa.Value) *ssa.BasicBlock {
	if u, ok := cond.(*ssa.UnOp); ok && u.Op == token.NOT {
		cond = u.X
	}
	if phi, ok := cond.(*ssa.Phi); ok {
		return phi.Block()
	}
	if phi, _ := nilTestOfPhi(cond); phi != nil {
		return phi.Block()
	}
	return nil
}

// nilTestOfPhi: cond is `phi == nil` / `phi != nil` for a phi of interface or
// pointer values (typically the error result of an inlined helper); returns
// the phi and whether the comparison is ==.
func nilTestOfPhi(cond ssa.Value) (*ssa.Phi, bool) {
	bo, ok := cond.(*ssa.BinOp)
	if !ok || (bo.Op != token.EQL && bo.Op != token.NEQ) {
		return nil, false
	}
	x, y := bo.X, bo.Y
	if isNilConst(x) {
		x, y = y, x
	}
	if !isNilConst(y) {
		return nil, false
	}
	phi, ok := x.(*ssa.Phi)
	if !ok {
		return nil, false
	}
	return phi, bo.Op == token.EQL
}

// provablyNonNilAt: value v is known to be non-nil at the end of block p
// (a fresh error, or guarded there by a dominating v != nil test).
func provablyNonNilAt(v ssa.Value, p *ssa.BasicBlock) bool {
	if call, ok := v.(*ssa.Call); ok {
		if f := call.Call.StaticCallee(); f != nil {
			switch calleeFullName(f) {
			case "errors.New", "fmt.Errorf":
				return true
			}
		}
	}
	facts := dominatingFactsPlain(nil, p)
	for _, ft := range facts {
		bo, ok := ft.Cond.(*ssa.BinOp)
		if !ok || (bo.Op != token.EQL && bo.Op != token.NEQ) {
			continue
		}
		x, y := bo.X, bo.Y
		if isNilConst(x) {
			x, y = y, x
		}
		if x == v && isNilConst(y) && (bo.Op == token.NEQ) == ft.Val {
			return true
		}
	}
	return false
}

// phiBoolSource: cond is a phi in block d whose value val can only have been
// supplied by one predecessor; returns that predecessor.
func phiBoolSource(cond ssa.Value, val bool, d *ssa.BasicBlock) *ssa.BasicBlock {
	src, _, _ := phiBoolSourceX(cond, val, d)
	return src
}

// phiBoolSourceX: either exactly one edge of the phi is the constant val and
// all others are constants (a flag set on one path), or all constant edges are
// !val and exactly one edge is a non-constant boolean (e.g. a loop flag
// `found = (b == start)` initialised to false): control came from that
// predecessor, and in the second case the edge's value itself equals val
// (returned as an extra fact).
func phiBoolSourceX(cond ssa.Value, val bool, d *ssa.BasicBlock) (*ssa.BasicBlock, ssa.Value, bool) {
	if u, ok := cond.(*ssa.UnOp); ok && u.Op == token.NOT {
		cond, val = u.X, !val
	}
	if nphi, isEq := nilTestOfPhi(cond); nphi != nil && (nphi.Block() == d || nphi.Block().Dominates(d)) {
		// a nil test of a phi of errors/pointers: the known nilness selects the edge
		wantNil := isEq == val
		var src *ssa.BasicBlock
		n := 0
		for i, e := range nphi.Edges {
			p := nphi.Block().Preds[i]
			isNil := isNilConst(e)
			nonNil := !isNil && provablyNonNilAt(e, p)
			if (wantNil && !nonNil) || (!wantNil && !isNil) {
				n++
				src = p
			}
		}
		if n == 1 {
			return src, nil, false
		}
		return nil, nil, false
	}
	phi, ok := cond.(*ssa.Phi)
	if !ok || (phi.Block() != d && !phi.Block().Dominates(d)) {
		return nil, nil, false
	}
	// the flag may be tested again later: its value was fixed when control last passed
	// through the phi's block, which dominates d
	d = phi.Block()
	var srcC, srcN *ssa.BasicBlock
	var nv ssa.Value
	nEq, nNon := 0, 0
	for i, e := range phi.Edges {
		bv, isC := constBool(e)
		if !isC {
			nNon++
			srcN, nv = d.Preds[i], e
			continue
		}
		if bv == val {
			nEq++
			srcC = d.Preds[i]
		}
	}
	switch {
	case nEq == 1 && nNon == 0:
		return srcC, nil, false
	case nEq == 0 && nNon == 1:
		return srcN, nv, val
	}
	return nil, nil, false
}

func lastInstr(b *ssa.BasicBlock) ssa.Instruction {
	if len(b.Instrs) == 0 {
		return nil
	}
	return b.Instrs[len(b.Instrs)-1]
}

// instrIndex returns the index of ins in its block.
func instrIndex(ins ssa.Instruction) int {
	for i, x := range ins.Block().Instrs {
		if x == ins {
			return i
		}
	}
	return -1
}

// instrDominates: a executes before b on every path reaching b.
func instrDominates(a, b ssa.Instruction) bool {
	if a.Block() == b.Block() {
		return instrIndex(a) < instrIndex(b)
	}
	return a.Block().Dominates(b.Block())
}

// reachableAvoiding reports whether some CFG path leads from the start of
// block `from` (or, when fromIdx>=0, from just after instruction fromIdx in
// it) to a block satisfying goal, without passing through an instruction
// satisfying avoid.  Returns the block path as witness.
type pathQuery struct {
	avoid func(ssa.Instruction) bool
	goal  func(ssa.Instruction) bool
	// edgeOK, when set, prunes edges (path conditions).
	edgeOK func(from, to *ssa.BasicBlock) bool
}

// search runs from just after instruction (b, idx).  It returns the witness
// path (block indices) if a goal instruction is reachable without first
// executing an avoid instruction.
func (q pathQuery) search(b *ssa.BasicBlock, idx int) ([]*ssa.BasicBlock, ssa.Instruction) {
	type state struct {
		b    *ssa.BasicBlock
		from int
	}
	seen := map[*ssa.BasicBlock]bool{}
	prev := map[*ssa.BasicBlock]*ssa.BasicBlock{}
	work := []state{{b, idx + 1}}
	first := true
	for len(work) > 0 {
		s := work[0]
		work = work[1:]
		if !first {
			if seen[s.b] {
				continue
			}
			seen[s.b] = true
		}
		first = false
		blocked := false
		for i := s.from; i < len(s.b.Instrs); i++ {
			ins := s.b.Instrs[i]
			if q.goal != nil && q.goal(ins) {
				var path []*ssa.BasicBlock
				for x := s.b; x != nil; x = prev[x] {
					path = append([]*ssa.BasicBlock{x}, path...)
					if x == b {
						break
					}
				}
				return path, ins
			}
			if q.avoid != nil && q.avoid(ins) {
				blocked = true
				break
			}
		}
		if blocked {
			continue
		}
		for _, n := range s.b.Succs {
			if q.edgeOK != nil && !q.edgeOK(s.b, n) {
				continue
			}
			if !seen[n] {
				if _, ok := prev[n]; !ok {
					prev[n] = s.b
				}
				work = append(work, state{n, 0})
			}
		}
	}
	return nil, nil
}

// blockPathString renders a block path with source positions.
func (p *Prog) blockPath(path []*ssa.BasicBlock) []string {
	var out []string
	for _, b := range path {
		pos := token.NoPos
		for _, ins := range b.Instrs {
			if ins.Pos().IsValid() {
				pos = ins.Pos()
				break
			}
		}
		c := b.Comment
		out = append(out, "block "+itoa(b.Index)+" ("+c+") "+p.Pos(pos))
	}
	return out
}

func itoa(i int) string {
	if i == 0 {
		return "0"
	}
	neg := i < 0
	if neg {
		i = -i
	}
	var b []byte
	for i > 0 {
		b = append([]byte{byte('0' + i%10)}, b...)
		i /= 10
	}
	if neg {
		b = append([]byte{'-'}, b...)
	}
	return string(b)
}

// referrers returns the instructions that use v.
func referrers(v ssa.Value) []ssa.Instruction {
	r := v.Referrers()
	if r == nil {
		return nil
	}
	return *r
}

// fieldOf returns the struct field object addressed/read by a FieldAddr/Field.
func fieldOf(v ssa.Value) (*types.Var, ssa.Value) {
	switch x := v.(type) {
	case *ssa.FieldAddr:
		st := x.X.Type().Underlying().(*types.Pointer).Elem().Underlying().(*types.Struct)
		return st.Field(x.Field), x.X
	case *ssa.Field:
		st := x.X.Type().Underlying().(*types.Struct)
		return st.Field(x.Field), x.X
	}
	return nil, nil
}

// loadedField: v is `*(&base.f)` or `base.f`; returns the field and base.
func loadedField(v ssa.Value) (*types.Var, ssa.Value) {
	switch x := v.(type) {
	case *ssa.UnOp:
		if x.Op == token.MUL {
			if fa, ok := x.X.(*ssa.FieldAddr); ok {
				return fieldOf(fa)
			}
		}
	case *ssa.Field:
		return fieldOf(x)
	}
	return nil, nil
}

// returnsOf lists the Return instructions of fn.
func returnsOf(fn *ssa.Function) []*ssa.Return {
	var out []*ssa.Return
	for _, b := range fn.Blocks {
		if b == fn.Recover || (b.Index != 0 && len(b.Preds) == 0) {
			continue // the synthetic recover block is not a normal exit
		}
		if r, ok := lastInstr(b).(*ssa.Return); ok && !blockDead(b) {
			out = append(out, r)
		}
	}
	return out
}

// blockDead: the block is only reachable through a branch on a constant
// condition taken the impossible way (`if false && ...`, a debugging switch):
// it can never execute.
func blockDead(b *ssa.BasicBlock) bool {
	for d := b.Idom(); d != nil; d = d.Idom() {
		ifi, ok := lastInstr(d).(*ssa.If)
		if !ok || len(d.Succs) != 2 || d.Succs[0] == d.Succs[1] {
			continue
		}
		k, isC := staticCond(ifi.Cond)
		if !isC {
			continue
		}
		t, f := d.Succs[0], d.Succs[1]
		if k && edgeDominates(d, f, b) && !edgeDominates(d, t, b) {
			return true
		}
		if !k && edgeDominates(d, t, b) && !edgeDominates(d, f, b) {
			return true
		}
	}
	return false
}

// isErrorType reports whether t is the predeclared error interface.
func isErrorType(t types.Type) bool {
	return types.Identical(t, types.Universe.Lookup("error").Type())
}

// topoBlocks returns fn's blocks in reverse post-order and whether the CFG
// (restricted to reachable blocks) is acyclic.
func topoBlocks(fn *ssa.Function) ([]*ssa.BasicBlock, bool) {
	var order []*ssa.BasicBlock
	state := map[*ssa.BasicBlock]int{}
	acyclic := true
	var dfs func(b *ssa.BasicBlock)
	dfs = func(b *ssa.BasicBlock) {
		state[b] = 1
		for _, s := range b.Succs {
			switch state[s] {
			case 0:
				dfs(s)
			case 1:
				acyclic = false
			}
		}
		state[b] = 2
		order = append(order, b)
	}
	if len(fn.Blocks) > 0 {
		dfs(fn.Blocks[0])
	}
	for i, j := 0, len(order)-1; i < j; i, j = i+1, j-1 {
		order[i], order[j] = order[j], order[i]
	}
	return order, acyclic
}

// sortedKeys helper.
func sortedStrings(m map[string]bool) []string {
	var out []string
	for k := range m {
		out = append(out, k)
	}
	sort.Strings(out)
	return out
}

// valueName gives a short printable description of a value.
func valueName(v ssa.Value) string {
	if v == nil {
		return "<nil>"
	}
	switch x := v.(type) {
	case *ssa.Const:
		return x.String()
	case *ssa.Parameter:
		return "param " + x.Name()
	case *ssa.Global:
		return "global " + x.Name()
	case *ssa.Function:
		return "func " + x.Name()
	}
	return v.Name() + "=" + v.String()
}

// isInitFn: the package initialiser or a declared init function (init#N).
func isInitFn(fn *ssa.Function) bool {
	return fn.Name() == "init" || (len(fn.Name()) > 5 && fn.Name()[:5] == "init#")
}

// eqFact normalises a branch fact on an (in)equality test: it returns the two
// operands and whether the fact says they are equal.
func eqFact(f EdgeFact) (x, y ssa.Value, equal bool, ok bool) {
	bo, isB := f.Cond.(*ssa.BinOp)
	if !isB || (bo.Op != token.EQL && bo.Op != token.NEQ) {
		return nil, nil, false, false
	}
	return bo.X, bo.Y, (bo.Op == token.EQL) == f.Val, true
}

// vReturn is a return of a function seen from one incoming path: when the
// returned values are phis of the (otherwise empty) return block - the shape
// produced by `r := ...; return r` after several assignments, or by an inlined
// helper - every predecessor edge is a separate exit with its own results and
// its own dominating facts.
type vReturn struct {
	R       *ssa.Return
	Results []ssa.Value
	At      *ssa.BasicBlock // block whose end this exit is taken from (the return block itself if not split)
	Edge    *EdgeFact       // the branch fact of the edge At -> return block, if At ends in an If
}

func (v vReturn) Facts() []EdgeFact {
	fs := dominatingFacts(v.At)
	if v.Edge != nil {
		fs = append([]EdgeFact{*v.Edge}, fs...)
	}
	return fs
}

// DominatedBy: instruction a is executed on every path to this exit.
func (v vReturn) DominatedBy(a ssa.Instruction) bool {
	if v.At == v.R.Block() {
		return instrDominates(a, v.R)
	}
	return a.Block() == v.At || a.Block().Dominates(v.At)
}

func virtualReturns(fn *ssa.Function) []vReturn {
	var out []vReturn
	for _, r := range returnsOf(fn) {
		out = append(out, splitReturn(r, r.Block(), r.Results, 0)...)
	}
	return out
}

func splitReturn(r *ssa.Return, b *ssa.BasicBlock, results []ssa.Value, depth int) []vReturn {
	// the block consists of phis (and debug refs) followed by the terminator only
	onlyPhis := true
	hasPhiResult := false
	for _, ins := range b.Instrs[:len(b.Instrs)-1] {
		switch ins.(type) {
		case *ssa.Phi, *ssa.DebugRef:
		default:
			onlyPhis = false
		}
	}
	for _, v := range results {
		if phi, ok := v.(*ssa.Phi); ok && phi.Block() == b {
			hasPhiResult = true
		}
	}
	if !onlyPhis || !hasPhiResult || len(b.Preds) < 2 || depth > 3 {
		return []vReturn{{R: r, Results: results, At: b}}
	}
	var out []vReturn
	for i, p := range b.Preds {
		res := make([]ssa.Value, len(results))
		for k, v := range results {
			res[k] = v
			if phi, ok := v.(*ssa.Phi); ok && phi.Block() == b {
				res[k] = phi.Edges[i]
			}
		}
		if _, isJump := lastInstr(p).(*ssa.Jump); isJump && len(p.Succs) == 1 {
			// the predecessor may itself be a pure merge block
			sub := splitReturn(r, p, res, depth+1)
			if len(sub) > 1 {
				out = append(out, sub...)
				continue
			}
		}
		vr := vReturn{R: r, Results: res, At: p}
		if ifi, ok := lastInstr(p).(*ssa.If); ok && len(p.Succs) == 2 && p.Succs[0] != p.Succs[1] {
			vr.Edge = &EdgeFact{ifi.Cond, p.Succs[0] == b, p}
		}
		out = append(out, vr)
	}
	return out
}

// valueUnderFlags: v is a phi that travels together with a boolean flag (the
// `value, ok` pair of an inlined helper): if a branch on the flag that
// dominates block `at` determines which predecessor the phi's block was
// entered from, the phi has that edge's value there.  Otherwise v is returned
// unchanged.
func valueUnderFlags(v ssa.Value, at *ssa.BasicBlock) ssa.Value {
	for depth := 0; depth < 4; depth++ {
		phi, ok := v.(*ssa.Phi)
		if !ok {
			return v
		}
		pb := phi.Block()
		next := ssa.Value(nil)
		for d := at; d != nil; d = d.Idom() {
			// plain dominating branch facts of `at`
			for _, f := range dominatingFactsPlain(d, at) {
				if flagBlock(f.Cond) != pb {
					continue
				}
				if src, _, _ := phiBoolSourceX(f.Cond, f.Val, f.From); src != nil {
					for i, p := range pb.Preds {
						if p == src {
							next = phi.Edges[i]
						}
					}
				}
			}
			break
		}
		if next == nil {
			return v
		}
		v = next
	}
	return v
}

// dominatingFactsPlain: the branch facts that hold in block b (no flag threading).
func dominatingFactsPlain(_ *ssa.BasicBlock, b *ssa.BasicBlock) []EdgeFact {
	var out []EdgeFact
	for d := b.Idom(); d != nil; d = d.Idom() {
		ifi, ok := lastInstr(d).(*ssa.If)
		if !ok || len(d.Succs) != 2 || d.Succs[0] == d.Succs[1] {
			continue
		}
		t, f := d.Succs[0], d.Succs[1]
		td, fd := edgeDominates(d, t, b), edgeDominates(d, f, b)
		if td && !fd {
			out = append(out, EdgeFact{ifi.Cond, true, d})
		} else if fd && !td {
			out = append(out, EdgeFact{ifi.Cond, false, d})
		}
	}
	return out
}

// staticCond evaluates a branch condition that is fixed by constants: a
// boolean constant, a comparison of two nil constants (a nil argument bound to
// a parameter of an inlined helper), or of two integer constants.
func staticCond(v ssa.Value) (bool, bool) {
	if k, ok := constBool(v); ok {
		return k, true
	}
	if u, ok := v.(*ssa.UnOp); ok && u.Op == token.NOT {
		if k, ok := staticCond(u.X); ok {
			return !k, true
		}
	}
	bo, ok := v.(*ssa.BinOp)
	if !ok {
		return false, false
	}
	if isNilConst(bo.X) && isNilConst(bo.Y) {
		switch bo.Op {
		case token.EQL:
			return true, true
		case token.NEQ:
			return false, true
		}
	}
	// a declared function (or a closure made here) is never nil
	isFn := func(v ssa.Value) bool {
		switch stripConv(v).(type) {
		case *ssa.Function, *ssa.MakeClosure:
			return true
		}
		return false
	}
	if (isFn(bo.X) && isNilConst(bo.Y)) || (isFn(bo.Y) && isNilConst(bo.X)) {
		switch bo.Op {
		case token.EQL:
			return false, true
		case token.NEQ:
			return true, true
		}
	}
	x, okx := constInt(bo.X)
	y, oky := constInt(bo.Y)
	if okx && oky {
		switch bo.Op {
		case token.EQL:
			return x == y, true
		case token.NEQ:
			return x != y, true
		case token.LSS:
			return x < y, true
		case token.LEQ:
			return x <= y, true
		case token.GTR:
			return x > y, true
		case token.GEQ:
			return x >= y, true
		}
	}
	return false, false
}

// cmpBounds: the interval of integer value v implied by comparison cond having truth value val, when cond
// compares v (either side, through conversions of neither) with a constant; hasLo/hasHi report which
// ends are bounded.  `v > 0` taken, `v <= 0` not taken, `v >= 1` taken, `0 < v` taken ... all give lo=1.
func cmpBounds(cond ssa.Value, val bool, v ssa.Value) (lo, hi int64, hasLo, hasHi bool) {
	bo, ok := cond.(*ssa.BinOp)
	if !ok {
		return
	}
	op := bo.Op
	var k int64
	switch {
	case bo.X == v:
		kk, isC := constInt(bo.Y)
		if !isC {
			return
		}
		k = kk
	case bo.Y == v:
		kk, isC := constInt(bo.X)
		if !isC {
			return
		}
		k = kk
		op = flipCmp(op)
	default:
		return
	}
	if !val {
		op = negateCmp(op)
	}
	switch op {
	case token.GTR:
		return k + 1, 0, true, false
	case token.GEQ:
		return k, 0, true, false
	case token.LSS:
		return 0, k - 1, false, true
	case token.LEQ:
		return 0, k, false, true
	case token.EQL:
		return k, k, true, true
	}
	return
}

// factPositive: the edge fact implies v >= 1.
func factPositive(cond ssa.Value, val bool, v ssa.Value) bool {
	lo, _, hasLo, _ := cmpBounds(cond, val, v)
	return hasLo && lo >= 1
}

// factNonPositive: the edge fact implies v <= 0.
func factNonPositive(cond ssa.Value, val bool, v ssa.Value) bool {
	_, hi, _, hasHi := cmpBounds(cond, val, v)
	return hasHi && hi <= 0
}

// stripWidening removes conversions from an unsigned integer type to an unsigned integer type that is
// at least as wide (value preserving: the same bits, zero-extended).
func stripWidening(v ssa.Value) ssa.Value {
	for {
		cv, ok := v.(*ssa.Convert)
		if !ok {
			return v
		}
		from, ok1 := cv.X.Type().Underlying().(*types.Basic)
		to, ok2 := cv.Type().Underlying().(*types.Basic)
		if !ok1 || !ok2 || from.Info()&types.IsUnsigned == 0 || to.Info()&types.IsUnsigned == 0 {
			return v
		}
		size := func(b *types.Basic) int {
			switch b.Kind() {
			case types.Uint8:
				return 8
			case types.Uint16:
				return 16
			case types.Uint32:
				return 32
			case types.Uint64, types.Uint, types.Uintptr:
				return 64
			}
			return 0
		}
		// uint is 32 bits on some targets: widening to it is only certain from at most 32 bits
		fs, ts := size(from), size(to)
		if from.Kind() == types.Uint || from.Kind() == types.Uintptr {
			if to.Kind() != types.Uint64 && to.Kind() != from.Kind() {
				return v
			}
		}
		if to.Kind() == types.Uint || to.Kind() == types.Uintptr {
			ts = 32
		}
		if fs == 0 || ts == 0 || ts < fs {
			if !(from.Kind() == to.Kind()) {
				return v
			}
		}
		v = cv.X
	}
}
