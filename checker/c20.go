package main

// C20 — message-type classification is total and consistent.
// All tables are extracted from the SSA of /repo and compared over the
// complete domain {-2,-1,0..4095} with each other and with the oracle.

import (
	"encoding/json"
	"fmt"
	"go/constant"
	"go/token"
	"go/types"
	"os"
	"path/filepath"
	"sort"
	"strconv"
	"strings"

	"golang.org/x/tools/go/ssa"
)

type classOracle struct {
	MSM4          []int               `json:"msm4"`
	MSM7          []int               `json:"msm7"`
	Constellation map[string]string   `json:"constellation"`
	Constants     map[string]int64    `json:"constants"`
	TimeDispatch  map[string][]int    `json:"time_dispatch"`
	FullDecode    map[string]string   `json:"full_decode"`
	Extra         map[string][]string `json:"-"`
}

func loadClassOracle(verifdir string) (*classOracle, error) {
	b, err := os.ReadFile(filepath.Join(verifdir, "oracles", "classification.json"))
	if err != nil {
		return nil, err
	}
	var o classOracle
	if err := json.Unmarshal(b, &o); err != nil {
		return nil, err
	}
	return &o, nil
}

// fieldSubject: the subject is any load of struct field fv (no store to the
// field may occur in the function; checked by the caller through noStoreTo).
func fieldSubject(fv *types.Var) subject {
	return subject{func(v ssa.Value) bool {
		f, _ := loadedField(stripIntConv(v))
		return f != nil && f == fv
	}}
}

func storesToField(fn *ssa.Function, fv *types.Var) []ssa.Instruction {
	var out []ssa.Instruction
	eachInstr(fn, func(ins ssa.Instruction) {
		if st, ok := ins.(*ssa.Store); ok {
			if f, _ := fieldOf(st.Addr); f == fv {
				out = append(out, ins)
			}
		}
	})
	return out
}

func checkC20(c *Ctx) {
	c.Explanation = "Every classification table of the library (the two init-built MSM maps, the MSM4/MSM7/MSM predicates, GetConstellation, the MSM-type acceptance switch of the header reader, the family gates of the MSM4 and MSM7 decoders, the timestamp guard of the single-frame decoder, the dispatch of Analyse, displayable, the MessageType constants and the title table) is extracted from the SSA of the current source by set-wise abstract interpretation over the complete domain {-2,-1,0..4095} (4098 values, every branch condition interpreted as a set operation; an unrecognised condition in a classifier fails the check) and compared with the other tables and with the oracle sets.  Exhaustive over the type domain.  The display entry point skips the analysis only for a message that has been analysed already (T7 guard), so decoding is attempted for every message of the decodable types. (T12) the value that is classified is the leader helper's unsigned 12-bit read at bit 24. T12 also contains the C01-R7 rules: the stream path delivers the single-frame decoder's classification unchanged. (T14) the fan-out rule of C09: every consumer receives the decoder's message value itself (type and timestamp included)."
	c.NotDecided = "that the display and decode functions reached through these tables terminate normally (C07); wording of titles."
	c.Extra["exhaustive"] = true
	c.Extra["domain_size"] = tyN
	or, err := loadClassOracle(c.Verifdir)
	if err != nil {
		c.Fail("C20-oracle", "classification.json", token.NoPos, "unresolved", "cannot read oracle: "+err.Error())
		return
	}
	P := c.P
	T := NewTables(P)
	msm4 := SetOf(or.MSM4...)
	msm7 := SetOf(or.MSM7...)
	msm := msm4.Or(msm7)

	// ---- T8 constants
	for _, name := range sortedKeysI64(or.Constants) {
		want := or.Constants[name]
		k := P.Const("rtcm/utils", name)
		if k == nil {
			c.Unresolved("C20-T8", "const rtcm/utils."+name)
			continue
		}
		got, ok := constant.Int64Val(constant.ToInt(k.Val()))
		c.Check(ok && got == want, "C20-T8", "const("+name+")", k.Pos(),
			fmt.Sprintf("%s == %d", name, want), fmt.Sprintf("constant %s is %v, documented value is %d", name, k.Val(), want))
	}

	// ---- T1 init-built maps
	utilsPkg := P.Pkg("rtcm/utils")
	if utilsPkg == nil {
		c.Unresolved("C20-T1", "package rtcm/utils")
		return
	}
	for _, m := range []struct {
		name string
		want TySet
	}{{"MSM4MessageTypes", msm4}, {"MSM7MessageTypes", msm7}} {
		g, _ := utilsPkg.Members[m.name].(*ssa.Global)
		if g == nil {
			c.Unresolved("C20-T1", "global rtcm/utils."+m.name)
			continue
		}
		keys, ok, why := T.MapKeys(g)
		if !ok {
			c.Fail("C20-T1", "map("+m.name+")", g.Pos(), "unproven", why)
			continue
		}
		c.Check(keys.Eq(m.want), "C20-T1", "map("+m.name+")", g.Pos(),
			"keys written in init == oracle set "+m.want.String(),
			fmt.Sprintf("map %s holds %v, oracle says %v (missing %v, extra %v)", m.name, keys, m.want, m.want.Minus(keys), keys.Minus(m.want)))
	}

	// ---- T2 predicates
	pred := func(name string, want TySet) TySet {
		fn := P.Func("rtcm/utils", name)
		if fn == nil {
			c.Unresolved("C20-T2", "func rtcm/utils."+name)
			return TySet{}
		}
		s, ok := T.PredicateTrueSet(fn)
		if !ok {
			c.Fail("C20-T2", "pred("+name+")", fn.Pos(), "unproven", "predicate "+name+" is not built from recognised forms (map membership in an init-only table, comparison with constants, calls of other predicates, boolean combination); notes: "+strings.Join(T.Notes, "; "))
			return TySet{}
		}
		c.Check(s.Eq(want), "C20-T2", "pred("+name+")", fn.Pos(), name+" true exactly on "+want.String(),
			fmt.Sprintf("%s is true on %v, expected %v (missing %v, extra %v)", name, s, want, want.Minus(s), s.Minus(want)))
		return s
	}
	pred("MSM4", msm4)
	pred("MSM7", msm7)
	pred("MSM", msm)

	// ---- T3 GetConstellation
	names := map[string]bool{}
	for _, n := range or.Constellation {
		names[n] = true
	}
	if fn := P.Func("rtcm/utils", "GetConstellation"); fn == nil {
		c.Unresolved("C20-T3", "func rtcm/utils.GetConstellation")
	} else {
		pa := T.Partition(fn, paramSubject(fn, 0), true)
		if pa.Cyclic || len(pa.Unknown) > 0 {
			c.Fail("C20-T3", "GetConstellation", fn.Pos(), "unproven", "unrecognised branch conditions: "+pa.describeUnknown())
		} else {
			got := map[int]string{}
			bad := false
			for _, r := range returnsOf(fn) {
				pa.ValueByType(r.Results[0], pa.Reach[r.Block()], func(s TySet, v ssa.Value) {
					str, ok := constString(v)
					if !ok {
						bad = true
						c.Fail("C20-T3", "GetConstellation:nonconst", r.Pos(), "unproven", "returned name is not a constant for types "+s.String())
						return
					}
					for _, t := range s.List() {
						got[t] = str
					}
				})
			}
			if !bad {
				for t := tyMin; t <= tyMax; t++ {
					want, isMSM := or.Constellation[strconv.Itoa(t)]
					g, has := got[t]
					if !has {
						c.Fail("C20-T3", fmt.Sprintf("GetConstellation(%d)", t), fn.Pos(), "refuted", "no return covers this type")
						continue
					}
					if isMSM {
						c.Check(g == want, "C20-T3", fmt.Sprintf("GetConstellation(%d)", t), fn.Pos(), "-> "+want,
							fmt.Sprintf("GetConstellation(%d) yields %q, expected %q", t, g, want))
					} else if names[g] {
						c.Fail("C20-T3", fmt.Sprintf("GetConstellation(%d)", t), fn.Pos(), "refuted",
							fmt.Sprintf("non-MSM type %d is given constellation name %q", t, g))
					}
				}
				// non-MSM types in one aggregated obligation
				c.OK("C20-T3", "GetConstellation(non-MSM)", fn.Pos(), fmt.Sprintf("%d non-MSM types map to no constellation name", tyN-msm.Count()))
			}
		}
	}

	// ---- T4 header reader accepts exactly MSM4 ∪ MSM7
	hdrGet := P.Func("rtcm/header", "GetMSMHeader")
	var typeFn *ssa.Function
	if hdrGet != nil {
		// role: callee of GetMSMHeader in package header returning (int, uint, error)
		eachInstr(hdrGet, func(ins ssa.Instruction) {
			if f := staticCallee(ins); f != nil && f.Pkg == hdrGet.Pkg && f.Signature.Results().Len() == 3 &&
				isErrorType(f.Signature.Results().At(2).Type()) && len(f.Params) == 1 {
				if b, ok := f.Signature.Results().At(0).Type().Underlying().(*types.Basic); ok && b.Kind() == types.Int {
					typeFn = f
				}
			}
		})
	}
	if typeFn == nil {
		typeFn = P.Func("rtcm/header", "getMSMType")
	}
	if typeFn == nil {
		c.Unresolved("C20-T4", "MSM type reader (callee of header.GetMSMHeader returning (int,uint,error))")
	} else {
		// subject: the value returned as result 0 on a nil-error return
		var subj ssa.Value
		for _, r := range returnsOf(typeFn) {
			if isNilConst(r.Results[2]) {
				subj = r.Results[0]
			}
		}
		if subj == nil {
			c.Fail("C20-T4", "getMSMType:subject", typeFn.Pos(), "unproven", "no nil-error return found")
		} else {
			base := stripIntConv(subj)
			sj := subject{func(v ssa.Value) bool { return v == subj || stripIntConv(v) == base }}
			pa := T.Partition(typeFn, sj, false)
			var acc TySet
			for _, r := range returnsOf(typeFn) {
				if isNilConst(r.Results[2]) {
					acc = acc.Or(pa.Reach[r.Block()])
				} else if _, isConst := r.Results[2].(*ssa.Const); isConst {
					// typed nil? treated as accept
					acc = acc.Or(pa.Reach[r.Block()])
				}
			}
			// 12-bit field: only 0..4095 can occur
			dom := FullSet().Minus(SetOf(-1, -2))
			acc = acc.And(dom)
			c.Check(acc.Eq(msm), "C20-T4", "getMSMType:accept-set", typeFn.Pos(), "accepts exactly the 14 MSM4/MSM7 types",
				fmt.Sprintf("MSM header reader accepts %v; expected %v (missing %v, extra %v)", acc, msm, msm.Minus(acc), acc.Minus(msm)))
			// the value read is the 12 bits at 24
			// (layout itself is C04-R1)
		}
	}

	// ---- T5 family gates of the decoders
	ruleFamilyGates(c, T, "C20-T5", msm4, msm7, msm)

	// ---- T6 timestamp extraction guarded by MSM
	checkC20Timestamp(c, T, msm)

	// ---- T7 Analyse dispatch
	msgType := P.Field("rtcm/handler", "Message", "MessageType")
	decoders := map[*ssa.Function]string{}
	for pkg, tag := range map[string]string{"rtcm/type_msm4/message": "msm4", "rtcm/type_msm7/message": "msm7", "rtcm/type1005": "1005", "rtcm/type1006": "1006"} {
		if f := P.Func(pkg, "GetMessage"); f != nil {
			decoders[f] = tag
		} else {
			c.Unresolved("C20-T7", "decoder "+pkg+".GetMessage")
		}
	}
	if fn := P.Func("rtcm/handler", "Analyse"); fn == nil || msgType == nil {
		c.Unresolved("C20-T7", "func rtcm/handler.Analyse")
	} else {
		pa := T.Partition(fn, fieldSubject(msgType), true)
		if pa.Cyclic || len(pa.Unknown) > 0 {
			c.Fail("C20-T7", "Analyse", fn.Pos(), "unproven", "unrecognised dispatch conditions: "+pa.describeUnknown())
		} else if st := storesToField(fn, msgType); len(st) > 0 {
			c.Fail("C20-T7", "Analyse:store-to-type", st[0].Pos(), "refuted", "Analyse overwrites MessageType")
		} else {
			got := map[string]TySet{}
			eachInstr(fn, func(ins ssa.Instruction) {
				f := staticCallee(ins)
				if f == nil || !P.InModule(f) {
					return
				}
				for _, tag := range decodersReached(P, f, decoders, 2) {
					got[tag] = got[tag].Or(pa.Reach[ins.Block()])
				}
			})
			want := map[string]TySet{"msm4": msm4, "msm7": msm7, "1005": SetOf(1005), "1006": SetOf(1006)}
			for _, tag := range []string{"msm4", "msm7", "1005", "1006"} {
				c.Check(got[tag].Eq(want[tag]), "C20-T7", "Analyse->"+tag, fn.Pos(), "dispatched exactly for "+want[tag].String(),
					fmt.Sprintf("decoder %s is invoked for %v, expected exactly %v", tag, got[tag], want[tag]))
			}
		}
	}
	// PrepareForDisplay/String reach Analyse for every type (no type filtered out before)
	if pd := P.Func("rtcm/handler", "PrepareForDisplay"); pd != nil && msgType != nil {
		pa := T.Partition(pd, fieldSubject(msgType), false)
		var s TySet
		eachInstr(pd, func(ins ssa.Instruction) {
			if f := staticCallee(ins); f != nil && f.Name() == "Analyse" {
				s = s.Or(pa.Reach[ins.Block()])
			}
		})
		c.Check(s.Eq(FullSet()), "C20-T7", "PrepareForDisplay->Analyse", pd.Pos(), "Analyse attempted for every type",
			fmt.Sprintf("Analyse is not reached for %v", FullSet().Minus(s)))
		// ... and for every message of that type: the only guard is "not analysed yet"
		eachInstr(pd, func(ins ssa.Instruction) {
			if f := staticCallee(ins); f == nil || f.Name() != "Analyse" {
				return
			}
			for _, ft := range dominatingFacts(ins.Block()) {
				okGuard := false
				if bo, ok := ft.Cond.(*ssa.BinOp); ok && (bo.Op == token.EQL || bo.Op == token.NEQ) {
					x, y := bo.X, bo.Y
					if isNilConst(x) {
						x, y = y, x
					}
					if fv, _ := loadedField(x); fv != nil && fv.Name() == "Readable" && isNilConst(y) {
						okGuard = true
					}
				}
				c.Check(okGuard, "C20-T7", "PrepareForDisplay:guard", ins.Pos(), "full decoding is skipped only for a message that has been analysed already",
					"full decoding is skipped under a condition other than \"already analysed\" (e.g. an error text set by the handler, as for SBAS/QZSS/NavIC MSMs or an illegal timestamp): decoding is not attempted for every message of the MSM4/MSM7/1005/1006 types")
			}
		})
	} else {
		c.Unresolved("C20-T7", "func rtcm/handler.PrepareForDisplay")
	}

	// ---- T10 displayable
	if fn, _ := P.Method("rtcm/handler", "Message", "displayable"); fn == nil || msgType == nil {
		c.Unresolved("C20-T10", "method rtcm/handler.Message.displayable")
	} else {
		pa := T.Partition(fn, fieldSubject(msgType), true)
		if pa.Cyclic || len(pa.Unknown) > 0 {
			c.Fail("C20-T10", "displayable", fn.Pos(), "unproven", "unrecognised conditions: "+pa.describeUnknown())
		} else {
			var s TySet
			ok := true
			for _, r := range returnsOf(fn) {
				x, k := pa.boolSet(r.Results[0], pa.Reach[r.Block()], map[ssa.Value]bool{})
				ok = ok && k
				s = s.Or(x)
			}
			want := msm.Or(SetOf(1005, 1006))
			c.Check(ok && s.Eq(want), "C20-T10", "displayable", fn.Pos(), "true exactly on MSM ∪ {1005,1006}",
				fmt.Sprintf("displayable is true on %v, expected %v", s, want))
		}
	}

	// ---- T9 titles
	checkC20Titles(c)

	// ---- C06-S3 shares the dispatch tables; evaluated here as a sibling check
	checkTimeDispatch(c, T, or, "C20-T11")

	// T12: the value that is classified is the unsigned 12-bit field of the leader, and the stream
	// path delivers the decoder's classification unchanged (C01-R7 rules)
	if f := newFraming(c, "C20-T12"); f != nil {
		f.ruleHelperGates("C20-T12")
		conservationRules(f, "C20-T12", consOpts{returns: true, fetchO: fetchOpts{leaderOK: true, skipPairing: true}})
	}
	// T13: "accepted by exactly its own decoder family" includes that the family decoder does not refuse
	// a message of its own types for a reason outside the standard's list: all rules of C04
	c.Compose(checkC04, "C04", "C20-T13")
	// T14: what the decoder attached to a message (type, timestamp) is what every consumer of the
	// pipeline receives: the fan-out sends the received value itself to every channel (rule of C09)
	if pl := resolvePipeline(c, "C20-T14"); pl != nil {
		ruleFanout(c, pl, "C20-T14")
	}
	c.MinInstances("C20-T8", 19)
	c.MinInstances("C20-T1", 2)
	c.MinInstances("C20-T2", 3)
	c.MinInstances("C20-T3", 15)
	c.MinInstances("C20-T5", 6)
	c.MinInstances("C20-T7", 5)
}

// decodersReached: which decoder tags a function reaches within depth calls.
func decodersReached(P *Prog, f *ssa.Function, dec map[*ssa.Function]string, depth int) []string {
	seen := map[string]bool{}
	var walk func(fn *ssa.Function, d int)
	visited := map[*ssa.Function]bool{}
	walk = func(fn *ssa.Function, d int) {
		if tag, ok := dec[fn]; ok {
			seen[tag] = true
			return
		}
		if d == 0 || visited[fn] || !P.InModule(fn) {
			return
		}
		visited[fn] = true
		eachInstr(fn, func(ins ssa.Instruction) {
			if g := staticCallee(ins); g != nil {
				walk(g, d-1)
			}
		})
	}
	walk(f, depth)
	return sortedStrings(seen)
}

func sortedKeysI64(m map[string]int64) []string {
	var out []string
	for k := range m {
		out = append(out, k)
	}
	sort.Strings(out)
	return out
}

// messageTypeSubject builds the subject for (*Handler).GetMessage: the type
// result of the leader helper, and loads of Message.MessageType from a
// message built by a constructor that stores that value into the field.
func messageTypeSubject(P *Prog, fn *ssa.Function) (subject, ssa.Value, *ssa.Function) {
	msgType := P.Field("rtcm/handler", "Message", "MessageType")
	var typeVal ssa.Value
	var helper *ssa.Function
	eachInstr(fn, func(ins ssa.Instruction) {
		ex, ok := ins.(*ssa.Extract)
		if !ok || ex.Index != 1 {
			return
		}
		call, ok := ex.Tuple.(*ssa.Call)
		if !ok {
			return
		}
		f := call.Call.StaticCallee()
		if f == nil || !P.InModule(f) || f.Signature.Results().Len() != 3 {
			return
		}
		if !isErrorType(f.Signature.Results().At(2).Type()) {
			return
		}
		typeVal = ex
		helper = f
	})
	isSubj := func(v ssa.Value) bool { return false }
	isSubj = func(v ssa.Value) bool {
		v = stripIntConv(v)
		if typeVal != nil && v == typeVal {
			return true
		}
		f, base := loadedField(v)
		if f == nil || f != msgType {
			return false
		}
		if call, ok := base.(*ssa.Call); ok {
			ctor := call.Call.StaticCallee()
			if ctor != nil && ctorStoresParam(ctor, 0, msgType) && len(call.Call.Args) > 0 {
				return isSubj(call.Call.Args[0])
			}
		}
		return false
	}
	return subject{isSubj}, typeVal, helper
}

// ctorStoresParam: constructor stores parameter idx into field fv of the
// struct it returns, unconditionally (in its entry block or dominating all returns).
func ctorStoresParam(fn *ssa.Function, idx int, fv *types.Var) bool {
	if fn == nil || fn.Blocks == nil || idx >= len(fn.Params) {
		return false
	}
	ok := false
	eachInstr(fn, func(ins ssa.Instruction) {
		if st, isSt := ins.(*ssa.Store); isSt {
			if f, _ := fieldOf(st.Addr); f == fv && st.Val == ssa.Value(fn.Params[idx]) {
				dom := true
				for _, r := range returnsOf(fn) {
					if !instrDominates(st, r) {
						dom = false
					}
				}
				if dom {
					ok = true
				}
			}
		}
	})
	return ok
}

func checkC20Timestamp(c *Ctx, T *Tables, msm TySet) {
	P := c.P
	fn := P.Func("rtcm/handler", "(*Handler).GetMessage")
	if fn == nil {
		c.Unresolved("C20-T6", "func rtcm/handler.(*Handler).GetMessage")
		return
	}
	sj, typeVal, _ := messageTypeSubject(P, fn)
	if typeVal == nil {
		c.Fail("C20-T6", "GetMessage:type-value", fn.Pos(), "unresolved", "cannot find the message-type result of the leader helper")
		return
	}
	pa := T.Partition(fn, sj, false)
	tsField := P.Field("rtcm/handler", "Message", "Timestamp")
	n := 0
	var tsStores []ssa.Instruction
	eachInstr(fn, func(ins ssa.Instruction) {
		st, ok := ins.(*ssa.Store)
		if !ok {
			return
		}
		if f, _ := fieldOf(st.Addr); f != tsField {
			return
		}
		n++
		tsStores = append(tsStores, st)
		s := pa.Reach[ins.Block()]
		c.Check(s.Subset(msm) && !s.Empty(), "C20-T6", "GetMessage:timestamp-store", ins.Pos(), "timestamp extracted only for MSM types",
			fmt.Sprintf("a timestamp is extracted for non-MSM types %v", s.Minus(msm)))
	})
	if n == 0 {
		c.Fail("C20-T6", "GetMessage:timestamp-store", fn.Pos(), "unresolved", "no store to Message.Timestamp found")
		return
	}
	// every successful typed return for an MSM type passes a timestamp store
	for _, r := range virtualReturns(fn) {
		if len(r.Results) != 2 {
			continue
		}
		call, ok := r.Results[0].(*ssa.Call)
		if !ok || call.Call.StaticCallee() == nil || call.Call.StaticCallee().Name() != "NewMessage" {
			continue
		}
		dominated := false
		for _, st := range tsStores {
			if r.DominatedBy(st) {
				dominated = true
			}
		}
		if dominated {
			c.OK("C20-T6", "GetMessage:typed-return(with timestamp)", r.R.Pos(), "dominated by the timestamp store")
			continue
		}
		// an error return without a timestamp is legitimate only for a message too short to hold one
		// (the exit guarded by a length test against a constant); any other MSM exit carries the timestamp
		if !isNilConst(r.Results[1]) {
			tooShort := false
			for _, ft := range r.Facts() {
				if bo, ok := ft.Cond.(*ssa.BinOp); ok && isInteger(bo.X.Type()) {
					_, cy := constInt(bo.Y)
					_, cx := constInt(bo.X)
					if (cy || cx) && (bo.Op == token.LSS || bo.Op == token.LEQ || bo.Op == token.GTR || bo.Op == token.GEQ) {
						// the rejecting edge of a length comparison: value below the constant
						if (cy && (bo.Op == token.LSS || bo.Op == token.LEQ) && ft.Val) || (cy && (bo.Op == token.GTR || bo.Op == token.GEQ) && !ft.Val) ||
							(cx && (bo.Op == token.GTR || bo.Op == token.GEQ) && ft.Val) || (cx && (bo.Op == token.LSS || bo.Op == token.LEQ) && !ft.Val) {
							tooShort = true
						}
					}
				}
			}
			// ... or for a frame that was rejected before or by the CRC check
			verified := false
			for _, ft := range r.Facts() {
				if bo, ok := ft.Cond.(*ssa.BinOp); ok && (bo.Op == token.EQL || bo.Op == token.NEQ) {
					x, y := bo.X, bo.Y
					if isNilConst(x) {
						x, y = y, x
					}
					if call, ok := x.(*ssa.Call); ok && isNilConst(y) && call.Call.StaticCallee() != nil && call.Call.StaticCallee().Name() == "CheckCRC" && (bo.Op == token.EQL) == ft.Val {
						verified = true
					}
				}
			}
			if tooShort || !verified {
				continue
			}
		}
		s := pa.Reach[r.At].And(msm)
		c.Check(s.Empty(), "C20-T6", "GetMessage:typed-return(no timestamp)", r.R.Pos(), "not reachable for MSM types",
			fmt.Sprintf("MSM types %v can be returned without an extracted timestamp", s))
	}
}

// checkC20Titles: every title in the table is a non-empty constant and the
// fallback title is produced exactly when the table has none.
func checkC20Titles(c *Ctx) {
	P := c.P
	fn := P.Func("rtcm/utils", "GetTitleAndComment")
	if fn == nil {
		c.Unresolved("C20-T9", "func rtcm/utils.GetTitleAndComment")
		return
	}
	tc := P.Named("rtcm/utils", "TitleAndComment")
	titleF := P.Field("rtcm/utils", "TitleAndComment", "Title")
	if tc == nil || titleF == nil {
		c.Unresolved("C20-T9", "type rtcm/utils.TitleAndComment")
		return
	}
	// table entries: MapUpdate with constant key and a struct value whose Title is a constant string
	entries, empty, nonConst := 0, 0, 0
	tableMaps := map[ssa.Value]bool{}
	eachInstr(fn, func(ins ssa.Instruction) {
		mu, ok := ins.(*ssa.MapUpdate)
		if !ok {
			return
		}
		entries++
		tableMaps[mu.Map] = true
		title, ok := structFieldConst(mu.Value, 0)
		if !ok {
			nonConst++
			c.Fail("C20-T9", "title-table:nonconst", mu.Pos(), "unproven", "title table entry is not a constant struct literal")
			return
		}
		if len(title) == 0 {
			empty++
			// an empty title in the table is replaced by the fallback; allowed but noted
		}
	})
	c.Check(entries >= 100, "C20-T9", "title-table:entries", fn.Pos(), fmt.Sprintf("%d constant entries (%d empty, replaced by fallback)", entries, empty),
		fmt.Sprintf("only %d table entries found", entries))
	// returns: each returned pointer is (a) the table value under len(Title)!=0, or (b) a fresh struct with Sprintf title with non-empty literal text
	for _, r := range returnsOf(fn) {
		v := r.Results[0]
		al, ok := v.(*ssa.Alloc)
		if !ok {
			c.Fail("C20-T9", "title:return", r.Pos(), "unproven", "returned value is not a local TitleAndComment")
			continue
		}
		// find stores into al (whole struct or fields)
		var whole ssa.Value
		var titleStore ssa.Value
		for _, ref := range referrers(al) {
			switch x := ref.(type) {
			case *ssa.Store:
				if x.Addr == al {
					whole = x.Val
				}
			case *ssa.FieldAddr:
				if f, _ := fieldOf(x); f == titleF {
					for _, r2 := range referrers(x) {
						if st, ok := r2.(*ssa.Store); ok && st.Addr == x {
							titleStore = st.Val
						}
					}
				}
			}
		}
		switch {
		case titleStore != nil:
			call, ok := titleStore.(*ssa.Call)
			good := false
			if ok && calleeIs(call.Call.StaticCallee(), "fmt", "Sprintf") {
				if f, ok := constString(call.Call.Args[0]); ok && literalText(f) != "" {
					good = true
				}
			}
			if s, ok := constString(titleStore); ok && s != "" {
				good = true
			}
			c.Check(good, "C20-T9", "title:fallback", r.Pos(), "fallback title has non-empty literal text", "fallback title may be empty")
		case whole != nil:
			// table lookup result: must be guarded by len(Title) != 0
			guarded := false
			for _, f := range dominatingFacts(r.Block()) {
				if titleNonEmpty(f, titleF) {
					guarded = true
				}
			}
			if !guarded && empty == 0 && nonConst == 0 {
				// `v, present := table[k]` taken only when present: every entry of the table has a
				// non-empty constant title (counted above), so presence implies a title
				if ex, ok := whole.(*ssa.Extract); ok && ex.Index == 0 {
					if lk, ok := ex.Tuple.(*ssa.Lookup); ok && lk.CommaOk && tableMaps[lk.X] {
						for _, f := range dominatingFacts(r.Block()) {
							if e2, ok := f.Cond.(*ssa.Extract); ok && e2.Tuple == ex.Tuple && e2.Index == 1 && f.Val {
								guarded = true
							}
						}
					}
				}
			}
			c.Check(guarded, "C20-T9", "title:table-hit", r.Pos(), "table entry returned only when its title is non-empty",
				"table entry returned without the non-empty-title guard")
		default:
			c.Fail("C20-T9", "title:return", r.Pos(), "unproven", "cannot determine the returned title")
		}
	}
	c.MinInstances("C20-T9", 3)
}

// structFieldConst: v is a struct-valued SSA value built as a literal; return
// the constant string stored in field idx.  go/ssa builds struct literals into
// an Alloc + field stores + load; map literal values appear as the load.
func structFieldConst(v ssa.Value, idx int) (string, bool) {
	u, ok := v.(*ssa.UnOp)
	if !ok || u.Op != token.MUL {
		return "", false
	}
	al, ok := u.X.(*ssa.Alloc)
	if !ok {
		return "", false
	}
	res, found := "", false
	for _, ref := range referrers(al) {
		fa, ok := ref.(*ssa.FieldAddr)
		if !ok || fa.Field != idx {
			continue
		}
		for _, r2 := range referrers(fa) {
			if st, ok := r2.(*ssa.Store); ok && st.Addr == fa {
				if s, ok := constString(st.Val); ok {
					res, found = s, true
				} else {
					return "", false
				}
			}
		}
	}
	if !found {
		// zero value: empty string
		return "", true
	}
	return res, true
}

// literalText returns the literal (non-verb) text of a format string.
func literalText(f string) string {
	var b strings.Builder
	for i := 0; i < len(f); i++ {
		if f[i] == '%' {
			i++
			for i < len(f) && strings.ContainsRune("+-# 0123456789.*[]", rune(f[i])) {
				i++
			}
			if i < len(f) && f[i] == '%' {
				b.WriteByte('%')
			}
			continue
		}
		b.WriteByte(f[i])
	}
	return strings.TrimSpace(b.String())
}

// titleNonEmpty: the fact says that the Title field of the entry is not the empty string
// (len(Title) compared with a constant, or Title compared with "").
func titleNonEmpty(f EdgeFact, titleF *types.Var) bool {
	b, ok := f.Cond.(*ssa.BinOp)
	if !ok {
		return false
	}
	if fv, _ := loadedField(b.X); fv == titleF {
		if s, isC := constString(b.Y); isC && s == "" {
			return (b.Op == token.NEQ && f.Val) || (b.Op == token.EQL && !f.Val)
		}
		return false
	}
	call, ok := b.X.(*ssa.Call)
	if !ok {
		return isLenTitleZero(f.Cond, titleF) && !f.Val
	}
	if bi, ok := call.Call.Value.(*ssa.Builtin); !ok || bi.Name() != "len" {
		return false
	}
	if fv, _ := loadedField(call.Call.Args[0]); fv != titleF {
		return false
	}
	k, isC := constInt(b.Y)
	if !isC {
		return false
	}
	switch {
	case b.Op == token.EQL && k == 0 && !f.Val, b.Op == token.NEQ && k == 0 && f.Val,
		b.Op == token.GTR && k == 0 && f.Val, b.Op == token.GEQ && k == 1 && f.Val,
		b.Op == token.LEQ && k == 0 && !f.Val, b.Op == token.LSS && k == 1 && !f.Val:
		return true
	}
	return false
}

func isLenTitleZero(cond ssa.Value, titleF *types.Var) bool {
	b, ok := cond.(*ssa.BinOp)
	if !ok || b.Op != token.EQL {
		return false
	}
	x, y := b.X, b.Y
	if c, ok := constInt(x); ok && c == 0 {
		x, y = y, x
	}
	if c, ok := constInt(y); !ok || c != 0 {
		return false
	}
	call, ok := x.(*ssa.Call)
	if !ok {
		return false
	}
	if bi, ok := call.Call.Value.(*ssa.Builtin); !ok || bi.Name() != "len" {
		return false
	}
	f, _ := loadedField(call.Call.Args[0])
	return f == titleF
}

// checkTimeDispatch (C06-S3 / C20-T11): getTimeFromTimeStamp and
// getStartOfWeek map the eight message types to the four constellation
// converters / week fields, and agree with each other.
func checkTimeDispatch(c *Ctx, T *Tables, or *classOracle, rule string) {
	P := c.P
	conv := map[string]string{} // callee name token -> constellation
	want := map[string]TySet{}
	for name, ts := range or.TimeDispatch {
		want[name] = SetOf(ts...)
		conv[strings.ToLower(name)] = name
	}
	constOf := func(s string) string {
		ls := strings.ToLower(s)
		for tok, name := range conv {
			if strings.Contains(ls, tok) {
				return name
			}
		}
		return ""
	}
	var all TySet
	for _, s := range want {
		all = all.Or(s)
	}
	// table A: dispatch to converters
	gotA := map[string]TySet{}
	if fn, _ := P.Method("rtcm/handler", "Handler", "getTimeFromTimeStamp"); fn == nil {
		c.Unresolved(rule, "method rtcm/handler.Handler.getTimeFromTimeStamp")
	} else {
		pa := T.Partition(fn, paramSubject(fn, 1), true)
		if pa.Cyclic || len(pa.Unknown) > 0 {
			c.Fail(rule, "getTimeFromTimeStamp", fn.Pos(), "unproven", "unrecognised dispatch conditions: "+pa.describeUnknown())
		} else {
			eachInstr(fn, func(ins ssa.Instruction) {
				f := staticCallee(ins)
				if f == nil || !P.InModule(f) || f.Signature.Recv() == nil {
					return
				}
				if k := constOf(f.Name()); k != "" {
					gotA[k] = gotA[k].Or(pa.Reach[ins.Block()])
				}
			})
			// error returns for everything else
			var errSet TySet
			for _, r := range returnsOf(fn) {
				pa.ValueByType(r.Results[1], pa.Reach[r.Block()], func(s TySet, v ssa.Value) {
					if call, ok := v.(*ssa.Call); ok && calleeIs(call.Call.StaticCallee(), "errors", "New") {
						errSet = errSet.Or(s)
					}
				})
			}
			for _, k := range sortedKeysSet(want) {
				c.Check(gotA[k].Eq(want[k]), rule, "time-dispatch("+k+")", fn.Pos(), k+" converter for "+want[k].String(),
					fmt.Sprintf("%s time converter is used for %v, expected %v", k, gotA[k], want[k]))
			}
			c.Check(errSet.Eq(FullSet().Minus(all)), rule, "time-dispatch(other)", fn.Pos(), "all other types yield the unknown-type error",
				fmt.Sprintf("unknown-type error returned for %v, expected the complement of %v", errSet, all))
		}
	}
	// table B: start of week
	gotB := map[string]TySet{}
	if fn, _ := P.Method("rtcm/handler", "Handler", "getStartOfWeek"); fn == nil {
		c.Unresolved(rule, "method rtcm/handler.Handler.getStartOfWeek")
	} else {
		pa := T.Partition(fn, paramSubject(fn, 1), true)
		if pa.Cyclic || len(pa.Unknown) > 0 {
			c.Fail(rule, "getStartOfWeek", fn.Pos(), "unproven", "unrecognised dispatch conditions: "+pa.describeUnknown())
		} else {
			for _, r := range returnsOf(fn) {
				pa.ValueByType(r.Results[0], pa.Reach[r.Block()], func(s TySet, v ssa.Value) {
					if f, _ := loadedField(v); f != nil {
						if k := constOf(f.Name()); k != "" && strings.Contains(strings.ToLower(f.Name()), "startof") {
							gotB[k] = gotB[k].Or(s)
						}
					}
				})
			}
			for _, k := range sortedKeysSet(want) {
				c.Check(gotB[k].Eq(want[k]), rule, "startofweek-dispatch("+k+")", fn.Pos(), k+" week field for "+want[k].String(),
					fmt.Sprintf("%s start-of-week is returned for %v, expected %v", k, gotB[k], want[k]))
				c.Check(gotA[k].Eq(gotB[k]), rule, "sibling-agreement("+k+")", fn.Pos(), "converter table == week table",
					fmt.Sprintf("time converter table %v and start-of-week table %v disagree for %s", gotA[k], gotB[k], k))
			}
		}
	}
}

func sortedKeysSet(m map[string]TySet) []string {
	var out []string
	for k := range m {
		out = append(out, k)
	}
	sort.Strings(out)
	return out
}

// ruleFamilyGates: each MSM decoder family succeeds exactly for its own types
// and decodes cells only for them (C20-T5, C04-R7).
func ruleFamilyGates(c *Ctx, T *Tables, rule string, msm4, msm7, msm TySet) {
	P := c.P
	hdrType := P.Field("rtcm/header", "Header", "MessageType")
	for _, fam := range []struct {
		pkg  string
		want TySet
		nm   string
	}{{"rtcm/type_msm4/message", msm4, "MSM4"}, {"rtcm/type_msm7/message", msm7, "MSM7"}} {
		fn := P.Func(fam.pkg, "GetMessage")
		if fn == nil || hdrType == nil {
			c.Unresolved(rule, "func "+fam.pkg+".GetMessage / field header.Header.MessageType")
			continue
		}
		if st := storesToField(fn, hdrType); len(st) > 0 {
			c.Fail(rule, fam.nm+":store-to-type", st[0].Pos(), "refuted", "decoder overwrites Header.MessageType")
			continue
		}
		pa := T.Partition(fn, fieldSubject(hdrType), false)
		// the construction (successful return) must be reached exactly for the family
		var okSet TySet
		nOK := 0
		for _, r := range returnsOf(fn) {
			if len(r.Results) == 2 && isNilConst(r.Results[1]) {
				okSet = okSet.Or(pa.Reach[r.Block()])
				nOK++
			}
		}
		// compose with the header reader's accept set (T4): only MSM types arrive
		okSet = okSet.And(msm)
		c.Check(nOK > 0 && okSet.Eq(fam.want), rule, fam.nm+":family-gate", fn.Pos(),
			"successful decode reachable exactly for "+fam.want.String(),
			fmt.Sprintf("%s decoder succeeds for %v, expected exactly %v", fam.nm, okSet, fam.want))
		// every cell-decoding call is gated too
		eachInstr(fn, func(ins ssa.Instruction) {
			f := staticCallee(ins)
			if f == nil || !P.InModule(f) {
				return
			}
			if f.Name() == "GetSatelliteCells" || f.Name() == "GetSignalCells" {
				s := pa.Reach[ins.Block()].And(msm)
				c.Check(s.Subset(fam.want), rule, fam.nm+":gate("+f.Name()+")", ins.Pos(),
					"cell decoding only for the family", fmt.Sprintf("%s reached for %v", f.Name(), s.Minus(fam.want)))
			}
		})
	}

}
