package main

// C15 — decoding and display are deterministic and free of hidden state.

import (
	"fmt"
	"go/token"
	"go/types"
	"strings"

	"golang.org/x/tools/go/ssa"
)

var rtcmPkgs = []string{"rtcm/handler", "rtcm/header", "rtcm/utils", "rtcm/pushback", "rtcm/type1005", "rtcm/type1006",
	"rtcm/type_msm4/message", "rtcm/type_msm4/satellite", "rtcm/type_msm4/signal",
	"rtcm/type_msm7/message", "rtcm/type_msm7/satellite", "rtcm/type_msm7/signal"}

func checkC15(c *Ctx) {
	c.Explanation = "Decides the absence of hidden state on the decode/display path: (R1) package-level variables of the rtcm packages are written (assignments, map updates, deletes, element stores) only in init functions, so every frame and every handler sees the same tables; (R2) no code reachable from decoding or display stores through the raw byte buffer of a frame (the []byte input of the decoders, Message.RawData); (R3) display is idempotent: String, PrepareForDisplay, Analyse and their helpers store only into fields of the message they are given, never a value computed from that field's previous content (no append/accumulate), and never into MessageType, RawData or the time lines; (R4) the handler retains no buffer: Handler and the push-back channel have no field that could alias a delivered RawData other than the push-back bytes, and each delivered RawData derives from an allocation made in the same fetch; (R5) consumers get independent copies: the pipeline sends Message values (not pointers) and neither the framer nor the fan-out calls String/Analyse before sending, so the Readable part is nil when the copies are made and RawData is never written afterwards (R2); (R6) decoding and display read no package variable that is written outside init. (R7) whether a time conversion reports an error is decided by the timestamp alone, never by the handler's stored week state, so the error text of a message does not depend on the frames decoded before it. R5 also requires Message.Copy to allocate new bytes and leave the decoded form unset. (R8) no function on the decode/display path ranges over a map except to collect its keys into a slice that is then sorted: Go randomises map iteration, so anything else makes repeated displays differ."
	c.NotDecided = "the MSM time lines (by design they follow the handler's history); purity of fmt/hex/time formatting."
	P := c.P
	roots := c07Roots(c, "C15-anchor")
	if len(roots) < 5 {
		return
	}
	reach := P.ReachableModule(roots)
	// String methods reached through fmt
	for _, fn := range P.ModFuncs() {
		if fn.Name() == "String" && fn.Signature.Recv() != nil && inPkgs(P, fn, rtcmPkgs) {
			for g := range P.ReachableModule([]*ssa.Function{fn}) {
				reach[g] = true
			}
		}
	}
	// ---- R1 package variables written only in init
	ruleGlobalsInitOnly(c, "C15-R1", rtcmPkgs)
	// positive control for the zero-expected rule: the init function itself must be seen writing the tables
	seenInit := 0
	for _, fn := range P.FuncsIn("rtcm/utils") {
		if !isInitFn(fn) {
			continue
		}
		eachInstr(fn, func(ins ssa.Instruction) {
			if mu, ok := ins.(*ssa.MapUpdate); ok && loadOfGlobal(mu.Map) != nil {
				seenInit++
			}
			if st, ok := ins.(*ssa.Store); ok {
				if _, isG := st.Addr.(*ssa.Global); isG {
					seenInit++
				}
			}
		})
	}
	// (today: 14 map updates and 7 assignments; a table may also be filled before it is assigned)
	c.Check(seenInit >= 7, "C15-R1", "positive-control(init writes tables)", token.NoPos, fmt.Sprintf("the detector sees %d table writes inside init", seenInit), "the global-write detector does not see the init-time table writes (it would pass vacuously)")

	// ---- R2 raw buffers are never written
	ruleRawBuffersReadOnly(c, "C15-R2", reach)
	// ---- R3 (continued) display code does not rearrange a decoded slice in place (`s[:0]` + append)
	ruleNoInPlaceAppend(c, "C15-R3", reach)
	// ---- R8 no result depends on the iteration order of a map
	ruleNoMapOrder(c, "C15-R8", reach)
	// ---- R3 display stores
	M := P.Named("rtcm/handler", "Message")
	dispRoots := []*ssa.Function{P.Func("rtcm/handler", "(*Message).String"), P.Func("rtcm/handler", "PrepareForDisplay"), P.Func("rtcm/handler", "Analyse")}
	for _, r := range dispRoots {
		if r == nil {
			c.Unresolved("C15-R3", "display entry points")
			return
		}
	}
	dreach := P.ReachableModule(dispRoots)
	allowed := map[string]bool{"Readable": true, "ErrorMessage": true}
	ndisp := 0
	for fn := range dreach {
		eachInstr(fn, func(ins ssa.Instruction) {
			st, ok := ins.(*ssa.Store)
			if !ok {
				return
			}
			fa, ok := st.Addr.(*ssa.FieldAddr)
			if !ok {
				return
			}
			fv, base := fieldOf(fa)
			rb := root(base)
			if _, isLocal := rb.(*ssa.Alloc); isLocal {
				return // object under construction in this function
			}
			if call, isCall := rb.(*ssa.Call); isCall && call.Call.StaticCallee() != nil && P.InModule(call.Call.StaticCallee()) {
				return // freshly constructed by a module constructor
			}
			ndisp++
			key := fmt.Sprintf("display-store(%s.%s in %s)", fa.X.Type().String(), fv.Name(), P.FnKey(fn))
			key = strings.ReplaceAll(key, modPath+"/", "")
			isMsg := types.Identical(fa.X.Type().Underlying().(*types.Pointer).Elem(), M)
			if !isMsg || !allowed[fv.Name()] {
				c.Fail("C15-R3", key, ins.Pos(), "refuted", "display/analysis code modifies "+fv.Name()+" of a shared object: repeated display or another consumer's copy can observe the change")
				return
			}
			// idempotence: the stored value must not be computed from the field's previous value
			dep := dependsOnLoadOfField(st.Val, fv)
			c.Check(!dep, "C15-R3", key, ins.Pos(), "stores a value that does not depend on the field's previous content (idempotent)",
				"the new "+fv.Name()+" is computed from its previous value: displaying the message again changes it")
		})
	}
	if ndisp == 0 {
		c.Fail("C15-R3", "display-stores", token.NoPos, "unresolved", "no store into the message found on the display path (Readable is never set?)")
	}
	// Readable is computed at most once: Analyse is reached only when Readable is nil
	if pd := dispRoots[1]; pd != nil {
		readableF := P.Field("rtcm/handler", "Message", "Readable")
		eachInstr(pd, func(ins ssa.Instruction) {
			if f := staticCallee(ins); f == dispRoots[2] {
				g := false
				for _, ft := range dominatingFacts(ins.Block()) {
					if bo, ok := ft.Cond.(*ssa.BinOp); ok && ((bo.Op == token.EQL && ft.Val) || (bo.Op == token.NEQ && !ft.Val)) && isNilConst(bo.Y) {
						if fv, _ := loadedField(bo.X); fv == readableF {
							g = true
						}
					}
				}
				c.Check(g, "C15-R3", "analyse-once", ins.Pos(), "Analyse runs only while Readable is nil", "Analyse can run although the readable form already exists")
			}
		})
	}
	// ---- R4 no retained buffers
	if f := ruleFreshFrameBuffers(c, "C15-R4"); f != nil {
		// ---- R5 fan-out by value, no display before sending
		for _, fn := range []*ssa.Function{f.pl.stream, f.pl.fanout, f.pl.fetch, f.pl.getMsg} {
			for g := range P.ReachableModule([]*ssa.Function{fn}) {
				if g == dispRoots[0] || g == dispRoots[1] || g == dispRoots[2] {
					c.Fail("C15-R5", "display-before-fanout("+P.FnKey(fn)+")", fn.Pos(), "refuted", "the pipeline decodes/displays a message before copying it to the consumers: the consumers share the readable form")
				}
			}
		}
		for _, fn := range []*ssa.Function{f.pl.stream, f.pl.fanout} {
			eachInstr(fn, func(ins ssa.Instruction) {
				if sd, ok := ins.(*ssa.Send); ok {
					_, isPtr := sd.X.Type().Underlying().(*types.Pointer)
					c.Check(!isPtr && types.Identical(sd.X.Type(), M), "C15-R5", "send-by-value("+P.FnKey(fn)+")", ins.Pos(), "messages are sent by value", "messages are sent by reference: consumers share one object")
				}
			})
		}
	}
	// ---- R6 reads of mutable package state
	nrd := 0
	for fn := range reach {
		eachInstr(fn, func(ins ssa.Instruction) {
			if u, ok := ins.(*ssa.UnOp); ok && u.Op == token.MUL {
				if g, ok := u.X.(*ssa.Global); ok && P.InModule(fn) && g.Pkg != nil && !globalIsInitOnly(P, g) {
					if _, inMod := P.SSAPkg[g.Pkg.Pkg.Path()]; inMod {
						nrd++
						c.Fail("C15-R6", "mutable-global-read("+g.Name()+" in "+P.FnKey(fn)+")", ins.Pos(), "refuted", "decode/display reads a package variable that is written outside init")
					}
				}
			}
		})
	}
	if nrd == 0 {
		c.OK("C15-R6", "reads-only-init-time-tables", token.NoPos, "every package variable read on the decode/display path is written only by initialisers")
	}
	// ---- R5 (continued) Message.Copy hands out an independent message: a fresh copy of the bytes and no
	// decoded form (the decoded form is a pointer: sharing it lets one consumer's display or changes
	// show through in the other's)
	if cp := P.Func("rtcm/handler", "(*Message).Copy"); cp != nil {
		okRaw, okReadable := false, true
		eachInstr(cp, func(ins ssa.Instruction) {
			st, ok := ins.(*ssa.Store)
			if !ok {
				return
			}
			fa, ok := st.Addr.(*ssa.FieldAddr)
			if !ok {
				return
			}
			f, _ := fieldOf(fa)
			if f == nil {
				return
			}
			switch f.Name() {
			case "RawData":
				_, okRaw = root(st.Val).(*ssa.MakeSlice)
			case "Readable":
				if !isNilConst(st.Val) {
					okReadable = false
				}
			}
		})
		c.Check(okRaw && okReadable, "C15-R5", "copy-independent", cp.Pos(), "Copy allocates new bytes and leaves the decoded form unset",
			"Message.Copy shares storage with the original (the decoded form or the raw bytes): a copy's text depends on what was done to the original, and consumers can change each other's view")
	} else {
		c.Unresolved("C15-R5", "rtcm/handler.(*Message).Copy")
	}
	// ---- R3 (continued) a message carries its own data: no field of Message refers to the Handler (a
	// message that asks the handler for part of its text at display time shows the handler's state of
	// that moment, not of the moment it was decoded)
	if M, H := P.Named("rtcm/handler", "Message"), P.Named("rtcm/handler", "Handler"); M != nil && H != nil {
		var reaches func(t types.Type, seen map[types.Type]bool) bool
		reaches = func(t types.Type, seen map[types.Type]bool) bool {
			if seen[t] {
				return false
			}
			seen[t] = true
			if types.Identical(t, H) {
				return true
			}
			switch u := t.Underlying().(type) {
			case *types.Pointer:
				return reaches(u.Elem(), seen)
			case *types.Slice:
				return reaches(u.Elem(), seen)
			case *types.Array:
				return reaches(u.Elem(), seen)
			case *types.Map:
				return reaches(u.Key(), seen) || reaches(u.Elem(), seen)
			case *types.Chan:
				return reaches(u.Elem(), seen)
			case *types.Struct:
				for i := 0; i < u.NumFields(); i++ {
					if reaches(u.Field(i).Type(), seen) {
						return true
					}
				}
			case *types.Signature:
				return true // a stored function can capture anything
			}
			return false
		}
		ms := M.Underlying().(*types.Struct)
		okM := true
		for i := 0; i < ms.NumFields(); i++ {
			if reaches(ms.Field(i).Type(), map[types.Type]bool{}) {
				okM = false
				c.Fail("C15-R3", "message-self-contained("+ms.Field(i).Name()+")", ms.Field(i).Pos(), "refuted", "Message."+ms.Field(i).Name()+" can refer to the Handler (or holds a function): what the message displays can then depend on the handler's state at display time")
			}
		}
		if okM {
			c.OK("C15-R3", "message-self-contained", M.Obj().Pos(), "no field of Message can refer to the Handler")
		}
	} else {
		c.Unresolved("C15-R3", "rtcm/handler.Message / Handler")
	}
	// ---- R7 whether a time conversion fails depends on the timestamp alone, never on the handler's
	// history: the error text of a message (and with it whether its body is displayed at all) is
	// the same whatever was decoded before
	ruleTimeErrorsHistoryFree(c, "C15-R7")
	c.MinInstances("C15-R7", 4)
	c.MinInstances("C15-R1", 2)
	c.MinInstances("C15-R3", 8)
	c.MinInstances("C15-R5", 2)
}

// dependsOnLoadOfField: v is computed from a load of field fv (any object).
func dependsOnLoadOfField(v ssa.Value, fv *types.Var) bool {
	seen := map[ssa.Value]bool{}
	var walk func(v ssa.Value, d int) bool
	walk = func(v ssa.Value, d int) bool {
		if v == nil || seen[v] || d > 12 {
			return false
		}
		seen[v] = true
		if f, _ := loadedField(v); f == fv {
			return true
		}
		ins, ok := v.(ssa.Instruction)
		if !ok {
			return false
		}
		var ops []*ssa.Value
		for _, op := range ins.Operands(ops) {
			if op != nil && *op != nil && walk(*op, d+1) {
				return true
			}
		}
		if al, ok := v.(*ssa.Alloc); ok {
			for _, r := range referrers(al) {
				if ia, ok := r.(*ssa.IndexAddr); ok {
					for _, r2 := range referrers(ia) {
						if st, ok := r2.(*ssa.Store); ok && walk(st.Val, d+1) {
							return true
						}
					}
				}
			}
		}
		return false
	}
	return walk(v, 0)
}

// ruleGlobalsInitOnly: package-level variables of pkgs are written (assigned,
// element/field stored, map-updated, deleted from, or handed out by address)
// only by initialisers.
func ruleGlobalsInitOnly(c *Ctx, rule string, pkgs []string) {
	P := c.P
	nvars, nbad := 0, 0
	for _, pk := range pkgs {
		sp := P.Pkg(pk)
		if sp == nil {
			c.Unresolved(rule, "package "+pk)
			continue
		}
		for _, m := range sp.Members {
			if _, ok := m.(*ssa.Global); ok {
				nvars++
			}
		}
	}
	for _, fn := range P.ModFuncs() {
		if isInitFn(fn) || (fn.Synthetic != "" && fn.Name() == "init") {
			continue
		}
		eachInstr(fn, func(ins ssa.Instruction) {
			var g *ssa.Global
			what := ""
			switch x := ins.(type) {
			case *ssa.Store:
				if gg, ok := x.Addr.(*ssa.Global); ok {
					g, what = gg, "assigned"
				} else if ia, ok := x.Addr.(*ssa.IndexAddr); ok {
					if gg := loadOfGlobal(ia.X); gg != nil {
						g, what = gg, "element stored"
					}
					if gg, ok := ia.X.(*ssa.Global); ok {
						g, what = gg, "element stored"
					}
				} else if fa, ok := x.Addr.(*ssa.FieldAddr); ok {
					if gg, ok := fa.X.(*ssa.Global); ok {
						g, what = gg, "field stored"
					}
				}
			case *ssa.MapUpdate:
				if gg := loadOfGlobal(x.Map); gg != nil {
					g, what = gg, "map updated"
				}
			case *ssa.Call:
				if b, ok := x.Call.Value.(*ssa.Builtin); ok && (b.Name() == "delete" || b.Name() == "clear") && len(x.Call.Args) > 0 {
					if gg := loadOfGlobal(x.Call.Args[0]); gg != nil {
						g, what = gg, b.Name()
					}
				}
			}
			if g == nil {
				// a package-level array or slice used as append/copy destination (scratch storage kept between calls)
				if call, ok := ins.(*ssa.Call); ok {
					if b, isB := call.Call.Value.(*ssa.Builtin); isB && (b.Name() == "append" || b.Name() == "copy") && len(call.Call.Args) > 0 {
						base := call.Call.Args[0]
						for i := 0; i < 6; i++ {
							if sl, ok := base.(*ssa.Slice); ok {
								base = sl.X
								continue
							}
							if phi, ok := base.(*ssa.Phi); ok && len(phi.Edges) > 0 {
								// a loop-carried slice that starts as a slice of the global
								for _, e := range phi.Edges {
									if _, isSl := e.(*ssa.Slice); isSl {
										base = e
									}
								}
								continue
							}
							break
						}
						if gg, ok := base.(*ssa.Global); ok {
							g, what = gg, "used as "+b.Name()+" destination (storage shared between calls)"
						} else if gg := loadOfGlobal(base); gg != nil {
							g, what = gg, "used as "+b.Name()+" destination (storage shared between calls)"
						}
					}
				}
			}
			if g == nil {
				// the address of a package-level variable handed to a call (method call on a
				// global such as sync.Map.Store, or &global passed on): hidden shared state
				if ci, ok := ins.(ssa.CallInstruction); ok {
					args := append([]ssa.Value{}, ci.Common().Args...)
					if ci.Common().IsInvoke() {
						args = append(args, ci.Common().Value)
					}
					for _, a := range args {
						if gg, ok := a.(*ssa.Global); ok {
							g, what = gg, "passed by address to "+ci.Common().String()
						}
					}
				}
			}
			if g == nil || g.Pkg == nil {
				return
			}
			in := false
			for _, pk := range pkgs {
				if rel(g.Pkg.Pkg.Path()) == pk {
					in = true
				}
			}
			if !in {
				return
			}
			nbad++
			c.Fail(rule, fmt.Sprintf("global-write(%s.%s in %s)", rel(g.Pkg.Pkg.Path()), g.Name(), P.FnKey(fn)), ins.Pos(), "refuted",
				"package-level variable "+g.Name()+" is "+what+" outside init: decoding/display depends on (and races over) hidden shared state")
		})
	}
	if nbad == 0 {
		c.OK(rule, "globals-init-only", token.NoPos, fmt.Sprintf("%d package-level variables of the rtcm packages are written only by initialisers", nvars))
	}
}

// canHoldBytes: a value of type t can (transitively) refer to a byte slice or
// to data of unknown type (interface, function, channel), i.e. it could keep
// or share a frame's raw data.  Strings are immutable and scalar fields carry
// no reference.
func canHoldBytes(t types.Type, seen map[types.Type]bool) bool {
	if seen[t] {
		return false
	}
	seen[t] = true
	switch u := t.Underlying().(type) {
	case *types.Basic:
		return u.Kind() == types.UnsafePointer
	case *types.Slice:
		if b, ok := u.Elem().Underlying().(*types.Basic); ok && b.Kind() == types.Byte {
			return true
		}
		return canHoldBytes(u.Elem(), seen)
	case *types.Array:
		return canHoldBytes(u.Elem(), seen)
	case *types.Pointer:
		return canHoldBytes(u.Elem(), seen)
	case *types.Map:
		return canHoldBytes(u.Key(), seen) || canHoldBytes(u.Elem(), seen)
	case *types.Struct:
		for i := 0; i < u.NumFields(); i++ {
			if canHoldBytes(u.Field(i).Type(), seen) {
				return true
			}
		}
		return false
	case *types.Interface, *types.Chan, *types.Signature:
		return true
	}
	return true
}

// ruleFreshFrameBuffers (C15-R4, C09-R6): the handler has no field that could retain or share a frame's
// bytes, and the buffer of every fetch starts as a fresh allocation, so a delivered message never
// shares storage with what the framer does afterwards.  Returns the framing context for further rules.
func ruleFreshFrameBuffers(c *Ctx, rule string) *framing {
	P := c.P
	for _, t := range []struct{ pkg, typ string }{{"rtcm/handler", "Handler"}} {
		n := P.Named(t.pkg, t.typ)
		if n == nil {
			c.Unresolved(rule, t.pkg+"."+t.typ)
			continue
		}
		st := n.Underlying().(*types.Struct)
		bad := false
		for i := 0; i < st.NumFields(); i++ {
			switch st.Field(i).Type().Underlying().(type) {
			case *types.Slice, *types.Map, *types.Pointer, *types.Interface, *types.Chan:
				if !canHoldBytes(st.Field(i).Type(), map[types.Type]bool{}) {
					// e.g. a pointer to a struct of counters: it cannot alias or retain a frame's bytes
					continue
				}
				bad = true
				c.Fail(rule, "handler-field("+st.Field(i).Name()+")", st.Field(i).Pos(), "refuted", "the handler has a reference-typed field that could retain or share per-frame data between messages")
			}
		}
		if !bad {
			c.OK(rule, "handler-holds-no-references", n.Obj().Pos(), "Handler consists of time values, counters and a log level only")
		}
	}
	// each delivered RawData derives from a buffer made in the junk eater of the same fetch (C02 accumulator chain)
	f := newFraming(c, rule)
	if f != nil {
		var eatInit []ssa.Value
		eachInstr(f.pl.eat, func(ins ssa.Instruction) {
			if v, ok := ins.(ssa.Value); ok && isFreshSlice(v) && f.A.LenOf(v).Equal(LinConst(0)) {
				eatInit = append(eatInit, v)
			}
		})
		A := f.accumulatorsOnly(f.pl.eat, eatInit)
		okRet := len(eatInit) == 1
		for _, r := range returnsOf(f.pl.eat) {
			if !A[r.Results[0]] {
				okRet = false
			}
		}
		c.Check(okRet, rule, "fresh-buffer-per-fetch", f.pl.eat.Pos(), "the frame buffer of every fetch starts as a fresh allocation", "the frame buffer is not freshly allocated per fetch (frames could share storage)")
	}
	return f
}

// ruleTimeErrorsHistoryFree (C15-R7): in the four constellation converters and in every module function
// they call with handler state as an argument, no branch that leads to an error return is decided by
// the handler's week state (a Handler field, or a parameter that receives one).
func ruleTimeErrorsHistoryFree(c *Ctx, rule string) {
	P := c.P
	H := P.Named("rtcm/handler", "Handler")
	if H == nil {
		c.Unresolved(rule, "rtcm/handler.Handler")
		return
	}
	isStateLoad := func(v ssa.Value) bool {
		ld, ok := v.(*ssa.UnOp)
		if !ok || ld.Op != token.MUL {
			return false
		}
		fa, ok := ld.X.(*ssa.FieldAddr)
		if !ok {
			return false
		}
		pt, ok := fa.X.Type().Underlying().(*types.Pointer)
		return ok && types.Identical(pt.Elem(), H)
	}
	var dependsOnState func(v ssa.Value, stateParams map[*ssa.Parameter]bool, d int, seen map[ssa.Value]bool) bool
	dependsOnState = func(v ssa.Value, stateParams map[*ssa.Parameter]bool, d int, seen map[ssa.Value]bool) bool {
		if seen[v] {
			return false
		}
		seen[v] = true
		if isStateLoad(v) {
			return true
		}
		switch x := v.(type) {
		case *ssa.Const, *ssa.Global, *ssa.Function, *ssa.Builtin:
			return false
		case *ssa.Parameter:
			return stateParams[x]
		}
		if call, isCall := v.(*ssa.Call); isCall {
			// what a module callee makes of the state it is handed is judged in the callee
			if g := call.Call.StaticCallee(); g != nil && P.InModule(g) && g.Blocks != nil {
				return false
			}
		}
		if d == 0 {
			return true
		}
		ins, ok := v.(ssa.Instruction)
		if !ok {
			return true
		}
		for _, op := range ins.Operands(nil) {
			if *op != nil && dependsOnState(*op, stateParams, d-1, seen) {
				return true
			}
		}
		return false
	}
	check := func(fn *ssa.Function, stateParams map[*ssa.Parameter]bool, label string) {
		bad := false
		for _, r := range returnsOf(fn) {
			if len(r.Results) == 0 {
				continue
			}
			e := r.Results[len(r.Results)-1]
			if !isErrorType(e.Type()) || isNilConst(e) {
				continue
			}
			for _, f := range dominatingFacts(r.Block()) {
				if dependsOnState(f.Cond, stateParams, 12, map[ssa.Value]bool{}) {
					bad = true
					c.Fail(rule, "error-independent-of-history("+label+")", r.Pos(), "refuted", label+" reports an error on a path chosen by the handler's stored week state: whether a frame's time (and so its display) is an error depends on the frames decoded before it")
				}
			}
		}
		if !bad {
			c.OK(rule, "error-independent-of-history("+label+")", fn.Pos(), "error exits are decided by the timestamp alone")
		}
	}
	for _, n := range []string{"getUTCFromGPSTime", "getUTCFromGalileoTime", "getUTCFromBeidouTime", "getUTCFromGlonassTime"} {
		fn := P.Func("rtcm/handler", "(*Handler)."+n)
		if fn == nil {
			c.Unresolved(rule, "rtcm/handler.(*Handler)."+n)
			continue
		}
		check(fn, nil, n)
		// callees that receive state
		eachInstr(fn, func(ins ssa.Instruction) {
			call, ok := ins.(*ssa.Call)
			if !ok {
				return
			}
			g := call.Call.StaticCallee()
			if g == nil || !P.InModule(g) || g.Blocks == nil {
				return
			}
			sp := map[*ssa.Parameter]bool{}
			for i, a := range call.Call.Args {
				if i < len(g.Params) && dependsOnState(a, nil, 6, map[ssa.Value]bool{}) {
					sp[g.Params[i]] = true
				}
			}
			if len(sp) > 0 {
				check(g, sp, n+"→"+g.Name())
			}
		})
	}
}

// ruleRawBuffersReadOnly (C15-R2, C01-R3): no function of the set stores, copies or appends in place into
// a byte buffer it did not allocate itself: a frame's bytes are what was checked and what is delivered,
// and every copy of the message shares them.
func ruleRawBuffersReadOnly(c *Ctx, rule string, fns map[*ssa.Function]bool) {
	P := c.P
	nst := 0
	for fn := range fns {
		eachInstr(fn, func(ins ssa.Instruction) {
			var target ssa.Value
			what := "stores into"
			switch x := ins.(type) {
			case *ssa.Store:
				if ia, ok := x.Addr.(*ssa.IndexAddr); ok {
					target = ia.X
				}
			case *ssa.Call:
				if b, ok := x.Call.Value.(*ssa.Builtin); ok && b.Name() == "copy" {
					target = sliceBase(x.Call.Args[0])
					what = "copies into"
				}
				// append(buf[:k], ...): writes over buf[k:] when the capacity allows
				if b, ok := x.Call.Value.(*ssa.Builtin); ok && b.Name() == "append" && len(x.Call.Args) == 2 {
					if sl, ok := x.Call.Args[0].(*ssa.Slice); ok && sl.High != nil {
						if _, isArr := sl.X.Type().Underlying().(*types.Pointer); !isArr {
							target = sl.X
							what = "appends in place to a truncated view of"
						}
					}
				}
			}
			if target == nil {
				return
			}
			sl, ok := target.Type().Underlying().(*types.Slice)
			if !ok {
				return
			}
			if b, ok := sl.Elem().Underlying().(*types.Basic); !ok || b.Kind() != types.Byte {
				return
			}
			r := root(sliceBase(target))
			if isFreshSlice(r) {
				return // a buffer allocated here (Copy, append scratch)
			}
			if _, isMk := r.(*ssa.MakeSlice); isMk {
				return
			}
			if al, ok := r.(*ssa.Alloc); ok && !al.Heap {
				return
			}
			if _, ok := sliceBase(target).(*ssa.Alloc); ok {
				return // variadic scratch array
			}
			nst++
			c.Fail(rule, "raw-buffer-write("+P.FnKey(fn)+")", ins.Pos(), "refuted", "decode/display code "+what+" a byte buffer it did not allocate (a frame's raw bytes are shared by every copy of the message, and they are the bytes the CRC was checked over)")
		})
	}
	if nst == 0 {
		c.OK(rule, "raw-buffers-read-only", token.NoPos, fmt.Sprintf("no store, copy or in-place append into a non-local byte buffer in %d functions", len(fns)))
	}
}

// ruleNoMapOrder (C15-R8): Go randomises the iteration order of maps.  On the decode/display path a
// `for k, v := range m` is accepted only in the collect-and-sort form: key and value are used for nothing
// but appends, and the function sorts (package sort or slices) on a path after the loop.  Positive control:
// the detector must see the module's one sorted map walk (the queue's key helper).
func ruleNoMapOrder(c *Ctx, rule string, fns map[*ssa.Function]bool) {
	P := c.P
	classify := func(fn *ssa.Function, rg *ssa.Range) (bool, string) {
		onlyAppend := true
		for _, r := range referrers(rg) {
			nx, ok := r.(*ssa.Next)
			if !ok {
				continue
			}
			for _, r2 := range referrers(nx) {
				ex, ok := r2.(*ssa.Extract)
				if !ok || ex.Index == 0 {
					continue
				}
				for _, u := range referrers(ex) {
					switch x := u.(type) {
					case *ssa.Store:
						// element of the variadic scratch array of an append
						if ia, ok := x.Addr.(*ssa.IndexAddr); ok {
							if _, isAl := ia.X.(*ssa.Alloc); isAl {
								continue
							}
						}
						onlyAppend = false
					case *ssa.Call:
						if b, ok := x.Call.Value.(*ssa.Builtin); !ok || b.Name() != "append" {
							onlyAppend = false
						}
					case *ssa.DebugRef:
					default:
						onlyAppend = false
					}
				}
			}
		}
		if !onlyAppend {
			return false, "the keys or values of a map are used in iteration order"
		}
		q := pathQuery{goal: func(i ssa.Instruction) bool {
			f := staticCallee(i)
			if f == nil || f.Object() == nil || f.Object().Pkg() == nil {
				return false
			}
			pp := f.Object().Pkg().Path()
			return pp == "sort" || (pp == "slices" && strings.HasPrefix(f.Name(), "Sort"))
		}}
		if path, _ := q.search(rg.Block(), instrIndex(rg)); path == nil {
			return false, "the collected keys are not sorted afterwards"
		}
		return true, ""
	}
	isMapRange := func(ins ssa.Instruction) *ssa.Range {
		rg, ok := ins.(*ssa.Range)
		if !ok {
			return nil
		}
		if _, isMap := rg.X.Type().Underlying().(*types.Map); !isMap {
			return nil
		}
		return rg
	}
	n := 0
	for fn := range fns {
		eachInstr(fn, func(ins ssa.Instruction) {
			rg := isMapRange(ins)
			if rg == nil {
				return
			}
			n++
			ok, why := classify(fn, rg)
			c.Check(ok, rule, "map-order("+P.FnKey(fn)+")", rg.Pos(), "map walked only to collect keys that are then sorted",
				why+": Go randomises map iteration, so the result differs from one call to the next")
		})
	}
	control := 0
	for _, fn := range P.ModFuncs() {
		eachInstr(fn, func(ins ssa.Instruction) {
			if rg := isMapRange(ins); rg != nil {
				if ok, _ := classify(fn, rg); ok {
					control++
				}
			}
		})
	}
	c.Check(control >= 1, rule, "positive-control(sorted map walk)", token.NoPos, fmt.Sprintf("the detector recognises %d collect-and-sort map walks in the module", control), "the map-range detector does not see the module's sorted map walk (it would pass vacuously)")
	if n == 0 {
		c.OK(rule, "map-order", token.NoPos, fmt.Sprintf("no range over a map in the %d functions of the decode/display path", len(fns)))
	}
}

// ruleNoInPlaceAppend: `filtered := s[:0]; … filtered = append(filtered, x)` (and any append to a truncated
// view s[:k]) writes over the elements of s.  Accepted only when s is a slice built in the same function.
func ruleNoInPlaceAppend(c *Ctx, rule string, fns map[*ssa.Function]bool) {
	P := c.P
	bad := 0
	// the slice an append chain starts from
	var origin func(v ssa.Value, depth int) ssa.Value
	origin = func(v ssa.Value, depth int) ssa.Value {
		if depth > 6 {
			return v
		}
		switch x := v.(type) {
		case *ssa.Phi:
			for _, e := range x.Edges {
				if call, ok := e.(*ssa.Call); ok {
					if b, ok := call.Call.Value.(*ssa.Builtin); ok && b.Name() == "append" {
						continue // the loop-carried edge
					}
				}
				return origin(e, depth+1)
			}
		case *ssa.Call:
			if b, ok := x.Call.Value.(*ssa.Builtin); ok && b.Name() == "append" {
				return origin(x.Call.Args[0], depth+1)
			}
		}
		return v
	}
	for fn := range fns {
		eachInstr(fn, func(ins ssa.Instruction) {
			call, ok := ins.(*ssa.Call)
			if !ok {
				return
			}
			b, ok := call.Call.Value.(*ssa.Builtin)
			if !ok || b.Name() != "append" || len(call.Call.Args) != 2 {
				return
			}
			sl, ok := origin(call.Call.Args[0], 0).(*ssa.Slice)
			if !ok || sl.High == nil {
				return
			}
			if _, isArr := sl.X.Type().Underlying().(*types.Pointer); isArr {
				return // a local array used as scratch space
			}
			if st, ok := sl.X.Type().Underlying().(*types.Slice); ok {
				if bt, ok := st.Elem().Underlying().(*types.Basic); ok && bt.Kind() == types.Byte {
					return // byte buffers: rule raw-buffers-read-only
				}
			}
			r := root(sliceBase(sl.X))
			if isFreshSlice(r) {
				return
			}
			if _, isMk := r.(*ssa.MakeSlice); isMk {
				return
			}
			bad++
			c.Fail(rule, "in-place-append("+P.FnKey(fn)+")", call.Pos(), "refuted", "append to a truncated view of a slice that was not built here overwrites its elements: the decoded message (and everything that points into it) changes when this code runs")
		})
	}
	if bad == 0 {
		c.OK(rule, "no-in-place-append", token.NoPos, fmt.Sprintf("no append to a truncated view of a foreign slice in %d functions", len(fns)))
	}
}
