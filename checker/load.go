package main

// E-load: loads /repo's working tree (type-checked syntax + SSA + CHA call
// graph) and resolves anchors.  Nothing here executes code under test.

import (
	"fmt"
	"go/ast"
	"go/token"
	"go/types"
	"os"
	"path/filepath"
	"sort"
	"strings"

	"golang.org/x/tools/go/callgraph"
	"golang.org/x/tools/go/callgraph/cha"
	"golang.org/x/tools/go/callgraph/vta"
	"golang.org/x/tools/go/packages"
	"golang.org/x/tools/go/ssa"
	"golang.org/x/tools/go/ssa/ssautil"
)

const modPath = "github.com/goblimey/go-ntrip"

// verifDirForNormalize is set by main before loading.
var verifDirForNormalize = "/verif"

// Prog is the resolved program.
type Prog struct {
	Repo         string
	Fset         *token.FileSet
	Pkgs         []*packages.Package          // module packages, sorted by path
	ByPath       map[string]*packages.Package // import path -> package (module only)
	SSA          *ssa.Program
	SSAPkg       map[string]*ssa.Package // import path -> ssa package (module only)
	cg           *callgraph.Graph
	vtacg        *callgraph.Graph
	allFns       map[*ssa.Function]bool
	modFns       []*ssa.Function // every source function of the module (incl. anonymous), sorted
	NormalizeLog []string
	Normalised   []*ast.File // syntax of the packages that were rewritten by the normaliser
	fnDecl       map[*ssa.Function]*ast.FuncDecl
	Overlay      map[string][]byte
}

// LoadProg loads the module at dir.  Type errors, zero packages or ignored
// files are hard failures (R-src).
func LoadProg(dir string, overlay map[string][]byte) (*Prog, error) {
	env := append(os.Environ(),
		"GOFLAGS=-mod=readonly", "GOWORK=off", "GOPROXY=off", "GOSUMDB=off",
		"GOTOOLCHAIN=local", "CGO_ENABLED=0")
	if a := os.Getenv("VERIF_GOARCH"); a != "" {
		env = append(env, "GOARCH="+a)
	}
	cfg := &packages.Config{
		Mode:    packages.LoadAllSyntax,
		Dir:     dir,
		Env:     env,
		Tests:   false,
		Overlay: overlay,
	}
	pkgs, err := packages.Load(cfg, "./...")
	if err != nil {
		return nil, fmt.Errorf("load: %v", err)
	}
	if len(pkgs) == 0 {
		return nil, fmt.Errorf("load: zero packages under %s", dir)
	}
	var errs []string
	packages.Visit(pkgs, nil, func(p *packages.Package) {
		for _, e := range p.Errors {
			errs = append(errs, e.Error())
		}
	})
	if len(errs) > 0 {
		sort.Strings(errs)
		if len(errs) > 8 {
			errs = errs[:8]
		}
		return nil, fmt.Errorf("load: %d package errors: %s", len(errs), strings.Join(errs, "; "))
	}
	p := &Prog{Repo: dir, ByPath: map[string]*packages.Package{}, SSAPkg: map[string]*ssa.Package{}, Overlay: overlay}
	for _, pk := range pkgs {
		if pk.PkgPath == modPath || strings.HasPrefix(pk.PkgPath, modPath+"/") {
			p.Pkgs = append(p.Pkgs, pk)
			p.ByPath[pk.PkgPath] = pk
			if len(pk.IgnoredFiles) > 0 {
				// Build-constrained files would be invisible to the analysis.
				var ig []string
				for _, f := range pk.IgnoredFiles {
					if strings.HasSuffix(f, ".go") {
						ig = append(ig, f)
					}
				}
				if len(ig) > 0 {
					return nil, fmt.Errorf("load: package %s has build-excluded files %v (not analysed)", pk.PkgPath, ig)
				}
			}
		}
	}
	sort.Slice(p.Pkgs, func(i, j int) bool { return p.Pkgs[i].PkgPath < p.Pkgs[j].PkgPath })
	if len(p.Pkgs) == 0 {
		return nil, fmt.Errorf("load: no packages of module %s", modPath)
	}
	p.Fset = pkgs[0].Fset
	// ---- normalisation: inline newly extracted helpers (normalize.go), re-type-check
	type override struct {
		files []*ast.File
		info  *types.Info
		tp    *types.Package
	}
	over := map[string]*override{}
	imp := map[string]*types.Package{}
	packages.Visit(pkgs, nil, func(pk *packages.Package) {
		if pk.Types != nil {
			imp[pk.PkgPath] = pk.Types
		}
	})
	known := loadKnownFuncs(verifDirForNormalize)
	oracle := loadKnownOracle(verifDirForNormalize)
	if oracle != nil && len(oracle.Prints) == 0 {
		oracle = nil
	}
	if known != nil && os.Getenv("VERIF_NOINLINE") == "" {
		// dependency order among module packages
		var order []*packages.Package
		seenP := map[string]bool{}
		var visit func(pk *packages.Package)
		visit = func(pk *packages.Package) {
			if seenP[pk.PkgPath] {
				return
			}
			seenP[pk.PkgPath] = true
			var ips []string
			for ip := range pk.Imports {
				ips = append(ips, ip)
			}
			sort.Strings(ips)
			for _, ip := range ips {
				if d, ok := p.ByPath[ip]; ok {
					visit(d)
				}
			}
			order = append(order, pk)
		}
		for _, pk := range p.Pkgs {
			visit(pk)
		}
		replaced := map[string]bool{}
		for _, pk := range order {
			depChanged := false
			for ip := range pk.Imports {
				if replaced[ip] {
					depChanged = true
				}
			}
			view := &pkgView{Fset: pk.Fset, Syntax: pk.Syntax, TypesInfo: pk.TypesInfo, Types: pk.Types}
			total := 0
			// step 0: renamed unexported functions and fields get their pinned names back (rename.go)
			if oracle != nil {
				var snap []*ast.File
				for _, f := range view.Syntax {
					snap = append(snap, cloneAST(f).(*ast.File))
				}
				if n, log := undoRenames(view, rel(pk.PkgPath), oracle); n > 0 {
					tp2, info2, err := recheck(pk.PkgPath, pk.Fset, view.Syntax, imp, pk.TypesSizes)
					if err == nil {
						view.Types, view.TypesInfo = tp2, info2
						p.NormalizeLog = append(p.NormalizeLog, log...)
						total = 1
					} else {
						p.NormalizeLog = append(p.NormalizeLog, fmt.Sprintf("%s: rename recognition abandoned (%v)", rel(pk.PkgPath), err))
						view.Syntax = snap
						tp3, info3, err3 := recheck(pk.PkgPath, pk.Fset, snap, imp, pk.TypesSizes)
						if err3 != nil {
							return nil, fmt.Errorf("load: re-check of %s failed: %v", pk.PkgPath, err3)
						}
						view.Types, view.TypesInfo = tp3, info3
						total = 1
					}
				}
			}
			var orig []*ast.File
			for round := 0; round < 6; round++ {
				if round == 0 {
					for _, f := range view.Syntax {
						orig = append(orig, cloneAST(f).(*ast.File))
					}
				}
				n, log := normalizePackage(view, known[rel(pk.PkgPath)])
				if os.Getenv("VERIF_DEBUG_NORM") != "" {
					fmt.Fprintf(os.Stderr, "normalise: %s round %d: %d expansions\n", rel(pk.PkgPath), round, n)
				}
				if n == 0 {
					break
				}
				tp2, info2, err := recheck(pk.PkgPath, pk.Fset, view.Syntax, imp, pk.TypesSizes)
				if err != nil {
					// the transformation did not type-check: use the package unchanged
					p.NormalizeLog = append(p.NormalizeLog, fmt.Sprintf("%s: inlining abandoned (%v)", rel(pk.PkgPath), err))
					view.Syntax = orig
					total = 0
					tp3, info3, err3 := recheck(pk.PkgPath, pk.Fset, orig, imp, pk.TypesSizes)
					if err3 != nil {
						return nil, fmt.Errorf("load: re-check of %s failed: %v", pk.PkgPath, err3)
					}
					view.Types, view.TypesInfo = tp3, info3
					depChanged = false
					total = -1
					break
				}
				total += n
				p.NormalizeLog = append(p.NormalizeLog, log...)
				view.Types, view.TypesInfo = tp2, info2
			}
			if total > 0 {
				// drop helpers that are no longer referenced (all their call sites were expanded)
				elig := newInliner(view, known[rel(pk.PkgPath)]).eligible
				usedF := map[types.Object]bool{}
				for _, o := range view.TypesInfo.Uses {
					usedF[o] = true
				}
				removed := false
				keptDecls := make([][]ast.Decl, len(view.Syntax))
				for i, f := range view.Syntax {
					keptDecls[i] = f.Decls
				}
				for _, f := range view.Syntax {
					var keep []ast.Decl
					for _, d := range f.Decls {
						if fd, ok := d.(*ast.FuncDecl); ok {
							if obj, _ := view.TypesInfo.Defs[fd.Name].(*types.Func); obj != nil && elig[obj] && !usedF[obj] && !obj.Exported() {
								removed = true
								continue
							}
						}
						keep = append(keep, d)
					}
					f.Decls = keep
				}
				var keptImports [][]*ast.ImportSpec
				if removed {
					// imports that only the removed helpers used go with them
					for _, f := range view.Syntax {
						keptImports = append(keptImports, f.Imports)
						dropUnusedImportsOf(f, view.Types)
					}
				}
				if removed {
					if tp2, info2, err := recheck(pk.PkgPath, pk.Fset, view.Syntax, imp, pk.TypesSizes); err == nil {
						view.Types, view.TypesInfo = tp2, info2
					} else {
						// e.g. a helper method that also satisfies an interface, or an import only the
						// helper used: put the helpers back
						p.NormalizeLog = append(p.NormalizeLog, fmt.Sprintf("%s: helpers kept (%v)", rel(pk.PkgPath), err))
						for i, f := range view.Syntax {
							f.Decls = keptDecls[i]
							f.Imports = keptImports[i]
						}
						if tp3, info3, err3 := recheck(pk.PkgPath, pk.Fset, view.Syntax, imp, pk.TypesSizes); err3 == nil {
							view.Types, view.TypesInfo = tp3, info3
						} else {
							return nil, fmt.Errorf("load: re-check of %s failed: %v", pk.PkgPath, err3)
						}
					}
				}
			}
			// further normalisation steps, each validated by a re-check and undone if that fails (sroa.go)
			steps := []struct {
				name string
				run  func(*pkgView, map[string]bool) (int, []string)
			}{
				{"loop unrolling", unrollPackage},
				{"struct/array splitting", sroaPackage},
			}
			for _, step := range steps {
				var snap []*ast.File
				for _, f := range view.Syntax {
					snap = append(snap, cloneAST(f).(*ast.File))
				}
				n, log := step.run(view, known[rel(pk.PkgPath)])
				if n == 0 {
					continue
				}
				tp2, info2, err := recheck(pk.PkgPath, pk.Fset, view.Syntax, imp, pk.TypesSizes)
				if err == nil {
					view.Types, view.TypesInfo = tp2, info2
					p.NormalizeLog = append(p.NormalizeLog, log...)
					if total == 0 {
						total = 1
					}
					continue
				}
				p.NormalizeLog = append(p.NormalizeLog, fmt.Sprintf("%s: %s abandoned (%v)", rel(pk.PkgPath), step.name, err))
				view.Syntax = snap
				tp3, info3, err3 := recheck(pk.PkgPath, pk.Fset, snap, imp, pk.TypesSizes)
				if err3 != nil {
					return nil, fmt.Errorf("load: re-check of %s failed: %v", pk.PkgPath, err3)
				}
				view.Types, view.TypesInfo = tp3, info3
				total = -1
			}
			if total == 0 && depChanged {
				tp2, info2, err := recheck(pk.PkgPath, pk.Fset, view.Syntax, imp, pk.TypesSizes)
				if err != nil {
					return nil, fmt.Errorf("load: re-check of %s against normalised dependencies failed: %v", pk.PkgPath, err)
				}
				view.Types, view.TypesInfo = tp2, info2
				total = -1
			}
			if total != 0 {
				over[pk.PkgPath] = &override{view.Syntax, view.TypesInfo, view.Types}
				imp[pk.PkgPath] = view.Types
				replaced[pk.PkgPath] = true
			}
		}
	}
	prog := ssa.NewProgram(p.Fset, ssa.InstantiateGenerics)
	created := map[string]*ssa.Package{}
	packages.Visit(pkgs, nil, func(pk *packages.Package) {
		if pk.Types == nil || pk.IllTyped {
			return
		}
		files, info, tp := pk.Syntax, pk.TypesInfo, pk.Types
		if o := over[pk.PkgPath]; o != nil {
			files, info, tp = o.files, o.info, o.tp
			p.Normalised = append(p.Normalised, o.files...)
		}
		if info == nil {
			files = nil
		}
		created[pk.PkgPath] = prog.CreatePackage(tp, files, info, true)
	})
	prog.Build()
	p.SSA = prog
	for path := range p.ByPath {
		if sp := created[path]; sp != nil {
			p.SSAPkg[path] = sp
		}
	}
	p.allFns = ssautil.AllFunctions(prog)
	p.fnDecl = map[*ssa.Function]*ast.FuncDecl{}
	for fn := range p.allFns {
		if fn.Pkg == nil || fn.Blocks == nil {
			continue
		}
		if _, ok := p.SSAPkg[fn.Pkg.Pkg.Path()]; !ok {
			continue
		}
		if fn.Synthetic != "" && fn.Name() != "init" {
			continue
		}
		p.modFns = append(p.modFns, fn)
		if d, ok := fn.Syntax().(*ast.FuncDecl); ok {
			p.fnDecl[fn] = d
		}
	}
	sort.Slice(p.modFns, func(i, j int) bool { return p.FnKey(p.modFns[i]) < p.FnKey(p.modFns[j]) })
	return p, nil
}

// CG returns the CHA call graph (sound for reachability).
func (p *Prog) CG() *callgraph.Graph {
	if p.cg == nil {
		p.cg = cha.CallGraph(p.SSA)
	}
	return p.cg
}

// VTA returns the (more precise) VTA call graph; thorough tier cross-check.
func (p *Prog) VTA() *callgraph.Graph {
	if p.vtacg == nil {
		p.vtacg = vta.CallGraph(p.allFns, p.CG())
	}
	return p.vtacg
}

// Rel returns the module-relative package path ("rtcm/handler"; "" for root).
func rel(path string) string {
	if path == modPath {
		return "."
	}
	return strings.TrimPrefix(path, modPath+"/")
}

// InModule reports whether fn is defined in the module under analysis.
func (p *Prog) InModule(fn *ssa.Function) bool {
	if fn == nil {
		return false
	}
	for fn.Parent() != nil {
		fn = fn.Parent()
	}
	if fn.Pkg == nil {
		// methods of instantiated generics etc.
		if fn.Object() != nil && fn.Object().Pkg() != nil {
			_, ok := p.SSAPkg[fn.Object().Pkg().Path()]
			return ok
		}
		return false
	}
	_, ok := p.SSAPkg[fn.Pkg.Pkg.Path()]
	return ok
}

// FnKey is the stable, line-free name of a function: "rtcm/handler.(*Handler).GetMessage".
func (p *Prog) FnKey(fn *ssa.Function) string {
	if fn == nil {
		return "<nil>"
	}
	name := fn.Name()
	if fn.Signature != nil && fn.Signature.Recv() != nil {
		rt := fn.Signature.Recv().Type()
		ptr := ""
		if pt, ok := rt.(*types.Pointer); ok {
			rt = pt.Elem()
			ptr = "*"
		}
		tn := rt.String()
		if n, ok := rt.(*types.Named); ok {
			tn = n.Obj().Name()
		}
		name = "(" + ptr + tn + ")." + fn.Name()
	}
	if fn.Parent() != nil {
		return p.FnKey(fn.Parent()) + "$" + strings.TrimPrefix(fn.Name(), fn.Parent().Name()+"$")
	}
	pk := ""
	if fn.Pkg != nil {
		pk = rel(fn.Pkg.Pkg.Path())
	} else if fn.Object() != nil && fn.Object().Pkg() != nil {
		pk = rel(fn.Object().Pkg().Path())
	}
	return pk + "." + name
}

// Pos renders a position relative to the repository.
func (p *Prog) Pos(pos token.Pos) string {
	if !pos.IsValid() {
		return "-"
	}
	ps := p.Fset.Position(pos)
	f := ps.Filename
	if r, err := filepath.Rel(p.Repo, f); err == nil && !strings.HasPrefix(r, "..") {
		f = r
	}
	return fmt.Sprintf("%s:%d:%d", f, ps.Line, ps.Column)
}

// Pkg returns the ssa package with the given module-relative path.
func (p *Prog) Pkg(relPath string) *ssa.Package {
	if relPath == "." {
		return p.SSAPkg[modPath]
	}
	return p.SSAPkg[modPath+"/"+relPath]
}

// TPkg returns the types package with the given module-relative path.
func (p *Prog) TPkg(relPath string) *types.Package {
	if sp := p.Pkg(relPath); sp != nil {
		return sp.Pkg
	}
	return nil
}

// Func resolves a package-level function or a method by name:
// Func("rtcm/handler", "CheckCRC"), Func("rtcm/handler", "(*Handler).GetMessage"),
// Func("rtcm/handler", "(Handler).foo").
func (p *Prog) Func(relPath, name string) *ssa.Function {
	sp := p.Pkg(relPath)
	if sp == nil {
		return nil
	}
	if !strings.HasPrefix(name, "(") {
		return sp.Func(name)
	}
	i := strings.Index(name, ").")
	if i < 0 {
		return nil
	}
	recv, meth := name[1:i], name[i+2:]
	ptr := strings.HasPrefix(recv, "*")
	recv = strings.TrimPrefix(recv, "*")
	tn := sp.Type(recv)
	if tn == nil {
		return nil
	}
	var T types.Type = tn.Type()
	if ptr {
		T = types.NewPointer(T)
	}
	ms := p.SSA.MethodSets.MethodSet(T)
	sel := ms.Lookup(sp.Pkg, meth)
	if sel == nil {
		return nil
	}
	fn := p.SSA.MethodValue(sel)
	// A method declared with a value receiver is found (wrapped) in the pointer
	// method set; insist on the declared form.
	if fn != nil && fn.Synthetic != "" {
		return nil
	}
	return fn
}

// Method finds a declared method on named type recv regardless of receiver kind.
// It returns the function and whether its receiver is a pointer.
func (p *Prog) Method(relPath, recv, meth string) (*ssa.Function, bool) {
	if f := p.Func(relPath, "(*"+recv+")."+meth); f != nil {
		return f, true
	}
	if f := p.Func(relPath, "("+recv+")."+meth); f != nil {
		return f, false
	}
	return nil, false
}

// ModFuncs lists every source-level function of the module (anonymous
// functions included), in stable order.
func (p *Prog) ModFuncs() []*ssa.Function { return p.modFns }

// FuncsIn lists module functions whose package has the given relative path.
func (p *Prog) FuncsIn(relPath string) []*ssa.Function {
	var out []*ssa.Function
	for _, f := range p.modFns {
		root := f
		for root.Parent() != nil {
			root = root.Parent()
		}
		if root.Pkg != nil && rel(root.Pkg.Pkg.Path()) == relPath {
			out = append(out, f)
		}
	}
	return out
}

// Const looks up a package-level constant.
func (p *Prog) Const(relPath, name string) *types.Const {
	tp := p.TPkg(relPath)
	if tp == nil {
		return nil
	}
	c, _ := tp.Scope().Lookup(name).(*types.Const)
	return c
}

// Field resolves a struct field object of a named struct type.
func (p *Prog) Field(relPath, typeName, field string) *types.Var {
	tp := p.TPkg(relPath)
	if tp == nil {
		return nil
	}
	tn, _ := tp.Scope().Lookup(typeName).(*types.TypeName)
	if tn == nil {
		return nil
	}
	st, _ := tn.Type().Underlying().(*types.Struct)
	if st == nil {
		return nil
	}
	for i := 0; i < st.NumFields(); i++ {
		if st.Field(i).Name() == field {
			return st.Field(i)
		}
	}
	return nil
}

// Named resolves a named type.
func (p *Prog) Named(relPath, typeName string) *types.Named {
	tp := p.TPkg(relPath)
	if tp == nil {
		return nil
	}
	tn, _ := tp.Scope().Lookup(typeName).(*types.TypeName)
	if tn == nil {
		return nil
	}
	n, _ := tn.Type().(*types.Named)
	return n
}

// Callees returns the possible module-or-external callees of a call
// instruction: the static callee if there is one, otherwise the CHA targets.
func (p *Prog) Callees(site ssa.CallInstruction) []*ssa.Function {
	if f := site.Common().StaticCallee(); f != nil {
		return []*ssa.Function{f}
	}
	n := p.CG().Nodes[site.Parent()]
	if n == nil {
		return nil
	}
	var out []*ssa.Function
	seen := map[*ssa.Function]bool{}
	for _, e := range n.Out {
		if e.Site == site && !seen[e.Callee.Func] {
			seen[e.Callee.Func] = true
			out = append(out, e.Callee.Func)
		}
	}
	sort.Slice(out, func(i, j int) bool { return p.FnKey(out[i]) < p.FnKey(out[j]) })
	return out
}

// Callers returns the call sites (in module functions) that may call fn.
func (p *Prog) Callers(fn *ssa.Function) []ssa.CallInstruction {
	n := p.CG().Nodes[fn]
	if n == nil {
		return nil
	}
	var out []ssa.CallInstruction
	for _, e := range n.In {
		if e.Site != nil && p.InModule(e.Caller.Func) && e.Caller.Func.Synthetic == "" {
			out = append(out, e.Site)
		}
	}
	sort.Slice(out, func(i, j int) bool { return out[i].Pos() < out[j].Pos() })
	return out
}

// ReachableModule computes the set of module functions reachable from roots,
// staying inside the module (E-load reachability policy): static callees,
// CHA-resolved invokes to module implementers, and anonymous functions
// created (MakeClosure) or referenced inside reached functions.
func (p *Prog) ReachableModule(roots []*ssa.Function) map[*ssa.Function]bool {
	seen := map[*ssa.Function]bool{}
	var work []*ssa.Function
	push := func(f *ssa.Function) {
		if f != nil && !seen[f] && p.InModule(f) && f.Blocks != nil {
			seen[f] = true
			work = append(work, f)
		}
	}
	for _, r := range roots {
		push(r)
	}
	for len(work) > 0 {
		f := work[len(work)-1]
		work = work[:len(work)-1]
		for _, b := range f.Blocks {
			for _, ins := range b.Instrs {
				switch v := ins.(type) {
				case ssa.CallInstruction:
					for _, c := range p.Callees(v) {
						push(c)
					}
				case *ssa.MakeClosure:
					if fn, ok := v.Fn.(*ssa.Function); ok {
						push(fn)
					}
				}
				// function values used as operands
				var ops []*ssa.Value
				for _, op := range ins.Operands(ops) {
					if op == nil || *op == nil {
						continue
					}
					if fn, ok := (*op).(*ssa.Function); ok {
						push(fn)
					}
				}
			}
		}
	}
	return seen
}

// Stats for evidence.
func (p *Prog) Stats() map[string]int {
	edges := 0
	if p.cg != nil {
		for _, n := range p.cg.Nodes {
			edges += len(n.Out)
		}
	}
	return map[string]int{
		"module_packages":     len(p.Pkgs),
		"module_functions":    len(p.modFns),
		"cha_callgraph_edges": edges,
	}
}

// dropUnusedImportsOf removes the named or default-named imports of f that no qualified identifier of
// the file refers to any more (blank and dot imports stay).  The import declarations are filtered in
// place; an import declaration left without specs is removed.
func dropUnusedImportsOf(f *ast.File, tp *types.Package) {
	used := map[string]bool{}
	ast.Inspect(f, func(n ast.Node) bool {
		if se, ok := n.(*ast.SelectorExpr); ok {
			if id, ok := se.X.(*ast.Ident); ok {
				used[id.Name] = true
			}
		}
		return true
	})
	nameOf := func(s *ast.ImportSpec) string {
		if s.Name != nil {
			return s.Name.Name
		}
		p := strings.Trim(s.Path.Value, `"`)
		for _, ip := range tp.Imports() {
			if ip.Path() == p {
				return ip.Name()
			}
		}
		return ""
	}
	drop := map[*ast.ImportSpec]bool{}
	for _, s := range f.Imports {
		n := nameOf(s)
		if n == "" || n == "_" || n == "." || used[n] {
			continue
		}
		drop[s] = true
	}
	if len(drop) == 0 {
		return
	}
	var imps []*ast.ImportSpec
	for _, s := range f.Imports {
		if !drop[s] {
			imps = append(imps, s)
		}
	}
	f.Imports = imps
	var decls []ast.Decl
	for _, d := range f.Decls {
		gd, ok := d.(*ast.GenDecl)
		if !ok || gd.Tok != token.IMPORT {
			decls = append(decls, d)
			continue
		}
		var specs []ast.Spec
		for _, s := range gd.Specs {
			if is, ok := s.(*ast.ImportSpec); !ok || !drop[is] {
				specs = append(specs, s)
			}
		}
		if len(specs) == 0 {
			continue
		}
		// a copy, so that the original declaration can be restored
		decls = append(decls, &ast.GenDecl{Doc: gd.Doc, TokPos: gd.TokPos, Tok: gd.Tok, Lparen: gd.Lparen, Specs: specs, Rparen: gd.Rparen})
	}
	f.Decls = decls
}
