package main

// Result-dispatch threading (part of the normaliser, see normalize.go).
//
// A helper that reports what its caller should do next as a constant,
//
//	switch retry.afterFailedRead(err) { case stop: return err; case again: continue; case carryOn: }
//	if !check(frame) { return errBad }
//
// turns, after ordinary statement inlining, into a result variable assigned on several paths and tested
// afterwards: the tested exits are then reached over a merge point and lose the branch facts of the path
// that chose them.  When the helper returns a constant and the matching case only leaves (its last
// statement is a return or a continue of the enclosing loop), the case body is placed where the helper
// returned, so every exit is again reached by its own path.  The case bodies are copied, never changed;
// cases that stay behind are still dispatched by the original statement.

import (
	"fmt"
	"go/ast"
	"go/constant"
	"go/token"
	"go/types"
)

type loopCtx struct {
	label     string
	generated bool
	used      bool
}

func (in *inliner) pushLoop() *loopCtx {
	lc := &loopCtx{label: in.pendingLabel}
	in.pendingLabel = ""
	in.loops = append(in.loops, lc)
	return lc
}

func (in *inliner) popLoop() {
	in.loops = in.loops[:len(in.loops)-1]
}

type dispCase struct {
	keys    []string // exact constant values of the case labels
	body    []ast.Stmt
	movable bool
	moved   bool
}

type dispatch struct {
	cases    []*dispCase
	retKey   map[token.Pos]string // return statement of the callee (by position) -> constant returned
	declared map[string]bool      // names declared by the callee (parameters, results, locals)
	identity map[string]bool      // ... among them, parameters bound to the caller's variable of the same name, never assigned
	loop     *loopCtx             // the caller's loop an unlabelled continue of a case body refers to
	dynamic  bool                 // some return of the callee is not a known constant
	anyMoved bool
	// nil-test dispatch (`v := f(x); if v != nil { ...leaves... }`): the cases are "Nil" and "NonNil" and a
	// moved body starts by binding v to the value returned
	nilMode  bool
	bindName string
	bindTok  token.Token
	bindType ast.Expr
}

// relocatable: the statement list only leaves (it ends in a return or a continue) and every break or
// continue in it that refers to a statement outside the list can be re-targeted: no unlabelled break
// binding outside, no fallthrough, no label declared inside.  needLoop: it has an unlabelled continue
// binding outside the list.
func relocatable(body []ast.Stmt) (ok, needLoop bool) {
	if len(body) == 0 {
		return false, false
	}
	switch l := body[len(body)-1].(type) {
	case *ast.ReturnStmt:
	case *ast.BranchStmt:
		if l.Tok != token.CONTINUE {
			return false, false
		}
	default:
		return false, false
	}
	ok = true
	var walk func(n ast.Node, inLoop, inBreakable bool)
	walk = func(n ast.Node, inLoop, inBreakable bool) {
		ast.Inspect(n, func(m ast.Node) bool {
			if m == nil || !ok {
				return false
			}
			if m == n {
				return true
			}
			switch x := m.(type) {
			case *ast.FuncLit:
				return false
			case *ast.LabeledStmt:
				ok = false
				return false
			case *ast.ForStmt, *ast.RangeStmt:
				walk(m, true, true)
				return false
			case *ast.SwitchStmt, *ast.TypeSwitchStmt, *ast.SelectStmt:
				walk(m, inLoop, true)
				return false
			case *ast.BranchStmt:
				switch x.Tok {
				case token.BREAK:
					if x.Label == nil && !inBreakable {
						ok = false
					}
				case token.CONTINUE:
					if x.Label == nil && !inLoop {
						needLoop = true
					}
				case token.FALLTHROUGH, token.GOTO:
					ok = false
				}
			}
			return true
		})
	}
	for _, st := range body {
		walk(&ast.BlockStmt{List: []ast.Stmt{st}}, false, false)
	}
	return ok, needLoop
}

// constKey: the exact value of constant expression e ("" if e is not constant).
func (in *inliner) constKey(e ast.Expr) string {
	tv, ok := in.pkg.TypesInfo.Types[e]
	if !ok || tv.Value == nil {
		return ""
	}
	return tv.Value.Kind().String() + ":" + tv.Value.ExactString()
}

var _ = constant.MakeBool

// newDispatch builds the dispatch table of clauses (labels, body); nil if nothing could be moved.
func (in *inliner) newDispatch(labels [][]ast.Expr, bodies [][]ast.Stmt, boolKeys []string) *dispatch {
	d := &dispatch{}
	any := false
	for i := range bodies {
		c := &dispCase{body: bodies[i]}
		if boolKeys != nil {
			c.keys = []string{boolKeys[i]}
		} else {
			for _, e := range labels[i] {
				k := in.constKey(e)
				if k == "" {
					return nil // a non-constant label: the order of the comparisons matters
				}
				c.keys = append(c.keys, k)
			}
		}
		okR, needLoop := relocatable(c.body)
		if okR && needLoop {
			if len(in.loops) == 0 {
				okR = false
			} else {
				d.loop = in.loops[len(in.loops)-1]
			}
		}
		c.movable = okR
		any = any || okR
		d.cases = append(d.cases, c)
	}
	if !any {
		return nil
	}
	return d
}

// prepareDispatch fills in what depends on the callee: the constants its return statements yield and
// the names it declares; a case body that mentions one of those names is not moved.
func (in *inliner) prepareDispatch(d *dispatch, tg *inlTarget, ce *ast.CallExpr) {
	info := in.pkg.TypesInfo
	d.retKey = map[token.Pos]string{}
	d.declared = map[string]bool{}
	d.identity = map[string]bool{}
	ast.Inspect(tg.body, func(n ast.Node) bool {
		switch x := n.(type) {
		case *ast.FuncLit:
			return false
		case *ast.ReturnStmt:
			if len(x.Results) == 1 {
				if d.nilMode {
					if k := in.nilKey(x.Results[0]); k != "" {
						d.retKey[x.Pos()] = k
					}
				} else if k := in.constKey(x.Results[0]); k != "" {
					d.retKey[x.Pos()] = k
				}
			}
		case *ast.Ident:
			if info.Defs[x] != nil {
				d.declared[x.Name] = true
			}
		case *ast.AssignStmt:
			// statements placed in the body earlier in this round carry no type information:
			// their declarations are collected by syntax
			if x.Tok == token.DEFINE {
				for _, l := range x.Lhs {
					if id, ok := l.(*ast.Ident); ok {
						d.declared[id.Name] = true
					}
				}
			}
		case *ast.ValueSpec:
			for _, id := range x.Names {
				d.declared[id.Name] = true
			}
		case *ast.RangeStmt:
			if x.Tok == token.DEFINE {
				for _, e := range []ast.Expr{x.Key, x.Value} {
					if id, ok := e.(*ast.Ident); ok {
						d.declared[id.Name] = true
					}
				}
			}
		}
		return true
	})
	i := 0
	if tg.recv != nil {
		d.declared[tg.recv.Name] = true
	}
	for _, fld := range tg.ftype.Params.List {
		names := fld.Names
		if len(names) == 0 {
			i++
			continue
		}
		for _, nm := range names {
			d.declared[nm.Name] = true
			if i < len(ce.Args) {
				if a, ok := ce.Args[i].(*ast.Ident); ok && a.Name == nm.Name {
					if pobj := info.Defs[nm]; pobj != nil && in.readOnlyIn(pobj, tg.body, false) {
						d.identity[nm.Name] = true
					}
				}
			}
			i++
		}
	}
	if tg.ftype.Results != nil {
		for _, fld := range tg.ftype.Results.List {
			for _, nm := range fld.Names {
				d.declared[nm.Name] = true
			}
		}
	}
	if d.bindName != "" && d.bindTok == token.ASSIGN && d.declared[d.bindName] {
		// the caller's variable would be captured by a declaration of the callee
		for _, c := range d.cases {
			c.movable = false
		}
	}
	for _, c := range d.cases {
		if !c.movable {
			continue
		}
		for _, st := range c.body {
			lo, hi := c.body[0].Pos(), c.body[len(c.body)-1].End()
			sels := map[*ast.Ident]bool{}
			ast.Inspect(st, func(n ast.Node) bool {
				if se, ok := n.(*ast.SelectorExpr); ok {
					sels[se.Sel] = true
				}
				return true
			})
			ast.Inspect(st, func(n ast.Node) bool {
				id, ok := n.(*ast.Ident)
				if !ok || sels[id] || id.Name == "_" {
					return true
				}
				if info.Defs[id] != nil {
					return true
				}
				obj := info.Uses[id]
				if obj == nil {
					c.movable = false // produced in this round: no type information yet
					return false
				}
				if obj.Pos() >= lo && obj.Pos() < hi && obj.Pkg() == in.pkg.Types {
					if _, isVar := obj.(*types.Var); isVar && obj.Parent() != in.pkg.Types.Scope() {
						return true // declared inside the case body itself
					}
				}
				if d.declared[id.Name] && !d.identity[id.Name] && !(d.bindTok == token.DEFINE && id.Name == d.bindName) {
					c.movable = false
				}
				return true
			})
		}
	}
}

// dispatchReturn: the statements replacing `return K` of the callee when K selects a movable case.
func (in *inliner) dispatchReturn(d *dispatch, x *ast.ReturnStmt) []ast.Stmt {
	k, isConst := d.retKey[x.Pos()]
	if !isConst || len(x.Results) != 1 {
		d.dynamic = true
		return nil
	}
	for _, c := range d.cases {
		for _, ck := range c.keys {
			if ck != k {
				continue
			}
			if !c.movable {
				return nil
			}
			c.moved, d.anyMoved = true, true
			var out []ast.Stmt
			if d.bindName != "" {
				val := &ast.CallExpr{Fun: &ast.ParenExpr{X: cloneAST(d.bindType).(ast.Expr)}, Args: []ast.Expr{x.Results[0]}}
				out = append(out, &ast.AssignStmt{Lhs: []ast.Expr{ident(d.bindName)}, Tok: d.bindTok, Rhs: []ast.Expr{val}})
				if d.bindTok == token.DEFINE {
					out = append(out, &ast.AssignStmt{Lhs: []ast.Expr{ident("_")}, Tok: token.ASSIGN, Rhs: []ast.Expr{ident(d.bindName)}})
				}
			}
			for _, st := range c.body {
				cl := cloneAST(st).(ast.Stmt)
				in.retargetContinues(cl, d)
				out = append(out, cl)
			}
			if d.bindName != "" {
				return []ast.Stmt{&ast.BlockStmt{List: out}}
			}
			return out
		}
	}
	return nil
}

// retargetContinues gives the unlabelled continues of a moved case body (those that referred to the
// caller's loop) that loop's label.
func (in *inliner) retargetContinues(st ast.Stmt, d *dispatch) {
	var walk func(n ast.Node)
	walk = func(n ast.Node) {
		ast.Inspect(n, func(m ast.Node) bool {
			if m == nil {
				return false
			}
			if m == n {
				return true
			}
			switch x := m.(type) {
			case *ast.FuncLit, *ast.ForStmt, *ast.RangeStmt:
				return false
			case *ast.BranchStmt:
				if x.Tok == token.CONTINUE && x.Label == nil && d.loop != nil {
					if d.loop.label == "" {
						in.seq++
						d.loop.label = fmt.Sprintf("__loop%d", in.seq)
						d.loop.generated = true
					}
					d.loop.used = true
					x.Label = ident(d.loop.label)
				}
			}
			return true
		})
	}
	walk(&ast.BlockStmt{List: []ast.Stmt{st}})
}

// dispatchSwitch: `switch f(args) { case K: ...leaves...; ... }` with an inlinable f.
func (in *inliner) dispatchSwitch(sw *ast.SwitchStmt, file *ast.File, depth int, stack map[*types.Func]bool) ([]ast.Stmt, bool) {
	if sw.Init != nil || sw.Tag == nil {
		return nil, false
	}
	ce := asCall(sw.Tag)
	if ce == nil || in.targetOf(ce) == nil {
		return nil, false
	}
	var labels [][]ast.Expr
	var bodies [][]ast.Stmt
	var clauses []*ast.CaseClause
	for _, cl := range sw.Body.List {
		cc, ok := cl.(*ast.CaseClause)
		if !ok {
			return nil, false
		}
		if cc.List == nil {
			continue // default: stays in the switch
		}
		labels = append(labels, cc.List)
		bodies = append(bodies, cc.Body)
		clauses = append(clauses, cc)
	}
	d := in.newDispatch(labels, bodies, nil)
	if d == nil {
		return nil, false
	}
	in.dispatch = d
	st, res, ok := in.expandCall(ce, file, depth, stack)
	in.dispatch = nil
	if !ok || len(res) != 1 {
		return nil, false
	}
	sw.Tag = ident(res[0])
	if d.anyMoved && !d.dynamic {
		// every return of the helper is a known constant: the moved cases cannot be selected any more
		var rest []ast.Stmt
		empty := true
		for _, cl := range sw.Body.List {
			cc := cl.(*ast.CaseClause)
			movedAway := false
			for i, c2 := range clauses {
				if c2 == cc && d.cases[i].moved {
					movedAway = true
				}
			}
			if movedAway {
				continue
			}
			if len(cc.Body) > 0 {
				empty = false
			}
			rest = append(rest, cc)
		}
		sw.Body.List = rest
		if empty {
			return append(st, &ast.AssignStmt{Lhs: []ast.Expr{ident("_")}, Tok: token.ASSIGN, Rhs: []ast.Expr{ident(res[0])}}), true
		}
	}
	return append(st, sw), true
}

// dispatchIf: `if f(args) { ...leaves... }` / `if !f(args) { ...leaves... }` (optionally with an else).
func (in *inliner) dispatchIf(x *ast.IfStmt, ce *ast.CallExpr, neg bool, file *ast.File, depth int, stack map[*types.Func]bool) ([]ast.Stmt, bool) {
	if x.Init != nil || in.targetOf(ce) == nil {
		return nil, false
	}
	tk, fk := "Bool:true", "Bool:false"
	if neg {
		tk, fk = fk, tk
	}
	bodies := [][]ast.Stmt{x.Body.List}
	keys := []string{tk}
	var elseBlk *ast.BlockStmt
	if x.Else != nil {
		eb, ok := x.Else.(*ast.BlockStmt)
		if !ok {
			return nil, false
		}
		elseBlk = eb
		bodies = append(bodies, eb.List)
		keys = append(keys, fk)
	}
	d := in.newDispatch(nil, bodies, keys)
	if d == nil {
		return nil, false
	}
	in.dispatch = d
	st, res, ok := in.expandCall(ce, file, depth, stack)
	in.dispatch = nil
	if !ok || len(res) != 1 {
		return nil, false
	}
	var c ast.Expr = ident(res[0])
	if neg {
		c = &ast.UnaryExpr{Op: token.NOT, X: c}
	}
	x.Cond = c
	if d.anyMoved && !d.dynamic {
		if d.cases[0].moved {
			x.Body = &ast.BlockStmt{}
		}
		if elseBlk != nil && d.cases[1].moved {
			x.Else = nil
		}
		if len(x.Body.List) == 0 && x.Else == nil {
			return append(st, &ast.AssignStmt{Lhs: []ast.Expr{ident("_")}, Tok: token.ASSIGN, Rhs: []ast.Expr{ident(res[0])}}), true
		}
	}
	return append(st, x), true
}

// nilKey classifies a returned expression of pointer/interface type: "Nil" for the nil literal, "NonNil"
// for values that cannot be nil (a new error from errors.New / fmt.Errorf, the address of a literal), else "".
func (in *inliner) nilKey(e ast.Expr) string {
	info := in.pkg.TypesInfo
	e = stripParens(e)
	if tv, ok := info.Types[e]; ok && tv.IsNil() {
		return "Nil"
	}
	switch x := e.(type) {
	case *ast.UnaryExpr:
		if _, isLit := stripParens(x.X).(*ast.CompositeLit); isLit && x.Op == token.AND {
			return "NonNil"
		}
	case *ast.CallExpr:
		if se, ok := x.Fun.(*ast.SelectorExpr); ok {
			if pid, ok := se.X.(*ast.Ident); ok {
				if pn, ok := info.Uses[pid].(*types.PkgName); ok {
					switch pn.Imported().Path() + "." + se.Sel.Name {
					case "errors.New", "fmt.Errorf":
						return "NonNil"
					}
				}
			}
		}
	}
	return ""
}

// tryNilDispatch: `v := f(args)` (or `v = f(args)`) directly followed by `if v != nil { ...leaves... }` (or
// `== nil`, optionally with an else) for an inlinable f with one result: the error-check idiom.  Each
// return of f that yields nil or a certainly non-nil value continues with its own copy of the branch.
func (in *inliner) tryNilDispatch(s, next ast.Stmt, file *ast.File, depth int) ([]ast.Stmt, bool) {
	as, ok := s.(*ast.AssignStmt)
	if !ok || len(as.Lhs) != 1 || len(as.Rhs) != 1 || (as.Tok != token.DEFINE && as.Tok != token.ASSIGN) {
		return nil, false
	}
	v, ok := as.Lhs[0].(*ast.Ident)
	if !ok || v.Name == "_" {
		return nil, false
	}
	ce := asCall(as.Rhs[0])
	if ce == nil {
		return nil, false
	}
	tg := in.targetOf(ce)
	if tg == nil || tg.sig.Results().Len() != 1 {
		return nil, false
	}
	x, ok := next.(*ast.IfStmt)
	if !ok || x.Init != nil {
		return nil, false
	}
	be, ok := stripParens(x.Cond).(*ast.BinaryExpr)
	if !ok || (be.Op != token.NEQ && be.Op != token.EQL) {
		return nil, false
	}
	info := in.pkg.TypesInfo
	cv, ok := stripParens(be.X).(*ast.Ident)
	if !ok || cv.Name != v.Name {
		return nil, false
	}
	vobj := info.Defs[v]
	if vobj == nil {
		vobj = info.Uses[v]
	}
	if vobj == nil || info.Uses[cv] != vobj {
		return nil, false
	}
	if tv, ok := info.Types[be.Y]; !ok || !tv.IsNil() {
		return nil, false
	}
	bt, tok := in.typeExpr(tg.sig.Results().At(0).Type(), file)
	if !tok {
		return nil, false
	}
	tk, fk := "NonNil", "Nil"
	if be.Op == token.EQL {
		tk, fk = fk, tk
	}
	bodies := [][]ast.Stmt{x.Body.List}
	keys := []string{tk}
	var elseBlk *ast.BlockStmt
	if x.Else != nil {
		eb, ok := x.Else.(*ast.BlockStmt)
		if !ok {
			return nil, false
		}
		elseBlk = eb
		bodies = append(bodies, eb.List)
		keys = append(keys, fk)
	}
	d := in.newDispatch(nil, bodies, keys)
	if d == nil {
		return nil, false
	}
	d.nilMode, d.bindName, d.bindTok, d.bindType = true, v.Name, as.Tok, bt
	in.dispatch = d
	st, res, ok := in.expandCall(ce, file, depth, map[*types.Func]bool{})
	in.dispatch = nil
	if !ok || len(res) != 1 {
		return nil, false
	}
	if !d.anyMoved {
		// nothing gained: leave the pair to the ordinary rules (the expansion is still valid)
		return append(st, &ast.AssignStmt{Lhs: as.Lhs, Tok: as.Tok, Rhs: []ast.Expr{ident(res[0])}}, x), true
	}
	st = append(st, &ast.AssignStmt{Lhs: as.Lhs, Tok: as.Tok, Rhs: []ast.Expr{ident(res[0])}})
	if !d.dynamic {
		if d.cases[0].moved {
			x.Body = &ast.BlockStmt{}
		}
		if elseBlk != nil && d.cases[1].moved {
			x.Else = nil
		}
		if len(x.Body.List) == 0 && x.Else == nil {
			return append(st, &ast.AssignStmt{Lhs: []ast.Expr{ident("_")}, Tok: token.ASSIGN, Rhs: []ast.Expr{ident(v.Name)}}), true
		}
	}
	return append(st, x), true
}
