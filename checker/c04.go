package main

// C04 — MSM4/MSM7 decode; C05 — 1005/1006 decode.  This file holds the
// padding non-interference rule (C04-R5, shared with C05) and the drivers.

import (
	"fmt"
	"go/token"
	"go/types"

	"golang.org/x/tools/go/ssa"
)

// decoderFuncs: the functions that turn a frame into decoded fields.
func decoderFuncs(P *Prog, which string) []*ssa.Function {
	var out []*ssa.Function
	add := func(pkg, name string) {
		if f := P.Func(pkg, name); f != nil {
			out = append(out, f)
		}
	}
	if which == "msm" {
		add("rtcm/header", "GetMSMHeader")
		for _, f := range P.FuncsIn("rtcm/header") {
			if f.Name() == "getMSMType" {
				out = append(out, f)
			}
		}
		for _, fam := range []string{"type_msm4", "type_msm7"} {
			add("rtcm/"+fam+"/message", "GetMessage")
			add("rtcm/"+fam+"/satellite", "GetSatelliteCells")
			add("rtcm/"+fam+"/signal", "GetSignalCells")
		}
		add("rtcm/utils", "GetNumberOfSignalCells")
	} else {
		add("rtcm/type1005", "GetMessage")
		add("rtcm/type1006", "GetMessage")
	}
	return out
}

// rulePaddingNonInterference: the decoded result must not depend on the length
// of the frame (i.e. on how much padding follows the data) except through
// error exits.  Sources: len(bitStream) of the []byte parameter of each
// decoder function.  Violations: a tainted value that is (a) the condition of a
// branch that is not an error gate, (b) a bit position / width / buffer index
// handed to the bit readers, or (c) part of the value returned with a nil error.
func rulePaddingNonInterference(c *Ctx, rule string, fns []*ssa.Function) {
	P := c.P
	inScope := map[*ssa.Function]bool{}
	for _, f := range fns {
		inScope[f] = true
	}
	t := NewTaint(P)
	t.Implicit = true
	t.Scope = func(fn *ssa.Function) bool { return inScope[fn] }
	t.IsSource = func(v ssa.Value) bool {
		call, ok := v.(*ssa.Call)
		if !ok {
			return false
		}
		b, ok := call.Call.Value.(*ssa.Builtin)
		if !ok || b.Name() != "len" {
			return false
		}
		p, ok := call.Call.Args[0].(*ssa.Parameter)
		if !ok {
			return false
		}
		sl, ok := p.Type().Underlying().(*types.Slice)
		if !ok {
			return false
		}
		bt, ok := sl.Elem().Underlying().(*types.Basic)
		return ok && bt.Kind() == types.Byte
	}
	t.Run()
	nsrc := 0
	for _, fn := range fns {
		eachInstr(fn, func(ins ssa.Instruction) {
			if v, ok := ins.(ssa.Value); ok && t.IsSource(v) {
				nsrc++
			}
		})
	}
	if nsrc == 0 {
		c.Fail(rule, "frame-length-sources", token.NoPos, "unresolved", "no len(bitStream) found in the decoders")
		return
	}
	for _, fn := range fns {
		name := P.FnKey(fn)
		bad := 0
		eachInstr(fn, func(ins ssa.Instruction) {
			switch x := ins.(type) {
			case *ssa.If:
				if t.Tainted(x.Cond) && !isErrorGate(x) {
					bad++
					c.Fail(rule, name+":length-dependent-branch", x.Pos(), "refuted",
						"a branch that is not an error exit depends on the length of the frame: the decoded result changes with the amount of trailing padding", t.Explain(x.Cond)...)
				}
			case *ssa.Call:
				if f := x.Call.StaticCallee(); f != nil && (f.Name() == "GetBitsAsUint64" || f.Name() == "GetBitsAsInt64") {
					for i := 1; i <= 2 && i < len(x.Call.Args); i++ {
						if t.Tainted(x.Call.Args[i]) {
							bad++
							c.Fail(rule, name+":length-dependent-bit-position", x.Pos(), "refuted",
								"a bit position or width depends on the length of the frame", t.Explain(x.Call.Args[i])...)
						}
					}
				}
			case *ssa.Return:
				n := len(x.Results)
				if n >= 2 && isErrorType(x.Results[n-1].Type()) && isNilConst(x.Results[n-1]) {
					for i := 0; i < n-1; i++ {
						if t.Tainted(x.Results[i]) {
							bad++
							c.Fail(rule, fmt.Sprintf("%s:length-dependent-result#%d", name, i), x.Pos(), "refuted",
								"a value returned without error depends on the length of the frame", t.Explain(x.Results[i])...)
						}
					}
				}
			}
		})
		if bad == 0 {
			c.OK(rule, name+":padding-independent", fn.Pos(), "the frame length reaches only error-exit tests and error texts")
		}
	}
}

func checkC04(c *Ctx) {
	c.Explanation = "partial (being built): padding non-interference of the MSM decoders."
	c.NotDecided = "layout rules pending"
	rulePaddingNonInterference(c, "C04-R5", decoderFuncs(c.P, "msm"))
}
