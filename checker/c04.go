package main

// C04 — MSM4/MSM7 decode; C05 — 1005/1006 decode.  This file holds the
// padding non-interference rule (C04-R5, shared with C05) and the drivers.

import (
	"fmt"
	"go/constant"
	"go/token"
	"go/types"
	"os"
	"strings"

	"golang.org/x/tools/go/ssa"
)

// decoderFuncs: the functions that turn a frame into decoded fields.
func decoderFuncs(P *Prog, which string) []*ssa.Function {
	var out []*ssa.Function
	add := func(pkg, name string) {
		if f := P.Func(pkg, name); f != nil {
			out = append(out, f)
		}
	}
	if which == "msm" {
		add("rtcm/header", "GetMSMHeader")
		for _, f := range P.FuncsIn("rtcm/header") {
			if f.Name() == "getMSMType" {
				out = append(out, f)
			}
		}
		for _, fam := range []string{"type_msm4", "type_msm7"} {
			add("rtcm/"+fam+"/message", "GetMessage")
			add("rtcm/"+fam+"/satellite", "GetSatelliteCells")
			add("rtcm/"+fam+"/signal", "GetSignalCells")
		}
	} else {
		add("rtcm/type1005", "GetMessage")
		add("rtcm/type1006", "GetMessage")
	}
	return out
}

// rulePaddingNonInterference: the decoded result must not depend on the length
// of the frame (i.e. on how much padding follows the data) except through
// error exits.  Sources: len(bitStream) of the []byte parameter of each
// decoder function.  Violations: a tainted value that is (a) the condition of a
// branch that is not an error gate, (b) a bit position / width / buffer index
// handed to the bit readers, or (c) part of the value returned with a nil error.
func rulePaddingNonInterference(c *Ctx, rule string, fns []*ssa.Function) {
	P := c.P
	inScope := map[*ssa.Function]bool{}
	for _, f := range fns {
		inScope[f] = true
	}
	t := NewTaint(P)
	t.Implicit = true
	t.Scope = func(fn *ssa.Function) bool { return inScope[fn] }
	t.IsSource = func(v ssa.Value) bool {
		call, ok := v.(*ssa.Call)
		if !ok {
			return false
		}
		b, ok := call.Call.Value.(*ssa.Builtin)
		if !ok || b.Name() != "len" {
			return false
		}
		p, ok := call.Call.Args[0].(*ssa.Parameter)
		if !ok {
			return false
		}
		sl, ok := p.Type().Underlying().(*types.Slice)
		if !ok {
			return false
		}
		bt, ok := sl.Elem().Underlying().(*types.Basic)
		return ok && bt.Kind() == types.Byte
	}
	t.Run()
	nsrc := 0
	for _, fn := range fns {
		eachInstr(fn, func(ins ssa.Instruction) {
			if v, ok := ins.(ssa.Value); ok && t.IsSource(v) {
				nsrc++
			}
		})
	}
	if nsrc == 0 {
		c.Fail(rule, "frame-length-sources", token.NoPos, "unresolved", "no len(bitStream) found in the decoders")
		return
	}
	for _, fn := range fns {
		name := P.FnKey(fn)
		bad := 0
		eachInstr(fn, func(ins ssa.Instruction) {
			switch x := ins.(type) {
			case *ssa.If:
				if t.Tainted(x.Cond) && !isErrorGate(x) {
					bad++
					c.Fail(rule, name+":length-dependent-branch", x.Pos(), "refuted",
						"a branch that is not an error exit depends on the length of the frame: the decoded result changes with the amount of trailing padding", t.Explain(x.Cond)...)
				}
			case *ssa.Call:
				if f := x.Call.StaticCallee(); f != nil && (f.Name() == "GetBitsAsUint64" || f.Name() == "GetBitsAsInt64") {
					for i := 1; i <= 2 && i < len(x.Call.Args); i++ {
						if t.Tainted(x.Call.Args[i]) {
							bad++
							c.Fail(rule, name+":length-dependent-bit-position", x.Pos(), "refuted",
								"a bit position or width depends on the length of the frame", t.Explain(x.Call.Args[i])...)
						}
					}
				}
			case *ssa.Return:
				n := len(x.Results)
				if n >= 2 && isErrorType(x.Results[n-1].Type()) && isNilConst(x.Results[n-1]) {
					for i := 0; i < n-1; i++ {
						if t.Tainted(x.Results[i]) {
							bad++
							c.Fail(rule, fmt.Sprintf("%s:length-dependent-result#%d", name, i), x.Pos(), "refuted",
								"a value returned without error depends on the length of the frame", t.Explain(x.Results[i])...)
						}
					}
				}
			}
		})
		if bad == 0 {
			c.OK(rule, name+":padding-independent", fn.Pos(), "the frame length reaches only error-exit tests and error texts")
		}
	}
}

func provEq(A *Aff, b *ssa.BasicBlock, x, y *Lin) bool {
	return x.Equal(y) || (A.Prove(b, GE(x, y)) && A.Prove(b, LE(x, y)))
}

func checkC04(c *Ctx) {
	c.Explanation = "Decides that the MSM4/MSM7 decoders read the standard's layout into the right fields: (R1) the bit reads of the header reader (type at bit 24, then 11 fixed fields and the Nsat*Nsig cell mask), of the two satellite-cell readers and of the two signal-cell readers are, in control-flow order, exactly the oracle's fields — width, signedness, one contiguous field array per field repeated Nsat (satellites) resp. NumSignalCells (signals) times, starting where the previous section ended (header end; satellites start + Nsat*cell length); (R2) each read value reaches the like-named struct field through the constructor; (R3) mask expansion: satellite mask 64 bits and signal mask 32 bits scanned from the most significant bit with ids 1..64 / 1..32, cell mask of Nsat*Nsig bits row-major (satellite-major), rejected above 64 bits; (R4) attachment: every signal cell is built from Signals[j], &satCells[i] and the c-th entry of every field array, c advancing exactly once per constructed cell and only for cells whose mask bit is set, appended to signalCells[i]; (R5) padding non-interference: the frame length influences nothing but error exits; (R6) rejection sites are exactly the allowed reasons; (R7) each family decodes exactly its own message types. Later additions: every successful return of the family decoders hands back New(header, satellites, signals) built from the three readers; successful returns of the cell readers follow their complete loops; the signal-overrun exit compares the cell count with a capacity computed from the frame length alone. (R9) the no-panic obligations (C07 engine) of the two family decoders hold, so no well-formed message (empty masks included) aborts decoding."
	c.NotDecided = "the bit reader's arithmetic (C14); the numerical result of the mask-to-list loops beyond their structure; that a cell mask with fewer set bits than cells in the data is well formed (the standard says the mask describes the message)."
	P := c.P
	or, err := loadLayoutOracle(c.Verifdir)
	if err != nil {
		c.Fail("C04-oracle", "layout.json", token.NoPos, "unresolved", err.Error())
		return
	}
	A := NewAff(P)
	hl := newHeaderLemma(c, "C04-R3")
	A.LemmaFacts = func(a *Aff, fn *ssa.Function) []Con { return hl.facts(a, fn) }
	// ---- header
	getHdr := P.Func("rtcm/header", "GetMSMHeader")
	newHdr := P.Func("rtcm/header", "New")
	var typeFn *ssa.Function
	var typeCall *ssa.Call
	if getHdr != nil {
		eachInstr(getHdr, func(ins ssa.Instruction) {
			if call, ok := ins.(*ssa.Call); ok {
				if f := call.Call.StaticCallee(); f != nil && f.Pkg == getHdr.Pkg && f.Signature.Results().Len() == 3 && len(f.Params) == 1 {
					typeFn, typeCall = f, call
				}
			}
		})
	}
	if getHdr == nil || newHdr == nil || typeFn == nil {
		c.Unresolved("C04-R1", "header.GetMSMHeader / header.New / MSM type reader")
		return
	}
	hsec := or.Sections["msm_header"]
	// type read
	tr := extractReads(P, A, typeFn, typeFn.Params[0])
	okT := len(tr) == 1 && tr[0].posLin.Equal(LinConst(or.LeaderBits)) && !tr[0].signed
	if okT {
		k, isC := tr[0].width.IsConst()
		okT = isC && k == hsec[0].Width
		// returned as result 0 together with position 24+12
		for _, r := range returnsOf(typeFn) {
			if isNilConst(r.Results[2]) {
				if stripConv(r.Results[0]) != ssa.Value(tr[0].call) || !A.Lin(r.Results[1]).Equal(LinConst(or.LeaderBits+hsec[0].Width)) {
					okT = false
				}
			}
		}
	}
	pos0 := token.NoPos
	if len(tr) > 0 {
		pos0 = tr[0].call.Pos()
	}
	c.Check(okT, "C04-R1", "header:field#1(MessageType)", pos0, "12 unsigned bits at bit 24, returned with next position 36", "the MSM type is not read as 12 unsigned bits at bit 24 / next position is not 36")
	// its destination
	var typeVal ssa.Value
	for _, r := range referrers(typeCall) {
		if ex, ok := r.(*ssa.Extract); ok && ex.Index == 0 {
			typeVal = ex
		}
	}
	d := []string{}
	if typeVal != nil {
		d = traceDest(P, typeVal)
	}
	c.Check(len(d) == 1 && d[0] == "MessageType", "C04-R2", "header:dest(MessageType)", typeCall.Pos(), "type value stored in Header.MessageType", fmt.Sprintf("the type value reaches %v", d))
	hreads := extractReads(P, A, getHdr, getHdr.Params[0])
	checkStraightLayoutP(c, "C04-R1", "header", A, hreads, hsec[1:], or.LeaderBits+hsec[0].Width, true)
	// cell mask width = len(satellites)*len(signals) of the expansions of the two masks just read
	if len(hreads) == len(hsec)-1 {
		last := hreads[len(hreads)-1]
		okW := false
		if cv, ok := last.call.Call.Args[2].(*ssa.Convert); ok {
			if mul, ok := cv.X.(*ssa.BinOp); ok && mul.Op == token.MUL {
				l1, ok1 := mul.X.(*ssa.Call)
				l2, ok2 := mul.Y.(*ssa.Call)
				if ok1 && ok2 {
					s1, _ := l1.Call.Args[0].(*ssa.Call)
					s2, _ := l2.Call.Args[0].(*ssa.Call)
					if s1 != nil && s2 != nil && s1.Call.StaticCallee() != nil && s2.Call.StaticCallee() != nil {
						// arguments are the satellite and signal mask reads
						a1 := stripConv(s1.Call.Args[0])
						a2 := stripConv(s2.Call.Args[0])
						if a1 == ssa.Value(hreads[len(hreads)-3].call) && a2 == ssa.Value(hreads[len(hreads)-2].call) {
							okW = true
						}
					}
				}
			}
		}
		c.Check(okW, "C04-R1", "header:cell-mask-width", last.call.Pos(), "cell mask width = Nsat * Nsig from the two masks just read", "the cell mask width is not len(satellites)*len(signals) of the masks just read")
		// returned position = end of the cell mask
		for _, r := range returnsOf(getHdr) {
			if isNilConst(r.Results[2]) {
				c.Check(provEq(A, r.Block(), A.Lin(r.Results[1]), last.posLin.Add(last.width)), "C04-R1", "header:end-position", r.Pos(), "returned position = end of the cell mask", "the position returned by the header reader is not the end of the cell mask")
			}
		}
		// > 64 rejected
		rej := false
		eachInstr(getHdr, func(ins ssa.Instruction) {
			if ifi, ok := ins.(*ssa.If); ok {
				if bo, ok := ifi.Cond.(*ssa.BinOp); ok && bo.Op == token.GTR && bo.X == last.call.Call.Args[2] {
					if k, isC := constInt(bo.Y); isC && k == 64 && isErrorGate(ifi) {
						rej = true
					}
				}
			}
		})
		c.Check(rej, "C04-R3", "header:cell-mask<=64", last.call.Pos(), "cell masks longer than 64 bits are rejected", "the 64-bit limit of the cell mask is not enforced (or has another value)")
	}
	// New stores every parameter into the like-named field
	for i, p := range newHdr.Params {
		if i >= len(hsec) {
			break
		}
		got := ctorFieldOfParam(newHdr, i)
		c.Check(got == hsec[i].Name, "C04-R2", "header.New:param("+p.Name()+")", newHdr.Pos(), "stored in "+hsec[i].Name, fmt.Sprintf("header.New stores parameter %s in field %q, expected %s", p.Name(), got, hsec[i].Name))
	}
	// ---- mask expansion
	checkMaskExpansion(c, "C04-R3", A, newHdr)
	// ---- satellites and signals
	var tabs [2]TySet
	for fi, fam := range []string{"msm4", "msm7"} {
		pkg := "rtcm/type_" + fam
		sat := P.Func(pkg+"/satellite", "GetSatelliteCells")
		sig := P.Func(pkg+"/signal", "GetSignalCells")
		msg := P.Func(pkg+"/message", "GetMessage")
		if sat == nil || sig == nil || msg == nil {
			c.Unresolved("C04-R1", pkg+" decoders")
			continue
		}
		_ = tabs[fi]
		sreads := extractReads(P, A, sat, sat.Params[0])
		checkLoopedLayout(c, "C04-R1", fam+":satellite", A, sreads, or.Sections[fam+"_sat"], sat.Params[1], A.LenOf(sat.Params[2]))
		// satellite id: Satellites[i] -> ID
		checkSatelliteAttachment(c, "C04-R4", fam, sat)
		// signal section: bound = the header's NumSignalCells
		greads := extractReads(P, A, sig, sig.Params[0])
		var nLin *Lin
		eachInstr(sig, func(ins ssa.Instruction) {
			if u, ok := ins.(*ssa.UnOp); ok {
				if f, base := loadedField(u); f == hl.numCells && root(base) == ssa.Value(sig.Params[2]) && nLin == nil {
					nLin = A.Lin(u)
				}
			}
		})
		if nLin == nil {
			c.Fail("C04-R1", fam+":signal:count", sig.Pos(), "refuted", "the signal decoder does not take the number of signal cells from the header's cell mask (NumSignalCells)")
			nLin = LinSym("?")
		}
		checkLoopedLayout(c, "C04-R1", fam+":signal", A, greads, or.Sections[fam+"_sig"], sig.Params[1], nLin)
		checkSignalAttachment(c, "C04-R4", fam, A, hl, sig, greads)
		// section starts in the family's GetMessage
		checkSectionStarts(c, "C04-R1", fam, A, msg, getHdr, sat, sig, or.sum(fam+"_sat"))
		// CellLengthInBits constant
		if k := P.Const(pkg+"/satellite", "CellLengthInBits"); k != nil {
			v, _ := constant.Int64Val(constant.ToInt(k.Val()))
			c.Check(v == or.sum(fam+"_sat"), "C04-R1", fam+":const(CellLengthInBits)", k.Pos(), fmt.Sprintf("== %d", or.sum(fam+"_sat")), fmt.Sprintf("satellite CellLengthInBits is %d, the layout sums to %d", v, or.sum(fam+"_sat")))
		}
	}
	// ---- R5
	rulePaddingNonInterference(c, "C04-R5", decoderFuncs(P, "msm"))
	// ---- R6
	checkMSMRejections(c, "C04-R6", A, hl, or)
	// ---- R8 the decoders keep no storage between messages (scratch slices, caches): every decode owns its cells
	ruleGlobalsInitOnly(c, "C04-R8", []string{"rtcm/header", "rtcm/utils", "rtcm/type_msm4/satellite", "rtcm/type_msm4/signal", "rtcm/type_msm4/message", "rtcm/type_msm7/satellite", "rtcm/type_msm7/signal", "rtcm/type_msm7/message"})
	c.MinInstances("C04-R8", 1)
	// ---- R7
	if cor, err := loadClassOracle(c.Verifdir); err == nil {
		T := NewTables(P)
		m4, m7 := SetOf(cor.MSM4...), SetOf(cor.MSM7...)
		ruleFamilyGates(c, T, "C04-R7", m4, m7, m4.Or(m7))
	}
	c.MinInstances("C04-R1", 36)
	c.MinInstances("C04-R2", 14)
	c.MinInstances("C04-R3", 5)
	// R9: no well-formed (or any other) message makes a decoder panic instead of decoding it: the
	// no-panic obligations (C07 engine) of the two family decoders
	var roots []*ssa.Function
	for _, fam := range []string{"msm4", "msm7"} {
		if g := P.Func("rtcm/type_"+fam+"/message", "GetMessage"); g != nil {
			roots = append(roots, g)
		} else {
			c.Unresolved("C04-R9", "rtcm/type_"+fam+"/message.GetMessage")
		}
	}
	if len(roots) == 2 {
		runBounds(c, "C04-R9", roots)
		c.MinInstances("C04-R9", 100)
	}
	c.MinInstances("C04-R4", 10)
	c.MinInstances("C04-R5", 8)
	c.MinInstances("C04-R6", 8)
	c.MinInstances("C04-R7", 6)
}

// checkStraightLayoutP: like checkStraightLayout but positions are compared by entailment.
func checkStraightLayoutP(c *Ctx, rule, label string, A *Aff, reads []fieldRead, section []oracleField, startBit int64, lastSymbolic bool) {
	if len(reads) != len(section) {
		c.Fail(rule, label+":field-count", token.NoPos, "refuted", fmt.Sprintf("%s: %d bit reads found, the layout has %d fields", label, len(reads), len(section)))
		return
	}
	pos := LinConst(startBit)
	for i, r := range reads {
		of := section[i]
		key := fmt.Sprintf("%s:field#%d(%s)", label, i+2, of.Name)
		var problems []string
		symbolic := of.Width == 0 && lastSymbolic && i == len(section)-1
		if k, isC := r.width.IsConst(); !symbolic && (!isC || k != of.Width) {
			problems = append(problems, fmt.Sprintf("width %s, layout says %d", r.width.String(), of.Width))
		}
		if !provEq(A, r.call.Block(), r.posLin, pos) {
			problems = append(problems, fmt.Sprintf("read at bit %s, the previous field ends at bit %s (gap or overlap)", r.posLin.String(), pos.String()))
		}
		if r.signed != of.Signed {
			problems = append(problems, fmt.Sprintf("read as signed=%v, layout says signed=%v", r.signed, of.Signed))
		}
		if len(r.dest) != 1 || r.dest[0] != of.Name {
			problems = append(problems, fmt.Sprintf("value reaches field(s) %v, layout says %s", r.dest, of.Name))
		}
		if r.header != nil {
			problems = append(problems, "read inside a loop")
		}
		c.Check(len(problems) == 0, rule, key, r.call.Pos(), fmt.Sprintf("bits [%s,+%s) -> %s", pos.String(), r.width.String(), of.Name), label+" field "+of.Name+": "+strings.Join(problems, "; "))
		pos = pos.Add(r.width)
	}
}

// checkMaskExpansion: getSatellites/getSignals scan their mask from the most
// significant bit, ids 1..width.
func checkMaskExpansion(c *Ctx, rule string, A *Aff, newHdr *ssa.Function) {
	P := c.P
	for _, m := range []struct {
		field string
		width int64
	}{{"Satellites", 64}, {"Signals", 32}} {
		var exp *ssa.Function
		eachInstr(newHdr, func(ins ssa.Instruction) {
			if st, ok := ins.(*ssa.Store); ok {
				if f, _ := fieldOf(st.Addr); f != nil && f.Name() == m.field {
					if call, ok := st.Val.(*ssa.Call); ok {
						exp = call.Call.StaticCallee()
					}
				}
			}
		})
		if exp == nil || !P.InModule(exp) {
			c.Fail(rule, "mask-expansion("+m.field+")", newHdr.Pos(), "unresolved", "mask expander for "+m.field+" not found")
			continue
		}
		// loop n from 1 while n <= width; bit = (mask >> (width-n)) & 1; if bit==1 append uint(n)
		ok := false
		var why []string
		hdr := (*ssa.BasicBlock)(nil)
		var n *ssa.Phi
		for _, b := range exp.Blocks {
			for _, ins := range b.Instrs {
				if phi, isPhi := ins.(*ssa.Phi); isPhi && isInteger(phi.Type()) {
					for i, e := range phi.Edges {
						if !b.Dominates(b.Preds[i]) {
							if k, isC := constInt(e); isC && k == 1 {
								n, hdr = phi, b
							}
						}
					}
				}
			}
		}
		if n == nil {
			why = append(why, "no loop variable starting at 1")
		} else {
			ifi, _ := lastInstr(hdr).(*ssa.If)
			okBound := false
			if ifi != nil {
				if cmp, isB := ifi.Cond.(*ssa.BinOp); isB && cmp.X == ssa.Value(n) {
					if k, isC := constInt(cmp.Y); isC && ((cmp.Op == token.LEQ && k == m.width) || (cmp.Op == token.LSS && k == m.width+1)) {
						okBound = true
					}
				}
			}
			if !okBound {
				why = append(why, fmt.Sprintf("loop does not run n = 1..%d", m.width))
			}
			okStep := false
			for i, e := range n.Edges {
				if hdr.Dominates(hdr.Preds[i]) {
					if k, isC := A.Lin(e).Sub(LinSym(A.sym(n))).IsConst(); isC && k == 1 {
						okStep = true
					}
				}
			}
			if !okStep {
				why = append(why, "loop variable is not advanced by one")
			}
			okShift, okApp := false, false
			eachInstr(exp, func(ins ssa.Instruction) {
				switch x := ins.(type) {
				case *ssa.BinOp:
					if x.Op == token.SHR && stripWidening(x.X) == ssa.Value(exp.Params[0]) {
						if A.Lin(x.Y).Equal(LinConst(m.width).Sub(LinSym(A.sym(n)))) {
							// result masked with 1 and compared with 1
							okShift = true
						}
					}
				case *ssa.Call:
					if _, el, isApp := appendOne(x); isApp && stripConv(el) == ssa.Value(n) {
						// under bit == 1
						for _, f := range dominatingFacts(x.Block()) {
							if bo, isB := f.Cond.(*ssa.BinOp); isB && bo.Op == token.EQL && f.Val {
								if k, isC := constInt(bo.Y); isC && k == 1 {
									okApp = true
								}
							}
						}
					}
				}
			})
			if !okShift {
				why = append(why, fmt.Sprintf("bit tested is not mask >> (%d - n)", m.width))
			}
			if !okApp {
				why = append(why, "the id appended is not n under bit == 1")
			}
			ok = okBound && okStep && okShift && okApp
		}
		c.Check(ok, rule, "mask-expansion("+m.field+")", exp.Pos(), fmt.Sprintf("ids 1..%d, id n <-> bit %d-n (most significant bit first)", m.width, m.width), "mask expansion of "+m.field+": "+strings.Join(why, "; "))
	}
}

// checkSatelliteAttachment: New(Satellites[i], F1[i], F2[i], ...) with one index.
func checkSatelliteAttachment(c *Ctx, rule, fam string, sat *ssa.Function) {
	var ctor *ssa.Call
	eachInstr(sat, func(ins ssa.Instruction) {
		if call, ok := ins.(*ssa.Call); ok {
			if f := call.Call.StaticCallee(); f != nil && f.Name() == "New" && f.Pkg == sat.Pkg {
				ctor = call
			}
		}
	})
	if ctor == nil {
		c.Fail(rule, fam+":satellite:constructor", sat.Pos(), "unresolved", "satellite cell constructor call not found")
		return
	}
	var idx ssa.Value
	same := true
	idOK := false
	for j, a := range ctor.Call.Args {
		ld, ok := a.(*ssa.UnOp)
		if !ok || ld.Op != token.MUL {
			continue
		}
		ia, ok := ld.X.(*ssa.IndexAddr)
		if !ok {
			continue
		}
		if idx == nil {
			idx = ia.Index
		} else if ia.Index != idx {
			same = false
		}
		if j == 0 && ia.X == ssa.Value(sat.Params[2]) && ctorFieldOfParam(ctor.Call.StaticCallee(), 0) == "ID" {
			idOK = true
		}
	}
	c.Check(same && idx != nil, rule, fam+":satellite:one-index", ctor.Pos(), "all field arrays and the id list are indexed by the same satellite index", "satellite cell fields are taken from different positions of their arrays")
	c.Check(idOK, rule, fam+":satellite:id", ctor.Pos(), "cell ID = Satellites[i]", "the satellite id is not Satellites[i]")
	// appended in index order
	app := false
	for _, r := range referrers(ctor) {
		if ld, ok := r.(*ssa.UnOp); ok {
			if len(traceAppend(ld)) > 0 {
				app = true
			}
		}
	}
	// a decoded value is what was read: nothing stores a constant into one of the field arrays between the
	// bit reads and the construction of the cells (a "normalisation" of special values changes the result)
	{
		over := false
		eachInstr(sat, func(ins ssa.Instruction) {
			st, ok := ins.(*ssa.Store)
			if !ok {
				return
			}
			ia, ok := st.Addr.(*ssa.IndexAddr)
			if !ok {
				return
			}
			if _, isSl := ia.X.Type().Underlying().(*types.Slice); !isSl {
				return
			}
			if _, isK := st.Val.(*ssa.Const); isK {
				over = true
				c.Fail(rule, fam+":satellite:decoded-values-kept", st.Pos(), "refuted", "a constant is stored over an element of a field array after it was read: the cell no longer carries the encoded value")
			}
		})
		if !over {
			c.OK(rule, fam+":satellite:decoded-values-kept", sat.Pos(), "no constant is stored into a field array of the satellite reader")
		}
	}
	c.Check(app, rule, fam+":satellite:appended", ctor.Pos(), "each constructed cell is appended to the result in order", "constructed satellite cells are not appended to the result")
	// the list is complete: a successful return is reached only over the exit edge of the loop
	// that builds the cells
	var hb *ssa.BasicBlock
	switch x := idx.(type) {
	case *ssa.Phi:
		hb = x.Block()
	case *ssa.BinOp:
		if phi, ok := x.X.(*ssa.Phi); ok {
			hb = phi.Block()
		}
	}
	if hb != nil && len(hb.Succs) == 2 {
		complete, n := true, 0
		for _, r := range returnsOf(sat) {
			if len(r.Results) != 2 || !isNilConst(r.Results[1]) {
				continue
			}
			n++
			if !edgeDominates(hb, hb.Succs[1], r.Block()) {
				complete = false
				c.Fail(rule, fam+":satellite:all-cells", r.Pos(), "refuted", "the satellite reader can return successfully before its loop over the satellites has finished: cells are missing from the result")
			}
		}
		if complete && n > 0 {
			c.OK(rule, fam+":satellite:all-cells", sat.Pos(), "every successful return follows the complete loop over the satellites")
		}
	}
}

func traceAppend(v ssa.Value) []*ssa.Call {
	var out []*ssa.Call
	for _, r := range referrers(v) {
		if st, ok := r.(*ssa.Store); ok && st.Val == v {
			if ia, ok := st.Addr.(*ssa.IndexAddr); ok {
				if al, ok := ia.X.(*ssa.Alloc); ok {
					for _, r2 := range referrers(al) {
						if sl, ok := r2.(*ssa.Slice); ok {
							for _, r3 := range referrers(sl) {
								if call, ok := r3.(*ssa.Call); ok {
									if b, ok := call.Call.Value.(*ssa.Builtin); ok && b.Name() == "append" {
										out = append(out, call)
									}
								}
							}
						}
					}
				}
			}
		}
	}
	return out
}

// checkSignalAttachment (C04-R4).
func checkSignalAttachment(c *Ctx, rule, fam string, A *Aff, hl *headerLemma, sig *ssa.Function, reads []fieldRead) {
	var ctor *ssa.Call
	eachInstr(sig, func(ins ssa.Instruction) {
		if call, ok := ins.(*ssa.Call); ok {
			if f := call.Call.StaticCallee(); f != nil && f.Name() == "New" && f.Pkg == sig.Pkg {
				ctor = call
			}
		}
	})
	if ctor == nil {
		c.Fail(rule, fam+":signal:constructor", sig.Pos(), "unresolved", "signal cell constructor call not found")
		return
	}
	hdrP, satP := sig.Params[2], sig.Params[3]
	ctorFn := ctor.Call.StaticCallee()
	// classify arguments
	var cIdx ssa.Value
	sameC := true
	var iIdx, jIdx ssa.Value
	okSigID, okSat := false, false
	nArr := 0
	for j, a := range ctor.Call.Args {
		fld := ctorFieldOfParam(ctorFn, j)
		if fld == "Wavelength" {
			// the carrier wavelength of a cell is what the frequency table gives for (constellation, signal id)
			wcall, isCall := a.(*ssa.Call)
			okW := isCall && wcall.Call.StaticCallee() != nil && wcall.Call.StaticCallee().Name() == "GetSignalWavelength" && c.P.InModule(wcall.Call.StaticCallee())
			c.Check(okW, rule, fam+":signal:wavelength=table", ctor.Pos(), "the cell's wavelength is the result of GetSignalWavelength, unmodified",
				"the wavelength given to the cell is not the frequency table's value for its constellation and signal id")
		}
		switch x := a.(type) {
		case *ssa.IndexAddr:
			// &satCells[i]
			if x.X == ssa.Value(satP) && fld == "Satellite" {
				okSat = true
				iIdx = x.Index
			}
		case *ssa.UnOp:
			if x.Op != token.MUL {
				continue
			}
			ia, ok := x.X.(*ssa.IndexAddr)
			if !ok {
				continue
			}
			if f, base := loadedField(ia.X); f == hl.sigs && root(base) == ssa.Value(hdrP) {
				if fld == "ID" {
					okSigID = true
					jIdx = ia.Index
				}
				continue
			}
			// a field array element
			nArr++
			if cIdx == nil {
				cIdx = ia.Index
			} else if ia.Index != cIdx {
				sameC = false
			}
		}
	}
	c.Check(okSigID, rule, fam+":signal:id=Signals[j]", ctor.Pos(), "signal id = header.Signals[j]", "the signal id is not header.Signals[j]")
	c.Check(okSat, rule, fam+":signal:satellite=&satCells[i]", ctor.Pos(), "satellite = &satCells[i]", "the cell is not attached to &satCells[i]")
	c.Check(sameC && nArr == len(reads), rule, fam+":signal:one-cell-index", ctor.Pos(), fmt.Sprintf("all %d field arrays are indexed by the same cell counter", nArr), "signal cell fields are taken from different positions of their field arrays")
	// i and j are the range indexes over header.Cells and header.Cells[i]
	isRangeOver := func(idx ssa.Value, over func(ssa.Value) bool) bool {
		add, ok := idx.(*ssa.BinOp)
		if !ok {
			return false
		}
		phi, ok := add.X.(*ssa.Phi)
		if !ok || !strings.Contains(phi.Comment, "rangeindex") {
			return false
		}
		ifi, ok := lastInstr(phi.Block()).(*ssa.If)
		if !ok {
			return false
		}
		cmp, ok := ifi.Cond.(*ssa.BinOp)
		if !ok {
			return false
		}
		ln, ok := cmp.Y.(*ssa.Call)
		if !ok {
			return false
		}
		return over(ln.Call.Args[0])
	}
	iOK := iIdx != nil && isRangeOver(iIdx, func(v ssa.Value) bool {
		f, base := loadedField(v)
		return f == hl.cells && root(base) == ssa.Value(hdrP)
	})
	jOK := jIdx != nil && isRangeOver(jIdx, func(v ssa.Value) bool {
		ld, ok := v.(*ssa.UnOp)
		if !ok {
			return false
		}
		ia, ok := ld.X.(*ssa.IndexAddr)
		if !ok || ia.Index != iIdx {
			return false
		}
		f, base := loadedField(ia.X)
		return f == hl.cells && root(base) == ssa.Value(hdrP)
	})
	c.Check(iOK && jOK, rule, fam+":signal:loop-nest", ctor.Pos(), "i ranges over header.Cells (satellites), j over header.Cells[i] (signals)", "the attachment loops do not range over the cell mask rows and columns")
	// the rows are complete: a successful return is reached only over the exit edge of the loop
	// over the satellites (an early success return from inside the nest drops the remaining rows)
	if iOK {
		hb := iIdx.(*ssa.BinOp).X.(*ssa.Phi).Block()
		complete, n := true, 0
		for _, r := range returnsOf(sig) {
			if len(r.Results) != 2 || !isNilConst(r.Results[1]) {
				continue
			}
			n++
			if len(hb.Succs) != 2 || !edgeDominates(hb, hb.Succs[1], r.Block()) {
				complete = false
				c.Fail(rule, fam+":signal:all-rows", r.Pos(), "refuted", "the signal reader can return successfully before the loop over the satellites has finished: the rows of the remaining satellites are missing from the result")
			}
		}
		if complete && n > 0 {
			c.OK(rule, fam+":signal:all-rows", sig.Pos(), "every successful return follows the complete loop over the satellites")
		}
	}
	// guarded by Cells[i][j] and by c < numSignalCells
	maskOK := false
	var maskFrom *ssa.BasicBlock
	for _, f := range dominatingFacts(ctor.Block()) {
		if ld, ok := f.Cond.(*ssa.UnOp); ok && ld.Op == token.MUL && f.Val {
			if ia, ok := ld.X.(*ssa.IndexAddr); ok && ia.Index == jIdx {
				if row, ok := ia.X.(*ssa.UnOp); ok {
					if ia2, ok := row.X.(*ssa.IndexAddr); ok && ia2.Index == iIdx {
						if fv, _ := loadedField(ia2.X); fv == hl.cells {
							maskOK = true
							maskFrom = f.From
						}
					}
				}
			}
		}
	}
	c.Check(maskOK, rule, fam+":signal:mask-guard", ctor.Pos(), "a cell is built only where header.Cells[i][j] is set", "signal cells are built for cells whose mask bit is not tested")
	// and conversely every set mask bit yields a cell: from the mask-true edge no path reaches the next
	// column (the header of the loop over the signals) without constructing one — a skipped cell leaves
	// the field counter behind and every later cell takes its neighbour's values
	if maskOK && maskFrom != nil && jIdx != nil {
		if jb, ok := jIdx.(*ssa.BinOp); ok {
			if jphi, ok := jb.X.(*ssa.Phi); ok {
				hdrJ := jphi.Block()
				// a defensive `counter >= numSignalCells` skip is not a skipped cell: the number of set bits
				// is the number of cells (lemma L-header-shape), so that edge is not taken before the
				// last cell has been built
				counterGuard := func(a, b *ssa.BasicBlock) bool {
					ifi, ok := lastInstr(a).(*ssa.If)
					if !ok || len(a.Succs) != 2 || a.Succs[0] == a.Succs[1] {
						return true
					}
					cmp, ok := ifi.Cond.(*ssa.BinOp)
					if !ok || cIdx == nil {
						return true
					}
					taken := b == a.Succs[0]
					switch {
					case cmp.X == cIdx && (cmp.Op == token.GEQ || cmp.Op == token.GTR) && taken,
						cmp.X == cIdx && (cmp.Op == token.LSS || cmp.Op == token.LEQ) && !taken,
						cmp.Y == cIdx && (cmp.Op == token.LEQ || cmp.Op == token.LSS) && taken,
						cmp.Y == cIdx && (cmp.Op == token.GTR || cmp.Op == token.GEQ) && !taken:
						return false
					}
					return true
				}
				q := pathQuery{avoid: func(i ssa.Instruction) bool { return i == ssa.Instruction(ctor) }, goal: func(i ssa.Instruction) bool { return i.Block() == hdrJ }, edgeOK: counterGuard}
				if path, _ := q.search(maskFrom.Succs[0], -1); path != nil && maskFrom.Succs[0] != hdrJ {
					c.Fail(rule, fam+":signal:cell-for-every-set-bit", ctor.Pos(), "refuted", "a cell whose mask bit is set can be skipped: the fields of every later cell are then taken from the wrong position of the field arrays", c.P.blockPath(path)...)
				} else {
					c.OK(rule, fam+":signal:cell-for-every-set-bit", ctor.Pos(), "every path from a set mask bit to the next column constructs a cell")
				}
			}
		}
	}
	// the counter advances by exactly one on the constructing path and nowhere else
	incOK := false
	if phi, ok := cIdx.(*ssa.Phi); ok {
		web := map[ssa.Value]bool{}
		var collect func(v ssa.Value)
		collect = func(v ssa.Value) {
			if web[v] {
				return
			}
			if p, ok := v.(*ssa.Phi); ok {
				web[v] = true
				for _, e := range p.Edges {
					collect(e)
				}
			}
		}
		collect(phi)
		nInc, other := 0, 0
		for v := range web {
			for _, e := range v.(*ssa.Phi).Edges {
				if web[e] {
					continue
				}
				if k, isC := constInt(e); isC && k == 0 {
					continue
				}
				if bo, ok := e.(*ssa.BinOp); ok && bo.Op == token.ADD && web[bo.X] {
					if k, isC := constInt(bo.Y); isC && k == 1 && instrDominates(ctor, bo) && bo.Block() == ctor.Block() {
						nInc++
						continue
					}
				}
				other++
			}
		}
		incOK = nInc == 1 && other == 0
	}
	c.Check(incOK, rule, fam+":signal:counter", ctor.Pos(), "the cell counter starts at 0 and advances by one exactly when a cell is constructed", "the cell counter does not advance exactly once per constructed cell")
	// appended to signalCells[i]
	appOK := false
	for _, r := range referrers(ctor) {
		if ld, ok := r.(*ssa.UnOp); ok {
			for _, ap := range traceAppend(ld) {
				// append(signalCells[i], cell) stored back to signalCells[i]
				if base, ok := ap.Call.Args[0].(*ssa.UnOp); ok {
					if ia, ok := base.X.(*ssa.IndexAddr); ok && ia.Index == iIdx {
						for _, r2 := range referrers(ap) {
							if st, ok := r2.(*ssa.Store); ok {
								if ia2, ok := st.Addr.(*ssa.IndexAddr); ok && ia2.Index == iIdx && ia2.X == ia.X {
									appOK = true
								}
							}
						}
					}
				}
			}
		}
	}
	c.Check(appOK, rule, fam+":signal:appended-to-row-i", ctor.Pos(), "the cell is appended to signalCells[i]", "the constructed cell is not appended to the row of its satellite")
}

// checkSectionStarts: the family's GetMessage passes the header's end position to the satellite
// reader and that plus Nsat*cell length to the signal reader.
func checkSectionStarts(c *Ctx, rule, fam string, A *Aff, msg, getHdr, sat, sig *ssa.Function, satBits int64) {
	var hdrCall, satCall, sigCall *ssa.Call
	eachInstr(msg, func(ins ssa.Instruction) {
		if call, ok := ins.(*ssa.Call); ok {
			switch call.Call.StaticCallee() {
			case getHdr:
				hdrCall = call
			case sat:
				satCall = call
			case sig:
				sigCall = call
			}
		}
	})
	if hdrCall == nil || satCall == nil || sigCall == nil {
		c.Fail(rule, fam+":sections", msg.Pos(), "unresolved", "header/satellite/signal reader calls not found in GetMessage")
		return
	}
	var hdrV, posV, satsV ssa.Value
	for _, r := range referrers(hdrCall) {
		if ex, ok := r.(*ssa.Extract); ok {
			if ex.Index == 0 {
				hdrV = ex
			}
			if ex.Index == 1 {
				posV = ex
			}
		}
	}
	for _, r := range referrers(satCall) {
		if ex, ok := r.(*ssa.Extract); ok && ex.Index == 0 {
			satsV = ex
		}
	}
	okSat := satCall.Call.Args[0] == hdrCall.Call.Args[0] && satCall.Call.Args[1] == posV
	if f, base := loadedField(satCall.Call.Args[2]); f == nil || f.Name() != "Satellites" || root(base) != hdrV {
		okSat = false
	}
	c.Check(okSat, rule, fam+":satellites-start", satCall.Pos(), "satellite cells start at the header's end position, one per header.Satellites entry", "the satellite reader is not given (frame, header end position, header.Satellites)")
	okSig := sigCall.Call.Args[0] == hdrCall.Call.Args[0] && sigCall.Call.Args[2] == hdrV && sigCall.Call.Args[3] == satsV && posV != nil && satsV != nil
	if okSig {
		want := A.Lin(posV).Add(A.LenOf(satsV).Scale(satBits))
		okSig = provEq(A, sigCall.Block(), A.Lin(sigCall.Call.Args[1]), want)
	}
	c.Check(okSig, rule, fam+":signals-start", sigCall.Pos(), fmt.Sprintf("signal cells start at header end + %d * Nsat", satBits), "the signal reader is not given the position header end + Nsat * satellite cell length")
	// every successful return hands back New(header, satellite cells, signal cells, ...) built from the
	// results of those three calls (a shortcut that skips a reader loses its section)
	var sigsV ssa.Value
	for _, r := range referrers(sigCall) {
		if ex, ok := r.(*ssa.Extract); ok && ex.Index == 0 {
			sigsV = ex
		}
	}
	assembled, n := true, 0
	for _, r := range returnsOf(msg) {
		if len(r.Results) != 2 || !isNilConst(r.Results[1]) {
			continue
		}
		n++
		okR := false
		if call, ok := r.Results[0].(*ssa.Call); ok {
			if f := call.Call.StaticCallee(); f != nil && f.Name() == "New" && f.Pkg == msg.Pkg && len(call.Call.Args) >= 3 {
				okR = call.Call.Args[0] == hdrV && call.Call.Args[1] == satsV && call.Call.Args[2] == sigsV && hdrV != nil && satsV != nil && sigsV != nil
			}
		}
		if !okR {
			assembled = false
			c.Fail(rule, fam+":assembled", r.Pos(), "refuted", "a successful return of GetMessage does not hand back New(header, satellite cells, signal cells) from the three readers: a section of the message is missing from the result")
		}
	}
	if assembled && n > 0 {
		c.OK(rule, fam+":assembled", msg.Pos(), "every successful return is New(header, satellites, signals) from the three readers")
	}
}

// checkMSMRejections (C04-R6): every error exit of the MSM decode path is one of the allowed reasons.
func checkMSMRejections(c *Ctx, rule string, A *Aff, hl *headerLemma, lay *layoutOracle) {
	P := c.P
	fns := decoderFuncs(P, "msm")
	seen := map[string]bool{}
	for _, fn := range fns {
		if fn.Name() == "GetNumberOfSignalCells" {
			continue
		}
		buf := byteSliceParam(fn)
		for i, r := range returnsOf(fn) {
			n := len(r.Results)
			if n == 0 || !isErrorType(r.Results[n-1].Type()) || isNilConst(r.Results[n-1]) {
				continue
			}
			label := fmt.Sprintf("%s:error-exit#%d", P.FnKey(fn), i+1)
			fs := dominatingFacts(r.Block())
			kind := ""
			if len(fs) > 0 {
				ft := fs[0]
				// propagated callee error
				if bo, ok := ft.Cond.(*ssa.BinOp); ok && (isNilConst(bo.X) || isNilConst(bo.Y)) {
					x := bo.X
					if isNilConst(x) {
						x = bo.Y
					}
					if ex, ok := x.(*ssa.Extract); ok {
						if call, ok := ex.Tuple.(*ssa.Call); ok && call.Call.StaticCallee() != nil && P.InModule(call.Call.StaticCallee()) && r.Results[n-1] == ssa.Value(ex) {
							kind = "propagated"
						}
					}
				}
				if kind == "" {
					kind = classifyMSMGuard(A, hl, fn, buf, ft)
				}
			}
			if kind == "" {
				if A.Infeasible(r.Block()) {
					c.OK(rule, label+":unreachable", r.Pos(), "defensive exit that can never be taken (its guard contradicts what is known at that point)")
					continue
				}
				c.Fail(rule, label+":unlisted-rejection", r.Pos(), "refuted", "an MSM message is rejected for a reason that is not one of {header too short, not an MSM type, cell mask > 64, too short for the cell mask, wrong family, satellite overrun, signal overrun, continued message without a cell}: some well-formed message is rejected")
				continue
			}
			seen[kind] = true
			c.OK(rule, label+":"+kind, r.Pos(), "allowed rejection reason")
			// a shortage rejection must be a genuine shortage: in the satellite reader the message is
			// rejected only if the bits after the start position, less the CRC, cannot hold Nsat cells
			if kind == "too-short" && fn.Name() == "GetSatelliteCells" && buf != nil && len(fn.Params) >= 3 {
				fam := ""
				for _, f := range []string{"msm4", "msm7"} {
					if strings.Contains(fn.Pkg.Pkg.Path(), "type_"+f) {
						fam = f
					}
				}
				var sats *ssa.Parameter
				for _, p := range fn.Params {
					if _, isSl := p.Type().Underlying().(*types.Slice); isSl && p != buf {
						sats = p
					}
				}
				if fam != "" && sats != nil && isInteger(fn.Params[1].Type()) {
					bits := lay.sum(fam + "_sat")
					left := A.LenOf(buf).Scale(8).Sub(A.Lin(fn.Params[1])).AddConst(-24)
					shortage := GT(A.LenOf(sats).Scale(bits), left)
					c.Check(A.Prove(r.Block(), shortage), rule, label+":genuine-shortage", r.Pos(),
						fmt.Sprintf("rejected only when 8*len(frame) - start - 24 < %d * Nsat", bits),
						"the satellite reader rejects a message whose remaining bits (less the CRC) hold all its satellite cells exactly: a well-formed message without padding is refused")
				}
			}
		}
	}
	for _, k := range []string{"too-short", "not-msm-type", "cell-mask>64", "wrong-family", "signal-overrun", "continued-without-cell"} {
		c.Check(seen[k], rule, "reason-present("+k+")", token.NoPos, "rejection implemented", "allowed rejection reason is missing: "+k)
	}
}

func classifyMSMGuard(A *Aff, hl *headerLemma, fn *ssa.Function, buf *ssa.Parameter, ft EdgeFact) string {
	// family test: !MSM4(type) / !MSM7(type)
	if call, ok := ft.Cond.(*ssa.Call); ok && !ft.Val {
		if f := call.Call.StaticCallee(); f != nil && (f.Name() == "MSM4" || f.Name() == "MSM7") {
			return "wrong-family"
		}
	}
	if u, ok := ft.Cond.(*ssa.UnOp); ok && u.Op == token.NOT && ft.Val {
		if call, ok := u.X.(*ssa.Call); ok {
			if f := call.Call.StaticCallee(); f != nil && (f.Name() == "MSM4" || f.Name() == "MSM7") {
				return "wrong-family"
			}
		}
	}
	bo, ok := ft.Cond.(*ssa.BinOp)
	if !ok {
		return ""
	}
	// type switch default: all comparisons with MSM constants failed -> reached via a chain of != ; accept an
	// equality test of the type value with a constant (not equal edge)
	if (bo.Op == token.EQL && !ft.Val) || (bo.Op == token.NEQ && ft.Val) {
		if k, isC := constInt(bo.Y); isC && k >= 1074 && k <= 1137 {
			return "not-msm-type"
		}
		if k, isC := constInt(bo.X); isC && k >= 1074 && k <= 1137 {
			return "not-msm-type"
		}
	}
	if bo.Op == token.GTR && ft.Val {
		if k, isC := constInt(bo.Y); isC && k == 64 {
			return "cell-mask>64"
		}
	}
	if !isInteger(bo.X.Type()) || buf == nil {
		return ""
	}
	// length tests: the rejecting edge is a strict lower bound on a quantity that grows with len(buf)
	cons := A.condCons(ft.Cond, ft.Val)
	if len(cons) != 1 {
		return ""
	}
	l := cons[0].L
	lenSym := A.lenSym(buf)
	coef, has := l.T[lenSym]
	if has && coef.Sign() < 0 {
		if os.Getenv("VERIF_DEBUG_C04") != "" {
			fmt.Println("too-short guard in", fn.Name(), ":", cons[0].String())
		}
		// "-k*len(buf) + ... >= 0": rejects short buffers
		if strings.Contains(fn.Name(), "Signal") {
			// distinguishes continued-without-cell (under MultipleMessage) from a generic shortage
			return "too-short"
		}
		return "too-short"
	}
	// signal overrun: cellsAvailable < numSignalCells where cellsAvailable is a quotient of the bits left
	if bo.Op == token.LSS && ft.Val {
		if f, _ := loadedField(bo.Y); f == hl.numCells {
			// ... and of nothing else: a count that depends on the content of the buffer (trailing
			// zero bytes taken for padding, say) refuses well-formed messages
			if capacityFromLengthOnly(A, fn, buf, bo.X) {
				return "signal-overrun"
			}
			return ""
		}
	}
	// continued message: bitsLeft < bitsPerCell under MultipleMessage
	if bo.Op == token.LSS && ft.Val {
		if k, isC := constInt(bo.Y); isC && (k == 48 || k == 80) {
			return "continued-without-cell"
		}
	}
	return ""
}

// capacityFromLengthOnly: v is (a conversion of) bits / k where k is the width of one signal cell (48 or
// 80) and bits is an affine function, increasing in len(buf), of len(buf) and the function's integer
// parameters only.
func capacityFromLengthOnly(A *Aff, fn *ssa.Function, buf *ssa.Parameter, v ssa.Value) bool {
	q, ok := stripConv(v).(*ssa.BinOp)
	if !ok || q.Op != token.QUO {
		return false
	}
	if k, isC := constInt(q.Y); !isC || (k != 48 && k != 80) {
		return false
	}
	// the dividend is built by arithmetic and conversions from len(buf), integer parameters and
	// constants only, and len(buf) occurs in it
	sawLen := false
	var pure func(v ssa.Value, depth int) bool
	pure = func(v ssa.Value, depth int) bool {
		if depth > 12 {
			return false
		}
		switch x := v.(type) {
		case *ssa.Const:
			return true
		case *ssa.Parameter:
			return isInteger(x.Type())
		case *ssa.Convert:
			return pure(x.X, depth+1)
		case *ssa.ChangeType:
			return pure(x.X, depth+1)
		case *ssa.BinOp:
			switch x.Op {
			case token.ADD, token.SUB, token.MUL, token.QUO:
				return pure(x.X, depth+1) && pure(x.Y, depth+1)
			}
			return false
		case *ssa.Call:
			if b, ok := x.Call.Value.(*ssa.Builtin); ok && b.Name() == "len" && len(x.Call.Args) == 1 && x.Call.Args[0] == ssa.Value(buf) {
				sawLen = true
				return true
			}
			return false
		}
		return false
	}
	_ = A
	return pure(q.X, 0) && sawLen
}
