package main

// C18 — the recent-message queue: lock discipline, encapsulation and the
// monotone-key / ascending-snapshot / evict-before-insert structure.

import (
	"fmt"
	"go/token"
	"go/types"
	"strings"

	"golang.org/x/tools/go/ssa"
)

type lockCall struct {
	ins      ssa.Instruction
	kind     string // Lock RLock Unlock RUnlock
	deferred bool
	recv     ssa.Value // root object owning the mutex
}

func lockCalls(fn *ssa.Function) []lockCall {
	var out []lockCall
	eachInstr(fn, func(ins ssa.Instruction) {
		ci, ok := ins.(ssa.CallInstruction)
		if !ok {
			return
		}
		f := ci.Common().StaticCallee()
		if f == nil {
			return
		}
		fn := calleeFullName(f)
		if !strings.HasPrefix(fn, "(*sync.RWMutex).") && !strings.HasPrefix(fn, "(*sync.Mutex).") {
			return
		}
		k := f.Name()
		if k != "Lock" && k != "RLock" && k != "Unlock" && k != "RUnlock" {
			return
		}
		_, isDefer := ins.(*ssa.Defer)
		out = append(out, lockCall{ins, k, isDefer, mutexOwner(ci.Common().Args[0])})
	})
	return out
}

// mutexOwner: for `load(&q.RWMutex)` returns root(q).
func mutexOwner(v ssa.Value) ssa.Value {
	if u, ok := v.(*ssa.UnOp); ok && u.Op == token.MUL {
		if fa, ok := u.X.(*ssa.FieldAddr); ok {
			return root(fa.X)
		}
	}
	if fa, ok := v.(*ssa.FieldAddr); ok {
		return root(fa.X)
	}
	return root(v)
}

// heldAt: which lock (""/"R"/"W") is provably held at instruction ins in fn
// on object obj: a Lock/RLock on obj dominates ins, its release is deferred
// (or no explicit release can reach ins), and no explicit Unlock lies between.
func heldAt(fn *ssa.Function, ins ssa.Instruction, obj ssa.Value) string {
	lcs := lockCalls(fn)
	best := ""
	for _, l := range lcs {
		if l.deferred || (l.kind != "Lock" && l.kind != "RLock") || l.recv != obj {
			continue
		}
		if !instrDominates(l.ins, ins) {
			continue
		}
		// an explicit (non-deferred) unlock from which ins is reachable without re-locking?
		released := false
		for _, u := range lcs {
			if u.deferred || (u.kind != "Unlock" && u.kind != "RUnlock") || u.recv != obj {
				continue
			}
			if !instrDominates(l.ins, u.ins) && u.ins.Block() != l.ins.Block() {
				// unlock not after this lock; ignore
			}
			q := pathQuery{avoid: func(i ssa.Instruction) bool {
				for _, l2 := range lcs {
					if l2.ins == i && !l2.deferred && (l2.kind == "Lock" || l2.kind == "RLock") {
						return true
					}
				}
				return false
			}, goal: func(i ssa.Instruction) bool { return i == ins }}
			if path, _ := q.search(u.ins.Block(), instrIndex(u.ins)); path != nil {
				released = true
			}
		}
		if released {
			continue
		}
		k := "R"
		if l.kind == "Lock" {
			k = "W"
		}
		if k == "W" || best == "" {
			best = k
		}
	}
	return best
}

func checkC18(c *Ctx) {
	c.Explanation = "Decides the structure that makes the recent-message queue a bounded FIFO that is safe under concurrency: (R1) every access to the queue's fields (Items, NextIndex, MaxItems) in non-test code happens while the queue's own lock is held — in an exported method between Lock/RLock and its release (deferred, or not reachable before the access), in an unexported helper only if every caller holds the lock — and every mutation (field store, map update, delete) holds the write lock; (R2) no code outside the package touches the fields; (R3) the insertion key is NextIndex, incremented by exactly one after the insert and nowhere else; eviction happens before the insert, is guarded by len(Items) >= MaxItems, and deletes keys in ascending order; snapshots and eviction obtain their keys from a helper that collects every key and sorts it ascending on all paths; the snapshot appends in that order into a fresh slice built entirely under the read lock. (R4) every call of Add in the module is synchronous (never started as a goroutine or deferred), so arrival order is call order; a function that takes messages from a channel and adds them returns only when that channel is closed."
	c.NotDecided = "sort and map semantics; index overflow after 2^63 additions; linearizability as such (follows from R1 + atomic sections, not enumerated)."
	P := c.P
	pkg := "apps/proxy/circular_queue"
	Q := P.Named(pkg, "CircularQueue")
	if Q == nil {
		c.Unresolved("C18-anchor", pkg+".CircularQueue")
		return
	}
	st := Q.Underlying().(*types.Struct)
	fields := map[*types.Var]bool{}
	var itemsF, nextF, maxF *types.Var
	for i := 0; i < st.NumFields(); i++ {
		f := st.Field(i)
		if f.Embedded() {
			continue
		}
		fields[f] = true
		switch f.Name() {
		case "Items":
			itemsF = f
		case "NextIndex":
			nextF = f
		case "MaxItems":
			maxF = f
		}
	}
	if itemsF == nil || nextF == nil || maxF == nil {
		c.Unresolved("C18-anchor", "fields Items/NextIndex/MaxItems")
		return
	}
	add := P.Func(pkg, "(*CircularQueue).Add")
	get := P.Func(pkg, "(*CircularQueue).GetMessages")
	ctor := P.Func(pkg, "NewCircularQueue")
	if add == nil || get == nil || ctor == nil {
		c.Unresolved("C18-anchor", "Add/GetMessages/NewCircularQueue")
		return
	}
	// ---- R1/R2: every field access
	type access struct {
		fn    *ssa.Function
		ins   ssa.Instruction
		f     *types.Var
		write bool
		obj   ssa.Value
	}
	var accesses []access
	for _, fn := range P.ModFuncs() {
		eachInstr(fn, func(ins ssa.Instruction) {
			fa, ok := ins.(*ssa.FieldAddr)
			if !ok {
				return
			}
			f, base := fieldOf(fa)
			if !fields[f] {
				return
			}
			// classify uses of the address
			write := false
			for _, r := range referrers(fa) {
				switch x := r.(type) {
				case *ssa.Store:
					if x.Addr == ssa.Value(fa) {
						write = true
					}
				case *ssa.UnOp:
					// load of the map: look for updates / deletes through it
					for _, r2 := range referrers(x) {
						switch y := r2.(type) {
						case *ssa.MapUpdate:
							if y.Map == ssa.Value(x) {
								write = true
							}
						case *ssa.Call:
							if b, ok := y.Call.Value.(*ssa.Builtin); ok && (b.Name() == "delete" || b.Name() == "clear") {
								write = true
							}
						}
					}
				}
			}
			accesses = append(accesses, access{fn, ins, f, write, root(base)})
		})
	}
	helperNeeds := map[*ssa.Function]string{} // unexported helper -> strongest lock it needs
	for _, a := range accesses {
		key := fmt.Sprintf("%s:%s(%s)", P.FnKey(a.fn), map[bool]string{true: "write", false: "read"}[a.write], a.f.Name())
		if !inPkgs(P, a.fn, []string{pkg}) {
			c.Fail("C18-R2", "encapsulation("+key+")", a.ins.Pos(), "refuted", "queue field "+a.f.Name()+" is accessed outside its package, bypassing the lock")
			continue
		}
		if a.fn == ctor {
			// construction of a not-yet-published object
			if al, ok := a.obj.(*ssa.Alloc); ok && al.Parent() == ctor {
				c.Trivial("C18-R1", "locked("+key+")", a.ins.Pos(), "constructor initialises an unpublished object")
				continue
			}
		}
		h := heldAt(a.fn, a.ins, a.obj)
		need := "R"
		if a.write {
			need = "W"
		}
		if h == "W" || (h == "R" && need == "R") {
			c.OK("C18-R1", "locked("+key+")", a.ins.Pos(), "access dominated by "+map[string]string{"W": "Lock", "R": "RLock"}[h]+" on the same queue, not released before it")
			continue
		}
		if h == "R" && need == "W" {
			c.Fail("C18-R1", "locked("+key+")", a.ins.Pos(), "refuted", "queue state is modified while only the read lock is held")
			continue
		}
		// not locked here: acceptable only in an unexported helper whose callers all hold the lock
		isHelper := a.fn.Signature.Recv() != nil && !a.fn.Object().Exported()
		if _, isParam := a.obj.(*ssa.Parameter); isHelper && isParam {
			if need == "W" || helperNeeds[a.fn] == "" {
				helperNeeds[a.fn] = need
			}
			continue
		}
		c.Fail("C18-R1", "locked("+key+")", a.ins.Pos(), "refuted", "queue field "+a.f.Name()+" is accessed without the queue's lock")
	}
	for h, need := range helperNeeds {
		callers := P.Callers(h)
		if len(callers) == 0 {
			c.OK("C18-R1", "helper("+P.FnKey(h)+"):no-callers", h.Pos(), "unexported helper is not called")
			continue
		}
		for _, site := range callers {
			caller := site.Parent()
			obj := root(site.Common().Args[0])
			got := heldAt(caller, site, obj)
			ok := got == "W" || (got == "R" && need == "R")
			c.Check(ok, "C18-R1", "helper-call("+P.FnKey(caller)+"->"+P.FnKey(h)+")", site.Pos(),
				"caller holds the "+map[string]string{"W": "write", "R": "read"}[need]+" lock on the same queue at the call",
				"unlocked helper "+h.Name()+" is called without the lock it needs ("+need+"), held: '"+got+"'")
		}
	}
	// releases are deferred right after acquisition in the exported methods
	explicitRelease := map[*ssa.Function]bool{}
	for _, fn := range []*ssa.Function{add, get} {
		lcs := lockCalls(fn)
		var acq, rel *lockCall
		for i := range lcs {
			l := &lcs[i]
			if !l.deferred && (l.kind == "Lock" || l.kind == "RLock") && acq == nil {
				acq = l
			}
			if l.deferred && (l.kind == "Unlock" || l.kind == "RUnlock") && rel == nil {
				rel = l
			}
		}
		ok := acq != nil && rel != nil && acq.recv == rel.recv && instrDominates(acq.ins, rel.ins) &&
			((acq.kind == "Lock" && rel.kind == "Unlock") || (acq.kind == "RLock" && rel.kind == "RUnlock"))
		how := "acquire followed by the matching deferred release on the same queue"
		if !ok && acq != nil && rel == nil {
			// explicit form: one direct release of the matching kind on the same queue, passed on every
			// path from the acquire to every return (accesses after it are refused by the locked() rule)
			var direct []*lockCall
			for i := range lcs {
				if l := &lcs[i]; !l.deferred && (l.kind == "Unlock" || l.kind == "RUnlock") {
					direct = append(direct, l)
				}
			}
			if len(direct) == 1 {
				d := direct[0]
				match := d.recv == acq.recv && ((acq.kind == "Lock" && d.kind == "Unlock") || (acq.kind == "RLock" && d.kind == "RUnlock"))
				q := pathQuery{avoid: func(i ssa.Instruction) bool { return i == d.ins }, goal: isReturn}
				path, _ := q.search(acq.ins.Block(), instrIndex(acq.ins))
				if match && path == nil && instrDominates(acq.ins, d.ins) && !pathBetween(d.ins, d.ins) {
					ok = true
					explicitRelease[fn] = true
					how = "acquire followed by one explicit matching release that every path to a return passes"
				}
			}
		}
		pos := fn.Pos()
		if acq != nil {
			pos = acq.ins.Pos()
		}
		c.Check(ok, "C18-R1", "lock-pairing("+P.FnKey(fn)+")", pos, how,
			"the method does not pair its lock with a matching release (deferred, or explicit on every path)")
		// whole body under the lock: the acquire is in the entry block before any field access (covered by dominance above)
	}
	// Add must take the write lock, GetMessages at least the read lock, for the whole body
	for _, m := range []struct {
		fn   *ssa.Function
		want string
	}{{add, "Lock"}, {get, "RLock"}} {
		first := ""
		var firstIns ssa.Instruction
		for _, l := range lockCalls(m.fn) {
			if !l.deferred {
				first, firstIns = l.kind, l.ins
				break
			}
		}
		okKind := first == m.want || (m.want == "RLock" && first == "Lock")
		inEntry := firstIns != nil && firstIns.Block().Index == 0
		// one section: no second acquire and no release in the middle (the only release is the deferred one),
		// neither here nor in the helpers the method calls
		nAcq, nRelDirect := 0, 0
		for f := range P.ReachableModule([]*ssa.Function{m.fn}) {
			if f.Pkg != m.fn.Pkg {
				continue
			}
			for _, l := range lockCalls(f) {
				switch {
				case l.kind == "Lock" || l.kind == "RLock":
					nAcq++
				case !l.deferred:
					if f == m.fn && explicitRelease[m.fn] {
						continue // the one explicit release that closes the section (lock-pairing)
					}
					nRelDirect++
				}
			}
		}
		if nAcq != 1 || nRelDirect != 0 {
			inEntry = false
		}
		c.Check(okKind && inEntry, "C18-R1", "atomic-section("+P.FnKey(m.fn)+")", m.fn.Pos(), "the method body is one critical section opened in its entry block with "+m.want,
			"the method does not open a single "+m.want+" critical section at its start (its steps would not be atomic)")
	}

	// ---- R3 structure
	// helper: sorted keys
	var keysFn *ssa.Function
	eachInstr(get, func(ins ssa.Instruction) {
		if f := staticCallee(ins); f != nil && P.InModule(f) && f.Signature.Recv() != nil && f != get {
			if sl, ok := f.Signature.Results().At(0).Type().Underlying().(*types.Slice); ok && f.Signature.Results().Len() == 1 {
				if b, ok := sl.Elem().Underlying().(*types.Basic); ok && b.Kind() == types.Int {
					keysFn = f
				}
			}
		}
	})
	if keysFn == nil {
		c.Fail("C18-R3", "keys-helper", get.Pos(), "unresolved", "no helper returning the keys ([]int) is called by GetMessages")
		return
	}
	checkSortedKeys(c, keysFn, itemsF)
	// Add: insert Items[NextIndex] = message; NextIndex++ after; eviction before
	var insert *ssa.MapUpdate
	var updates []*ssa.MapUpdate
	eachInstr(add, func(ins ssa.Instruction) {
		if mu, ok := ins.(*ssa.MapUpdate); ok {
			if f, _ := loadedField(mu.Map); f == itemsF {
				updates = append(updates, mu)
			}
		}
	})
	if len(updates) != 1 {
		c.Fail("C18-R3", "Add:insert", add.Pos(), "unproven", fmt.Sprintf("expected exactly one insertion into Items in Add, found %d", len(updates)))
		return
	}
	insert = updates[0]
	kf, _ := loadedField(insert.Key)
	c.Check(kf == nextF, "C18-R3", "Add:key-is-NextIndex", insert.Pos(), "the insertion key is the current NextIndex", "the insertion key is not NextIndex")
	c.Check(insert.Value == ssa.Value(add.Params[1]), "C18-R3", "Add:value-is-message", insert.Pos(), "the inserted value is the message argument", "the inserted value is not the message argument")
	c.Check(!blockInLoop(insert.Block()), "C18-R3", "Add:insert-once", insert.Pos(), "the insertion is not in a loop", "the insertion is inside a loop")
	// stores to NextIndex anywhere in the package
	nStores := 0
	for _, fn := range P.FuncsIn(pkg) {
		eachInstr(fn, func(ins ssa.Instruction) {
			st, ok := ins.(*ssa.Store)
			if !ok {
				return
			}
			if f, _ := fieldOf(st.Addr); f != nextF {
				return
			}
			if fn == ctor {
				return
			}
			nStores++
			isInc := false
			if b, ok := st.Val.(*ssa.BinOp); ok && b.Op == token.ADD {
				lf, _ := loadedField(b.X)
				if k, ok := constInt(b.Y); ok && k == 1 && lf == nextF {
					isInc = true
				}
			}
			c.Check(fn == add && isInc && instrDominates(insert, ins) && !blockInLoop(ins.Block()), "C18-R3", "NextIndex:increment("+P.FnKey(fn)+")", ins.Pos(),
				"NextIndex is advanced by exactly one, once, after the insertion", "NextIndex is modified other than by a single +1 after the insertion in Add")
		})
	}
	if nStores == 0 {
		c.Fail("C18-R3", "NextIndex:increment", add.Pos(), "refuted", "NextIndex is never advanced: every message overwrites the same key")
	}
	// eviction
	var dels []ssa.Instruction
	eachInstr(add, func(ins ssa.Instruction) {
		if cc, ok := builtinCall(ins, "delete"); ok {
			if f, _ := loadedField(cc.Args[0]); f == itemsF {
				dels = append(dels, ins)
			}
		}
	})
	if len(dels) != 1 {
		c.Fail("C18-R3", "Add:evict", add.Pos(), "unproven", fmt.Sprintf("expected one delete site in Add, found %d", len(dels)))
		return
	}
	del := dels[0]
	// guarded by len(Items) >= MaxItems (true edge), both as loop guard and entry guard
	isFull := func(cond ssa.Value) (bool, string) {
		b, ok := cond.(*ssa.BinOp)
		if !ok {
			return false, ""
		}
		lenOf := func(v ssa.Value) bool {
			call, ok := v.(*ssa.Call)
			if !ok {
				return false
			}
			if bi, ok := call.Call.Value.(*ssa.Builtin); !ok || bi.Name() != "len" {
				return false
			}
			f, _ := loadedField(call.Call.Args[0])
			return f == itemsF
		}
		maxOf := func(v ssa.Value) bool { f, _ := loadedField(v); return f == maxF }
		if lenOf(b.X) && maxOf(b.Y) {
			return true, b.Op.String()
		}
		if lenOf(b.Y) && maxOf(b.X) {
			return true, flipCmp(b.Op).String()
		}
		return false, ""
	}
	guards := 0
	for _, f := range dominatingFacts(del.Block()) {
		if is, op := isFull(f.Cond); is {
			guards++
			if !f.Val {
				// `len < max` not taken is the same fact as `len >= max` taken
				for _, t := range []token.Token{token.LSS, token.LEQ, token.GTR, token.GEQ} {
					if t.String() == op {
						op, f.Val = negateCmp(t).String(), true
						break
					}
				}
			}
			c.Check(op == ">=" && f.Val, "C18-R3", "Add:evict-guard", f.From.Instrs[len(f.From.Instrs)-1].Pos(), "eviction guarded by len(Items) >= MaxItems",
				"eviction is guarded by len(Items) "+op+" MaxItems (taken="+fmt.Sprint(f.Val)+"): the queue can exceed its capacity or evict too early")
		}
	}
	if guards == 0 {
		c.Fail("C18-R3", "Add:evict-guard", del.Pos(), "refuted", "eviction is not guarded by the fullness test")
	}
	// the fullness test dominates the insertion (evict-before-insert on every path)
	domOK := false
	eachInstr(add, func(ins ssa.Instruction) {
		if ifi, ok := ins.(*ssa.If); ok {
			if is, _ := isFull(ifi.Cond); is && instrDominates(ins, insert) {
				domOK = true
			}
		}
	})
	c.Check(domOK, "C18-R3", "Add:evict-before-insert", insert.Pos(), "the fullness test precedes the insertion on every path", "the insertion can happen before/without the eviction step")
	c.Check(pathBetween(del, insert) && !pathBetween(insert, del), "C18-R3", "Add:evict-then-insert-order", del.Pos(), "deletes can only happen before the insertion", "a delete can follow the insertion (the new message may be evicted)")
	// delete key: element of the sorted keys, iterated ascending by a range loop
	cc, _ := builtinCall(del, "delete")
	c.Check(isRangeElemOfCall(cc.Args[1], keysFn), "C18-R3", "Add:evict-ascending", del.Pos(), "deleted key is the range element of the ascending key list (oldest first)",
		"eviction does not walk the ascending key list front to back")
	// GetMessages: appends Items[k] for k ranging over the sorted keys into a fresh slice
	var app *ssa.Call
	eachInstr(get, func(ins ssa.Instruction) {
		if call, ok := ins.(*ssa.Call); ok {
			if b, ok := call.Call.Value.(*ssa.Builtin); ok && b.Name() == "append" {
				app = call
			}
		}
	})
	if app == nil {
		c.Fail("C18-R3", "GetMessages:append", get.Pos(), "unproven", "no append in GetMessages")
	} else {
		// the appended element is a lookup Items[k] with k the range element
		elemOK := false
		if sl, ok := app.Call.Args[1].(*ssa.Slice); ok {
			if al, ok := sl.X.(*ssa.Alloc); ok {
				for _, r := range referrers(al) {
					if ia, ok := r.(*ssa.IndexAddr); ok {
						for _, r2 := range referrers(ia) {
							if st, ok := r2.(*ssa.Store); ok {
								v := st.Val
								if ex, ok := v.(*ssa.Extract); ok {
									v = ex.Tuple
								}
								if lk, ok := v.(*ssa.Lookup); ok {
									if f, _ := loadedField(lk.X); f == itemsF && isRangeElemOfCall(lk.Index, keysFn) {
										elemOK = true
									}
								}
							}
						}
					}
				}
			}
		}
		c.Check(elemOK, "C18-R3", "GetMessages:ascending-append", app.Pos(), "appends Items[k] for k ranging front to back over the ascending key list",
			"the snapshot is not built by walking the ascending key list front to back")
		// result slice is fresh and local (returned value derives from make + appends only)
		for _, r := range returnsOf(get) {
			elems, complete := sliceElements(r.Results[0])
			_ = elems
			c.Check(complete, "C18-R3", "GetMessages:fresh-result", r.Pos(), "the snapshot is a fresh slice built in this call", "the snapshot slice is not freshly built in the call (shared backing store)")
			// and nothing rearranges it after it has been built in key order: the slice is only
			// appended to, measured and returned — never handed to a call, captured or stored into
			if why, pos := sliceOnlyAppended(r.Results[0]); why != "" {
				c.Fail("C18-R3", "GetMessages:order-kept", pos, "refuted", "the snapshot built in key order is "+why+" before it is returned: the order of the result is no longer the order of addition")
			} else {
				c.OK("C18-R3", "GetMessages:order-kept", r.Pos(), "the snapshot is only appended to and returned")
			}
		}
	}
	// R4: arrival order is the order of the Add calls only if they are made one after the other:
	// every call of Add in the module is an ordinary call, never `go q.Add(m)` (or deferred)
	if addFn := P.Func(pkg, "(*CircularQueue).Add"); addFn != nil {
		async := false
		for _, g := range P.ModFuncs() {
			eachInstr(g, func(ins ssa.Instruction) {
				ci, ok := ins.(ssa.CallInstruction)
				if !ok || ci.Common().StaticCallee() != addFn {
					return
				}
				if _, isCall := ins.(*ssa.Call); !isCall {
					async = true
					c.Fail("C18-R4", "add-in-arrival-order("+P.FnKey(g)+")", ins.Pos(), "refuted", "a message is added to the queue from a goroutine of its own (or deferred): additions can overtake one another, so the queue no longer holds the most recent messages in arrival order")
				}
			})
			// a function literal that does nothing but call Add and is started as a goroutine
		}
		if !async {
			c.OK("C18-R4", "add-in-arrival-order", addFn.Pos(), "every call of Add is synchronous")
		}
		// "the most recent messages": a loop that takes messages from a channel and adds them must not give
		// up while the channel is open — the queue would then hold a stale run for ever
		for _, g := range P.ModFuncs() {
			callsAdd := false
			eachInstr(g, func(ins ssa.Instruction) {
				if ci, ok := ins.(ssa.CallInstruction); ok && ci.Common().StaticCallee() == addFn {
					callsAdd = true
				}
			})
			rss := recvSites(g)
			if !callsAdd || len(rss) != 1 || rss[0].ok == nil {
				continue
			}
			for _, r := range returnsOf(g) {
				c.Check(rss[0].dominatedByClosed(r.Block()), "C18-R4", "adder-stops-only-on-close("+P.FnKey(g)+")", r.Pos(), "the loop feeding the queue ends only when its channel is closed",
					"the loop feeding the queue can end while messages are still arriving: later messages are never added and snapshots show a stale run, not the most recent messages")
			}
		}
	}
	c.MinInstances("C18-R1", 12)
	c.MinInstances("C18-R3", 14)
}

// pathBetween: b is reachable from a.
func pathBetween(a, b ssa.Instruction) bool {
	q := pathQuery{goal: func(i ssa.Instruction) bool { return i == b }}
	p, _ := q.search(a.Block(), instrIndex(a))
	return p != nil
}

// isRangeElemOfCall: v is `S[i]` where i is the index of a rangeindex loop
// over S and S is the result of a call to fn (ascending iteration).
func isRangeElemOfCall(v ssa.Value, fn *ssa.Function) bool {
	u, ok := v.(*ssa.UnOp)
	if !ok || u.Op != token.MUL {
		return false
	}
	ia, ok := u.X.(*ssa.IndexAddr)
	if !ok {
		return false
	}
	call, ok := ia.X.(*ssa.Call)
	if !ok || call.Call.StaticCallee() != fn {
		return false
	}
	// ascending in-order walk: a range loop or `for i := 0; i < len(keys); i++`
	bound, ok := countingLoopIndex(ia.Index)
	if !ok {
		return false
	}
	ln, ok := bound.(*ssa.Call)
	if !ok {
		return false
	}
	if b, ok := ln.Call.Value.(*ssa.Builtin); !ok || b.Name() != "len" || ln.Call.Args[0] != ssa.Value(call) {
		return false
	}
	return true
}

// checkSortedKeys: the helper ranges over the whole Items map, appends every
// key, and sorts ascending (sort.Ints / slices.Sort) on every path to return.
func checkSortedKeys(c *Ctx, fn *ssa.Function, itemsF *types.Var) {
	P := c.P
	var rng *ssa.Range
	var sortCall *ssa.Call
	var sortedCell *ssa.Alloc // the captured key variable when the sort is sort.Slice with a closure
	var app *ssa.Call
	eachInstr(fn, func(ins ssa.Instruction) {
		switch x := ins.(type) {
		case *ssa.Range:
			if f, _ := loadedField(x.X); f == itemsF {
				rng = x
			}
		case *ssa.Call:
			if f := x.Call.StaticCallee(); f != nil {
				n := calleeFullName(f)
				if n == "sort.Ints" || n == "slices.Sort" || strings.HasPrefix(n, "slices.Sort[") {
					sortCall = x
				}
				// sort.Slice(keys, func(i, j int) bool { return keys[i] < keys[j] }) on the key slice itself
				if (n == "sort.Slice" || n == "sort.SliceStable") && len(x.Call.Args) == 2 {
					if cell := ascendingLessOverCell(x.Call.Args[1]); cell != nil {
						arg := x.Call.Args[0]
						if mi, ok := arg.(*ssa.MakeInterface); ok {
							arg = mi.X
						}
						if ld, ok := arg.(*ssa.UnOp); ok && ld.Op == token.MUL && ld.X == ssa.Value(cell) {
							sortCall = x
							sortedCell = cell
						}
					}
				}
			}
			if b, ok := x.Call.Value.(*ssa.Builtin); ok && b.Name() == "append" {
				app = x
			}
		}
	})
	c.Check(rng != nil, "C18-R3", "keys:range-all-items", fn.Pos(), "the helper ranges over the whole Items map", "the key helper does not range over Items")
	if rng != nil && app != nil {
		// every iteration appends the key: the append dominates the back edge; key is Extract #1 of Next(range)
		keyOK := false
		if sl, ok := app.Call.Args[1].(*ssa.Slice); ok {
			if al, ok := sl.X.(*ssa.Alloc); ok {
				for _, r := range referrers(al) {
					if ia, ok := r.(*ssa.IndexAddr); ok {
						for _, r2 := range referrers(ia) {
							if st, ok := r2.(*ssa.Store); ok {
								if ex, ok := st.Val.(*ssa.Extract); ok && ex.Index == 1 {
									if nx, ok := ex.Tuple.(*ssa.Next); ok && nx.Iter == ssa.Value(rng) {
										keyOK = true
									}
								}
							}
						}
					}
				}
			}
		}
		// unconditional: the only branch between Next and append is the loop-exit test
		uncond := true
		nxBlock := (*ssa.BasicBlock)(nil)
		eachInstr(fn, func(ins ssa.Instruction) {
			if nx, ok := ins.(*ssa.Next); ok && nx.Iter == ssa.Value(rng) {
				nxBlock = nx.Block()
			}
		})
		if nxBlock != nil {
			body := nxBlock.Succs[0]
			q := pathQuery{avoid: func(i ssa.Instruction) bool { return i == ssa.Instruction(app) }, goal: func(i ssa.Instruction) bool { return i.Block() == nxBlock }}
			if path, _ := q.search(body, -1); path != nil {
				uncond = false
			}
		}
		c.Check(keyOK && uncond, "C18-R3", "keys:append-every-key", app.Pos(), "every key of Items is appended", "some keys of Items can be left out of the key list")
	} else if app == nil {
		c.Fail("C18-R3", "keys:append-every-key", fn.Pos(), "unproven", "no append in the key helper")
	}
	if sortCall == nil {
		c.Fail("C18-R3", "keys:sorted-ascending", fn.Pos(), "refuted", "the key list is not sorted ascending (sort.Ints/slices.Sort) before it is returned: arrival order is lost")
		return
	}
	ok := true
	for _, r := range returnsOf(fn) {
		if !instrDominates(sortCall, r) {
			ok = false
		}
		// returned slice is the sorted one
		if sortedCell != nil {
			if ld, isLd := r.Results[0].(*ssa.UnOp); !isLd || ld.Op != token.MUL || ld.X != ssa.Value(sortedCell) {
				ok = false
			}
		} else if root(r.Results[0]) != root(sortCall.Call.Args[0]) && r.Results[0] != sortCall.Call.Args[0] {
			ok = false
		}
	}
	// sorting happens after the collection loop (no append reachable after the sort)
	if app != nil && pathBetween(sortCall, app) {
		ok = false
	}
	c.Check(ok, "C18-R3", "keys:sorted-ascending", sortCall.Pos(), "ascending sort of the complete key list dominates the return of that list",
		"the returned key list is not the completely collected, ascending-sorted list on every path")
	_ = P
}

// sliceOnlyAppended: the slice value v (and the local variable web it belongs to: phis, appends, re-slices,
// a captured variable's cell) is used for nothing but append, len/cap, re-slicing and return.  Returns a
// description and position of the first other use.
func sliceOnlyAppended(v ssa.Value) (string, token.Pos) {
	web := map[ssa.Value]bool{}
	cells := map[*ssa.Alloc]bool{}
	var add func(x ssa.Value)
	add = func(x ssa.Value) {
		if x == nil || web[x] {
			return
		}
		switch y := x.(type) {
		case *ssa.Const:
			return
		case *ssa.Phi:
			web[x] = true
			for _, e := range y.Edges {
				add(e)
			}
		case *ssa.Call:
			if b, ok := y.Call.Value.(*ssa.Builtin); ok && b.Name() == "append" {
				web[x] = true
				add(y.Call.Args[0])
			}
		case *ssa.Slice:
			web[x] = true
			add(y.X)
		case *ssa.MakeSlice:
			web[x] = true
		case *ssa.UnOp:
			if al, ok := y.X.(*ssa.Alloc); ok && y.Op == token.MUL {
				web[x] = true
				if !cells[al] {
					cells[al] = true
					for _, r := range referrers(al) {
						if st, ok := r.(*ssa.Store); ok && st.Addr == ssa.Value(al) {
							add(st.Val)
						}
						if ld, ok := r.(*ssa.UnOp); ok && ld.Op == token.MUL {
							add(ld)
						}
					}
				}
			}
		}
	}
	add(v)
	for al := range cells {
		for _, r := range referrers(al) {
			switch x := r.(type) {
			case *ssa.Store:
				if x.Addr == ssa.Value(al) {
					continue
				}
			case *ssa.UnOp:
				if x.Op == token.MUL {
					continue
				}
			case *ssa.DebugRef:
				continue
			case *ssa.MakeClosure:
				return "captured by a function literal (" + x.Fn.Name() + ")", x.Pos()
			}
			return "used through its address", r.Pos()
		}
	}
	for x := range web {
		for _, r := range referrers(x) {
			switch y := r.(type) {
			case *ssa.Phi, *ssa.Return, *ssa.DebugRef, *ssa.Slice:
				continue
			case *ssa.Store:
				if al, ok := y.Addr.(*ssa.Alloc); ok && cells[al] && y.Val == x {
					continue
				}
				return "stored somewhere else", y.Pos()
			case *ssa.Call:
				if b, ok := y.Call.Value.(*ssa.Builtin); ok {
					switch b.Name() {
					case "len", "cap":
						continue
					case "append":
						if y.Call.Args[0] == x {
							continue
						}
					}
				}
				name := "a call"
				if f := y.Call.StaticCallee(); f != nil {
					name = calleeFullName(f)
				}
				return "handed to " + name, y.Pos()
			case *ssa.MakeInterface:
				// boxed for a call such as sort.Slice(result, less)
				return "handed on as an interface value (sort.Slice and the like rearrange it)", y.Pos()
			case *ssa.IndexAddr:
				for _, r2 := range referrers(y) {
					if st, ok := r2.(*ssa.Store); ok && st.Addr == ssa.Value(y) {
						return "written element by element", st.Pos()
					}
				}
				continue
			case *ssa.Index, *ssa.Range, *ssa.Lookup:
				continue
			}
			return "used in an unrecognised way", r.Pos()
		}
	}
	return "", token.NoPos
}

// ascendingLessOverCell: v is a function literal `func(i, j int) bool { return s[i] < s[j] }` over one captured
// slice variable s; returns the variable's cell in the enclosing function.
func ascendingLessOverCell(v ssa.Value) *ssa.Alloc {
	mc, ok := v.(*ssa.MakeClosure)
	if !ok || len(mc.Bindings) != 1 {
		return nil
	}
	cell, ok := mc.Bindings[0].(*ssa.Alloc)
	if !ok {
		return nil
	}
	fn, ok := mc.Fn.(*ssa.Function)
	if !ok || len(fn.Params) != 2 || len(fn.FreeVars) != 1 || len(fn.Blocks) != 1 {
		return nil
	}
	rets := returnsOf(fn)
	if len(rets) != 1 || len(rets[0].Results) != 1 {
		return nil
	}
	cmp, ok := rets[0].Results[0].(*ssa.BinOp)
	if !ok || cmp.Op != token.LSS {
		return nil
	}
	elem := func(x ssa.Value, p *ssa.Parameter) bool {
		ld, ok := x.(*ssa.UnOp)
		if !ok || ld.Op != token.MUL {
			return false
		}
		ia, ok := ld.X.(*ssa.IndexAddr)
		if !ok || ia.Index != ssa.Value(p) {
			return false
		}
		sl, ok := ia.X.(*ssa.UnOp)
		return ok && sl.Op == token.MUL && sl.X == ssa.Value(fn.FreeVars[0])
	}
	if elem(cmp.X, fn.Params[0]) && elem(cmp.Y, fn.Params[1]) {
		return cell
	}
	return nil
}
