package main

// E-conc: goroutines, channels, joins, locks, lost updates.

import (
	"fmt"
	"go/token"
	"go/types"
	"strings"

	"golang.org/x/tools/go/ssa"
)

// ---- value identity ---------------------------------------------------------

// singleStore returns the unique value stored directly into alloc (ignoring
// field stores); ok=false if there are zero or several stores.
func singleStore(a *ssa.Alloc) (ssa.Value, *ssa.Store, bool) {
	var val ssa.Value
	var st *ssa.Store
	n := 0
	for _, r := range referrers(a) {
		if s, ok := r.(*ssa.Store); ok && s.Addr == ssa.Value(a) {
			n++
			val, st = s.Val, s
		}
	}
	return val, st, n == 1
}

// root resolves a value to the object that identifies it across closures and
// local variables: loads of single-store locals are looked through, free
// variables are mapped to their bindings, ChangeType/MakeInterface stripped.
// Parameters are mapped through `argOf` when provided.
func root(v ssa.Value) ssa.Value {
	for i := 0; i < 32; i++ {
		switch x := v.(type) {
		case *ssa.ChangeType:
			v = x.X
			continue
		case *ssa.MakeInterface:
			v = x.X
			continue
		case *ssa.UnOp:
			if x.Op == token.MUL {
				switch a := x.X.(type) {
				case *ssa.Alloc:
					if sv, _, ok := singleStore(a); ok {
						v = sv
						continue
					}
					return a
				case *ssa.FreeVar:
					b := freeVarBinding(a)
					if b == nil {
						return a
					}
					if al, ok := b.(*ssa.Alloc); ok {
						if sv, _, ok := singleStore(al); ok {
							v = sv
							continue
						}
						return al
					}
					return b
				}
			}
			return v
		case *ssa.FreeVar:
			b := freeVarBinding(x)
			if b == nil {
				return x
			}
			v = b
			continue
		}
		return v
	}
	return v
}

// varRoot is like root but stops at the variable (Alloc) rather than looking
// through its store: identifies "the variable" (WaitGroup, done channel var).
func varRoot(v ssa.Value) ssa.Value {
	for i := 0; i < 32; i++ {
		switch x := v.(type) {
		case *ssa.ChangeType:
			v = x.X
			continue
		case *ssa.UnOp:
			if x.Op == token.MUL {
				v = x.X
				continue
			}
			return v
		case *ssa.FreeVar:
			b := freeVarBinding(x)
			if b == nil {
				return x
			}
			v = b
			continue
		case *ssa.FieldAddr:
			// embedded / field of a variable: identify by base var + field
			return v
		}
		return v
	}
	return v
}

// freeVarBinding finds the value bound to a free variable by the (unique)
// MakeClosure of its function.
func freeVarBinding(fv *ssa.FreeVar) ssa.Value {
	fn := fv.Parent()
	parent := fn.Parent()
	if parent == nil {
		return nil
	}
	idx := -1
	for i, f := range fn.FreeVars {
		if f == fv {
			idx = i
		}
	}
	if idx < 0 {
		return nil
	}
	var found ssa.Value
	n := 0
	eachInstr(parent, func(ins ssa.Instruction) {
		if mc, ok := ins.(*ssa.MakeClosure); ok && mc.Fn == ssa.Value(fn) {
			n++
			found = mc.Bindings[idx]
		}
	})
	if n != 1 {
		return nil
	}
	return found
}

// sameVar: two values denote the same variable/object.
func sameRoot(a, b ssa.Value) bool {
	ra, rb := root(a), root(b)
	if ra == rb {
		return true
	}
	return fieldKey(ra) != "" && fieldKey(ra) == fieldKey(rb)
}

// fieldKey identifies "field f of root object o" for loads of struct fields.
func fieldKey(v ssa.Value) string {
	f, base := loadedField(v)
	if f == nil {
		if fa, ok := v.(*ssa.FieldAddr); ok {
			f, base = fieldOf(fa)
		}
	}
	if f == nil {
		return ""
	}
	rb := root(base)
	return fmt.Sprintf("%p.%s", rb, f.Name())
}

// ---- builtin helpers --------------------------------------------------------

func builtinCall(ins ssa.Instruction, name string) (*ssa.CallCommon, bool) {
	ci, ok := ins.(ssa.CallInstruction)
	if !ok {
		return nil, false
	}
	b, ok := ci.Common().Value.(*ssa.Builtin)
	if !ok || b.Name() != name {
		return nil, false
	}
	return ci.Common(), true
}

// goBody resolves the function executed by a go/defer/call instruction and the
// mapping from its parameters/free variables to caller values.
func callTarget(ci ssa.CallInstruction) *ssa.Function {
	cc := ci.Common()
	if f := cc.StaticCallee(); f != nil {
		return f
	}
	if mc, ok := cc.Value.(*ssa.MakeClosure); ok {
		if f, ok := mc.Fn.(*ssa.Function); ok {
			return f
		}
	}
	return nil
}

// ---- what a function (transitively) does -----------------------------------

// Effects summarises, for a module function and everything it calls inside
// the module (static calls and closures; `go` edges recorded separately).
type Effects struct {
	P *Prog
}

// reach lists module functions reachable from fn through ordinary calls and
// deferred calls (not through `go`), and separately those started by `go`.
func (p *Prog) reachSync(fn *ssa.Function) (sync map[*ssa.Function]bool, spawned map[*ssa.Function]bool) {
	sync = map[*ssa.Function]bool{}
	spawned = map[*ssa.Function]bool{}
	var walk func(f *ssa.Function)
	walk = func(f *ssa.Function) {
		if f == nil || sync[f] || !p.InModule(f) || f.Blocks == nil {
			return
		}
		sync[f] = true
		eachInstr(f, func(ins ssa.Instruction) {
			switch x := ins.(type) {
			case *ssa.Go:
				for _, t := range p.targets(x) {
					spawned[t] = true
				}
			case ssa.CallInstruction:
				for _, t := range p.targets(x) {
					walk(t)
				}
			}
		})
	}
	walk(fn)
	return
}

// targets: static callee, closure, or CHA targets inside the module.
func (p *Prog) targets(ci ssa.CallInstruction) []*ssa.Function {
	if t := callTarget(ci); t != nil {
		return []*ssa.Function{t}
	}
	var out []*ssa.Function
	for _, t := range p.Callees(ci) {
		if p.InModule(t) {
			out = append(out, t)
		}
	}
	return out
}

// isWriteCall: the instruction performs output on a writer: an interface
// invoke of Write/WriteString, or a static call of a method named Write on a
// type outside the module (os.File, dailylogger.Writer, bufio.Writer ...), or
// fmt.Fprint*.
func isWriteCall(p *Prog, ins ssa.Instruction) bool {
	ci, ok := ins.(ssa.CallInstruction)
	if !ok {
		return false
	}
	cc := ci.Common()
	if cc.IsInvoke() {
		return cc.Method.Name() == "Write" || cc.Method.Name() == "WriteString"
	}
	f := cc.StaticCallee()
	if f == nil || p.InModule(f) {
		return false
	}
	// diagnostics on standard error are not output of the program in the sense of any property
	if len(cc.Args) > 0 {
		a := cc.Args[0]
		if mi, ok := a.(*ssa.MakeInterface); ok {
			a = mi.X
		}
		if isGlobalLoad(a, "os", "Stderr") {
			return false
		}
	}
	if f.Signature.Recv() != nil {
		switch f.Name() {
		case "Write", "WriteString", "WriteByte", "WriteRune", "ReadFrom", "Flush", "Sync":
			// Flush/Sync push buffered output to the underlying writer
			return true
		}
	}
	if f.Object() != nil && f.Object().Pkg() != nil && f.Object().Pkg().Path() == "fmt" && strings.HasPrefix(f.Name(), "Fprint") {
		return true
	}
	return false
}

// writesReachable: does fn (through sync calls) perform a write call?
func (p *Prog) writeSites(fn *ssa.Function) []ssa.Instruction {
	var out []ssa.Instruction
	syncFns, _ := p.reachSync(fn)
	for f := range syncFns {
		eachInstr(f, func(ins ssa.Instruction) {
			if isWriteCall(p, ins) {
				out = append(out, ins)
			}
		})
	}
	return out
}

// ---- join rule ----------------------------------------------------------------

type joinResult struct {
	Go       *ssa.Go
	Body     *ssa.Function
	JoinVar  ssa.Value
	Kind     string // "chan" | "waitgroup"
	Problems []string
	Paths    [][]string
}

// signalSites: instructions in body (top level, not callees) that signal a
// join object: close(J) / J.Done() either deferred or direct.
type signalSite struct {
	ins      ssa.Instruction
	deferred bool
	obj      ssa.Value // variable root
	kind     string
}

func signalSites(fn *ssa.Function) []signalSite {
	var out []signalSite
	eachInstr(fn, func(ins ssa.Instruction) {
		ci, ok := ins.(ssa.CallInstruction)
		if !ok {
			return
		}
		_, isDefer := ins.(*ssa.Defer)
		if _, isGo := ins.(*ssa.Go); isGo {
			return
		}
		cc := ci.Common()
		if b, ok := cc.Value.(*ssa.Builtin); ok && b.Name() == "close" {
			out = append(out, signalSite{ins, isDefer, varRoot(cc.Args[0]), "chan"})
			return
		}
		if f := cc.StaticCallee(); f != nil && calleeFullName(f) == "(*sync.WaitGroup).Done" {
			out = append(out, signalSite{ins, isDefer, varRoot(cc.Args[0]), "waitgroup"})
		}
	})
	return out
}

// isWaitOn: ins waits for the join variable.
func isWaitOn(ins ssa.Instruction, obj ssa.Value, kind string) bool {
	switch kind {
	case "chan":
		if u, ok := ins.(*ssa.UnOp); ok && u.Op == token.ARROW {
			return varRoot(u.X) == obj
		}
	case "waitgroup":
		if ci, ok := ins.(*ssa.Call); ok {
			if f := ci.Call.StaticCallee(); f != nil && calleeFullName(f) == "(*sync.WaitGroup).Wait" {
				return varRoot(ci.Call.Args[0]) == obj
			}
		}
	}
	return false
}

// recvChans: channels a function receives from (directly, in its own body or
// its sync callees), as roots mapped into the caller's frame where possible.
func (p *Prog) recvParamIndexes(fn *ssa.Function) []int {
	var idx []int
	for i, prm := range fn.Params {
		if _, ok := prm.Type().Underlying().(*types.Chan); !ok {
			continue
		}
		used := false
		for _, r := range referrers(prm) {
			if u, ok := r.(*ssa.UnOp); ok && u.Op == token.ARROW {
				used = true
			}
			if _, ok := r.(*ssa.Range); ok {
				used = true
			}
		}
		if used {
			idx = append(idx, i)
		}
	}
	return idx
}

// inputChannelsOfGo returns, in the spawner's frame, the channel values the
// goroutine started by g receives from (through at most one wrapper level).
func (p *Prog) inputChannelsOfGo(g *ssa.Go) []ssa.Value {
	var out []ssa.Value
	body := callTarget(g)
	if body == nil {
		return nil
	}
	add := func(callee *ssa.Function, args []ssa.Value) {
		off := 0
		if callee.Signature.Recv() != nil {
			off = 0 // Params include the receiver already
		}
		for _, i := range p.recvParamIndexes(callee) {
			if i+off < len(args) {
				a := args[i+off]
				// inside a named goroutine body the channel is a parameter of the body: the
				// spawner knows it as the corresponding argument of the go statement
				if prm, ok := a.(*ssa.Parameter); ok && prm.Parent() == body {
					for k, bp := range body.Params {
						if bp == prm && k < len(g.Call.Args) {
							a = g.Call.Args[k]
						}
					}
				}
				out = append(out, a)
			}
		}
	}
	add(body, g.Call.Args)
	// wrapper closure: calls inside the body that pass channels on
	eachInstr(body, func(ins ssa.Instruction) {
		if c, ok := ins.(*ssa.Call); ok {
			if f := c.Call.StaticCallee(); f != nil && p.InModule(f) {
				add(f, c.Call.Args)
			}
		}
		// direct receive in the body on a captured variable
		if u, ok := ins.(*ssa.UnOp); ok && u.Op == token.ARROW {
			x := u.X
			if prm, ok := x.(*ssa.Parameter); ok && prm.Parent() == body {
				for k, bp := range body.Params {
					if bp == prm && k < len(g.Call.Args) {
						x = g.Call.Args[k]
					}
				}
			}
			out = append(out, x)
		}
	})
	return out
}

// rangeCloseLoops finds `for _, ch := range S { close(ch) }` loops in fn and
// returns, per loop, the loop-header If instruction and the slice value S.
type rangeClose struct {
	headerIf ssa.Instruction
	slice    ssa.Value
	closeIns ssa.Instruction
}

func rangeCloseLoops(fn *ssa.Function) []rangeClose {
	var out []rangeClose
	eachInstr(fn, func(ins ssa.Instruction) {
		cc, ok := builtinCall(ins, "close")
		if !ok {
			return
		}
		if _, isDefer := ins.(*ssa.Defer); isDefer {
			return
		}
		ld, ok := cc.Args[0].(*ssa.UnOp)
		if !ok || ld.Op != token.MUL {
			return
		}
		ia, ok := ld.X.(*ssa.IndexAddr)
		if !ok {
			return
		}
		// index must be the range index of a rangeindex loop over the same slice
		add, ok := ia.Index.(*ssa.BinOp)
		if !ok || add.Op != token.ADD {
			return
		}
		phi, ok := add.X.(*ssa.Phi)
		if !ok || !strings.Contains(phi.Comment, "rangeindex") {
			return
		}
		hdr := phi.Block()
		ifi, ok := lastInstr(hdr).(*ssa.If)
		if !ok {
			return
		}
		cmp, ok := ifi.Cond.(*ssa.BinOp)
		if !ok || cmp.Op != token.LSS || cmp.X != ssa.Value(add) {
			return
		}
		ln, ok := cmp.Y.(*ssa.Call)
		if !ok {
			return
		}
		if b, ok := ln.Call.Value.(*ssa.Builtin); !ok || b.Name() != "len" {
			return
		}
		if ln.Call.Args[0] != ia.X && !sameRoot(ln.Call.Args[0], ia.X) {
			return
		}
		// close must be unconditional in the body: its block dominates every back edge into hdr
		for _, pred := range hdr.Preds {
			if hdr.Dominates(pred) && !ins.Block().Dominates(pred) {
				return
			}
		}
		out = append(out, rangeClose{ifi, ia.X, ins})
	})
	return out
}

// sliceElements collects the values appended to a slice value (through phis
// and append chains).  complete=false when some contributor is unknown.
func sliceElements(v ssa.Value) (elems []ssa.Value, complete bool) {
	complete = true
	seen := map[ssa.Value]bool{}
	var walk func(v ssa.Value)
	walk = func(v ssa.Value) {
		if seen[v] {
			return
		}
		seen[v] = true
		switch x := v.(type) {
		case *ssa.Phi:
			for _, e := range x.Edges {
				walk(e)
			}
		case *ssa.MakeSlice:
			if n, ok := constInt(x.Len); !ok || n != 0 {
				complete = false
			}
		case *ssa.Const:
			// nil slice
		case *ssa.Slice:
			if !isFreshSlice(x) {
				complete = false
			}
		case *ssa.Call:
			if b, ok := x.Call.Value.(*ssa.Builtin); ok && b.Name() == "append" {
				walk(x.Call.Args[0])
				if len(x.Call.Args) > 1 {
					sl, ok := x.Call.Args[1].(*ssa.Slice)
					if !ok {
						complete = false
						return
					}
					al, ok := sl.X.(*ssa.Alloc)
					if !ok {
						complete = false
						return
					}
					for _, r := range referrers(al) {
						if ia, ok := r.(*ssa.IndexAddr); ok {
							for _, r2 := range referrers(ia) {
								if st, ok := r2.(*ssa.Store); ok && st.Addr == ssa.Value(ia) {
									elems = append(elems, st.Val)
								}
							}
						}
					}
				}
				return
			}
			complete = false
		case *ssa.UnOp:
			if x.Op == token.MUL {
				if al, ok := x.X.(*ssa.Alloc); ok {
					// variable holding the slice: all stores contribute
					for _, r := range referrers(al) {
						if st, ok := r.(*ssa.Store); ok && st.Addr == ssa.Value(al) {
							walk(st.Val)
						}
					}
					return
				}
			}
			complete = false
		default:
			complete = false
		}
	}
	walk(v)
	return
}

// closeEvents lists, for function fn, instructions that count as "channel ch
// has been closed (or is being closed by an unconditional range-close loop)".
func closeEventsFor(fn *ssa.Function, ch ssa.Value) map[ssa.Instruction]bool {
	ev := map[ssa.Instruction]bool{}
	rch := root(ch)
	eachInstr(fn, func(ins ssa.Instruction) {
		if cc, ok := builtinCall(ins, "close"); ok {
			if _, isDefer := ins.(*ssa.Defer); isDefer {
				return
			}
			if root(cc.Args[0]) == rch {
				ev[ins] = true
			}
		}
	})
	for _, rc := range rangeCloseLoops(fn) {
		elems, _ := sliceElements(rc.slice)
		for _, e := range elems {
			if root(e) == rch {
				ev[rc.headerIf] = true
			}
		}
	}
	return ev
}

// checkJoin applies the join rule to one go statement in spawner F.
// Requirements:
//
//	J1 the goroutine body signals a join object after its last write
//	   (deferred close/Done in the body itself, or a direct signal after which
//	   no write is reachable);
//	J2 every path in F from the go statement to a return of F waits on that object;
//	J3 every input channel of the goroutine is closed on every path from the
//	   go statement to the wait (otherwise the wait cannot complete / the
//	   tail is not flushed);
//	J4 the body does not delegate writes to a further, unjoined goroutine;
//	J5 (WaitGroup) an Add(1) on the same object dominates the go statement.
func (p *Prog) checkJoin(F *ssa.Function, g *ssa.Go) joinResult {
	res := joinResult{Go: g}
	body := callTarget(g)
	res.Body = body
	if body == nil || body.Blocks == nil {
		res.Problems = append(res.Problems, "goroutine body cannot be resolved statically")
		return res
	}
	// J4
	_, spawned := p.reachSync(body)
	for sp := range spawned {
		if len(p.writeSites(sp)) > 0 {
			res.Problems = append(res.Problems, "goroutine delegates writing to a further goroutine "+p.FnKey(sp)+" that is not joined")
		}
	}
	// J1: find signal in the body (top level)
	sigs := signalSites(body)
	var sig *signalSite
	for i := range sigs {
		s := &sigs[i]
		// the object must be visible in F: map to F's frame
		obj := s.obj
		if prm, ok := obj.(*ssa.Parameter); ok {
			// passed as argument
			for i, bp := range body.Params {
				if bp == prm && i < len(g.Call.Args) {
					obj = varRoot(g.Call.Args[i])
				}
			}
		}
		s.obj = obj
		if s.deferred {
			// the defer must be registered before any write can happen:
			// it dominates every write-reaching call in the body
			ok := true
			eachInstr(body, func(ins ssa.Instruction) {
				if ins == s.ins {
					return
				}
				if _, isDefer := ins.(*ssa.Defer); isDefer {
					// deferred calls run last-in first-out: a deferred write registered
					// before the deferred signal runs after it
					if p.insReachesWrite(ins) && !instrDominates(s.ins, ins) {
						ok = false
					}
					return
				}
				if p.insReachesWrite(ins) && !instrDominates(s.ins, ins) {
					ok = false
				}
			})
			if ok {
				sig = s
				break
			}
		} else {
			// direct signal: no write reachable afterwards
			q := pathQuery{goal: func(i ssa.Instruction) bool { return p.insReachesWrite(i) }}
			if path, _ := q.search(s.ins.Block(), instrIndex(s.ins)); path == nil {
				// and the signal must be passed on every path from a write to a return
				sig = s
				break
			}
		}
	}
	if sig == nil {
		if len(sigs) == 0 {
			res.Problems = append(res.Problems, "goroutine "+p.FnKey(body)+" signals no join object (no close/Done in its body): nothing the spawner could wait for")
		} else {
			res.Problems = append(res.Problems, "goroutine "+p.FnKey(body)+" signals completion before its last write")
		}
		return res
	}
	res.JoinVar, res.Kind = sig.obj, sig.kind
	// J2: wait on every path go -> return
	isWait := func(i ssa.Instruction) bool { return isWaitOn(i, sig.obj, sig.kind) }
	q := pathQuery{avoid: isWait, goal: func(i ssa.Instruction) bool { _, ok := i.(*ssa.Return); return ok }}
	if path, _ := q.search(g.Block(), instrIndex(g)); path != nil {
		res.Problems = append(res.Problems, fmt.Sprintf("%s returns on a path that does not wait for goroutine %s", p.FnKey(F), p.FnKey(body)))
		res.Paths = append(res.Paths, p.blockPath(path))
	}
	anyWait := false
	eachInstr(F, func(i ssa.Instruction) {
		if isWait(i) {
			anyWait = true
		}
	})
	if !anyWait {
		return res
	}
	// J3: inputs closed before the wait
	for _, ch := range p.inputChannelsOfGo(g) {
		ev := closeEventsFor(F, ch)
		if len(ev) == 0 {
			// deferred close in F is too late for a wait in the body of F
			res.Problems = append(res.Problems, "input channel of goroutine "+p.FnKey(body)+" is never closed before the wait: the wait cannot complete")
			continue
		}
		q := pathQuery{avoid: func(i ssa.Instruction) bool { return ev[i] }, goal: isWait}
		if path, _ := q.search(g.Block(), instrIndex(g)); path != nil {
			res.Problems = append(res.Problems, "the wait can be reached before the goroutine's input channel is closed")
			res.Paths = append(res.Paths, p.blockPath(path))
		}
	}
	// J5
	if sig.kind == "waitgroup" {
		ok := false
		eachInstr(F, func(i ssa.Instruction) {
			if c, isCall := i.(*ssa.Call); isCall {
				if f := c.Call.StaticCallee(); f != nil && calleeFullName(f) == "(*sync.WaitGroup).Add" && varRoot(c.Call.Args[0]) == sig.obj {
					if n, isC := constInt(c.Call.Args[1]); isC && n >= 1 && instrDominates(i, g) {
						// this Add is not used up by other goroutines of the same WaitGroup started
						// between it and this go statement (with no further Add in between)
						isAdd := func(x ssa.Instruction) bool {
							c2, ok := x.(*ssa.Call)
							if !ok {
								return false
							}
							f2 := c2.Call.StaticCallee()
							return f2 != nil && calleeFullName(f2) == "(*sync.WaitGroup).Add" && varRoot(c2.Call.Args[0]) == sig.obj
						}
						used := int64(0)
						for _, g2 := range goStatements(F) {
							if g2 == g || !p.goSignalsWaitGroup(g2, sig.obj) {
								continue
							}
							q1 := pathQuery{avoid: func(x ssa.Instruction) bool { return x == ssa.Instruction(g) || isAdd(x) }, goal: func(x ssa.Instruction) bool { return x == ssa.Instruction(g2) }}
							q2 := pathQuery{avoid: isAdd, goal: func(x ssa.Instruction) bool { return x == ssa.Instruction(g) }}
							if p1, _ := q1.search(i.Block(), instrIndex(i)); p1 != nil {
								if p2, _ := q2.search(g2.Block(), instrIndex(g2)); p2 != nil {
									used++
								}
							}
						}
						if used < n {
							ok = true
						}
					}
				}
			}
		})
		if !ok && p.countedAdd(F, g, sig.obj) {
			ok = true
		}
		if !ok {
			res.Problems = append(res.Problems, "no WaitGroup.Add precedes the go statement: Wait may return before the goroutine has run")
		}
	}
	return res
}

// insReachesWrite: ins is a write call, or a (non-go) call to a module function
// that performs one.
func (p *Prog) insReachesWrite(ins ssa.Instruction) bool {
	if _, isGo := ins.(*ssa.Go); isGo {
		return false
	}
	if isWriteCall(p, ins) {
		return true
	}
	if ci, ok := ins.(ssa.CallInstruction); ok {
		for _, t := range p.targets(ci) {
			if len(p.writeSites(t)) > 0 {
				return true
			}
		}
	}
	return false
}

// goStatements lists the go instructions of fn.
func goStatements(fn *ssa.Function) []*ssa.Go {
	var out []*ssa.Go
	eachInstr(fn, func(ins ssa.Instruction) {
		if g, ok := ins.(*ssa.Go); ok {
			out = append(out, g)
		}
	})
	return out
}

// goSignalsWaitGroup: the goroutine started by g2 calls Done (directly or deferred) on the WaitGroup wg of
// the spawner's frame.
func (p *Prog) goSignalsWaitGroup(g2 *ssa.Go, wg ssa.Value) bool {
	body := callTarget(g2)
	if body == nil || body.Blocks == nil {
		return true // unknown: assume it does
	}
	for _, s := range signalSites(body) {
		if s.kind != "waitgroup" {
			continue
		}
		obj := s.obj
		if prm, ok := obj.(*ssa.Parameter); ok {
			for i, bp := range body.Params {
				if bp == prm && i < len(g2.Call.Args) {
					obj = varRoot(g2.Call.Args[i])
				}
			}
		}
		if obj == wg {
			return true
		}
	}
	return false
}

// ---- counted WaitGroup.Add ------------------------------------------------------------
//
// `n := 1; if a { n++ }; if b { n++ }; wg.Add(n); go …; if a { go … }; if b { go … }`: the argument of the
// single Add is a constant plus one for each of a list of branch conditions; the goroutines signalling the
// WaitGroup are started once each, unconditionally or under exactly one of those conditions.  SSA values are
// immutable, so equal condition values mean equal outcomes: the count is exact on every path.

type condTerm struct {
	cond ssa.Value
	val  bool
}

// symbolicCount decomposes v into k + Σ [cond == val].
func symbolicCount(v ssa.Value, depth int) (int64, []condTerm, bool) {
	if depth > 8 {
		return 0, nil, false
	}
	v = trivialPhi(v)
	if k, ok := constInt(v); ok {
		return k, nil, true
	}
	switch x := v.(type) {
	case *ssa.BinOp:
		if x.Op == token.ADD {
			if k, ok := constInt(x.Y); ok {
				k0, c0, ok0 := symbolicCount(x.X, depth+1)
				return k0 + k, c0, ok0
			}
			if k, ok := constInt(x.X); ok {
				k0, c0, ok0 := symbolicCount(x.Y, depth+1)
				return k0 + k, c0, ok0
			}
		}
	case *ssa.Phi:
		if len(x.Edges) != 2 {
			return 0, nil, false
		}
		k0, c0, ok0 := symbolicCount(x.Edges[0], depth+1)
		k1, c1, ok1 := symbolicCount(x.Edges[1], depth+1)
		if !ok0 || !ok1 || len(c0) != len(c1) {
			return 0, nil, false
		}
		for i := range c0 {
			if c0[i] != c1[i] {
				return 0, nil, false
			}
		}
		hi, lo := 0, 1
		if k1 == k0+1 {
			hi, lo = 1, 0
		} else if k0 != k1+1 {
			return 0, nil, false
		}
		b := x.Block()
		d := b.Idom()
		if d == nil {
			return 0, nil, false
		}
		ifi, ok := lastInstr(d).(*ssa.If)
		if !ok || len(d.Succs) != 2 || d.Succs[0] == d.Succs[1] {
			return 0, nil, false
		}
		side := func(p *ssa.BasicBlock) int { // 0 true side, 1 false side, -1 unknown
			for s := 0; s < 2; s++ {
				succ := d.Succs[s]
				if succ == b {
					if p == d {
						return s
					}
					continue
				}
				if succ == p || succ.Dominates(p) {
					return s
				}
			}
			return -1
		}
		sh, sl := side(b.Preds[hi]), side(b.Preds[lo])
		if sh < 0 || sl < 0 || sh == sl {
			return 0, nil, false
		}
		kk := k0
		if hi == 0 {
			kk = k1
		}
		return kk, append(append([]condTerm{}, c0...), condTerm{ifi.Cond, sh == 0}), true
	}
	return 0, nil, false
}

// countedAdd: the go statement g (and every other goroutine signalling wg) is covered by one WaitGroup.Add
// whose argument counts exactly the goroutines that are started.
func (p *Prog) countedAdd(F *ssa.Function, g *ssa.Go, wg ssa.Value) bool {
	var adds []*ssa.Call
	eachInstr(F, func(i ssa.Instruction) {
		if c, ok := i.(*ssa.Call); ok {
			if f := c.Call.StaticCallee(); f != nil && calleeFullName(f) == "(*sync.WaitGroup).Add" && varRoot(c.Call.Args[0]) == wg {
				adds = append(adds, c)
			}
		}
	})
	if len(adds) != 1 {
		return false
	}
	add := adds[0]
	k, terms, ok := symbolicCount(add.Call.Args[1], 0)
	if !ok {
		return false
	}
	base := dominatingFacts(add.Block())
	isBase := func(f EdgeFact) bool {
		for _, b := range base {
			if b.Cond == f.Cond && b.Val == f.Val {
				return true
			}
		}
		return false
	}
	uncond := int64(0)
	var got []condTerm
	seenG := false
	for _, g2 := range goStatements(F) {
		if !p.goSignalsWaitGroup(g2, wg) {
			continue
		}
		if g2 == g {
			seenG = true
		}
		if !instrDominates(add, g2) || pathBetween(g2, g2) {
			return false
		}
		var own []EdgeFact
		for _, f := range dominatingFacts(g2.Block()) {
			if !isBase(f) {
				own = append(own, f)
			}
		}
		if len(own) > 1 {
			return false
		}
		// started on every path on which its condition holds: no way from the Add to a return around it
		q := pathQuery{avoid: func(i ssa.Instruction) bool { return i == ssa.Instruction(g2) }, goal: isReturn,
			edgeOK: func(a, b *ssa.BasicBlock) bool {
				if len(own) == 1 {
					if ifi, ok := lastInstr(a).(*ssa.If); ok && ifi.Cond == own[0].Cond && len(a.Succs) == 2 && a.Succs[0] != a.Succs[1] {
						return (b == a.Succs[0]) == own[0].Val
					}
				}
				return true
			}}
		if path, _ := q.search(add.Block(), instrIndex(add)); path != nil {
			return false
		}
		if len(own) == 0 {
			uncond++
		} else {
			got = append(got, condTerm{own[0].Cond, own[0].Val})
		}
	}
	if !seenG || uncond != k || len(got) != len(terms) {
		return false
	}
	used := make([]bool, len(terms))
	for _, t := range got {
		found := false
		for i, u := range terms {
			if !used[i] && u == t {
				used[i], found = true, true
				break
			}
		}
		if !found {
			return false
		}
	}
	return true
}
