package main

// C11 — when an application's message handling returns, all output has been
// written; C10 — rtcmfilter emits exactly the valid frames; shared consumer
// rules.

import (
	"fmt"
	"go/token"
	"go/types"
	"strings"

	"golang.org/x/tools/go/ssa"
)

// appEntry resolves the HandleMessages entry point of an app package.
func appEntry(c *Ctx, rule, pkg string) *ssa.Function {
	fn := c.P.Func(pkg, "HandleMessages")
	if fn == nil {
		c.Unresolved(rule, pkg+".HandleMessages")
	}
	return fn
}

// ioWriterParam returns the io.Writer parameter of fn.
func ioWriterParam(fn *ssa.Function) *ssa.Parameter {
	for _, p := range fn.Params {
		if n, ok := p.Type().(*types.Named); ok && n.Obj().Pkg() != nil && n.Obj().Pkg().Path() == "io" && n.Obj().Name() == "Writer" {
			return p
		}
	}
	return nil
}

// goWritesTo: the goroutine started by g is handed value w (directly, or
// captured by its closure body).
func goUsesValue(g *ssa.Go, w ssa.Value) bool {
	for _, a := range g.Call.Args {
		if root(a) == w {
			return true
		}
	}
	body := callTarget(g)
	if body == nil {
		return false
	}
	found := false
	eachInstr(body, func(ins ssa.Instruction) {
		var ops []*ssa.Value
		for _, op := range ins.Operands(ops) {
			if op != nil && *op != nil && root(*op) == w {
				found = true
			}
		}
	})
	return found
}

// ruleJoinAll applies the join rule to every write-performing goroutine
// started by entry point F; only (if not nil) restricts to goroutines that
// are handed F's writer parameter.
func ruleJoinAll(c *Ctx, rule string, F *ssa.Function, onlyWriter *ssa.Parameter, label string) int {
	P := c.P
	n := 0
	var others []*ssa.Go
	var joinVars []ssa.Value
	defer func() {
		// goroutines that do not write to the writer but call Done on the WaitGroup the writers are
		// joined through: a Done without its own Add releases Wait before the writers have finished
		for _, g := range others {
			for _, jv := range joinVars {
				if !P.goSignalsWaitGroup(g, jv) {
					continue
				}
				res := P.checkJoin(F, g)
				name := fmt.Sprintf("%s:join-sharer(go %s)", label, P.FnKey(innermostNamed(P, callTarget(g))))
				bad := ""
				for _, pr := range res.Problems {
					if strings.Contains(pr, "WaitGroup.Add") {
						bad = pr
					}
				}
				if bad != "" {
					c.Fail(rule, name, g.Pos(), "refuted", "a goroutine that shares the writers' WaitGroup: "+bad+" (its Done is then counted against a writer's Add, and Wait returns while that writer is still writing)")
				} else {
					c.OK(rule, name, g.Pos(), "the goroutine sharing the writers' WaitGroup has its own Add before it is started")
				}
				break
			}
		}
	}()
	for _, g := range goStatements(F) {
		body := callTarget(g)
		if body == nil {
			c.Fail(rule, label+":go(unresolved)", g.Pos(), "unproven", "goroutine target cannot be resolved")
			continue
		}
		if len(P.writeSites(body)) == 0 {
			others = append(others, g)
			continue // not a writer (e.g. the file handler stage)
		}
		if onlyWriter != nil && !goUsesValue(g, onlyWriter) {
			others = append(others, g)
			continue
		}
		n++
		res := P.checkJoin(F, g)
		if res.Kind == "waitgroup" && res.JoinVar != nil {
			joinVars = append(joinVars, res.JoinVar)
		}
		name := fmt.Sprintf("%s:join(go %s #%d)", label, P.FnKey(innermostNamed(P, body)), n)
		if len(res.Problems) == 0 {
			c.OK(rule, name, g.Pos(), fmt.Sprintf("joined through %s %s: signalled after the last write, waited for on every return path, after the input channel is closed", res.Kind, valueName(res.JoinVar)))
		} else {
			var paths []string
			for _, p := range res.Paths {
				paths = append(paths, p...)
			}
			msg := ""
			for i, pr := range res.Problems {
				if i > 0 {
					msg += "; "
				}
				msg += pr
			}
			c.Fail(rule, name, g.Pos(), "refuted", msg, paths...)
		}
	}
	return n
}

// innermostNamed: for a wrapper closure that calls exactly one named module
// function that does the writing, name that function (stable key).
func innermostNamed(P *Prog, body *ssa.Function) *ssa.Function {
	if body.Parent() == nil {
		return body
	}
	var inner *ssa.Function
	eachInstr(body, func(ins ssa.Instruction) {
		if c, ok := ins.(*ssa.Call); ok {
			if f := c.Call.StaticCallee(); f != nil && P.InModule(f) && len(P.writeSites(f)) > 0 {
				inner = f
			}
		}
	})
	if inner != nil {
		return inner
	}
	return body
}

// consumerLoopRule checks a consumer function `for { m, ok := <-ch; if !ok {return}; ... Write ... }`:
//
//	L1 it returns only on the closed-channel edge or after a failed write;
//	L2 every received message reaches a Write before the next receive, except
//	   along edges accepted by skipOK (the documented filter);
//	L3 the Write operand is described by operandOK.
func consumerLoopRule(c *Ctx, rule string, fn *ssa.Function, label string,
	skipOK func(rs recvSite, cond ssa.Value, taken bool) bool,
	operandOK func(rs recvSite, w ssa.CallInstruction) (bool, string)) {
	P := c.P
	rss := recvSites(fn)
	if len(rss) != 1 || rss[0].ok == nil {
		c.Fail(rule, label+":receive", fn.Pos(), "unproven", fmt.Sprintf("expected one comma-ok receive, found %d", len(rss)))
		return
	}
	rs := rss[0]
	if prm, ok := root(rs.ins.X).(*ssa.Parameter); !ok || prm.Parent() != fn {
		c.Fail(rule, label+":receive-channel", rs.ins.Pos(), "unproven", "consumer does not receive from its channel parameter")
		return
	}
	var writes []ssa.CallInstruction
	eachInstr(fn, func(ins ssa.Instruction) {
		if isWriteCall(P, ins) {
			writes = append(writes, ins.(ssa.CallInstruction))
		}
	})
	if len(writes) == 0 {
		c.Fail(rule, label+":write", fn.Pos(), "unproven", "no write call in the consumer")
		return
	}
	isWrite := func(i ssa.Instruction) bool {
		for _, w := range writes {
			if ssa.Instruction(w) == i {
				return true
			}
		}
		return false
	}
	// L1 returns
	for _, r := range returnsOf(fn) {
		if rs.dominatedByClosed(r.Block()) {
			c.OK(rule, label+":return(closed)", r.Pos(), "return on the closed-channel edge")
			continue
		}
		// after a failed write: dominated by a fact that depends on a write result
		afterWrite := false
		for _, f := range dominatingFacts(r.Block()) {
			if dependsOnCallResult(f.Cond, isWrite) {
				afterWrite = true
			}
		}
		if !afterWrite {
			// one return statement reached both from the closed-channel edge and from a failed
			// write (loops left by break): every way into it carries one of the two facts
			afterWrite = onEveryPath(r.Block(), func(f EdgeFact) bool {
				if f.Cond == rs.ok && !f.Val {
					return true
				}
				if u, ok := f.Cond.(*ssa.UnOp); ok && u.Op == token.NOT && u.X == rs.ok && f.Val {
					return true
				}
				return dependsOnCallResult(f.Cond, isWrite)
			})
		}
		c.Check(afterWrite, rule, label+":return(other)", r.Pos(), "return only after a failed or short write (the writer stops by design)",
			"the consumer can stop while its channel is open for a reason other than a failed write: later messages are lost and the producer blocks")
	}
	// L2 every message written
	edgeOK := func(a, b *ssa.BasicBlock) bool {
		ifi, ok := lastInstr(a).(*ssa.If)
		if !ok || len(a.Succs) != 2 || a.Succs[0] == a.Succs[1] {
			return true
		}
		taken := b == a.Succs[0]
		if skipOK != nil && skipOK(rs, ifi.Cond, taken) {
			return false // allowed skip: prune
		}
		// closed-channel edge is not a skipped message
		if ifi.Cond == rs.ok && !taken {
			return false
		}
		return true
	}
	until := func(i ssa.Instruction) bool { return i == ssa.Instruction(rs.ins) || isReturn(i) }
	if path, _ := mustPass(rs.ins, isWrite, until, edgeOK); path != nil {
		c.Fail(rule, label+":write-every-message", rs.ins.Pos(), "refuted", "a received message can be skipped without being written", P.blockPath(path)...)
	} else {
		c.OK(rule, label+":write-every-message", rs.ins.Pos(), "every path from a receive to the next receive or return passes a write (documented filter excepted)")
	}
	// at most once
	if path, _ := atMostOnce(fn, isWrite, func(i ssa.Instruction) bool { return i == ssa.Instruction(rs.ins) }); path != nil {
		c.Fail(rule, label+":write-once", rs.ins.Pos(), "refuted", "a message can be written twice", P.blockPath(path)...)
	} else {
		c.OK(rule, label+":write-once", rs.ins.Pos(), "no second write reachable without a new receive")
	}
	// L3 operand
	for _, w := range writes {
		ok, why := operandOK(rs, w)
		c.Check(ok, rule, label+":write-operand", w.Pos(), why, "write operand: "+why)
	}
}

// dependsOnCallResult: v is computed from the result of a call satisfying pred.
func dependsOnCallResult(v ssa.Value, pred func(ssa.Instruction) bool) bool {
	seen := map[ssa.Value]bool{}
	var walk func(v ssa.Value) bool
	walk = func(v ssa.Value) bool {
		if v == nil || seen[v] {
			return false
		}
		seen[v] = true
		if al, ok := v.(*ssa.Alloc); ok {
			// values stored into a local array/variable (e.g. variadic arguments)
			for _, r := range referrers(al) {
				switch x := r.(type) {
				case *ssa.Store:
					if x.Addr == ssa.Value(al) && walk(x.Val) {
						return true
					}
				case *ssa.IndexAddr:
					for _, r2 := range referrers(x) {
						if st, ok := r2.(*ssa.Store); ok && st.Addr == ssa.Value(x) && walk(st.Val) {
							return true
						}
					}
				}
			}
		}
		if ins, ok := v.(ssa.Instruction); ok {
			if pred(ins) {
				return true
			}
			var ops []*ssa.Value
			for _, op := range ins.Operands(ops) {
				if op != nil && *op != nil && walk(*op) {
					return true
				}
			}
		}
		return false
	}
	return walk(v)
}

// writeArg returns the data argument of a Write call.
func writeArg(w ssa.CallInstruction) ssa.Value {
	cc := w.Common()
	if cc.IsInvoke() {
		if len(cc.Args) > 0 {
			return cc.Args[0]
		}
		return nil
	}
	if len(cc.Args) > 1 {
		return cc.Args[1]
	}
	return nil
}

// derivedFromString: v is computed from message.String() of the received message.
func derivedFromMsgString(rs recvSite, v ssa.Value) bool {
	return dependsOnCallResult(v, func(i ssa.Instruction) bool {
		c, ok := i.(*ssa.Call)
		if !ok {
			return false
		}
		f := c.Call.StaticCallee()
		if f == nil || f.Name() != "String" || len(c.Call.Args) == 0 {
			return false
		}
		return rs.slot != nil && c.Call.Args[0] == ssa.Value(rs.slot)
	})
}

func checkC11(c *Ctx) {
	c.Explanation = "Decides the happens-before structure that the property needs: for the message-handling entry points of displayrtcm3 and rtcmfilter, every goroutine that writes to the entry point's writer parameter (J1) signals a join object (deferred close / WaitGroup.Done) only after its last write, (J2) is waited for on every path from its go statement to every return of the entry point, (J3) after its input channel has been closed, (J4) does not delegate writing to a further goroutine, (J5) has its own WaitGroup.Add before the go statement (an Add counts only if it is not used up by other goroutines of the same WaitGroup started in between; goroutines that share the writers' WaitGroup without writing need their own Add too); the consumer loop writes each received message synchronously before its next receive and leaves only on the closed channel or a failed write; the pipeline call that produces the messages precedes the close.  Without such a join some schedule loses the tail; with it none can (given C09's fan-out rules, evaluated here too). (R3, continued) once a writer goroutine has been started, and until all of them have been joined, the entry point neither calls a method of the writer nor converts it to another interface. (R4) the fan-out and completion rules of C09 and the forward-once rule of the reader stage (C13): every byte read is handed to the framer before the reader returns."
	c.NotDecided = "that the writer's Write is itself synchronous (os.Stdout, bytes.Buffer are; a caller-supplied asynchronous writer is outside the property); scheduler and memory-model semantics."
	P := c.P
	for _, app := range []string{"apps/displayrtcm3", "apps/rtcmfilter"} {
		F := appEntry(c, "C11-R1", app)
		if F == nil {
			continue
		}
		w := ioWriterParam(F)
		if w == nil {
			c.Unresolved("C11-R1", app+".HandleMessages io.Writer parameter")
			continue
		}
		n := ruleJoinAll(c, "C11-R1", F, w, app)
		if n == 0 {
			c.Fail("C11-R1", app+":writer-goroutine", F.Pos(), "unresolved", "no goroutine writing to the writer parameter found in "+P.FnKey(F))
		}
		ruleProducerBeforeClose(c, "C11-R3", F, app)
		// once a writer goroutine has been started the entry point itself only hands the writer on: it
		// neither calls a method of it nor converts it (closing the output, or writing to it, beside
		// the goroutines defeats the join: the last Write can be cut off or overtaken)
		okUse := true
		// the parameter and, when closures capture it, the loads of its spill slot
		uses := referrers(w)
		for _, r := range referrers(w) {
			if st, ok := r.(*ssa.Store); ok && st.Val == ssa.Value(w) {
				if al, ok := st.Addr.(*ssa.Alloc); ok {
					for _, r2 := range referrers(al) {
						if ld, ok := r2.(*ssa.UnOp); ok && ld.Op == token.MUL {
							uses = append(uses, referrers(ld)...)
						}
					}
				}
			}
		}
		isW := func(v ssa.Value) bool {
			if v == ssa.Value(w) {
				return true
			}
			if ld, ok := v.(*ssa.UnOp); ok && ld.Op == token.MUL {
				if al, ok := ld.X.(*ssa.Alloc); ok {
					for _, r := range referrers(al) {
						if st, ok := r.(*ssa.Store); ok && st.Val == ssa.Value(w) {
							return true
						}
					}
				}
			}
			return false
		}
		var gos []ssa.Instruction
		eachInstr(F, func(ins ssa.Instruction) {
			if _, ok := ins.(*ssa.Go); ok {
				gos = append(gos, ins)
			}
		})
		// "before": no writer goroutine can have been started yet, i.e. no path leads from a go
		// statement to the instruction (a heading written in a loop does not dominate what follows)
		beforeAllGo := func(ins ssa.Instruction) bool {
			for _, g := range gos {
				if pathBetween(g, ins) {
					return false
				}
			}
			return true
		}
		var waits []ssa.Instruction
		eachInstr(F, func(ins ssa.Instruction) {
			if call, ok := ins.(*ssa.Call); ok && calleeFullName(call.Call.StaticCallee()) == "(*sync.WaitGroup).Wait" {
				waits = append(waits, ins)
			}
			if u, ok := ins.(*ssa.UnOp); ok && u.Op == token.ARROW {
				waits = append(waits, ins)
			}
		})
		afterAllWaits := func(ins ssa.Instruction) bool {
			if len(waits) == 0 {
				return false
			}
			for _, wt := range waits {
				if !instrDominates(wt, ins) {
					return false
				}
			}
			return true
		}
		for _, r := range uses {
			ins, isIns := r.(ssa.Instruction)
			if !isIns || ins.Parent() != F {
				continue
			}
			if beforeAllGo(ins) || afterAllWaits(ins) {
				continue // a heading written before any writer goroutine exists, a footer after they are joined
			}
			switch x := r.(type) {
			case *ssa.DebugRef, *ssa.MakeClosure, *ssa.Store, *ssa.Go, *ssa.Phi, *ssa.MakeInterface, *ssa.ChangeInterface:
				if ci, isCI := r.(*ssa.ChangeInterface); isCI && ci.Type().String() != w.Type().String() {
					okUse = false
				}
			case *ssa.Call:
				if x.Call.IsInvoke() && isW(x.Call.Value) {
					okUse = false
					c.Fail("C11-R3", app+":entry-point-leaves-writer-alone", x.Pos(), "refuted", "the entry point calls "+x.Call.Method.Name()+" on the output writer itself, beside the writer goroutines: output can be cut off or overtaken before the goroutines are joined")
				}
			case *ssa.TypeAssert:
				okUse = false
				c.Fail("C11-R3", app+":entry-point-leaves-writer-alone", x.Pos(), "refuted", "the entry point converts the output writer to another interface (to close or flush it) beside the writer goroutines: output can be cut off before the goroutines are joined")
			}
		}
		if okUse {
			c.OK("C11-R3", app+":entry-point-leaves-writer-alone", F.Pos(), "the writer is only handed to the writer goroutines")
		}
	}
	// C11-R2 consumer loops
	if fn := P.Func("apps/displayrtcm3", "DisplayMessages"); fn != nil {
		consumerLoopRule(c, "C11-R2", fn, "displayrtcm3.DisplayMessages", nil,
			func(rs recvSite, w ssa.CallInstruction) (bool, string) {
				return derivedFromMsgString(rs, writeArg(w)), "the text written derives from String() of the received message"
			})
	} else {
		c.Unresolved("C11-R2", "apps/displayrtcm3.DisplayMessages")
	}
	if fn := P.Func("apps/rtcmfilter", "writeRTCMMessages"); fn != nil {
		consumerLoopRule(c, "C11-R2", fn, "rtcmfilter.writeRTCMMessages", nonRTCMSkip(c),
			func(rs recvSite, w ssa.CallInstruction) (bool, string) {
				f := rs.fieldOfMsg(writeArg(w))
				return f != nil && f.Name() == "RawData", "the bytes written are the received message's RawData, unmodified"
			})
	} else {
		c.Unresolved("C11-R2", "apps/rtcmfilter.writeRTCMMessages")
	}
	// the fan-out rules the argument rests on
	if pl := resolvePipeline(c, "C11-R4"); pl != nil {
		ruleFanout(c, pl, "C11-R4")
		ruleCompletion(c, pl, "C11-R4")
		// "every message derived from the input": the reader stage hands every byte it has read to
		// the framer before it returns (bytes delivered together with the end-of-file result are the
		// tail of the output)
		if read, nVal, errVal := handleRead(pl.handle); read != nil && nVal != nil && errVal != nil {
			ruleForwardOnce(c, pl, "C11-R4", read, nVal, errVal)
		} else {
			c.Fail("C11-R4", "Handle:read", pl.handle.Pos(), "unresolved", "the read call of Handle was not found")
		}
	}
	c.MinInstances("C11-R1", 2)
	c.MinInstances("C11-R2", 8)
	c.MinInstances("C11-R3", 2)
}

// nonRTCMSkip accepts the edge on which `message.MessageType == NonRTCMMessage`.
func nonRTCMSkip(c *Ctx) func(rs recvSite, cond ssa.Value, taken bool) bool {
	non := int64(-1)
	if k := c.P.Const("rtcm/utils", "NonRTCMMessage"); k != nil {
		if v, ok := constInt(ssa.NewConst(k.Val(), k.Type())); ok {
			non = v
		}
	}
	return func(rs recvSite, cond ssa.Value, taken bool) bool {
		b, ok := cond.(*ssa.BinOp)
		if !ok {
			return false
		}
		x, y := b.X, b.Y
		if _, isC := constInt(x); isC {
			x, y = y, x
		}
		k, isC := constInt(y)
		if !isC || k != non {
			return false
		}
		f := rs.fieldOfMsg(x)
		if f == nil || f.Name() != "MessageType" {
			return false
		}
		return (b.Op == token.EQL && taken) || (b.Op == token.NEQ && !taken)
	}
}

// ruleProducerBeforeClose: the call that runs the pipeline to completion
// (HandleMessagesUntilEOF) dominates every close of a consumer channel in F
// and every wait, so all messages have been handed to the consumers first.
func ruleProducerBeforeClose(c *Ctx, rule string, F *ssa.Function, label string) {
	P := c.P
	var prod ssa.Instruction
	eachInstr(F, func(ins ssa.Instruction) {
		if f := staticCallee(ins); f != nil && f.Name() == "HandleMessagesUntilEOF" {
			if _, isGo := ins.(*ssa.Go); !isGo {
				prod = ins
			}
		}
	})
	if prod == nil {
		c.Fail(rule, label+":pipeline-call", F.Pos(), "unresolved", "no synchronous call of HandleMessagesUntilEOF in "+P.FnKey(F))
		return
	}
	ok := true
	eachInstr(F, func(ins ssa.Instruction) {
		if _, isClose := builtinCall(ins, "close"); isClose {
			if _, isDefer := ins.(*ssa.Defer); isDefer {
				return
			}
			if !instrDominates(prod, ins) {
				ok = false
				c.Fail(rule, label+":close-after-pipeline", ins.Pos(), "refuted", "a consumer channel can be closed before the pipeline has delivered every message")
			}
		}
	})
	if ok {
		c.OK(rule, label+":close-after-pipeline", prod.Pos(), "the synchronous pipeline call dominates every close of a consumer channel")
	}
}
