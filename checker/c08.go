package main

// C08 — ranges, phase ranges and range rates equal the standard's formulas:
// E-units (fixed-point scale / unit / sign typing), sentinel constants,
// numeric constants, frequency tables.

import (
	"encoding/json"
	"fmt"
	"go/constant"
	"go/token"
	"go/types"
	"math"
	"os"
	"path/filepath"
	"sort"
	"strconv"
	"strings"

	"golang.org/x/tools/go/ssa"
)

type unitT struct {
	Unit string `json:"unit"`
	E2   int    `json:"e2"`
	E10  int    `json:"e10"`
	Neg  bool   `json:"neg"`
	Bits int    `json:"bits"`
	// analysis-only
	zero   bool // the constant 0: member of every type
	lo, hi int  // occupied bit range [lo,hi) when known non-negative of known width (hi==0: unknown)
	known  bool
}

func (u unitT) String() string {
	if u.zero {
		return "0"
	}
	s := fmt.Sprintf("%s*2^%d*10^%d", u.Unit, u.E2, u.E10)
	if u.Neg {
		s = "-" + s
	}
	return s
}

func (u unitT) same(o unitT) bool {
	if u.zero || o.zero {
		return true
	}
	return u.Unit == o.Unit && u.E2 == o.E2 && u.E10 == o.E10 && u.Neg == o.Neg
}

type unitsOracle struct {
	Fields         map[string]unitT              `json:"fields"`
	Results        map[string]unitT              `json:"results"`
	Sentinels      map[string]int64              `json:"sentinels"`
	SentinelWidths map[string][]string           `json:"sentinel_widths"`
	Freq           map[string]map[string]float64 `json:"frequencies_hz"`
}

func loadUnitsOracle(verifdir string) (*unitsOracle, error) {
	b, err := os.ReadFile(filepath.Join(verifdir, "oracles", "units.json"))
	if err != nil {
		return nil, err
	}
	var o unitsOracle
	if err := json.Unmarshal(b, &o); err != nil {
		return nil, err
	}
	return &o, nil
}

type unitsEngine struct {
	P      *Prog
	or     *unitsOracle
	fam    string // msm4 | msm7: selects the family-specific field types
	memo   map[*ssa.Function]*unitT
	busy   map[*ssa.Function]bool
	why    string
	params map[ssa.Value]unitT
}

func pow2(v ssa.Value) (int, bool) {
	c, ok := stripConv(v).(*ssa.Const)
	if !ok || c.Value == nil {
		return 0, false
	}
	f, _ := constant.Float64Val(constant.ToFloat(c.Value))
	if f <= 0 {
		return 0, false
	}
	k := math.Log2(f)
	if k != math.Trunc(k) {
		return 0, false
	}
	return int(k), true
}

func constFloat(v ssa.Value) (float64, bool) {
	c, ok := stripConv(v).(*ssa.Const)
	if !ok || c.Value == nil || (c.Value.Kind() != constant.Float && c.Value.Kind() != constant.Int) {
		return 0, false
	}
	f, _ := constant.Float64Val(constant.ToFloat(c.Value))
	return f, true
}

func (e *unitsEngine) fail(format string, a ...interface{}) (unitT, bool) {
	if e.why == "" {
		e.why = fmt.Sprintf(format, a...)
	}
	return unitT{}, false
}

// typeOf computes the unit type of an SSA value.
func (e *unitsEngine) typeOf(v ssa.Value, depth int) (unitT, bool) {
	if depth > 30 {
		return e.fail("expression too deep")
	}
	if t, ok := e.params[v]; ok {
		return t, true
	}
	if f, isC := constFloat(v); isC {
		if f == 0 {
			return unitT{zero: true, known: true}, true
		}
		return e.fail("bare constant %v used as a quantity", f)
	}
	switch x := v.(type) {
	case *ssa.Convert:
		return e.typeOf(x.X, depth+1)
	case *ssa.ChangeType:
		return e.typeOf(x.X, depth+1)
	case *ssa.UnOp:
		if x.Op == token.MUL {
			if f, _ := loadedField(x); f != nil {
				return e.fieldType(f)
			}
			// local variable: all stores must agree
			if al, ok := x.X.(*ssa.Alloc); ok {
				var res *unitT
				for _, r := range referrers(al) {
					if st, ok := r.(*ssa.Store); ok && st.Addr == ssa.Value(al) {
						t, ok := e.typeOf(st.Val, depth+1)
						if !ok {
							return t, false
						}
						if res == nil || res.zero {
							tt := t
							res = &tt
						} else if !res.same(t) {
							return e.fail("a local holds both %s and %s", res, t)
						}
					}
				}
				if res != nil {
					return *res, true
				}
				return unitT{zero: true}, true // zero value
			}
		}
		if x.Op == token.SUB {
			t, ok := e.typeOf(x.X, depth+1)
			t.Neg = !t.Neg
			return t, ok
		}
	case *ssa.Field:
		if f, _ := fieldOf(x); f != nil {
			return e.fieldType(f)
		}
	case *ssa.Phi:
		// a guard on a shift parameter whose value is known in this call context
		// (`if shift > 63 { v, shift = 0, 0 }`) selects one edge statically
		if sel := e.selectEdge(x); sel != nil {
			return e.typeOf(sel, depth+1)
		}
		var res *unitT
		for _, ed := range x.Edges {
			t, ok := e.typeOf(ed, depth+1)
			if !ok {
				return t, false
			}
			if res == nil || res.zero {
				tt := t
				res = &tt
			} else if !res.same(t) {
				return e.fail("branches yield different types %s and %s", res, t)
			}
		}
		if res != nil {
			r := *res
			r.lo, r.hi = 0, 0
			return r, true
		}
	case *ssa.BinOp:
		return e.binop(x, depth)
	case *ssa.Call:
		callee := x.Call.StaticCallee()
		if callee == nil || !e.P.InModule(callee) {
			return e.fail("call of %v is not understood as a formula", x.Call.Value)
		}
		return e.callType(callee, x.Call.Args, depth)
	}
	return e.fail("value %s is not understood as a quantity", v.String())
}

func (e *unitsEngine) fieldType(f *types.Var) (unitT, bool) {
	name := f.Name()
	if t, ok := e.or.Fields[e.fam+"."+name]; ok {
		t.known = true
		return t, true
	}
	if t, ok := e.or.Fields[name]; ok {
		t.known = true
		if t.Bits > 0 {
			t.lo, t.hi = 0, t.Bits
		}
		return t, true
	}
	return e.fail("field %s has no declared unit", name)
}

// selectEdge: phi merges the two arms of an `if` whose condition compares a
// parameter of known constant value (a shift count bound in this call context)
// with a constant: the edge of the arm that is taken.  nil if not of that shape.
func (e *unitsEngine) selectEdge(phi *ssa.Phi) ssa.Value {
	if len(phi.Edges) != 2 {
		return nil
	}
	b := phi.Block()
	d := b.Idom()
	if d == nil {
		return nil
	}
	ifi, ok := lastInstr(d).(*ssa.If)
	if !ok || len(d.Succs) != 2 {
		return nil
	}
	cmp, ok := ifi.Cond.(*ssa.BinOp)
	if !ok {
		return nil
	}
	val := func(v ssa.Value) (int64, bool) {
		if k, ok := constInt(v); ok {
			return k, true
		}
		if pt, ok := e.params[v]; ok && pt.Unit == "#shift" {
			return int64(pt.E2), true
		}
		return 0, false
	}
	x, okx := val(cmp.X)
	y, oky := val(cmp.Y)
	if !okx || !oky {
		return nil
	}
	var taken bool
	switch cmp.Op {
	case token.GTR:
		taken = x > y
	case token.GEQ:
		taken = x >= y
	case token.LSS:
		taken = x < y
	case token.LEQ:
		taken = x <= y
	case token.EQL:
		taken = x == y
	case token.NEQ:
		taken = x != y
	default:
		return nil
	}
	succ := d.Succs[1]
	if taken {
		succ = d.Succs[0]
	}
	for i, p := range b.Preds {
		// the arm's block (a straight-line then/else block) or the branch block itself for the empty arm
		if (p == succ && len(p.Preds) == 1 && p.Preds[0] == d) || (p == d && succ == b) {
			return phi.Edges[i]
		}
	}
	return nil
}

func (e *unitsEngine) binop(x *ssa.BinOp, depth int) (unitT, bool) {
	switch x.Op {
	case token.SHL:
		t, ok := e.typeOf(x.X, depth+1)
		if !ok {
			return t, false
		}
		k, isC := constInt(x.Y)
		if !isC {
			// shift by a parameter with a known constant value (getScaledValue)
			sy := x.Y
			if phi, ok := sy.(*ssa.Phi); ok {
				if sel := e.selectEdge(phi); sel != nil {
					sy = sel
				}
			}
			if kk, ok := constInt(sy); ok {
				k, isC = kk, true
			} else if pt, ok := e.params[sy]; ok && pt.Unit == "#shift" {
				k, isC = int64(pt.E2), true
			}
		}
		if !isC {
			return e.fail("shift by a non-constant")
		}
		t.E2 -= int(k)
		if t.hi > 0 {
			t.lo += int(k)
			t.hi += int(k)
		}
		return t, true
	case token.MUL, token.QUO:
		// by a power of two / ten, by the speed of light, by the wavelength, by -1
		a, b := x.X, x.Y
		if x.Op == token.MUL {
			if _, isC := constFloat(a); isC {
				a, b = b, a
			}
		}
		t, ok := e.typeOf(a, depth+1)
		if !ok {
			return t, false
		}
		t.lo, t.hi = 0, 0
		if f, isC := constFloat(b); isC {
			switch {
			case f == -1 && x.Op == token.MUL:
				t.Neg = !t.Neg
				return t, true
			case f == 10000:
				if x.Op == token.MUL {
					t.E10 -= 4
				} else {
					t.E10 += 4
				}
				return t, true
			case math.Abs(f-299792.458) < 1e-9 && x.Op == token.MUL:
				if t.Unit != "ms" || t.E2 != 0 || t.E10 != 0 {
					return e.fail("light-millisecond factor applied to %s (needs plain milliseconds)", t)
				}
				t.Unit = "m"
				return t, true
			}
			if k, isP := pow2(b); isP {
				if x.Op == token.MUL {
					t.E2 -= k
				} else {
					t.E2 += k
				}
				return t, true
			}
			return e.fail("multiplication/division by the unexplained constant %v", f)
		}
		// by another quantity
		u, ok := e.typeOf(b, depth+1)
		if !ok {
			return u, false
		}
		if x.Op == token.QUO && u.Unit == "m" && u.E2 == 0 && u.E10 == 0 && t.E2 == 0 && t.E10 == 0 {
			switch t.Unit {
			case "m":
				t.Unit = "cycles"
				return t, true
			case "m/s":
				t.Unit = "Hz"
				return t, true
			}
		}
		if x.Op == token.MUL && u.Unit == "m-per-ms" {
			if t.Unit != "ms" || t.E2 != 0 || t.E10 != 0 {
				return e.fail("light-millisecond factor applied to %s", t)
			}
			t.Unit = "m"
			return t, true
		}
		return e.fail("%s %s %s is not a formula of the standard", t, x.Op, u)
	case token.ADD, token.OR:
		a, ok1 := e.typeOf(x.X, depth+1)
		if !ok1 {
			return a, false
		}
		b, ok2 := e.typeOf(x.Y, depth+1)
		if !ok2 {
			return b, false
		}
		if !a.same(b) {
			return e.fail("%s %s %s: operands have different scales/units", a, x.Op, b)
		}
		res := a
		if a.zero {
			res = b
		}
		if x.Op == token.OR {
			// both operands must be non-negative fields of known, disjoint bit ranges
			if a.hi == 0 || b.hi == 0 {
				return e.fail("bitwise OR of a value whose bit range is not a plain shifted field (carry/borrow would be lost)")
			}
			if !(a.hi <= b.lo || b.hi <= a.lo) {
				return e.fail("bitwise OR of overlapping bit ranges [%d,%d) and [%d,%d)", a.lo, a.hi, b.lo, b.hi)
			}
			res.lo, res.hi = minInt(a.lo, b.lo), maxInt(a.hi, b.hi)
		} else {
			res.lo, res.hi = 0, 0
		}
		return res, true
	case token.SUB:
		return e.fail("subtraction is not part of any formula of the standard here")
	}
	return e.fail("operator %s is not part of a formula", x.Op)
}

func minInt(a, b int) int {
	if a < b {
		return a
	}
	return b
}
func maxInt(a, b int) int {
	if a > b {
		return a
	}
	return b
}

// callType: result type of a module function for the given arguments.
func (e *unitsEngine) callType(fn *ssa.Function, args []ssa.Value, depth int) (unitT, bool) {
	// methods on the cell (no quantity arguments): memoised
	quantityArgs := false
	for i, p := range fn.Params {
		if i == 0 && fn.Signature.Recv() != nil {
			continue
		}
		if b, ok := p.Type().Underlying().(*types.Basic); ok && b.Info()&types.IsNumeric != 0 {
			quantityArgs = true
		}
	}
	if !quantityArgs {
		if t, ok := e.memo[fn]; ok {
			if t == nil {
				return e.fail("%s has no consistent type", fn.Name())
			}
			return *t, true
		}
	}
	if e.busy[fn] {
		return e.fail("recursive formula")
	}
	e.busy[fn] = true
	defer delete(e.busy, fn)
	saved := e.params
	np := map[ssa.Value]unitT{}
	for i, p := range fn.Params {
		if i >= len(args) {
			break
		}
		if b, ok := p.Type().Underlying().(*types.Basic); !ok || b.Info()&types.IsNumeric == 0 {
			continue
		}
		if k, isC := constInt(args[i]); isC && k != 0 && strings.Contains(strings.ToLower(p.Name()), "shift") {
			np[p] = unitT{Unit: "#shift", E2: int(k)}
			continue
		}
		t, ok := e.typeOf(args[i], depth+1)
		if !ok {
			return t, false
		}
		np[p] = t
	}
	e.params = np
	defer func() { e.params = saved }()
	var res *unitT
	for _, r := range returnsOf(fn) {
		if len(r.Results) != 1 {
			return e.fail("%s does not return a single quantity", fn.Name())
		}
		t, ok := e.typeOf(r.Results[0], depth+1)
		if !ok {
			if !quantityArgs {
				e.memo[fn] = nil
			}
			return t, false
		}
		if res == nil || res.zero {
			tt := t
			res = &tt
		} else if !res.same(t) {
			return e.fail("%s returns both %s and %s", fn.Name(), res, t)
		}
	}
	if res == nil {
		return e.fail("%s has no return", fn.Name())
	}
	r := *res
	r.lo, r.hi = 0, 0
	if !quantityArgs {
		e.memo[fn] = &r
	}
	return r, true
}

func checkC08(c *Ctx) {
	c.Explanation = "Decides the structure of the range, phase-range and rate formulas by a small type system over the SSA of the formula methods: every value carries (unit, binary exponent, decimal exponent, sign); field types come from the oracle (whole ms 2^0, fractional 2^-10, fine range 2^-24/2^-29, fine phase 2^-29/2^-31, rough rate m/s, fine rate 1e-4 m/s); shifts and multiplications by powers of two or ten move the exponents, + and | need identical types (| additionally disjoint bit ranges of plain shifted fields, so a carry or borrow cannot be lost), the light-millisecond constant turns plain ms into m, division by the wavelength turns m into cycles and m/s into Hz, *-1 flips the sign.  (R1) every exported formula method of MSM4 and MSM7 has its declared result type and the two families agree; (R2) each 'invalid' constant equals -2^(w-1) for the width w that the layout oracle gives its field (255 for the 8-bit rough range), a formula returns zero only under a rough-invalid (or missing satellite) test, and a fine-invalid test replaces the delta by 0; (R3) constants: OneLightMillisecond*1000 == SpeedOfLightMS == 299792458, TwoToThePowerN == 2^N; (R4) the four signal-frequency tables equal the oracle table over all ids 1..32, wavelength = c/f with a zero guard, and GetSignalWavelength dispatches the four constellation names. (R2, marker tests) every comparison of a field that has an invalid marker is an (in)equality with exactly that marker, so no valid value is treated as invalid; (R5) the cell, header and formula packages keep no package-level storage that is written outside initialisers, so the cells a formula reads belong to their own message; (R6) the shared scale helpers in utils have no branch that depends on an argument value, so no value is special-cased after normalisation. R4 also requires that GetSignalWavelength branches on the constellation only, never on the signal id. R5 also refuses an in-place append to a truncated view of a decoded slice in the MSM packages (the signal cells point into the satellite list). (R7) all rules of C04: every cell is built from its own position of the field arrays and attached to its own satellite."
	c.NotDecided = "floating-point rounding; wrap-around for negative totals (excluded by the property's precondition); whether the documented frequency table itself matches RTCM for every BeiDou band (taken as documented)."
	P := c.P
	or, err := loadUnitsOracle(c.Verifdir)
	if err != nil {
		c.Fail("C08-oracle", "units.json", token.NoPos, "unresolved", err.Error())
		return
	}
	lay, err := loadLayoutOracle(c.Verifdir)
	if err != nil {
		c.Fail("C08-oracle", "layout.json", token.NoPos, "unresolved", err.Error())
		return
	}
	// ---- R1 unit typing
	got := map[string]map[string]unitT{}
	for _, fam := range []string{"msm4", "msm7"} {
		got[fam] = map[string]unitT{}
		pkg := "rtcm/type_" + fam + "/signal"
		var names []string
		for n := range or.Results {
			names = append(names, n)
		}
		sort.Strings(names)
		for _, n := range names {
			fn := P.Func(pkg, "(*Cell)."+n)
			if fn == nil {
				continue // MSM4 has no rate methods
			}
			e := &unitsEngine{P: P, or: or, fam: fam, memo: map[*ssa.Function]*unitT{}, busy: map[*ssa.Function]bool{}, params: map[ssa.Value]unitT{}}
			t, ok := e.callType(fn, nil, 0)
			want := or.Results[n]
			key := fmt.Sprintf("%s.%s", fam, n)
			if !ok {
				c.Fail("C08-R1", "type("+key+")", fn.Pos(), "refuted", fmt.Sprintf("%s: the formula does not type-check: %s (declared %s)", key, e.why, want))
				continue
			}
			got[fam][n] = t
			c.Check(t.same(want) && !t.zero, "C08-R1", "type("+key+")", fn.Pos(), "result type "+want.String(), fmt.Sprintf("%s yields %s, the standard's formula gives %s", key, t, want))
		}
	}
	for n, t4 := range got["msm4"] {
		if t7, ok := got["msm7"][n]; ok {
			c.Check(t4.same(t7), "C08-R1", "sibling-agreement("+n+")", token.NoPos, "MSM4 and MSM7 yield the same type", fmt.Sprintf("MSM4 %s yields %s but MSM7 yields %s", n, t4, t7))
		}
	}
	for _, n := range []string{"GetAggregateRange", "RangeInMetres", "GetAggregatePhaseRange", "PhaseRange"} {
		for _, fam := range []string{"msm4", "msm7"} {
			if _, ok := got[fam][n]; !ok {
				c.Fail("C08-R1", "present("+fam+"."+n+")", token.NoPos, "unresolved", "formula method missing or ill-typed: "+fam+"."+n)
			}
		}
	}
	for _, n := range []string{"GetAggregatePhaseRangeRate", "PhaseRangeRate", "PhaseRangeRateDoppler"} {
		if _, ok := got["msm7"][n]; !ok {
			c.Fail("C08-R1", "present(msm7."+n+")", token.NoPos, "unresolved", "formula method missing or ill-typed: msm7."+n)
		}
	}
	// ---- R2 sentinels
	var snames []string
	for n := range or.Sentinels {
		snames = append(snames, n)
	}
	sort.Strings(snames)
	for _, n := range snames {
		i := strings.LastIndex(n, ".")
		k := P.Const(n[:i], n[i+1:])
		if k == nil {
			c.Unresolved("C08-R2", "const "+n)
			continue
		}
		v, _ := constant.Int64Val(constant.ToInt(k.Val()))
		want := or.Sentinels[n]
		if sw, ok := or.SentinelWidths[n]; ok {
			for _, f := range lay.Sections[sw[0]] {
				if f.Name == sw[1] {
					want = -(int64(1) << uint(f.Width-1))
				}
			}
		}
		c.Check(v == want, "C08-R2", "sentinel("+n+")", k.Pos(), fmt.Sprintf("== %d (minimum of its field width)", want), fmt.Sprintf("%s is %d; the invalid marker of its field is %d", n, v, want))
	}
	checkInvalidHandling(c, "C08-R2", lay)
	checkDisplayValidity(c, "C08-R2")
	// ---- R3 constants
	cf := func(pkg, name string) (float64, bool) {
		k := P.Const(pkg, name)
		if k == nil {
			return 0, false
		}
		f, _ := constant.Float64Val(constant.ToFloat(k.Val()))
		return f, true
	}
	sl, ok1 := cf("rtcm/utils", "SpeedOfLightMS")
	ol, ok2 := cf("rtcm/utils", "OneLightMillisecond")
	c.Check(ok1 && sl == 299792458, "C08-R3", "const(SpeedOfLightMS)", token.NoPos, "== 299792458", fmt.Sprintf("SpeedOfLightMS is %v", sl))
	c.Check(ok2 && ol == 299792.458, "C08-R3", "const(OneLightMillisecond)", token.NoPos, "== 299792.458 (c/1000)", fmt.Sprintf("OneLightMillisecond is %v", ol))
	for _, n := range []int{10, 24, 29, 31} {
		v, ok := cf("rtcm/utils", "TwoToThePower"+strconv.Itoa(n))
		c.Check(ok && v == math.Ldexp(1, n), "C08-R3", fmt.Sprintf("const(TwoToThePower%d)", n), token.NoPos, fmt.Sprintf("== 2^%d", n), fmt.Sprintf("TwoToThePower%d is %v", n, v))
	}
	// ---- R4 frequency tables
	checkFrequencyTables(c, "C08-R4", or)
	// ---- R5 operand ownership: the cells a formula reads belong to their own message
	ruleGlobalsInitOnly(c, "C08-R5", []string{"rtcm/header", "rtcm/utils", "rtcm/type_msm4/satellite", "rtcm/type_msm4/signal", "rtcm/type_msm4/message", "rtcm/type_msm7/satellite", "rtcm/type_msm7/signal", "rtcm/type_msm7/message"})
	// ---- R6 the shared scale helpers treat every argument value alike: they are arithmetic in their
	// parameters, with no branch whose condition depends on a parameter.  (The invalid markers belong
	// to the fields of one family and width; a helper that receives an already normalised delta and
	// special-cases "the marker" drops a valid fine value.)
	for _, n := range []string{"GetScaledRange", "GetScaledPhaseRange", "getScaledValue", "GetScaledPhaseRangeRate",
		"GetApproxRangeMilliseconds", "GetApproxRangeMetres", "GetPhaseRangeMilliseconds", "GetPhaseRangeLightMilliseconds"} {
		fn := P.Func("rtcm/utils", n)
		if fn == nil {
			c.Unresolved("C08-R6", "rtcm/utils."+n)
			continue
		}
		// parameters that receive a constant at every call site in the module (shift counts) are
		// configuration, not data: a guard on them selects nothing at run time
		constParam := map[*ssa.Parameter]bool{}
		for _, prm := range fn.Params {
			constParam[prm] = true
		}
		sites := 0
		for _, g := range P.ModFuncs() {
			eachInstr(g, func(ins ssa.Instruction) {
				ci, ok := ins.(ssa.CallInstruction)
				if !ok || ci.Common().StaticCallee() != fn {
					return
				}
				sites++
				for i, a := range ci.Common().Args {
					if i < len(fn.Params) {
						if _, isC := stripConv(a).(*ssa.Const); !isC {
							constParam[fn.Params[i]] = false
						}
					}
				}
			})
		}
		if sites == 0 {
			constParam = map[*ssa.Parameter]bool{}
		}
		bad := false
		eachInstr(fn, func(ins ssa.Instruction) {
			ifi, ok := ins.(*ssa.If)
			if !ok || blockDead(ifi.Block()) {
				return
			}
			if dependsOnParam(ifi.Cond, fn, 12, constParam) {
				bad = true
				c.Fail("C08-R6", "value-independent("+n+")", ifi.Pos(), "refuted", n+" branches on the value of one of its arguments: some argument values are converted by a different formula than the rest")
			}
		})
		if !bad {
			c.OK("C08-R6", "value-independent("+n+")", fn.Pos(), "no branch depends on an argument value")
		}
	}
	c.MinInstances("C08-R6", 8)
	// R5 (continued): the satellite cells that the signal cells point to are not rearranged once decoded —
	// no function of the MSM packages appends in place to a truncated view of a slice it did not build
	{
		fns := map[*ssa.Function]bool{}
		for _, pk := range []string{"rtcm/header", "rtcm/type_msm4/satellite", "rtcm/type_msm4/signal", "rtcm/type_msm4/message", "rtcm/type_msm7/satellite", "rtcm/type_msm7/signal", "rtcm/type_msm7/message"} {
			for _, fn := range P.FuncsIn(pk) {
				fns[fn] = true
			}
		}
		ruleNoInPlaceAppend(c, "C08-R5", fns)
	}
	// R7: each cell's formulas are evaluated on that cell's own fields: the attachment rules of the
	// decoders (one field counter, advanced for every set mask bit; satellite = &satCells[i]) — all of C04
	c.Compose(checkC04, "C04", "C08-R7")
	c.MinInstances("C08-R5", 1)
	c.MinInstances("C08-R1", 13)
	c.MinInstances("C08-R2", 12)
	c.MinInstances("C08-R3", 6)
	c.MinInstances("C08-R4", 12)
}

// checkInvalidHandling: zero results only under rough-invalid tests; fine-invalid replaces the delta by 0.
func checkInvalidHandling(c *Ctx, rule string, lay *layoutOracle) {
	P := c.P
	// isRoughTest: the fact (cond has truth value val) says that the satellite is missing or its rough
	// value carries the invalid marker: `x == marker` taken or `x != marker` not taken
	isRoughTest := func(cond ssa.Value, val bool) bool {
		bo, ok := cond.(*ssa.BinOp)
		if !ok || !((bo.Op == token.EQL && val) || (bo.Op == token.NEQ && !val)) {
			return false
		}
		if isNilConst(bo.Y) {
			f, _ := loadedField(bo.X)
			return f != nil && f.Name() == "Satellite"
		}
		f, base := loadedField(bo.X)
		if f == nil {
			return false
		}
		// a field of the satellite cell
		bf, _ := loadedField(base)
		return bf != nil && bf.Name() == "Satellite" && (f.Name() == "RangeWholeMillis" || f.Name() == "PhaseRangeRate")
	}
	isFineTest := func(cond ssa.Value) bool {
		bo, ok := cond.(*ssa.BinOp)
		if !ok || (bo.Op != token.EQL && bo.Op != token.NEQ) {
			return false
		}
		f, base := loadedField(bo.X)
		if f == nil {
			return false
		}
		bf, _ := loadedField(base)
		return bf == nil && strings.HasSuffix(f.Name(), "Delta")
	}
	for _, fam := range []string{"msm4", "msm7"} {
		pkg := "rtcm/type_" + fam + "/signal"
		for _, n := range []string{"GetAggregateRange", "GetAggregatePhaseRange", "GetAggregatePhaseRangeRate", "RangeInMetres", "RangeInMillis", "PhaseRange", "PhaseRangeRate", "PhaseRangeRateDoppler"} {
			fn := P.Func(pkg, "(*Cell)."+n)
			if fn == nil {
				continue
			}
			key := fam + "." + n
			okAll := true
			for _, r := range returnsOf(fn) {
				if f, isC := constFloat(r.Results[0]); !isC || f != 0 {
					continue
				}
				rough := onEveryPath(r.Block(), func(ft EdgeFact) bool { return isRoughTest(ft.Cond, ft.Val) })
				if !rough {
					okAll = false
					c.Fail(rule, "zero-only-when-rough-invalid("+key+")", r.Pos(), "refuted", key+" returns zero on a path that is not guarded by an invalid rough value: an invalid fine value must fall back to the rough value alone")
				}
			}
			// and the converse for the aggregates: a computed (non-zero-constant) result is returned
			// only where the rough value has been tested and found valid; otherwise an invalid rough
			// value combined with some other special case yields a number
			if strings.HasPrefix(n, "GetAggregate") {
				okConv := true
				for _, r := range returnsOf(fn) {
					if f, isC := constFloat(r.Results[0]); isC && f == 0 {
						continue
					}
					valid := onEveryPath(r.Block(), func(ft EdgeFact) bool {
						bo, ok := ft.Cond.(*ssa.BinOp)
						if !ok || !((bo.Op == token.EQL && !ft.Val) || (bo.Op == token.NEQ && ft.Val)) {
							return false
						}
						if _, isC := constInt(bo.Y); !isC {
							return false
						}
						f, base := loadedField(bo.X)
						if f == nil {
							return false
						}
						bf, _ := loadedField(base)
						return bf != nil && bf.Name() == "Satellite" && (f.Name() == "RangeWholeMillis" || f.Name() == "PhaseRangeRate")
					})
					if !valid {
						okConv = false
						c.Fail(rule, "value-only-when-rough-valid("+key+")", r.Pos(), "refuted", key+" returns a computed value on a path where the satellite's rough value has not been found valid: an invalid rough value must give zero whatever the fine value is")
					}
				}
				if okConv {
					c.OK(rule, "value-only-when-rough-valid("+key+")", fn.Pos(), "computed results are returned only after the rough value was found valid")
				}
			}
			if okAll {
				c.OK(rule, "zero-only-when-rough-invalid("+key+")", fn.Pos(), "every zero result is guarded by an invalid rough value (or missing satellite)")
			}
			// every comparison of a field that has an invalid marker is an (in)equality with exactly that marker:
			// the marker is one value of the field's range (minimum of a signed field, all ones of the
			// 8-bit rough range), every other value is data
			eachInstr(fn, func(ins ssa.Instruction) {
				bo, ok := ins.(*ssa.BinOp)
				if !ok {
					return
				}
				switch bo.Op {
				case token.EQL, token.NEQ, token.LSS, token.LEQ, token.GTR, token.GEQ:
				default:
					return
				}
				x, y := bo.X, bo.Y
				if _, isC := constInt(x); isC {
					x, y = y, x
				}
				k, isC := constInt(y)
				fv, base := loadedField(stripConv(x))
				if !isC || fv == nil {
					return
				}
				section := fam + "_sig"
				if bf, _ := loadedField(base); bf != nil && bf.Name() == "Satellite" {
					section = fam + "_sat"
				}
				var want int64
				found := false
				for _, of := range lay.Sections[section] {
					if of.Name == fv.Name() {
						found = true
						if of.Signed {
							want = -(int64(1) << uint(of.Width-1))
						} else {
							want = (int64(1) << uint(of.Width)) - 1
						}
					}
				}
				if !found || !(strings.HasSuffix(fv.Name(), "Delta") || fv.Name() == "RangeWholeMillis" || fv.Name() == "PhaseRangeRate") {
					return
				}
				good := (bo.Op == token.EQL || bo.Op == token.NEQ) && k == want
				c.Check(good, rule, fmt.Sprintf("marker-test(%s %s)", key, fv.Name()), ins.Pos(), fmt.Sprintf("%s is tested only for (in)equality with its invalid marker %d", fv.Name(), want),
					fmt.Sprintf("%s compares %s with %d using %s: only the single value %d marks an invalid field, every other value is valid data", key, fv.Name(), k, bo.Op, want))
			})
			// a fine-invalid test concerns the delta that the function goes on to use: a test of another
			// field's marker (the fine range inside the phase formula) drops a valid fine value
			{
				tested := map[*types.Var]token.Pos{}
				used := map[*types.Var]bool{}
				eachInstr(fn, func(ins ssa.Instruction) {
					ld, ok := ins.(*ssa.UnOp)
					if !ok || ld.Op != token.MUL {
						return
					}
					fv, base := loadedField(ld)
					if fv == nil || !strings.HasSuffix(fv.Name(), "Delta") {
						return
					}
					if bf, _ := loadedField(base); bf != nil {
						return
					}
					for _, r := range referrers(ld) {
						if bo, ok := r.(*ssa.BinOp); ok && (bo.Op == token.EQL || bo.Op == token.NEQ) {
							if _, isC := constInt(bo.Y); isC {
								tested[fv] = bo.Pos()
								continue
							}
							if _, isC := constInt(bo.X); isC {
								tested[fv] = bo.Pos()
								continue
							}
						}
						used[fv] = true
					}
				})
				for fv, pos := range tested {
					c.Check(used[fv], rule, fmt.Sprintf("fine-test-own-delta(%s %s)", key, fv.Name()), pos,
						"the fine value tested for its invalid marker is the one the formula uses",
						fmt.Sprintf("%s tests %s for its invalid marker but does not use that field: a valid fine value of the formula's own field is dropped when another field is invalid", key, fv.Name()))
				}
			}
			// branches on a fine-invalid test must not skip the computation: both arms reach the scaled-value call
			eachInstr(fn, func(ins ssa.Instruction) {
				ifi, ok := ins.(*ssa.If)
				if !ok || !isFineTest(ifi.Cond) {
					return
				}
				for _, s := range ifi.Block().Succs {
					q := pathQuery{goal: func(i ssa.Instruction) bool {
						call, ok := i.(*ssa.Call)
						return ok && call.Call.StaticCallee() != nil && strings.HasPrefix(call.Call.StaticCallee().Name(), "GetScaled")
					}}
					if path, _ := q.search(s, -1); path == nil {
						c.Fail(rule, "fine-invalid-falls-back("+key+")", ifi.Pos(), "refuted", key+": on an invalid fine value the rough value is not used (no scaled-value computation on that branch)")
					}
				}
			})
		}
	}
}

// checkDisplayValidity: in the cells' String methods a formula value is printed
// only on paths where the rough value it is built on has been tested valid
// (otherwise the display shows a number for an invalid measurement, or, with
// the tests mixed up, "invalid" for a valid one).
func checkDisplayValidity(c *Ctx, rule string) {
	P := c.P
	need := map[string]string{
		"RangeInMetres": "RangeWholeMillis", "RangeInMillis": "RangeWholeMillis", "PhaseRange": "RangeWholeMillis",
		"PhaseRangeRate": "PhaseRangeRate", "PhaseRangeRateDoppler": "PhaseRangeRate",
	}
	n := 0
	for _, fam := range []string{"msm4", "msm7"} {
		fn := P.Func("rtcm/type_"+fam+"/signal", "(*Cell).String")
		if fn == nil {
			c.Unresolved(rule, "rtcm/type_"+fam+"/signal.(*Cell).String")
			continue
		}
		eachInstr(fn, func(ins ssa.Instruction) {
			call, ok := ins.(*ssa.Call)
			if !ok || call.Call.StaticCallee() == nil || call.Call.StaticCallee().Pkg != fn.Pkg {
				return
			}
			field, ok := need[call.Call.StaticCallee().Name()]
			if !ok {
				return
			}
			n++
			valid := false
			for _, ft := range dominatingFacts(call.Block()) {
				bo, ok := ft.Cond.(*ssa.BinOp)
				if !ok || (bo.Op != token.EQL && bo.Op != token.NEQ) {
					continue
				}
				f, base := loadedField(bo.X)
				bf, _ := loadedField(base)
				if f == nil || f.Name() != field || bf == nil || bf.Name() != "Satellite" {
					continue
				}
				if _, isC := constInt(bo.Y); !isC {
					continue
				}
				if (bo.Op == token.EQL && !ft.Val) || (bo.Op == token.NEQ && ft.Val) {
					valid = true
				}
			}
			c.Check(valid, rule, fmt.Sprintf("display-guard(%s.%s)", fam, call.Call.StaticCallee().Name()), ins.Pos(),
				"printed only where Satellite."+field+" has been tested against its invalid marker and found valid",
				fam+" String prints "+call.Call.StaticCallee().Name()+"() on a path where Satellite."+field+" was not tested valid: 'invalid' is shown for the wrong measurements")
		})
	}
	if n == 0 {
		c.Fail(rule, "display-guard", token.NoPos, "unresolved", "no formula value is printed by the cells' String methods")
	}
}

func checkFrequencyTables(c *Ctx, rule string, or *unitsOracle) {
	P := c.P
	T := NewTables(P)
	disp := P.Func("rtcm/utils", "GetSignalWavelength")
	if disp == nil {
		c.Unresolved(rule, "rtcm/utils.GetSignalWavelength")
		return
	}
	// dispatch: return of a call to getSignalWavelength<X> under constellation == "X"
	wl := map[string]*ssa.Function{}
	for _, r := range returnsOf(disp) {
		call, ok := r.Results[0].(*ssa.Call)
		if !ok {
			continue
		}
		for _, f := range dominatingFacts(r.Block()) {
			if bo, ok := f.Cond.(*ssa.BinOp); ok && bo.Op == token.EQL && f.Val && bo.X == ssa.Value(disp.Params[0]) {
				if s, ok := constString(bo.Y); ok {
					wl[s] = call.Call.StaticCallee()
					// the id is passed through
					if len(call.Call.Args) != 1 || call.Call.Args[0] != ssa.Value(disp.Params[1]) {
						c.Fail(rule, "dispatch-arg("+s+")", call.Pos(), "refuted", "the signal id is not passed unchanged to the wavelength table")
					}
				}
			}
		}
	}
	// the dispatcher chooses by constellation only: a guard on the signal id in front of the tables
	// (a range check, say) overrides them for some ids
	if len(disp.Params) == 2 {
		idFree := true
		eachInstr(disp, func(ins ssa.Instruction) {
			ifi, ok := ins.(*ssa.If)
			if !ok || blockDead(ifi.Block()) {
				return
			}
			if dependsOnParam(ifi.Cond, disp, 12, map[*ssa.Parameter]bool{disp.Params[0]: true}) {
				idFree = false
				c.Fail(rule, "dispatch-by-constellation-only", ifi.Pos(), "refuted", "GetSignalWavelength branches on the signal id before consulting the constellation's table: some ids get a wavelength that the table does not give")
			}
		})
		if idFree {
			c.OK(rule, "dispatch-by-constellation-only", disp.Pos(), "no branch of the dispatcher depends on the signal id")
		}
	}
	var cons []string
	for k := range or.Freq {
		cons = append(cons, k)
	}
	sort.Strings(cons)
	for _, k := range cons {
		w := wl[k]
		if w == nil {
			c.Fail(rule, "dispatch("+k+")", disp.Pos(), "refuted", "GetSignalWavelength has no case for constellation "+k)
			continue
		}
		c.Check(strings.Contains(strings.ToLower(w.Name()), strings.ToLower(k)), rule, "dispatch("+k+")", disp.Pos(), "dispatches to the "+k+" table", "constellation "+k+" is dispatched to "+w.Name())
		// wavelength = SpeedOfLightMS / frequency(id), zero guard
		var freqFn *ssa.Function
		okDiv, okGuard := false, false
		for _, r := range returnsOf(w) {
			if bo, ok := r.Results[0].(*ssa.BinOp); ok && bo.Op == token.QUO {
				if f, isC := constFloat(bo.X); isC && f == 299792458 {
					if call, ok := bo.Y.(*ssa.Call); ok {
						freqFn = call.Call.StaticCallee()
						okDiv = true
						for _, ft := range dominatingFacts(r.Block()) {
							if b2, ok := ft.Cond.(*ssa.BinOp); ok && b2.X == ssa.Value(call) && b2.Op == token.EQL && !ft.Val {
								okGuard = true
							}
						}
					}
				}
			}
		}
		c.Check(okDiv && okGuard, rule, "wavelength="+"c/f("+k+")", w.Pos(), "wavelength = 299792458 / frequency, not computed for frequency 0", "the "+k+" wavelength is not c/frequency with a zero-frequency guard")
		if freqFn == nil {
			continue
		}
		pa := T.Partition(freqFn, paramSubject(freqFn, 0), true)
		if pa.Cyclic || len(pa.Unknown) > 0 {
			c.Fail(rule, "table("+k+")", freqFn.Pos(), "unproven", "unrecognised conditions in the frequency table: "+pa.describeUnknown())
			continue
		}
		gotT := map[int]float64{}
		for _, r := range returnsOf(freqFn) {
			pa.ValueByType(r.Results[0], pa.Reach[r.Block()], func(s TySet, v ssa.Value) {
				f, _ := constFloat(v)
				for _, id := range s.List() {
					gotT[id] = f
				}
			})
		}
		bad := 0
		for id := 0; id <= 64; id++ {
			want := or.Freq[k][strconv.Itoa(id)]
			if gotT[id] != want {
				bad++
				c.Fail(rule, fmt.Sprintf("table(%s)[%d]", k, id), freqFn.Pos(), "refuted", fmt.Sprintf("%s signal id %d has frequency %v Hz, the documented table says %v", k, id, gotT[id], want))
			}
		}
		if bad == 0 {
			c.OK(rule, "table("+k+")", freqFn.Pos(), fmt.Sprintf("ids 0..64 agree with the documented table (%d ids with a frequency)", len(or.Freq[k])))
		}
	}
}

// dependsOnParam: v is computed (through arithmetic, comparisons, conversions and phis, at most depth
// steps) from a parameter of fn other than those in except; unknown producers count as dependent.
func dependsOnParam(v ssa.Value, fn *ssa.Function, depth int, except map[*ssa.Parameter]bool) bool {
	seen := map[ssa.Value]bool{}
	var rec func(v ssa.Value, d int) bool
	rec = func(v ssa.Value, d int) bool {
		if seen[v] {
			return false
		}
		seen[v] = true
		switch x := v.(type) {
		case *ssa.Const, *ssa.Global, *ssa.Function, *ssa.Builtin:
			return false
		case *ssa.Parameter:
			return x.Parent() == fn && !except[x]
		}
		if d == 0 {
			return true
		}
		ins, ok := v.(ssa.Instruction)
		if !ok {
			return true
		}
		for _, op := range ins.Operands(nil) {
			if *op != nil && rec(*op, d-1) {
				return true
			}
		}
		return false
	}
	return rec(v, depth)
}
