package main

// C19 — the proxy relays both directions byte-for-byte and reports traffic safely.

import (
	"fmt"
	"go/constant"
	"go/token"
	"go/types"
	"strings"

	"golang.org/x/tools/go/ssa"
)

// invokeOn: ins is an interface-method invoke of `method` on parameter prm.
func invokeOn(ins ssa.Instruction, method string) (*ssa.Call, ssa.Value) {
	call, ok := ins.(*ssa.Call)
	if !ok || !call.Call.IsInvoke() || call.Call.Method.Name() != method {
		return nil, nil
	}
	return call, call.Call.Value
}

func checkC19(c *Ctx) {
	c.Explanation = "Decides, on every CFG path of the two relay loops, that (R1) each successful read of n>0 bytes from one connection is followed, before the next read or return, by exactly one write of data[:n] (same buffer, same n) to the peer connection, that the buffer is fresh for every iteration (so the copy kept for the report is never overwritten), and that reads come from and writes go to the right peers, and no write deadline is armed on a relay connection while the result of the peer write is ignored (a timed-out write would drop part of a block silently), nor SetLinger with a non-negative time (Close would discard accepted bytes); (R2) nothing between read and write, nothing on the report side, and no module function reachable from the proxy package stores, copies or appends in place into a byte buffer it did not allocate; (R3) every traffic-derived string that reaches the status page (hex dumps of the last buffers, the readable form of the recent messages) passes the escape helper, and the helper replaces both '<' and '>' throughout; (R4) provenance: the message queue is fed only by the drain goroutine from the parser's output channel, and the parser's byte channel is fed only by the client relay loop with exactly the bytes data[0..n) in order; (R5) the drain loop and the stream handler cannot stop early (closed-channel exit only), and the parser side is free of run-time panics (C07 rules evaluated for the roots reachable from the proxy's goroutines), so parsing never withholds the relayed stream. R1 also requires that neither relay loop closes a connection (one direction ending does not end the other). R5 also contains all rules of C18 (the queue the parser side feeds). (R6) all rules of C02: the messages listed in the report are a lossless, order-preserving segmentation of the bytes the client relay loop fed to the parser."
	c.NotDecided = "TCP semantics, partial writes by net.Conn, the HTTP layer of statusreporter, TLS; the proxy's start-up configuration paths (not traffic dependent)."
	P := c.P
	pkg := "apps/proxy"
	cli := P.Func(pkg, "handleClientMessages")
	srv := P.Func(pkg, "handleServerMessages")
	status := P.Func("apps/proxy/reportfeed", "(*ReportFeed).Status")
	sanit := P.Func("apps/proxy/reportfeed", "Sanitise")
	drain := P.Func(pkg, "keepCircularQueueUpdated")
	if cli == nil || srv == nil || status == nil || sanit == nil || drain == nil {
		c.Unresolved("C19-anchor", "handleClientMessages/handleServerMessages/Status/Sanitise/keepCircularQueueUpdated")
		return
	}
	// ---- R1 / R2 relay loops.  Parameters: (server, client net.Conn, id int)
	relay := func(fn *ssa.Function, label string, from, to *ssa.Parameter) {
		var read *ssa.Call
		var writes []*ssa.Call
		eachInstr(fn, func(ins ssa.Instruction) {
			if call, recv := invokeOn(ins, "Read"); call != nil {
				if recv == ssa.Value(from) {
					read = call
				} else {
					c.Fail("C19-R1", label+":read-source", ins.Pos(), "refuted", "the relay loop reads from the wrong connection")
				}
			}
			if call, recv := invokeOn(ins, "Write"); call != nil {
				if recv == ssa.Value(to) {
					writes = append(writes, call)
				} else if recv == ssa.Value(from) {
					c.Fail("C19-R1", label+":write-target", ins.Pos(), "refuted", "the relay loop writes back to the connection it read from")
				}
			}
		})
		if read == nil || len(writes) == 0 {
			c.Fail("C19-R1", label+":shape", fn.Pos(), "unresolved", fmt.Sprintf("relay loop not recognised (read found: %v, peer writes: %d)", read != nil, len(writes)))
			return
		}
		// one direction ending (end of stream, a half-close by the peer) does not end the other: a
		// relay loop never closes either connection
		hang := false
		eachInstr(fn, func(ins ssa.Instruction) {
			for _, m := range []string{"Close", "CloseRead", "CloseWrite"} {
				if call, recv := invokeOn(ins, m); call != nil && (recv == ssa.Value(from) || recv == ssa.Value(to)) {
					hang = true
					c.Fail("C19-R1", label+":no-hang-up", ins.Pos(), "refuted", "the relay loop closes a connection: when this direction ends (for example after a half-close by the peer) the bytes still flowing in the other direction are dropped")
				}
			}
		})
		if !hang {
			c.OK("C19-R1", label+":no-hang-up", fn.Pos(), "the loop closes neither connection")
		}
		var nVal ssa.Value
		for _, r := range referrers(read) {
			if ex, ok := r.(*ssa.Extract); ok && ex.Index == 0 {
				nVal = ex
			}
		}
		buf := root(read.Call.Args[0])
		isW := func(i ssa.Instruction) bool {
			for _, w := range writes {
				if ssa.Instruction(w) == i {
					return true
				}
			}
			return false
		}
		isRead := func(i ssa.Instruction) bool { return i == ssa.Instruction(read) }
		// prune the n<=0 edge
		prune := func(a, b *ssa.BasicBlock) bool {
			ifi, ok := lastInstr(a).(*ssa.If)
			if !ok || len(a.Succs) != 2 || a.Succs[0] == a.Succs[1] {
				return true
			}
			cmp, ok := ifi.Cond.(*ssa.BinOp)
			if !ok {
				return true
			}
			taken := b == a.Succs[0]
			if factNonPositive(cmp, taken, nVal) {
				return false
			}
			if cmp.X == nVal {
				if k, ok := constInt(cmp.Y); ok && k == 0 && cmp.Op == token.NEQ && !taken {
					return false
				}
			}
			return true
		}
		until := func(i ssa.Instruction) bool { return isRead(i) || isReturn(i) }
		if path, _ := mustPass(read, isW, until, prune); path != nil {
			c.Fail("C19-R1", label+":relay-every-block", read.Pos(), "refuted", "bytes read from one side can reach the next read (or the end of the loop) without being written to the peer", P.blockPath(path)...)
		} else {
			c.OK("C19-R1", label+":relay-every-block", read.Pos(), "every path from a read with n>0 to the next read/return passes the peer write")
		}
		if path, _ := atMostOnce(fn, isW, isRead); path != nil {
			c.Fail("C19-R1", label+":relay-once", read.Pos(), "refuted", "a block can be written to the peer twice", P.blockPath(path)...)
		} else {
			c.OK("C19-R1", label+":relay-once", read.Pos(), "no second peer write without a new read")
		}
		for _, w := range writes {
			sl, ok := w.Call.Args[0].(*ssa.Slice)
			good := ok && root(sl.X) == buf && sl.High == nVal && (sl.Low == nil || isZero(sl.Low))
			c.Check(good, "C19-R1", label+":relay-operand", w.Pos(), "the peer receives data[:n] of the same read", "the bytes written to the peer are not exactly data[:n] of the preceding read")
		}
		// the peer write cannot be cut short silently: its result is ignored (today), so no write
		// deadline may be armed on a relay connection anywhere in the proxy
		for _, w := range writes {
			used := false
			for _, r := range referrers(w) {
				if _, isDbg := r.(*ssa.DebugRef); !isDbg {
					used = true
				}
			}
			if used {
				continue // result inspected: a partial write can be completed or reported
			}
			armed := false
			for _, g := range P.FuncsIn(pkg) {
				eachInstr(g, func(ins ssa.Instruction) {
					for _, m := range []string{"SetDeadline", "SetWriteDeadline"} {
						if dc, _ := invokeOn(ins, m); dc != nil {
							armed = true
							c.Fail("C19-R1", label+":write-complete("+P.FnKey(g)+")", ins.Pos(), "refuted",
								"a write deadline is set on a relay connection while the result of the peer Write is ignored: a timed-out write drops part of a block and relaying continues with a hole in the stream")
						}
					}
					// SetLinger(sec >= 0) turns Close into "discard what is still queued (after sec seconds)":
					// bytes Write has accepted, and the report has counted as relayed, never reach the peer
					if f := staticCallee(ins); calleeIs(f, "net", "SetLinger") {
						args := ins.(ssa.CallInstruction).Common().Args
						neg := false
						if len(args) == 2 {
							if k, ok := args[1].(*ssa.Const); ok && k.Value != nil {
								if v, ok := constant.Int64Val(k.Value); ok && v < 0 {
									neg = true
								}
							}
						}
						if !neg {
							armed = true
							c.Fail("C19-R1", label+":write-complete("+P.FnKey(g)+")", ins.Pos(), "refuted",
								"SetLinger with a non-negative time makes Close discard data that Write has accepted but TCP has not yet delivered: the tail of the relayed stream is lost")
						}
					}
				})
			}
			if !armed {
				c.OK("C19-R1", label+":write-complete", w.Pos(), "no deadline is ever set on the relay connections, so Write returns only after the whole block was accepted or the connection failed")
			}
		}
		// fresh buffer per iteration: the buffer is made inside the loop and dominates the read
		fresh := false
		if bi, ok := buf.(ssa.Instruction); ok && isFreshSlice(buf) {
			mk := bi
			if sl, ok := buf.(*ssa.Slice); ok {
				if al, ok := sl.X.(*ssa.Alloc); ok {
					mk = al
				}
			}
			if blockInLoop(mk.Block()) && instrDominates(mk, read) {
				fresh = true
			}
		}
		c.Check(fresh, "C19-R1", label+":fresh-buffer", read.Pos(), "a new buffer is allocated for every read (the recorded copy is never overwritten)",
			"the read buffer is reused across iterations: the buffer recorded for the report, or bytes not yet relayed, can be overwritten")
		// R2: no store into the buffer in the loop
		bad := false
		eachInstr(fn, func(ins ssa.Instruction) {
			if st, ok := ins.(*ssa.Store); ok {
				if ia, ok := st.Addr.(*ssa.IndexAddr); ok && root(ia.X) == buf {
					bad = true
					c.Fail("C19-R2", label+":buffer-unmodified", ins.Pos(), "refuted", "the relay loop stores into the relayed buffer")
				}
			}
			if cc, ok := builtinCall(ins, "copy"); ok && root(sliceBase(cc.Args[0])) == buf {
				bad = true
				c.Fail("C19-R2", label+":buffer-unmodified", ins.Pos(), "refuted", "the relay loop copies into the relayed buffer")
			}
		})
		if !bad {
			c.OK("C19-R2", label+":buffer-unmodified", fn.Pos(), "no store or copy into the relayed buffer in the relay loop")
		}
	}
	if len(cli.Params) >= 2 && len(srv.Params) >= 2 {
		relay(cli, "client->server", cli.Params[1], cli.Params[0])
		relay(srv, "server->client", srv.Params[0], srv.Params[1])
	} else {
		c.Unresolved("C19-R1", "relay loop parameters (server, client net.Conn)")
	}
	// the two loops are wired with the same (server, client) pair wherever they are started: what one
	// loop reads from is what the other writes to.  Call sites are grouped by enclosing function
	// (handleMessages today); each group starts both loops on one pair of distinct values.
	{
		type site struct {
			f    *ssa.Function
			a, b ssa.Value
			pos  token.Pos
		}
		groups := map[*ssa.Function][]site{}
		var order []*ssa.Function
		for _, g := range P.FuncsIn(pkg) {
			eachInstr(g, func(ins ssa.Instruction) {
				ci, ok := ins.(ssa.CallInstruction)
				if !ok {
					return
				}
				f := ci.Common().StaticCallee()
				if f != cli && f != srv {
					return
				}
				a := ci.Common().Args
				if len(a) < 2 {
					return
				}
				if _, seen := groups[g]; !seen {
					order = append(order, g)
				}
				groups[g] = append(groups[g], site{f, a[0], a[1], ins.Pos()})
			})
		}
		okWire := 0
		for _, g := range order {
			ss := groups[g]
			nc, ns := 0, 0
			same := true
			for _, x := range ss {
				if x.f == cli {
					nc++
				} else {
					ns++
				}
				if x.a != ss[0].a || x.b != ss[0].b || x.a == x.b {
					same = false
					c.Fail("C19-R1", "wiring("+x.f.Name()+")", x.pos, "refuted", "server and client connections are swapped when the relay loop is started")
				}
			}
			if same && nc == 1 && ns == 1 {
				okWire++
			} else if same {
				c.Fail("C19-R1", "wiring("+P.FnKey(g)+")", g.Pos(), "refuted", fmt.Sprintf("%s starts the client loop %d times and the server loop %d times on one pair of connections", P.FnKey(g), nc, ns))
			}
		}
		pos := cli.Pos()
		if len(order) > 0 {
			pos = order[0].Pos()
		}
		c.Check(okWire >= 1 && okWire == len(order), "C19-R1", "wiring(both directions)", pos, "both relay loops receive (server, client) in order", "the two relay loops are not both started with (server, client)")
	}
	// R2 (report side): no store through []byte elements in the reportfeed package
	nst := 0
	for _, fn := range P.FuncsIn("apps/proxy/reportfeed") {
		eachInstr(fn, func(ins ssa.Instruction) {
			if st, ok := ins.(*ssa.Store); ok {
				if ia, ok := st.Addr.(*ssa.IndexAddr); ok {
					if sl, ok := ia.X.Type().Underlying().(*types.Slice); ok {
						if b, ok := sl.Elem().Underlying().(*types.Basic); ok && b.Kind() == types.Byte {
							if !isFreshSlice(root(ia.X)) {
								nst++
								c.Fail("C19-R2", "report-side-store("+P.FnKey(fn)+")", ins.Pos(), "refuted", "the report side stores into a byte buffer it did not allocate (may alter relayed data)")
							}
						}
					}
				}
			}
			if cc, ok := builtinCall(ins, "copy"); ok && !isFreshSlice(root(sliceBase(cc.Args[0]))) {
				nst++
				c.Fail("C19-R2", "report-side-copy("+P.FnKey(fn)+")", ins.Pos(), "refuted", "the report side copies into a byte buffer it did not allocate")
			}
		})
	}
	if nst == 0 {
		c.OK("C19-R2", "report-side-read-only", status.Pos(), "no function of the report feed stores into a byte buffer it did not allocate")
	}
	// R2 (everything the relay loops and the goroutines beside them call): a helper that is handed a view
	// of the relayed buffer — for logging, for the parser — must not store, copy or append in place into it
	{
		var roots []*ssa.Function
		for _, g := range P.FuncsIn(pkg) {
			roots = append(roots, g)
		}
		ruleRawBuffersReadOnly(c, "C19-R2", P.ReachableModule(roots))
	}

	// ---- R3 escaping
	checkEscaping(c, status, sanit)

	// ---- R4 provenance
	q := P.Func("apps/proxy/circular_queue", "(*CircularQueue).Add")
	if q == nil {
		c.Unresolved("C19-R4", "circular_queue.(*CircularQueue).Add")
	} else {
		for _, site := range P.Callers(q) {
			caller := site.Parent()
			if !inPkgs(P, caller, []string{pkg, "apps/proxy/reportfeed"}) {
				continue
			}
			if caller != drain {
				c.Fail("C19-R4", "queue-writer("+P.FnKey(caller)+")", site.Pos(), "refuted", "the recent-message queue is fed from somewhere other than the drain goroutine: the report may list messages that were never relayed")
				continue
			}
			rss := recvSites(drain)
			ok := len(rss) == 1 && rss[0].isMsg(site.Common().Args[1])
			c.Check(ok, "C19-R4", "queue-writer(drain)", site.Pos(), "the drain goroutine adds exactly the message it received from the parser", "the drain goroutine adds something other than the received message")
		}
	}
	// byte channel: only sender is the client relay loop, sending data[i] for i=0..n-1
	bc, _ := P.Pkg(pkg).Members["byteChan"].(*ssa.Global)
	if bc == nil {
		c.Unresolved("C19-R4", pkg+".byteChan")
	} else {
		senders := 0
		for _, fn := range P.FuncsIn(pkg) {
			eachInstr(fn, func(ins ssa.Instruction) {
				sd, ok := ins.(*ssa.Send)
				if !ok || loadOfGlobal(sd.Chan) != bc {
					return
				}
				senders++
				if fn != cli {
					c.Fail("C19-R4", "byte-sender("+P.FnKey(fn)+")", ins.Pos(), "refuted", "bytes reach the parser from somewhere other than the client relay loop")
					return
				}
				ok2 := false
				if ld, ok := sd.X.(*ssa.UnOp); ok && ld.Op == token.MUL {
					if ia, ok := ld.X.(*ssa.IndexAddr); ok {
						if bound, ok := countingLoopIndex(ia.Index); ok {
							// the bytes are data[0..n) where n is the count of the Read into data:
							// either data[i], i<n, or s[i], i<len(s) with s = data[:n]
							isReadCount := func(v ssa.Value, buf ssa.Value) bool {
								ex, ok := v.(*ssa.Extract)
								if !ok || ex.Index != 0 {
									return false
								}
								call, ok := ex.Tuple.(*ssa.Call)
								return ok && call.Call.IsInvoke() && call.Call.Method.Name() == "Read" && root(call.Call.Args[0]) == root(buf)
							}
							if isReadCount(bound, ia.X) {
								if sl, isSl := trivialPhi(ia.X).(*ssa.Slice); !isSl || (sl.Low == nil && (sl.High == nil || sl.Max == nil)) {
									ok2 = true
								}
							} else if lc, ok := bound.(*ssa.Call); ok {
								if bi, ok := lc.Call.Value.(*ssa.Builtin); ok && bi.Name() == "len" && trivialPhi(lc.Call.Args[0]) == trivialPhi(ia.X) {
									if sl, ok := trivialPhi(ia.X).(*ssa.Slice); ok && sl.Low == nil && sl.High != nil && isReadCount(sl.High, sl.X) {
										ok2 = true
									}
								}
							}
						}
					}
				}
				c.Check(ok2, "C19-R4", "byte-sender(client loop)", ins.Pos(), "the parser is fed data[i] for i = 0..n-1 of the buffer just read, in order", "the parser is not fed exactly the bytes data[0..n) of the relayed buffer in order")
			})
		}
		if senders == 0 {
			c.Fail("C19-R4", "byte-sender", cli.Pos(), "refuted", "nothing feeds the parser: the report can never list relayed messages")
		}
	}
	// ---- R5 drain loop: closed-channel exit only
	rss := recvSites(drain)
	if len(rss) != 1 || rss[0].ok == nil {
		c.Fail("C19-R5", "drain:receive", drain.Pos(), "unproven", "drain loop receive not recognised")
	} else {
		rs := rss[0]
		for _, r := range returnsOf(drain) {
			c.Check(rs.dominatedByClosed(r.Block()), "C19-R5", "drain:exit-on-close", r.Pos(), "the drain goroutine stops only when the parser closes its output",
				"the drain goroutine can stop while messages are still produced: the parser blocks and with it the client relay loop")
		}
		// it is started with the parser's output channel
		if st := P.Func(pkg, "start"); st != nil {
			okGo := false
			for _, g := range goStatements(st) {
				if callTarget(g) == drain {
					okGo = true
				}
			}
			c.Check(okGo, "C19-R5", "drain:started", st.Pos(), "start runs the drain goroutine", "the drain goroutine is never started: the parser blocks on its first message and stalls the relay")
		}
	}
	if pl := resolvePipeline(c, "C19-R5"); pl != nil {
		ruleTerminationChainStream(c, pl, "C19-R5")
	}
	// the queue the parser side feeds cannot block it: C18's lock discipline and structure rules
	c.Compose(checkC18, "C18", "C19-R5")
	// "the status report lists only messages that were actually relayed": the parser side cuts the
	// bytes it is fed into messages without losing, inventing or reordering any — all rules of C02
	c.Compose(checkC02, "C02", "C19-R6")
	c.MinInstances("C19-R1", 9)
	c.MinInstances("C19-R2", 3)
	c.MinInstances("C19-R3", 5)
	c.MinInstances("C19-R4", 2)
	c.MinInstances("C19-R5", 3)
}

func isZero(v ssa.Value) bool { k, ok := constInt(v); return ok && k == 0 }

// ruleTerminationChainStream: the stream handler leaves its loop only on "done".
func ruleTerminationChainStream(c *Ctx, pl *pipeline, rule string) {
	for _, r := range returnsOf(pl.stream) {
		okDone := false
		for _, f := range dominatingFacts(r.Block()) {
			if isErrorTextEquals(f.Cond, "done") && f.Val {
				okDone = true
			}
		}
		c.Check(okDone, rule, "HandleMessages:exit-on-done", r.Pos(), "the stream handler stops only at the end of its input", "the stream handler can stop while input remains: the relay loop then blocks on the byte channel")
	}
}

// replacerPairs: recv is the value of a package-level *strings.Replacer that is stored exactly once, by
// the package initialiser, from strings.NewReplacer with constant arguments whose old strings are
// single characters (so no pair can shadow another); the (old, new) pairs are returned.
func replacerPairs(P *Prog, recv ssa.Value) map[string]string {
	ld, ok := recv.(*ssa.UnOp)
	if !ok || ld.Op != token.MUL {
		return nil
	}
	g, ok := ld.X.(*ssa.Global)
	if !ok || g.Pkg == nil {
		return nil
	}
	var stores []*ssa.Store
	fns := append([]*ssa.Function{}, P.modFns...)
	if in := g.Pkg.Func("init"); in != nil {
		fns = append(fns, in)
	}
	seen := map[*ssa.Function]bool{}
	escapes := false
	for _, fn := range fns {
		if seen[fn] {
			continue
		}
		seen[fn] = true
		eachInstr(fn, func(ins ssa.Instruction) {
			if st, ok := ins.(*ssa.Store); ok && st.Addr == ssa.Value(g) {
				stores = append(stores, st)
				return
			}
			for _, op := range ins.Operands(nil) {
				if *op == ssa.Value(g) {
					if l, isLoad := ins.(*ssa.UnOp); !isLoad || l.Op != token.MUL {
						escapes = true // address taken
					}
				}
			}
		})
	}
	if escapes || len(stores) != 1 || stores[0].Parent().Name() != "init" || stores[0].Parent().Synthetic == "" {
		return nil
	}
	call, ok := stores[0].Val.(*ssa.Call)
	if !ok || calleeFullName(call.Call.StaticCallee()) != "strings.NewReplacer" || len(call.Call.Args) != 1 {
		return nil
	}
	sl, ok := call.Call.Args[0].(*ssa.Slice)
	if !ok {
		return nil
	}
	al, ok := sl.X.(*ssa.Alloc)
	if !ok {
		return nil
	}
	at, ok := al.Type().Underlying().(*types.Pointer).Elem().Underlying().(*types.Array)
	if !ok || at.Len()%2 != 0 {
		return nil
	}
	vals := make([]string, at.Len())
	set := make([]bool, at.Len())
	for _, r := range referrers(al) {
		switch x := r.(type) {
		case *ssa.Slice:
		case *ssa.IndexAddr:
			k, ok := constInt(x.Index)
			if !ok || k < 0 || k >= at.Len() {
				return nil
			}
			for _, rr := range referrers(x) {
				st, ok := rr.(*ssa.Store)
				if !ok || set[k] {
					return nil
				}
				v, ok := constString(st.Val)
				if !ok {
					return nil
				}
				vals[k], set[k] = v, true
			}
		case *ssa.DebugRef:
		default:
			return nil
		}
	}
	out := map[string]string{}
	for i := 0; i+1 < len(vals); i += 2 {
		if !set[i] || !set[i+1] || len(vals[i]) != 1 {
			return nil
		}
		if _, dup := out[vals[i]]; dup {
			return nil
		}
		out[vals[i]] = vals[i+1]
	}
	return out
}

// checkEscaping: taint from traffic-derived strings to the report page.
func checkEscaping(c *Ctx, status, sanit *ssa.Function) {
	P := c.P
	// the escape helper: its result passes Replace/ReplaceAll for "<" and ">"
	lt, gt := false, false
	eachInstr(sanit, func(ins ssa.Instruction) {
		call, ok := ins.(*ssa.Call)
		if !ok || call.Call.StaticCallee() == nil {
			return
		}
		n := calleeFullName(call.Call.StaticCallee())
		if n == "html.EscapeString" {
			lt, gt = true, true
			return
		}
		if n == "(*strings.Replacer).Replace" {
			// a package-level replacer built once from constant pairs
			for old, nw := range replacerPairs(P, call.Call.Args[0]) {
				if strings.ContainsAny(nw, "<>") {
					continue
				}
				if old == "<" {
					lt = true
				}
				if old == ">" {
					gt = true
				}
			}
			return
		}
		if n != "strings.Replace" && n != "strings.ReplaceAll" {
			return
		}
		old, _ := constString(call.Call.Args[1])
		nw, _ := constString(call.Call.Args[2])
		all := n == "strings.ReplaceAll"
		if n == "strings.Replace" {
			if k, ok := constInt(call.Call.Args[3]); ok && k < 0 {
				all = true
			}
		}
		if !all || strings.ContainsAny(nw, "<>") {
			return
		}
		if old == "<" {
			lt = true
		}
		if old == ">" {
			gt = true
		}
	})
	// the return value is the fully replaced string: every Replace feeds the next / the return
	chain := true
	for _, r := range returnsOf(sanit) {
		if !dependsOnCallResult(r.Results[0], func(i ssa.Instruction) bool {
			f := staticCallee(i)
			return f != nil && (strings.HasPrefix(calleeFullName(f), "strings.Replace") || calleeFullName(f) == "(*strings.Replacer).Replace" || calleeFullName(f) == "html.EscapeString")
		}) {
			chain = false
		}
	}
	c.Check(lt && gt && chain, "C19-R3", "escape-helper", sanit.Pos(), "the escape helper replaces every '<' and every '>' and returns the replaced string",
		"the escape helper does not replace both '<' and '>' throughout its argument")
	// taint inside Status
	msgString := P.Func("rtcm/handler", "(*Message).String")
	t := NewTaint(P)
	t.Scope = func(fn *ssa.Function) bool { return fn == status }
	isBytes := func(t types.Type) bool {
		sl, ok := t.Underlying().(*types.Slice)
		if !ok {
			return false
		}
		b, ok := sl.Elem().Underlying().(*types.Basic)
		return ok && b.Kind() == types.Byte
	}
	isString := func(t types.Type) bool {
		b, ok := t.Underlying().(*types.Basic)
		return ok && b.Info()&types.IsString != 0
	}
	t.IsSource = func(v ssa.Value) bool {
		// text made directly from recorded bytes: string(b)
		if cv, ok := v.(*ssa.Convert); ok && isBytes(cv.X.Type()) && isString(cv.Type()) {
			return true
		}
		call, ok := v.(*ssa.Call)
		if !ok {
			return false
		}
		f := call.Call.StaticCallee()
		if f == nil {
			return false
		}
		// a helper of the module that turns bytes into text
		if P.InModule(f) && f != sanit && f.Signature.Results().Len() >= 1 && isString(f.Signature.Results().At(0).Type()) {
			for _, a := range call.Call.Args {
				if isBytes(a.Type()) {
					return true
				}
			}
		}
		if f == msgString || calleeFullName(f) == "encoding/hex.Dump" || calleeFullName(f) == "encoding/hex.EncodeToString" {
			return true
		}
		// any String/Error method of module types on traffic objects
		if P.InModule(f) && f.Name() == "String" {
			return true
		}
		return false
	}
	t.IsSanitizer = func(call *ssa.Call) bool {
		f := call.Call.StaticCallee()
		return f == sanit || (f != nil && calleeFullName(f) == "html.EscapeString")
	}
	t.Run()
	// sinks: the returned page
	nsrc := 0
	eachInstr(status, func(ins ssa.Instruction) {
		if v, ok := ins.(ssa.Value); ok && t.IsSource(v) {
			nsrc++
			// every source must itself be wrapped or flow only into a sanitiser
			c.OK("C19-R3", "traffic-text-source", ins.Pos(), "traffic-derived text: "+calleeFullName(staticCallee(ins)))
		}
	})
	if nsrc < 3 {
		c.Fail("C19-R3", "traffic-text-sources", status.Pos(), "unresolved", fmt.Sprintf("expected the two hex dumps and the message list as traffic-derived sources, found %d", nsrc))
	}
	for _, r := range returnsOf(status) {
		if t.Tainted(r.Results[0]) {
			c.Fail("C19-R3", "unescaped-flow-to-page", r.Pos(), "refuted", "traffic-derived text reaches the status page without passing the escape helper: relayed data can inject markup",
				t.Explain(r.Results[0])...)
		} else {
			c.OK("C19-R3", "page-is-escaped", r.Pos(), "every traffic-derived string on the page passed the escape helper")
		}
	}
}

// countingLoopIndex recognises the index of an in-order loop over 0..bound-1:
// either `for i := 0; i < bound; i++` (index = phi[0, phi+1], header tests
// phi < bound) or the lowering of `for i := range s` (index = phi[-1, index]+1,
// tested index < bound in its own block).
func countingLoopIndex(idx ssa.Value) (bound ssa.Value, ok bool) {
	lssBound := func(b *ssa.BasicBlock, x ssa.Value) ssa.Value {
		ifi, ok := lastInstr(b).(*ssa.If)
		if !ok {
			return nil
		}
		cmp, ok := ifi.Cond.(*ssa.BinOp)
		if !ok || cmp.Op != token.LSS || cmp.X != x {
			return nil
		}
		return cmp.Y
	}
	if phi, ok := idx.(*ssa.Phi); ok {
		zero, inc, other := false, false, false
		for _, e := range phi.Edges {
			if k, ok := constInt(e); ok && k == 0 {
				zero = true
				continue
			}
			if b, ok := e.(*ssa.BinOp); ok && b.Op == token.ADD && b.X == ssa.Value(phi) {
				if k, ok := constInt(b.Y); ok && k == 1 {
					inc = true
					continue
				}
			}
			other = true
		}
		if zero && inc && !other {
			if bd := lssBound(phi.Block(), phi); bd != nil {
				return bd, true
			}
		}
		return nil, false
	}
	if add, ok := idx.(*ssa.BinOp); ok && add.Op == token.ADD {
		phi, isPhi := add.X.(*ssa.Phi)
		k, isC := constInt(add.Y)
		if !isPhi || !isC || k != 1 || phi.Block() != add.Block() {
			return nil, false
		}
		m1, back, other := false, false, false
		for _, e := range phi.Edges {
			if k, ok := constInt(e); ok && k == -1 {
				m1 = true
			} else if e == ssa.Value(add) {
				back = true
			} else {
				other = true
			}
		}
		if m1 && back && !other {
			if bd := lssBound(add.Block(), add); bd != nil {
				return bd, true
			}
		}
	}
	return nil, false
}
