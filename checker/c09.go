package main

// C09 — the reader-to-sinks pipeline delivers the same messages under every
// schedule: ownership, ordering, completion and confinement discipline of
// file_handler.Handle -> handler.HandleMessages -> appcore.HandleMessagesUntilEOF.

import (
	"fmt"
	"go/token"
	"go/types"
	"strings"

	"golang.org/x/tools/go/ssa"
)

var pipelinePkgs = []string{"file_handler", "apps/appcore", "rtcm/handler", "rtcm/pushback"}

type pipeline struct {
	handle    *ssa.Function // (*filehandler.Handler).Handle
	stream    *ssa.Function // (*rtcm.Handler).HandleMessages
	fanout    *ssa.Function // (*AppCore).HandleMessagesUntilEOF
	fetch     *ssa.Function // (*rtcm.Handler).FetchNextMessageFrame
	pbGet     *ssa.Function // (*pushback.ByteChannel).get
	pbNext    *ssa.Function
	pbPush    *ssa.Function
	pbClose   *ssa.Function
	eat       *ssa.Function
	getMsg    *ssa.Function
	lenType   *ssa.Function
	checkCRC  *ssa.Function
	newMsg    *ssa.Function
	newNon    *ssa.Function
	msgType   *types.Var
	rawData   *types.Var
	channelsF *types.Var
}

func resolvePipeline(c *Ctx, rule string) *pipeline {
	P := c.P
	pl := &pipeline{}
	need := func(f *ssa.Function, what string) *ssa.Function {
		if f == nil {
			c.Unresolved(rule, what)
		}
		return f
	}
	pl.handle = need(P.Func("file_handler", "(*Handler).Handle"), "file_handler.(*Handler).Handle")
	pl.stream = need(P.Func("rtcm/handler", "(*Handler).HandleMessages"), "rtcm/handler.(*Handler).HandleMessages")
	pl.fanout = need(P.Func("apps/appcore", "(*AppCore).HandleMessagesUntilEOF"), "apps/appcore.(*AppCore).HandleMessagesUntilEOF")
	pl.fetch = need(P.Func("rtcm/handler", "(*Handler).FetchNextMessageFrame"), "rtcm/handler.(*Handler).FetchNextMessageFrame")
	pl.getMsg = need(P.Func("rtcm/handler", "(*Handler).GetMessage"), "rtcm/handler.(*Handler).GetMessage")
	pl.checkCRC = need(P.Func("rtcm/handler", "CheckCRC"), "rtcm/handler.CheckCRC")
	pl.newMsg = need(P.Func("rtcm/handler", "NewMessage"), "rtcm/handler.NewMessage")
	pl.newNon = need(P.Func("rtcm/handler", "NewNonRTCM"), "rtcm/handler.NewNonRTCM")
	pl.pbNext = need(P.Func("rtcm/pushback", "(*ByteChannel).GetNextByte"), "rtcm/pushback.(*ByteChannel).GetNextByte")
	pl.pbPush = need(P.Func("rtcm/pushback", "(*ByteChannel).PushBack"), "rtcm/pushback.(*ByteChannel).PushBack")
	pl.pbClose = P.Func("rtcm/pushback", "(*ByteChannel).Close")
	// helpers by role, then by name
	if pl.pbNext != nil {
		eachInstr(pl.pbNext, func(ins ssa.Instruction) {
			if f := staticCallee(ins); f != nil && f.Pkg == pl.pbNext.Pkg && f.Signature.Recv() != nil && f != pl.pbNext {
				pl.pbGet = f
			}
		})
	}
	if pl.pbGet == nil {
		pl.pbGet = P.Func("rtcm/pushback", "(*ByteChannel).get")
	}
	need(pl.pbGet, "pushback channel reader (callee of GetNextByte)")
	if pl.fetch != nil && pl.pbNext != nil {
		// junk eater: package-level callee of the fetcher that calls GetNextByte in a loop
		eachInstr(pl.fetch, func(ins ssa.Instruction) {
			f := staticCallee(ins)
			if f == nil || f.Pkg != pl.fetch.Pkg || f == pl.getMsg {
				return
			}
			calls := false
			eachInstr(f, func(i2 ssa.Instruction) {
				if staticCallee(i2) == pl.pbNext {
					calls = true
				}
			})
			if calls {
				pl.eat = f
			}
		})
	}
	if pl.eat == nil {
		pl.eat = P.Func("rtcm/handler", "eatUntilStartOfFrame")
	}
	need(pl.eat, "junk eater (callee of FetchNextMessageFrame looping on GetNextByte)")
	if pl.getMsg != nil {
		eachInstr(pl.getMsg, func(ins ssa.Instruction) {
			f := staticCallee(ins)
			if f != nil && f.Pkg == pl.getMsg.Pkg && f.Signature.Results().Len() == 3 && isErrorType(f.Signature.Results().At(2).Type()) {
				pl.lenType = f
			}
		})
	}
	if pl.lenType == nil {
		pl.lenType = P.Func("rtcm/handler", "(*Handler).getMessageLengthAndType")
	}
	need(pl.lenType, "leader helper (callee of GetMessage returning (length, type, error))")
	pl.msgType = P.Field("rtcm/handler", "Message", "MessageType")
	pl.rawData = P.Field("rtcm/handler", "Message", "RawData")
	pl.channelsF = P.Field("apps/appcore", "AppCore", "Channels")
	if pl.msgType == nil || pl.rawData == nil || pl.channelsF == nil {
		c.Unresolved(rule, "fields Message.MessageType / Message.RawData / AppCore.Channels")
	}
	for _, f := range []*ssa.Function{pl.handle, pl.stream, pl.fanout, pl.fetch, pl.getMsg, pl.checkCRC, pl.newMsg, pl.newNon, pl.pbNext, pl.pbPush, pl.pbGet, pl.eat, pl.lenType} {
		if f == nil {
			return nil
		}
	}
	if pl.msgType == nil || pl.rawData == nil || pl.channelsF == nil {
		return nil
	}
	return pl
}

func checkC09(c *Ctx) {
	c.Explanation = "Decides the structural discipline that makes the pipeline schedule-independent: (R1) each pipeline channel has exactly one close site, owned by the producing stage, executed once (deferred close in Handle that dominates every return; close-then-return in the stream handler; nobody calls ByteChannel.Close); (R2) one sender per channel, in the producing goroutine, no goroutine started inside a per-byte or per-message loop; (R3) the fan-out sends every received message to every non-nil consumer channel in index order, synchronously, before the next receive, and sends the received value itself; (R4) the fan-out returns 0 only on the closed-channel edge; (R5) termination chain: Handle's loop leaves only by return, the stream handler returns only after closing its output on the 'done' error, which the push-back reader produces only on a closed channel; (R6) confinement: pointer operands of the go statements are not used by the spawner afterwards and no pipeline function writes a package-level variable; (R7) Kahn determinism: no select, non-blocking channel operation, clock or goroutine start in the framing stage.  Together with Go's channel semantics these imply the same message sequence at every consumer under every schedule, termination, close-once and absence of races in the pipeline's own code. (R9) gaps in the input are bridged as documented whatever their timing: the error classification and the EOF-clock rules of C13 (cleared after every successful read, started only when clear). R6 also requires that the handler keeps no reference-typed field that could hold frame bytes and that the buffer of every fetch is freshly allocated, so a delivered message shares no storage with the framer's later work; R9 includes that the tolerance accessors of the configuration are plain projections of their settings."
	c.NotDecided = "the Go scheduler and memory model themselves; behaviour of caller-supplied consumers; races inside bufio/log; byte-level framing (C02/C03)."
	c.Assumptions = append(c.Assumptions, "callers of Handle/HandleMessagesUntilEOF do not close the channels they pass in while the pipeline runs (API contract stated in the doc comments)")
	pl := resolvePipeline(c, "C09-anchor")
	if pl == nil {
		return
	}
	ruleCloseDiscipline(c, pl, "C09-R1")
	ruleSingleSender(c, pl, "C09-R2")
	ruleFanout(c, pl, "C09-R3")
	ruleCompletion(c, pl, "C09-R4")
	ruleTerminationChain(c, pl, "C09-R5")
	ruleConfinement(c, pl, "C09-R6")
	ruleKahn(c, pl, "C09-R7")
	// R8: the reader stage forwards every byte it reads exactly once (all input chunkings)
	if read, nVal, errVal := handleRead(pl.handle); read != nil && nVal != nil && errVal != nil {
		ruleForwardOnce(c, pl, "C09-R8", read, nVal, errVal)
		// R9: gaps in the input (EOF / timeout runs) are bridged as documented, whatever their timing
		ruleTransientGaps(c, pl.handle, nVal, errVal, "C09-R9", "C09-R9")
		ruleToleranceAccessors(c, "C09-R9")
	} else {
		c.Fail("C09-R8", "Handle:read", pl.handle.Pos(), "unresolved", "the read call of Handle was not found")
	}
	// R6 (continued): a delivered message shares no storage with what the framer does afterwards
	ruleFreshFrameBuffers(c, "C09-R6")
	c.MinInstances("C09-R1", 3)
	c.MinInstances("C09-R2", 3)
	c.MinInstances("C09-R3", 4)
	c.MinInstances("C09-R4", 1)
	c.MinInstances("C09-R5", 4)
	c.MinInstances("C09-R6", 3)
	c.MinInstances("C09-R7", 1)
	c.MinInstances("C09-R8", 6)
	c.MinInstances("C09-R9", 10)
}

// ---- R1 close discipline ------------------------------------------------------

func ruleCloseDiscipline(c *Ctx, pl *pipeline, rule string) {
	P := c.P
	// enumerate all close sites in the pipeline packages
	type site struct {
		fn  *ssa.Function
		ins ssa.Instruction
	}
	var sites []site
	for _, pk := range pipelinePkgs {
		for _, fn := range P.FuncsIn(pk) {
			eachInstr(fn, func(ins ssa.Instruction) {
				if _, ok := builtinCall(ins, "close"); ok {
					sites = append(sites, site{fn, ins})
				}
			})
		}
	}
	// expected roles
	var byteChan ssa.Value // the MakeChan in Handle passed to the stream handler
	var goStream *ssa.Go
	for _, g := range goStatements(pl.handle) {
		if callTarget(g) == pl.stream {
			goStream = g
		}
	}
	if goStream == nil {
		c.Fail(rule, "Handle:go-stream-handler", pl.handle.Pos(), "unresolved", "Handle does not start the stream handler in a goroutine")
		return
	}
	if len(goStream.Call.Args) >= 2 {
		byteChan = root(goStream.Call.Args[1])
	}
	if _, ok := byteChan.(*ssa.MakeChan); !ok {
		c.Fail(rule, "Handle:byte-channel", goStream.Pos(), "unproven", "the byte channel handed to the stream handler is not a channel created in Handle")
		return
	}
	okHandle, okStream := false, false
	for _, s := range sites {
		cc, _ := builtinCall(s.ins, "close")
		switch {
		case s.fn == pl.handle:
			d, isDefer := s.ins.(*ssa.Defer)
			if isDefer && root(cc.Args[0]) == byteChan {
				// the defer must be registered on every path to every return
				dom := true
				for _, r := range returnsOf(pl.handle) {
					if !instrDominates(d, r) {
						dom = false
					}
				}
				// and registered once (not in a loop)
				inLoop := blockInLoop(d.Block())
				if dom && !inLoop {
					okHandle = true
					c.OK(rule, "Handle:deferred-close(byteChan)", s.ins.Pos(), "deferred close of the byte channel dominates every return and is registered once")
				} else {
					c.Fail(rule, "Handle:deferred-close(byteChan)", s.ins.Pos(), "refuted", "deferred close does not cover every return of Handle or is registered repeatedly")
				}
			} else {
				c.Fail(rule, "Handle:extra-close", s.ins.Pos(), "refuted", "unexpected close in Handle (only the deferred close of the byte channel is allowed)")
			}
		case s.fn == pl.stream:
			if prm, ok := root(cc.Args[0]).(*ssa.Parameter); ok && prm == pl.stream.Params[2] {
				// followed by return on all paths, not in a loop body that continues
				q := pathQuery{goal: func(i ssa.Instruction) bool {
					if _, isSend := i.(*ssa.Send); isSend {
						return true
					}
					if _, ok := builtinCall(i, "close"); ok {
						return true
					}
					return false
				}}
				if path, _ := q.search(s.ins.Block(), instrIndex(s.ins)); path != nil {
					c.Fail(rule, "HandleMessages:close-then-return", s.ins.Pos(), "refuted", "after closing the output channel the stream handler can send or close again", P.blockPath(path)...)
				} else if okStream {
					c.Fail(rule, "HandleMessages:second-close", s.ins.Pos(), "refuted", "more than one close site for the output channel")
				} else {
					okStream = true
					c.OK(rule, "HandleMessages:close-then-return", s.ins.Pos(), "single close of the output channel, no send or close reachable afterwards")
				}
			} else {
				c.Fail(rule, "HandleMessages:extra-close", s.ins.Pos(), "refuted", "stream handler closes something other than its output channel")
			}
		case s.fn == pl.pbClose:
			// exported convenience; must have no caller in the module
			callers := P.Callers(pl.pbClose)
			c.Check(len(callers) == 0, rule, "ByteChannel.Close:no-callers", s.ins.Pos(), "ByteChannel.Close is not called by any non-test module code",
				fmt.Sprintf("ByteChannel.Close is called from %d site(s): a second closer of the byte channel", len(callers)))
		default:
			c.Fail(rule, "extra-close("+P.FnKey(s.fn)+")", s.ins.Pos(), "refuted", "close of a channel in pipeline code outside the two owning stages")
		}
	}
	if !okHandle {
		c.Fail(rule, "Handle:deferred-close(byteChan):missing", pl.handle.Pos(), "refuted", "Handle has no deferred close of the byte channel: the framing goroutine never terminates")
	}
	if !okStream {
		c.Fail(rule, "HandleMessages:close:missing", pl.stream.Pos(), "refuted", "the stream handler never closes its output channel: consumers never terminate")
	}
	// the message channel created by the fan-out is closed by nobody in appcore
	// (enumerated above) and handed to exactly one stream handler
}

// blockInLoop: b lies on a CFG cycle.
func blockInLoop(b *ssa.BasicBlock) bool {
	seen := map[*ssa.BasicBlock]bool{}
	var work []*ssa.BasicBlock
	work = append(work, b.Succs...)
	for len(work) > 0 {
		x := work[len(work)-1]
		work = work[:len(work)-1]
		if x == b {
			return true
		}
		if seen[x] {
			continue
		}
		seen[x] = true
		work = append(work, x.Succs...)
	}
	return false
}

// ---- R2 single sender -----------------------------------------------------------

func ruleSingleSender(c *Ctx, pl *pipeline, rule string) {
	P := c.P
	// all Send instructions in pipeline packages
	for _, pk := range pipelinePkgs {
		for _, fn := range P.FuncsIn(pk) {
			eachInstr(fn, func(ins ssa.Instruction) {
				sd, ok := ins.(*ssa.Send)
				if !ok {
					return
				}
				switch fn {
				case pl.handle:
					// sends only on the byte channel it created
					_, isMk := root(sd.Chan).(*ssa.MakeChan)
					c.Check(isMk, rule, "Handle:send(byteChan)", ins.Pos(), "Handle sends only on the byte channel it created", "Handle sends on a foreign channel")
				case pl.stream:
					prm, _ := root(sd.Chan).(*ssa.Parameter)
					c.Check(prm != nil && prm == pl.stream.Params[2], rule, "HandleMessages:send(ch_out)", ins.Pos(), "stream handler sends only on its output parameter", "stream handler sends on another channel")
				case pl.fanout:
					// consumer channels; checked by R3
					c.OK(rule, "fanout:send(consumer)", ins.Pos(), "fan-out send (ordering checked by R3)")
				default:
					c.Fail(rule, "send("+P.FnKey(fn)+")", ins.Pos(), "refuted", "channel send in pipeline code outside the three stage functions: a second sender can reorder the stream")
				}
			})
			// no go statement inside a loop, and none at all outside the two spawn points
			for _, g := range goStatements(fn) {
				tgt := callTarget(g)
				allowed := (fn == pl.handle && tgt == pl.stream) || (fn == pl.fanout && tgt == pl.handle)
				if !allowed {
					c.Fail(rule, "go("+P.FnKey(fn)+")", g.Pos(), "refuted", "goroutine started in pipeline code other than the two stage spawns: asynchronous senders can reorder or outlive the stream")
				} else if blockInLoop(g.Block()) {
					c.Fail(rule, "go-in-loop("+P.FnKey(fn)+")", g.Pos(), "refuted", "stage goroutine started inside a loop")
				} else {
					c.OK(rule, "go("+P.FnKey(fn)+"->"+P.FnKey(tgt)+")", g.Pos(), "single stage spawn outside any loop")
				}
			}
		}
	}
}

// ---- R3 fan-out -------------------------------------------------------------------

func ruleFanout(c *Ctx, pl *pipeline, rule string) {
	P := c.P
	fn := pl.fanout
	rss := recvSites(fn)
	if len(rss) != 1 || rss[0].ok == nil {
		c.Fail(rule, "fanout:receive", fn.Pos(), "unproven", fmt.Sprintf("expected exactly one comma-ok receive in the fan-out, found %d", len(rss)))
		return
	}
	rs := rss[0]
	if _, ok := root(rs.ins.X).(*ssa.MakeChan); !ok {
		c.Fail(rule, "fanout:receive-channel", rs.ins.Pos(), "unproven", "the fan-out does not receive from the channel it created")
		return
	}
	c.OK(rule, "fanout:receive", rs.ins.Pos(), "single comma-ok receive from the channel created by the fan-out")
	// the range loop over Channels
	var sends []*ssa.Send
	eachInstr(fn, func(ins ssa.Instruction) {
		if s, ok := ins.(*ssa.Send); ok {
			sends = append(sends, s)
		}
	})
	selSend := false
	eachInstr(fn, func(ins ssa.Instruction) {
		if sel, ok := ins.(*ssa.Select); ok {
			for _, st := range sel.States {
				if st.Dir == types.SendOnly {
					selSend = true
					c.Fail(rule, "fanout:send-is-select-arm", sel.Pos(), "refuted", "the delivery to a consumer is one arm of a select: when another arm (default, timeout) wins, the message is dropped or delivered later out of order by another goroutine")
				}
			}
		}
	})
	if selSend {
		return
	}
	if len(sends) != 1 {
		c.Fail(rule, "fanout:send-count", fn.Pos(), "unproven", fmt.Sprintf("expected one send site in the fan-out loop, found %d", len(sends)))
		return
	}
	sd := sends[0]
	// value sent is the received message
	c.Check(rs.isMsg(sd.X), rule, "fanout:send-value", sd.Pos(), "the value sent is the received message", "the fan-out sends something other than the received message")
	// channel is Channels[idx] with idx the range index over Channels
	ld, _ := sd.Chan.(*ssa.UnOp)
	var ia *ssa.IndexAddr
	if ld != nil && ld.Op == token.MUL {
		ia, _ = ld.X.(*ssa.IndexAddr)
	}
	var hdr *ssa.BasicBlock
	var idx ssa.Value
	if ia != nil {
		if f, _ := loadedField(ia.X); f == pl.channelsF {
			if add, ok := ia.Index.(*ssa.BinOp); ok && add.Op == token.ADD {
				if phi, ok := add.X.(*ssa.Phi); ok && strings.Contains(phi.Comment, "rangeindex") {
					if one, ok := constInt(add.Y); ok && one == 1 {
						// init -1
						initOK := false
						for _, e := range phi.Edges {
							if n, ok := constInt(e); ok && n == -1 {
								initOK = true
							}
						}
						if ifi, ok := lastInstr(phi.Block()).(*ssa.If); ok && initOK {
							if cmp, ok := ifi.Cond.(*ssa.BinOp); ok && cmp.Op == token.LSS && cmp.X == ssa.Value(add) {
								if ln, ok := cmp.Y.(*ssa.Call); ok {
									if b, ok := ln.Call.Value.(*ssa.Builtin); ok && b.Name() == "len" {
										if f2, _ := loadedField(ln.Call.Args[0]); f2 == pl.channelsF {
											hdr = phi.Block()
											idx = add
										}
									}
								}
							}
						}
					}
				}
			}
		}
	}
	// the counted form: for i := 0; i < len(Channels); i++ (the length possibly taken once before the loop)
	if hdr == nil && ia != nil {
		if f, _ := loadedField(ia.X); f == pl.channelsF {
			if phi, ok := ia.Index.(*ssa.Phi); ok && len(phi.Edges) == 2 {
				zero, inc := false, false
				for _, e := range phi.Edges {
					if n, ok := constInt(e); ok && n == 0 {
						zero = true
					}
					if add, ok := e.(*ssa.BinOp); ok && add.Op == token.ADD && add.X == ssa.Value(phi) {
						if one, ok := constInt(add.Y); ok && one == 1 {
							inc = true
						}
					}
				}
				if ifi, ok := lastInstr(phi.Block()).(*ssa.If); ok && zero && inc {
					if cmp, ok := ifi.Cond.(*ssa.BinOp); ok && cmp.Op == token.LSS && cmp.X == ssa.Value(phi) {
						if ln, ok := cmp.Y.(*ssa.Call); ok {
							if b, ok := ln.Call.Value.(*ssa.Builtin); ok && b.Name() == "len" {
								if f2, _ := loadedField(ln.Call.Args[0]); f2 == pl.channelsF {
									hdr = phi.Block()
									idx = phi
								}
							}
						}
					}
				}
			}
		}
	}
	if hdr == nil {
		c.Fail(rule, "fanout:index-order", sd.Pos(), "unproven", "the send is not to Channels[i] inside a `for i := range Channels` loop (ascending index order over the whole list)")
		return
	}
	c.OK(rule, "fanout:index-order", sd.Pos(), "send to Channels[i] in a range loop over the whole Channels list (ascending)")
	// in the body every path to the back edge passes the send unless Channels[i] == nil
	body := hdr.Succs[0]
	nilSkip := func(a, b *ssa.BasicBlock) bool {
		ifi, ok := lastInstr(a).(*ssa.If)
		if !ok {
			return true
		}
		cmp, ok := ifi.Cond.(*ssa.BinOp)
		if !ok {
			return true
		}
		isElem := func(v ssa.Value) bool {
			u, ok := v.(*ssa.UnOp)
			if !ok || u.Op != token.MUL {
				return false
			}
			x, ok := u.X.(*ssa.IndexAddr)
			if !ok || x.Index != idx {
				return false
			}
			f, _ := loadedField(x.X)
			return f == pl.channelsF
		}
		if (isElem(cmp.X) && isNilConst(cmp.Y)) || (isElem(cmp.Y) && isNilConst(cmp.X)) {
			// prune the "is nil" edge
			if cmp.Op == token.NEQ && b == a.Succs[1] && a.Succs[0] != a.Succs[1] {
				return false
			}
			if cmp.Op == token.EQL && b == a.Succs[0] && a.Succs[0] != a.Succs[1] {
				return false
			}
		}
		return true
	}
	isSend := func(i ssa.Instruction) bool { return i == ssa.Instruction(sd) }
	first := body.Instrs[0]
	q := pathQuery{avoid: isSend, goal: func(i ssa.Instruction) bool { return i.Block() == hdr || isReturn(i) || i == ssa.Instruction(rs.ins) }, edgeOK: nilSkip}
	// search from the start of body: emulate by a query from (body, -1)
	if path, _ := q.search(body, -1); path != nil && !isSend(first) {
		c.Fail(rule, "fanout:send-to-every-consumer", sd.Pos(), "refuted", "a non-nil consumer channel can be skipped for some message", P.blockPath(path)...)
	} else {
		c.OK(rule, "fanout:send-to-every-consumer", sd.Pos(), "every path through the loop body sends unless Channels[i] is nil")
	}
	// from the receive (channel open), every path to the next receive passes the loop header;
	// the only other exits are returns (stop message / closed channel)
	passHdr := func(i ssa.Instruction) bool { return i.Block() == hdr }
	if path, _ := mustPass(rs.ins, passHdr, func(i ssa.Instruction) bool { return i == ssa.Instruction(rs.ins) }, nil); path != nil {
		c.Fail(rule, "fanout:before-next-receive", rs.ins.Pos(), "refuted", "the next message can be received without fanning out the previous one", P.blockPath(path)...)
	} else {
		c.OK(rule, "fanout:before-next-receive", rs.ins.Pos(), "every path from a receive to the next receive passes the fan-out loop")
	}
	// sends are synchronous: not inside a goroutine (checked by R2: no go in fanout besides the stage spawn)
}

// ---- R4 completion ------------------------------------------------------------------

func ruleCompletion(c *Ctx, pl *pipeline, rule string) {
	fn := pl.fanout
	rss := recvSites(fn)
	if len(rss) != 1 || rss[0].ok == nil {
		c.Fail(rule, "fanout:receive", fn.Pos(), "unproven", "no unique comma-ok receive")
		return
	}
	rs := rss[0]
	n := 0
	for _, r := range returnsOf(fn) {
		v, isC := constInt(r.Results[0])
		if isC && v == 1 {
			// test-only stop path: guarded by a comparison of the message type with a value that no
			// frame can carry (outside the 12-bit domain 0..4095)
			sentinel := false
			for _, f := range dominatingFacts(r.Block()) {
				bo, ok := f.Cond.(*ssa.BinOp)
				if !ok || !((bo.Op == token.EQL && f.Val) || (bo.Op == token.NEQ && !f.Val)) {
					continue
				}
				x, y := bo.X, bo.Y
				if _, isK := constInt(x); isK {
					x, y = y, x
				}
				k, isK := constInt(y)
				if fv, _ := loadedField(x); isK && fv != nil && fv.Name() == "MessageType" && (k < 0 || k > 4095) {
					sentinel = true
				}
			}
			c.Check(sentinel, rule, "fanout:stop-sentinel", r.Pos(), "the stop path is taken only for a message type outside 0..4095 (no frame can carry it)",
				"the fan-out stops for a message type that a real frame can carry: that frame and everything after it are never delivered")
			continue
		}
		n++
		c.Check(rs.dominatedByClosed(r.Block()), rule, "fanout:return-after-close", r.Pos(), "normal return only on the closed-channel edge of the receive",
			"the fan-out can return while its input channel is still open: messages are lost and the producer blocks")
	}
	if n == 0 {
		c.Fail(rule, "fanout:return-after-close", fn.Pos(), "unproven", "no normal return found")
	}
}

// ---- R5 termination chain --------------------------------------------------------------

func ruleTerminationChain(c *Ctx, pl *pipeline, rule string) {
	P := c.P
	// (a) stream handler: every return is preceded by the close of the output
	rets := returnsOf(pl.stream)
	for _, r := range rets {
		closed := false
		eachInstr(pl.stream, func(ins ssa.Instruction) {
			if _, ok := builtinCall(ins, "close"); ok && instrDominates(ins, r) {
				closed = true
			}
		})
		c.Check(closed, rule, "HandleMessages:return-after-close", r.Pos(), "return dominated by the close of the output channel",
			"the stream handler can return without closing its output channel")
	}
	// (b) the stream handler leaves its loop only on the "done" error
	for _, r := range rets {
		okDone := false
		for _, f := range dominatingFacts(r.Block()) {
			if isErrorTextEquals(f.Cond, "done") && f.Val {
				okDone = true
			}
		}
		c.Check(okDone, rule, "HandleMessages:exit-on-done", r.Pos(), "return guarded by err.Error()==\"done\"",
			"the stream handler can stop for a reason other than the end of its input")
	}
	// (c) L-done: the "done" error originates only in the push-back reader on a closed channel
	doneSites := 0
	for _, fn := range P.ModFuncs() {
		if !inPkgs(P, fn, pipelinePkgs) {
			continue
		}
		eachInstr(fn, func(ins ssa.Instruction) {
			if !producesDoneError(P, fn, ins) {
				return
			}
			doneSites++
			if fn != pl.pbGet {
				c.Fail(rule, "done-error("+P.FnKey(fn)+")", ins.Pos(), "refuted", "a \"done\" error is created outside the push-back reader: the stream can be cut short while input remains")
				return
			}
			rss := recvSites(fn)
			ok2 := len(rss) == 1 && rss[0].ok != nil && rss[0].dominatedByClosed(ins.Block())
			c.Check(ok2, rule, "L-done:closed-channel-only", ins.Pos(), "\"done\" is produced only on the closed-channel edge of the byte receive",
				"\"done\" can be produced while the byte channel is still open")
		})
	}
	if doneSites == 0 {
		c.Fail(rule, "L-done:site", pl.pbGet.Pos(), "unresolved", "no errors.New(\"done\") site found")
	}
	// (d) Handle: the read loop is left only by return
	loopExitOK := true
	for _, b := range pl.handle.Blocks {
		if _, ok := lastInstr(b).(*ssa.Return); ok {
			continue
		}
		if len(b.Succs) == 0 {
			// panic etc.
			loopExitOK = false
		}
	}
	c.Check(loopExitOK, rule, "Handle:exits-are-returns", pl.handle.Pos(), "every exit of Handle is a return (the deferred close runs)", "Handle has a non-return exit")
}

func inPkgs(P *Prog, fn *ssa.Function, pkgs []string) bool {
	rootFn := fn
	for rootFn.Parent() != nil {
		rootFn = rootFn.Parent()
	}
	if rootFn.Pkg == nil {
		return false
	}
	r := rel(rootFn.Pkg.Pkg.Path())
	for _, p := range pkgs {
		if p == r {
			return true
		}
	}
	return false
}

// isErrorTextEquals: cond is `x.Error() == "text"` (either operand order), or
// a phi produced by `err != nil && err.Error() == "text"`.
func isErrorTextEquals(cond ssa.Value, text string) bool {
	switch x := cond.(type) {
	case *ssa.BinOp:
		if x.Op != token.EQL {
			return false
		}
		a, b := x.X, x.Y
		if s, ok := constString(a); ok && s == text {
			a, b = b, a
		}
		if s, ok := constString(b); !ok || s != text {
			return false
		}
		call, ok := a.(*ssa.Call)
		return ok && call.Call.IsInvoke() && call.Call.Method.Name() == "Error"
	case *ssa.Phi:
		// short-circuit &&: [false, <cmp>]
		found := false
		for _, e := range x.Edges {
			if b, ok := constBool(e); ok {
				if b {
					return false
				}
				continue
			}
			if isErrorTextEquals(e, text) {
				found = true
			} else {
				return false
			}
		}
		return found
	}
	return false
}

// ---- R6 confinement ------------------------------------------------------------------------

func ruleConfinement(c *Ctx, pl *pipeline, rule string) {
	P := c.P
	// (a) move semantics at the two stage spawns
	for _, sp := range []struct {
		fn  *ssa.Function
		tgt *ssa.Function
	}{{pl.handle, pl.stream}, {pl.fanout, pl.handle}} {
		for _, g := range goStatements(sp.fn) {
			if callTarget(g) != sp.tgt {
				continue
			}
			for i, a := range g.Call.Args {
				t := a.Type().Underlying()
				switch t.(type) {
				case *types.Pointer, *types.Slice, *types.Map, *types.Interface:
				default:
					continue
				}
				ra := root(a)
				// uses after the go statement in the spawner
				used := false
				var at ssa.Instruction
				q := pathQuery{goal: func(i ssa.Instruction) bool {
					if i == ssa.Instruction(g) {
						return false
					}
					var ops []*ssa.Value
					for _, op := range i.Operands(ops) {
						if op != nil && *op != nil && (root(*op) == ra || (fieldKey(*op) != "" && fieldKey(*op) == fieldKey(a))) {
							return true
						}
					}
					return false
				}}
				if path, ins := q.search(g.Block(), instrIndex(g)); path != nil {
					used, at = true, ins
				}
				name := fmt.Sprintf("%s:go-arg%d", P.FnKey(sp.fn), i)
				if used {
					c.Fail(rule, "moved("+name+")", at.Pos(), "refuted", "an object handed to the stage goroutine is used by the spawner afterwards (shared mutable state across goroutines)")
				} else {
					c.OK(rule, "moved("+name+")", g.Pos(), "pointer-like operand of the go statement is not used by the spawner afterwards")
				}
			}
		}
	}
	// (b) no package-level variable is written by code reachable from the stages (outside init)
	reach := P.ReachableModule([]*ssa.Function{pl.handle, pl.stream, pl.fanout})
	n := 0
	for fn := range reach {
		if isInitFn(fn) {
			continue
		}
		eachInstr(fn, func(ins ssa.Instruction) {
			switch x := ins.(type) {
			case *ssa.Store:
				if g, ok := x.Addr.(*ssa.Global); ok {
					n++
					c.Fail(rule, "global-write("+g.Name()+" in "+P.FnKey(fn)+")", ins.Pos(), "refuted", "pipeline code writes package-level variable "+g.Name())
				}
			case *ssa.MapUpdate:
				if g := loadOfGlobal(x.Map); g != nil {
					n++
					c.Fail(rule, "global-map-write("+g.Name()+" in "+P.FnKey(fn)+")", ins.Pos(), "refuted", "pipeline code updates package-level map "+g.Name())
				}
			}
		})
	}
	if n == 0 {
		c.OK(rule, "no-global-writes", pl.handle.Pos(), fmt.Sprintf("%d functions reachable from the three stages write no package-level variable", len(reach)))
	}
}

// ---- R7 Kahn determinism -----------------------------------------------------------------------

func ruleKahn(c *Ctx, pl *pipeline, rule string) {
	P := c.P
	reach := P.ReachableModule([]*ssa.Function{pl.stream})
	bad := 0
	for fn := range reach {
		eachInstr(fn, func(ins ssa.Instruction) {
			switch x := ins.(type) {
			case *ssa.Select:
				bad++
				c.Fail(rule, "select("+P.FnKey(fn)+")", ins.Pos(), "refuted", "select in the framing stage: output may depend on timing")
			case *ssa.Go:
				bad++
				c.Fail(rule, "go("+P.FnKey(fn)+")", ins.Pos(), "refuted", "goroutine started in the framing stage")
			case *ssa.Call:
				if f := x.Call.StaticCallee(); f != nil && f.Object() != nil && f.Object().Pkg() != nil && f.Object().Pkg().Path() == "time" {
					switch f.Name() {
					case "After", "Tick", "NewTimer", "NewTicker", "AfterFunc":
						bad++
						c.Fail(rule, "timer("+P.FnKey(fn)+")", ins.Pos(), "refuted", "timer channel in the framing stage: output may depend on timing")
					}
				}
				if b, ok := x.Call.Value.(*ssa.Builtin); ok && (b.Name() == "len" || b.Name() == "cap") && len(x.Call.Args) == 1 {
					if _, isChan := x.Call.Args[0].Type().Underlying().(*types.Chan); isChan {
						bad++
						c.Fail(rule, "chan-len("+P.FnKey(fn)+")", ins.Pos(), "refuted", "len/cap of a channel in the framing stage: output may depend on buffering")
					}
				}
			case *ssa.UnOp:
				if x.Op == token.MUL {
					if g, ok := x.X.(*ssa.Global); ok {
						// reads of package variables are allowed only for init-only data
						if !globalIsInitOnly(P, g) {
							bad++
							c.Fail(rule, "global-read("+g.Name()+" in "+P.FnKey(fn)+")", ins.Pos(), "refuted", "framing stage reads a package variable that is written outside init")
						}
					}
				}
			}
		})
	}
	if bad == 0 {
		c.OK(rule, "framing-stage-is-sequential", pl.stream.Pos(), fmt.Sprintf("%d functions reachable from the stream handler contain no select, go, clock access, channel len/cap, or mutable package state", len(reach)))
	}
}

// globalIsInitOnly: every store to g (and every update of the map it holds)
// in module code happens in an init function.
func globalIsInitOnly(P *Prog, g *ssa.Global) bool {
	ok := true
	for _, fn := range P.ModFuncs() {
		if isInitFn(fn) {
			continue
		}
		eachInstr(fn, func(ins ssa.Instruction) {
			switch x := ins.(type) {
			case *ssa.Store:
				if x.Addr == ssa.Value(g) {
					ok = false
				}
			case *ssa.MapUpdate:
				if loadOfGlobal(x.Map) == g {
					ok = false
				}
			}
		})
	}
	return ok
}

// ruleStreamClose: the stream handler's side of the close discipline (C02):
// exactly one close of its output parameter, nothing sent or closed afterwards.
func ruleStreamClose(c *Ctx, pl *pipeline, rule string) {
	P := c.P
	n := 0
	eachInstr(pl.stream, func(ins ssa.Instruction) {
		cc, ok := builtinCall(ins, "close")
		if !ok {
			return
		}
		n++
		prm, _ := root(cc.Args[0]).(*ssa.Parameter)
		if prm == nil || prm != pl.stream.Params[2] {
			c.Fail(rule, "HandleMessages:extra-close", ins.Pos(), "refuted", "the stream handler closes something other than its output channel")
			return
		}
		q := pathQuery{goal: func(i ssa.Instruction) bool {
			if _, isSend := i.(*ssa.Send); isSend {
				return true
			}
			_, isClose := builtinCall(i, "close")
			return isClose
		}}
		if path, _ := q.search(ins.Block(), instrIndex(ins)); path != nil {
			c.Fail(rule, "HandleMessages:close-then-return", ins.Pos(), "refuted", "after closing the output channel the stream handler can send or close again", P.blockPath(path)...)
		} else {
			c.OK(rule, "HandleMessages:close-then-return", ins.Pos(), "single close of the output channel, no send or close reachable afterwards")
		}
	})
	if n != 1 {
		c.Fail(rule, "HandleMessages:close-count", pl.stream.Pos(), "refuted", fmt.Sprintf("expected exactly one close site of the output channel in the stream handler, found %d", n))
	}
	// no other function of the framing packages closes a channel the stream handler owns
	for _, pk := range []string{"rtcm/handler"} {
		for _, fn := range P.FuncsIn(pk) {
			if fn == pl.stream {
				continue
			}
			eachInstr(fn, func(ins ssa.Instruction) {
				if _, ok := builtinCall(ins, "close"); ok {
					c.Fail(rule, "extra-close("+P.FnKey(fn)+")", ins.Pos(), "refuted", "a channel is closed in framing code outside the stream handler")
				}
			})
		}
	}
}

// ruleStreamTermination: the stream handler returns only after closing its
// output, only on "done", and "done" arises only from a closed input channel.
func ruleStreamTermination(c *Ctx, pl *pipeline, rule string) {
	P := c.P
	for _, r := range returnsOf(pl.stream) {
		closed := false
		eachInstr(pl.stream, func(ins ssa.Instruction) {
			if _, ok := builtinCall(ins, "close"); ok && instrDominates(ins, r) {
				closed = true
			}
		})
		c.Check(closed, rule, "HandleMessages:return-after-close", r.Pos(), "return dominated by the close of the output channel", "the stream handler can return without closing its output channel")
		okDone := false
		for _, f := range dominatingFacts(r.Block()) {
			if isErrorTextEquals(f.Cond, "done") && f.Val {
				okDone = true
			}
		}
		c.Check(okDone, rule, "HandleMessages:exit-on-done", r.Pos(), "return guarded by err.Error()==\"done\"", "the stream handler can stop for a reason other than the end of its input")
	}
	doneSites := 0
	for _, fn := range P.ModFuncs() {
		if !inPkgs(P, fn, []string{"rtcm/handler", "rtcm/pushback"}) {
			continue
		}
		eachInstr(fn, func(ins ssa.Instruction) {
			if !producesDoneError(P, fn, ins) {
				return
			}
			doneSites++
			if fn != pl.pbGet {
				c.Fail(rule, "done-error("+P.FnKey(fn)+")", ins.Pos(), "refuted", "a \"done\" error is created outside the push-back reader: the stream can be cut short while input remains")
				return
			}
			rss := recvSites(fn)
			ok2 := len(rss) == 1 && rss[0].ok != nil && rss[0].dominatedByClosed(ins.Block())
			c.Check(ok2, rule, "L-done:closed-channel-only", ins.Pos(), "\"done\" is produced only on the closed-channel edge of the byte receive", "\"done\" can be produced while the byte channel is still open")
		})
	}
	if doneSites == 0 {
		c.Fail(rule, "L-done:site", pl.pbGet.Pos(), "unresolved", "no errors.New(\"done\") site found")
	}
}

// producesDoneError: ins brings a "done" error into being at run time: a call errors.New("done") outside
// package initialisation, or a load of a package-level sentinel that initialisation assigned
// errors.New("done") (and nothing else assigns).
func producesDoneError(P *Prog, fn *ssa.Function, ins ssa.Instruction) bool {
	isDoneNew := func(v ssa.Value) bool {
		call, ok := v.(*ssa.Call)
		if !ok || !calleeIs(call.Call.StaticCallee(), "errors", "New") {
			return false
		}
		s, ok := constString(call.Call.Args[0])
		return ok && s == "done"
	}
	if v, ok := ins.(ssa.Value); ok && isDoneNew(v) {
		return !isInitFn(fn)
	}
	ld, ok := ins.(*ssa.UnOp)
	if !ok || ld.Op != token.MUL {
		return false
	}
	g, ok := ld.X.(*ssa.Global)
	if !ok || g.Pkg == nil {
		return false
	}
	in := g.Pkg.Func("init")
	if in == nil {
		return false
	}
	sentinel, stores := false, 0
	check := func(f *ssa.Function) {
		eachInstr(f, func(i2 ssa.Instruction) {
			if st, ok := i2.(*ssa.Store); ok && st.Addr == ssa.Value(g) {
				stores++
				if f == in && isDoneNew(st.Val) {
					sentinel = true
				}
			}
		})
	}
	check(in)
	for _, f := range P.ModFuncs() {
		if f != in {
			check(f)
		}
	}
	return sentinel && stores == 1
}
