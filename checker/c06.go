package main

// C06 — MSM timestamps to UTC across rollovers: structural necessary
// conditions of the week bookkeeping.

import (
	"fmt"
	"go/constant"
	"go/token"
	"go/types"
	"strings"

	"golang.org/x/tools/go/ssa"
)

// paramMutators computes, for named struct type T, the set of (function,
// parameter index) pairs through which a field of *T may be stored to,
// directly or through calls inside the module.
func paramMutators(P *Prog, T *types.Named) map[*ssa.Function]map[int]bool {
	isPtrT := func(t types.Type) bool {
		pt, ok := t.Underlying().(*types.Pointer)
		return ok && types.Identical(pt.Elem(), T)
	}
	mut := map[*ssa.Function]map[int]bool{}
	set := func(f *ssa.Function, i int) bool {
		if mut[f] == nil {
			mut[f] = map[int]bool{}
		}
		if mut[f][i] {
			return false
		}
		mut[f][i] = true
		return true
	}
	paramIndex := func(fn *ssa.Function, v ssa.Value) int {
		r := root(v)
		for i, p := range fn.Params {
			if ssa.Value(p) == r && isPtrT(p.Type()) {
				return i
			}
		}
		return -1
	}
	changed := true
	for changed {
		changed = false
		for _, fn := range P.ModFuncs() {
			eachInstr(fn, func(ins ssa.Instruction) {
				switch x := ins.(type) {
				case *ssa.Store:
					if fa, ok := x.Addr.(*ssa.FieldAddr); ok {
						if i := paramIndex(fn, fa.X); i >= 0 && set(fn, i) {
							changed = true
						}
					}
				case ssa.CallInstruction:
					callee := x.Common().StaticCallee()
					if callee == nil || mut[callee] == nil {
						return
					}
					for j, a := range x.Common().Args {
						if mut[callee][j] {
							if i := paramIndex(fn, a); i >= 0 && set(fn, i) {
								changed = true
							}
						}
					}
				}
			})
		}
	}
	return mut
}

// copyAlloc: a is a local holding a *copy* of a T value (initialised from a
// by-value parameter / receiver or from a load through a pointer), as opposed
// to a freshly constructed object.
func copyAlloc(a *ssa.Alloc) (bool, string) {
	for _, r := range referrers(a) {
		st, ok := r.(*ssa.Store)
		if !ok || st.Addr != ssa.Value(a) {
			continue
		}
		switch v := st.Val.(type) {
		case *ssa.Parameter:
			return true, "by-value parameter/receiver " + v.Name()
		case *ssa.UnOp:
			if v.Op == token.MUL {
				return true, "copy of *" + v.X.Name()
			}
		}
	}
	return false, ""
}

// ruleStateOnlyForVerifiedFrames: in the single-frame decoder every call that
// can change the Handler's week state is made only after the CRC check has
// succeeded (a rejected or corrupted frame must not disturb later times).
func ruleStateOnlyForVerifiedFrames(c *Ctx, rule string) {
	P := c.P
	H := P.Named("rtcm/handler", "Handler")
	getMsg := P.Func("rtcm/handler", "(*Handler).GetMessage")
	crc := P.Func("rtcm/handler", "CheckCRC")
	if H == nil || getMsg == nil || crc == nil {
		c.Unresolved(rule, "rtcm/handler Handler / GetMessage / CheckCRC")
		return
	}
	mut := paramMutators(P, H)
	n := 0
	eachInstr(getMsg, func(ins ssa.Instruction) {
		ci, ok := ins.(ssa.CallInstruction)
		if !ok {
			return
		}
		callee := ci.Common().StaticCallee()
		if callee == nil || len(mut[callee]) == 0 {
			return
		}
		n++
		verified := false
		for _, ft := range dominatingFacts(ins.Block()) {
			bo, ok := ft.Cond.(*ssa.BinOp)
			if !ok || (bo.Op != token.EQL && bo.Op != token.NEQ) {
				continue
			}
			x, y := bo.X, bo.Y
			if isNilConst(x) {
				x, y = y, x
			}
			call, isCall := x.(*ssa.Call)
			if !isCall || !isNilConst(y) || call.Call.StaticCallee() != crc {
				continue
			}
			if (bo.Op == token.EQL) == ft.Val {
				verified = true
			}
		}
		c.Check(verified, rule, "state-change-after-crc("+callee.Name()+")", ins.Pos(), "the week state can change only for a frame whose CRC has been verified",
			"the decoder calls "+callee.Name()+", which updates the handler's week state, on a path where the CRC check has not succeeded: a corrupted or rejected frame shifts the times of later messages")
	})
	if n == 0 {
		c.Fail(rule, "state-change-after-crc", getMsg.Pos(), "unresolved", "the decoder makes no call that updates the handler's week state")
	}
	// the week state is stored nowhere else: only the constructor and the four converters (each on its
	// own success path, S2/S4) assign the start-of-week and remembered-timestamp fields.  A reset "to
	// be safe" in the decoder (after a CRC failure, after a conversion error) hides a rollover.
	allowed := map[*ssa.Function]bool{}
	for _, n := range []string{"New", "(*Handler).getUTCFromGPSTime", "(*Handler).getUTCFromGalileoTime", "(*Handler).getUTCFromBeidouTime", "(*Handler).getUTCFromGlonassTime"} {
		if f := P.Func("rtcm/handler", n); f != nil {
			allowed[f] = true
		}
	}
	stray := false
	for _, g := range P.ModFuncs() {
		if allowed[g] {
			continue
		}
		eachInstr(g, func(ins ssa.Instruction) {
			st, ok := ins.(*ssa.Store)
			if !ok {
				return
			}
			fa, ok := st.Addr.(*ssa.FieldAddr)
			if !ok {
				return
			}
			pt, ok := fa.X.Type().Underlying().(*types.Pointer)
			if !ok || !types.Identical(pt.Elem(), H) {
				return
			}
			f, _ := fieldOf(fa)
			if f == nil {
				return
			}
			l := strings.ToLower(f.Name())
			for _, k := range []string{"gps", "glonass", "galileo", "beidou"} {
				if strings.Contains(l, k) {
					stray = true
					c.Fail(rule, "week-state-written-only-by-converters("+P.FnKey(g)+" "+f.Name()+")", ins.Pos(), "refuted", P.FnKey(g)+" assigns the handler's week state ("+f.Name()+") outside the converters: a reset or adjustment there can hide or invent a week rollover")
					return
				}
			}
		})
	}
	if !stray {
		c.OK(rule, "week-state-written-only-by-converters", getMsg.Pos(), "only New and the four converters store the week-state fields")
	}
}

func checkC06(c *Ctx) {
	c.Explanation = "Decides structural necessary conditions of the week bookkeeping: (S1) state persistence — on every call path from the single-frame decoder to a store into a Handler time field the Handler travels by pointer; no local copy of a Handler (value receiver / by-value parameter / dereferenced copy) has its address handed to a function that mutates Handler fields, so no rollover update is lost; (S2) constellation separation — each converter reads and writes only the Handler fields of its own constellation; (S3) the message-type dispatch tables of the time converter and of the start-of-week lookup map {1074,1077}->GPS, {1084,1087}->Glonass, {1094,1097}->Galileo, {1124,1127}->Beidou and agree with each other (complete type domain); (S4) no Handler state is written on a path that returns a range error; (S5) the week advances only under a strict comparison (previous > current; Glonass day < previous day) and by exactly AddDate(0,0,7); (S6) the offset and limit constants have the required values (-18 s, -4 s, -3 h, 7*86400000-1, 6<<27+86400000-1, day shift 27, 24 h limit with >=), range checks use the required operators, times are week start + timestamp milliseconds, and the start-of-week display is computed after the conversion. (S8) every successful conversion replaces the remembered timestamp (day) of its constellation, unconditionally. (S9) nothing reachable from the handler constructor or the single-frame decoder reads the machine's clock (time.Now/Since/Until): the reported times depend on the start time and the frames only. (S10) the stream path hands on the single-frame decoder's message and error unchanged (rules of C01-R7), so a range error reported by the decoder is what the consumer sees. (S11) the bit read that yields Message.Timestamp lies inside the message body: position + width <= 24 + 8*declared length follows from the guards that dominate it (linear entailment)."
	c.NotDecided = "calendar arithmetic of time.Time; that the structural conditions are sufficient for every interleaving (numerical end-to-end equality is outside static analysis); the initial week derived from the start time (C17)."
	P := c.P
	H := P.Named("rtcm/handler", "Handler")
	if H == nil {
		c.Unresolved("C06-anchor", "rtcm/handler.Handler")
		return
	}
	getMsg := P.Func("rtcm/handler", "(*Handler).GetMessage")
	if getMsg == nil {
		c.Unresolved("C06-anchor", "rtcm/handler.(*Handler).GetMessage")
		return
	}
	// ---- S9 no dependence on the wall clock
	if hnew := P.Func("rtcm/handler", "New"); hnew != nil {
		ruleWallClockFree(c, "C06-S9", []*ssa.Function{hnew, getMsg})
	} else {
		c.Unresolved("C06-anchor", "rtcm/handler.New")
	}
	// ---- S10 what the decoder reports (a time, or the range error) is what the stream delivers: the
	// C01-R7 rules (typed messages and their errors reach the stream only as the decoder's result)
	if f := newFraming(c, "C06-S10"); f != nil {
		conservationRules(f, "C06-S10", consOpts{returns: true, fetchO: fetchOpts{leaderOK: true, skipPairing: true}})
	}
	// ---- S11 the timestamp is read from the message body: at the bit read whose result becomes
	// Message.Timestamp, position + width <= 24 + 8 * (declared message length) is entailed by the
	// guards in force there (otherwise bits of the CRC are taken for a time, and stored as history)
	ruleTimestampInsideBody(c, "C06-S11", getMsg)
	// ---- S1 lost update
	mut := paramMutators(P, H)
	nMut := 0
	for _, m := range mut {
		nMut += len(m)
	}
	sites := 0
	for _, fn := range P.ModFuncs() {
		eachInstr(fn, func(ins ssa.Instruction) {
			ci, ok := ins.(ssa.CallInstruction)
			if !ok {
				return
			}
			callee := ci.Common().StaticCallee()
			if callee == nil || mut[callee] == nil {
				return
			}
			for j, a := range ci.Common().Args {
				if !mut[callee][j] {
					continue
				}
				sites++
				key := fmt.Sprintf("%s->%s#%d", P.FnKey(fn), P.FnKey(callee), j)
				al, isAlloc := root(a).(*ssa.Alloc)
				if !isAlloc {
					if al2, ok := a.(*ssa.Alloc); ok {
						al, isAlloc = al2, true
					}
				}
				if isAlloc {
					if isCopy, how := copyAlloc(al); isCopy {
						c.Fail("C06-S1", "lost-update("+key+")", ins.Pos(), "refuted",
							"the address of a local copy of Handler ("+how+") is passed to "+callee.Name()+", which updates Handler time state: the update is made to the copy and lost")
						continue
					}
				}
				c.OK("C06-S1", "by-pointer("+key+")", ins.Pos(), "the Handler reaches the mutator by pointer to the original object")
			}
		})
	}
	// by-value receivers/parameters of type Handler anywhere on the path are suspicious only when they mutate (covered above)
	if sites == 0 || nMut == 0 {
		c.Fail("C06-S1", "mutators", getMsg.Pos(), "unresolved", "no function storing into Handler fields found")
	}
	// the decoder itself must reach a mutator (otherwise rollover state is never kept)
	reach := P.ReachableModule([]*ssa.Function{getMsg})
	reachesMut := false
	for f := range mut {
		if reach[f] && f != getMsg {
			reachesMut = true
		}
	}
	c.Check(reachesMut, "C06-S1", "decoder-reaches-state", getMsg.Pos(), "the single-frame decoder reaches the functions that keep the week state", "the single-frame decoder does not reach any week-state update")

	// ---- S3 dispatch tables
	or, err := loadClassOracle(c.Verifdir)
	if err != nil {
		c.Fail("C06-S3", "oracle", token.NoPos, "unresolved", err.Error())
		return
	}
	T := NewTables(P)
	checkTimeDispatch(c, T, or, "C06-S3")

	// ---- converters by role: callees of the time dispatcher
	disp, _ := P.Method("rtcm/handler", "Handler", "getTimeFromTimeStamp")
	conv := map[string]*ssa.Function{}
	if disp != nil {
		eachInstr(disp, func(ins ssa.Instruction) {
			f := staticCallee(ins)
			if f == nil || !P.InModule(f) || f.Signature.Recv() == nil {
				return
			}
			for _, k := range []string{"GPS", "Glonass", "Galileo", "Beidou"} {
				if strings.Contains(strings.ToLower(f.Name()), strings.ToLower(k)) {
					conv[k] = f
				}
			}
		})
	}
	if len(conv) != 4 {
		c.Fail("C06-S2", "converters", getMsg.Pos(), "unresolved", fmt.Sprintf("expected four constellation converters called by the time dispatcher, found %d", len(conv)))
		return
	}
	hst := H.Underlying().(*types.Struct)
	fieldConst := func(f *types.Var) string {
		l := strings.ToLower(f.Name())
		for _, k := range []string{"GPS", "Glonass", "Galileo", "Beidou"} {
			if strings.Contains(l, strings.ToLower(k)) {
				return k
			}
		}
		return ""
	}
	_ = hst
	// ---- S2 separation, S4 no state write on error
	for _, k := range []string{"GPS", "Galileo", "Glonass", "Beidou"} {
		fn := conv[k]
		reads, writes := 0, 0
		eachInstr(fn, func(ins ssa.Instruction) {
			fa, ok := ins.(*ssa.FieldAddr)
			if !ok {
				return
			}
			f, _ := fieldOf(fa)
			if f == nil || f.Pkg() == nil || !types.Identical(fa.X.Type().Underlying().(*types.Pointer).Elem(), H) {
				return
			}
			fk := fieldConst(f)
			if fk == "" {
				return // logLevel etc.
			}
			var stores []*ssa.Store
			loads := 0
			for _, r := range referrers(fa) {
				if st, ok := r.(*ssa.Store); ok && st.Addr == ssa.Value(fa) {
					stores = append(stores, st)
				} else if _, isDbg := r.(*ssa.DebugRef); !isDbg {
					loads++
				}
			}
			// one address value may serve a read and a write (a pointer local bound to the field)
			var kinds []string
			if loads > 0 || len(stores) == 0 {
				kinds = append(kinds, "reads")
				reads++
			}
			if len(stores) > 0 {
				kinds = append(kinds, "writes")
				writes++
			}
			for _, kind := range kinds {
				c.Check(fk == k, "C06-S2", fmt.Sprintf("separation(%s %s %s)", k, kind, f.Name()), ins.Pos(),
					k+" converter touches only "+k+" state", fmt.Sprintf("the %s converter %s the %s field %s: constellations share or mix week state", k, kind, fk, f.Name()))
			}
			for _, st := range stores {
				// S4: no error return reachable after the store
				// error values known to be nil where the store happens (`if err == nil { store }
				// return t, err`): returning one of them afterwards is not an error return
				knownNil := map[ssa.Value]bool{}
				for _, ft := range dominatingFacts(st.Block()) {
					if b, ok := ft.Cond.(*ssa.BinOp); ok && (b.Op == token.NEQ || b.Op == token.EQL) {
						var ev ssa.Value
						if isNilConst(b.Y) && isErrorType(b.X.Type()) {
							ev = b.X
						} else if isNilConst(b.X) && isErrorType(b.Y.Type()) {
							ev = b.Y
						}
						if ev != nil && ((b.Op == token.EQL && ft.Val) || (b.Op == token.NEQ && !ft.Val)) {
							knownNil[ev] = true
						}
					}
				}
				q := pathQuery{goal: func(i ssa.Instruction) bool {
					r, ok := i.(*ssa.Return)
					if !ok || len(r.Results) < 2 {
						return false
					}
					e := r.Results[len(r.Results)-1]
					return !isNilConst(e) && !knownNil[e]
				}}
				if path, _ := q.search(st.Block(), instrIndex(st)); path != nil {
					c.Fail("C06-S4", fmt.Sprintf("no-write-on-error(%s %s)", k, f.Name()), st.Pos(), "refuted", "Handler state is written on a path that then reports an error: an illegal timestamp disturbs later times", P.blockPath(path)...)
				} else {
					// and the store is dominated by an error test
					dom := false
					for _, ft := range dominatingFacts(st.Block()) {
						if b, ok := ft.Cond.(*ssa.BinOp); ok && (b.Op == token.NEQ || b.Op == token.EQL) && (isNilConst(b.X) || isNilConst(b.Y)) {
							if isErrorType(b.X.Type()) || isErrorType(b.Y.Type()) {
								if (b.Op == token.NEQ && !ft.Val) || (b.Op == token.EQL && ft.Val) {
									dom = true
								}
							}
						}
					}
					c.Check(dom, "C06-S4", fmt.Sprintf("no-write-on-error(%s %s)", k, f.Name()), st.Pos(), "state is stored only after the range check succeeded",
						"Handler state is stored without a preceding successful range check")
				}
			}
		})
		c.Check(reads > 0 && writes > 0, "C06-S2", "uses-own-state("+k+")", fn.Pos(), fmt.Sprintf("%d reads and %d writes of %s state", reads, writes, k),
			"the "+k+" converter does not both read and update its own week state")
		// S8: the remembered timestamp (day) is replaced on every successful conversion: a guarded
		// update (only when larger, only when changed by more than ...) leaves a stale value behind
		// after a rollover, and every later message is then taken for another rollover
		var prevStores []ssa.Instruction
		eachInstr(fn, func(ins ssa.Instruction) {
			st, ok := ins.(*ssa.Store)
			if !ok {
				return
			}
			fa, ok := st.Addr.(*ssa.FieldAddr)
			if !ok {
				return
			}
			f, _ := fieldOf(fa)
			if f == nil || fieldConst(f) != k || !types.Identical(fa.X.Type().Underlying().(*types.Pointer).Elem(), H) {
				return
			}
			if b, isB := f.Type().Underlying().(*types.Basic); isB && b.Info()&types.IsInteger != 0 {
				prevStores = append(prevStores, ins)
			}
		})
		if len(prevStores) == 0 || len(fn.Blocks) == 0 || len(fn.Blocks[0].Instrs) == 0 {
			c.Fail("C06-S8", "previous-updated("+k+")", fn.Pos(), "unresolved", "no store into the remembered timestamp of "+k+" found")
		} else {
			isPrev := func(i ssa.Instruction) bool {
				for _, s := range prevStores {
					if s == i {
						return true
					}
				}
				return false
			}
			okReturn := func(i ssa.Instruction) bool {
				r, ok := i.(*ssa.Return)
				return ok && len(r.Results) >= 2 && isNilConst(r.Results[len(r.Results)-1])
			}
			first := fn.Blocks[0].Instrs[0]
			if isPrev(first) {
				c.OK("C06-S8", "previous-updated("+k+")", fn.Pos(), "the remembered timestamp is stored on every successful path")
			} else if path, _ := mustPass(first, isPrev, okReturn, nil); path != nil {
				c.Fail("C06-S8", "previous-updated("+k+")", fn.Pos(), "refuted", "the "+k+" converter can succeed without replacing the remembered timestamp: after a rollover the stale value makes every later message look like another rollover", P.blockPath(path)...)
			} else {
				c.OK("C06-S8", "previous-updated("+k+")", fn.Pos(), "the remembered timestamp is stored on every successful path")
			}
		}
	}

	// ---- S5 rollover comparison
	checkRollover(c, conv)
	ruleGlonassResultShape(c, "C06-S5")

	// ---- S6 constants and ordering
	checkTimeConstants(c)
	// display ordering: start-of-week display after the conversion
	var convCall, weekCall ssa.Instruction
	eachInstr(getMsg, func(ins ssa.Instruction) {
		if f := staticCallee(ins); f != nil && P.InModule(f) {
			r := P.ReachableModule([]*ssa.Function{f})
			if r[disp] {
				convCall = ins
			} else if f.Signature.Recv() != nil {
				rr := P.ReachableModule([]*ssa.Function{f})
				for g := range rr {
					if g.Name() == "getStartOfWeek" {
						weekCall = ins
					}
				}
			}
		}
	})
	if convCall == nil || weekCall == nil {
		c.Fail("C06-S6", "order(convert,start-of-week)", getMsg.Pos(), "unresolved", "conversion call / start-of-week display call not found in the decoder")
	} else {
		c.Check(instrDominates(convCall, weekCall), "C06-S6", "order(convert,start-of-week)", weekCall.Pos(), "start-of-week text is produced after the conversion (sees the advanced week)",
			"the start-of-week text is produced before the conversion: it shows the previous week at a rollover")
	}
	checkSeedTimeBase(c, "C06-S7")
	ruleStateOnlyForVerifiedFrames(c, "C06-S4")
	c.MinInstances("C06-S1", 6)
	c.MinInstances("C06-S2", 16)
	c.MinInstances("C06-S3", 13)
	c.MinInstances("C06-S4", 7)
	c.MinInstances("C06-S8", 4)
	c.MinInstances("C06-S5", 5)
	c.MinInstances("C06-S6", 12)
}

// checkRollover: the week advance is AddDate(0,0,7) under a strict comparison.
func checkRollover(c *Ctx, conv map[string]*ssa.Function) {
	P := c.P
	isAddDate := func(v ssa.Value, days int64) bool {
		call, ok := v.(*ssa.Call)
		if !ok {
			return false
		}
		f := call.Call.StaticCallee()
		if f == nil || calleeFullName(f) != "(time.Time).AddDate" {
			return false
		}
		y, ok1 := constInt(call.Call.Args[1])
		m, ok2 := constInt(call.Call.Args[2])
		d, ok3 := constInt(call.Call.Args[3])
		return ok1 && ok2 && ok3 && y == 0 && m == 0 && d == days
	}
	// shared helper for GPS/Galileo/Beidou: function with (timestamp, previous uint, startOfWeek time.Time)
	var helper *ssa.Function
	for _, k := range []string{"GPS", "Galileo", "Beidou"} {
		eachInstr(conv[k], func(ins ssa.Instruction) {
			if f := staticCallee(ins); f != nil && P.InModule(f) && f.Signature.Recv() == nil && len(f.Params) == 3 {
				if helper != nil && helper != f {
					c.Fail("C06-S5", "shared-helper", ins.Pos(), "unproven", "the three week-based converters do not share one rollover helper")
				}
				helper = f
			}
		})
	}
	if helper == nil {
		c.Fail("C06-S5", "rollover-helper", token.NoPos, "unresolved", "rollover helper (timestamp, previous, startOfWeek) not found")
		return
	}
	// arguments at the call sites: (timestamp param, previous-X field, startOfXWeek field)
	for _, k := range []string{"GPS", "Galileo", "Beidou"} {
		eachInstr(conv[k], func(ins ssa.Instruction) {
			call, ok := ins.(*ssa.Call)
			if !ok || call.Call.StaticCallee() != helper {
				return
			}
			a0 := call.Call.Args[0] == ssa.Value(conv[k].Params[1])
			f1, _ := loadedField(call.Call.Args[1])
			f2, _ := loadedField(call.Call.Args[2])
			ok1 := f1 != nil && strings.Contains(strings.ToLower(f1.Name()), "previous")
			ok2 := f2 != nil && strings.Contains(strings.ToLower(f2.Name()), "startof")
			c.Check(a0 && ok1 && ok2, "C06-S5", "helper-args("+k+")", ins.Pos(), "helper receives (timestamp, previous timestamp, start of week)",
				"the rollover helper is not given (timestamp, stored previous timestamp, stored start of week)")
			// results: new start of week stored to startOf field, timestamp stored to previous field
			var storedWeek, storedPrev bool
			eachInstr(conv[k], func(i2 ssa.Instruction) {
				st, ok := i2.(*ssa.Store)
				if !ok {
					return
				}
				f, _ := fieldOf(st.Addr)
				if f == nil {
					return
				}
				if strings.Contains(strings.ToLower(f.Name()), "startof") {
					if ex, ok := st.Val.(*ssa.Extract); ok && ex.Tuple == ssa.Value(call) && ex.Index == 1 {
						storedWeek = true
					}
				}
				if strings.Contains(strings.ToLower(f.Name()), "previous") && st.Val == ssa.Value(conv[k].Params[1]) {
					storedPrev = true
				}
			})
			c.Check(storedWeek && storedPrev, "C06-S5", "state-update("+k+")", ins.Pos(), "new start of week and the current timestamp are stored for the next message",
				"the converter does not store both the helper's new start of week and the current timestamp")
		})
	}
	ts, prev := helper.Params[0], helper.Params[1]
	found := 0
	eachInstr(helper, func(ins ssa.Instruction) {
		if !isAddDate(valueOf(ins), 7) {
			return
		}
		found++
		ok := false
		for _, f := range dominatingFacts(ins.Block()) {
			b, isB := f.Cond.(*ssa.BinOp)
			if !isB {
				continue
			}
			if b.Op == token.GTR && b.X == ssa.Value(prev) && b.Y == ssa.Value(ts) && f.Val {
				ok = true
			}
			if b.Op == token.LSS && b.X == ssa.Value(ts) && b.Y == ssa.Value(prev) && f.Val {
				ok = true
			}
			if b.Op == token.LEQ && b.X == ssa.Value(prev) && b.Y == ssa.Value(ts) && !f.Val {
				ok = true
			}
			if b.Op == token.GEQ && b.X == ssa.Value(ts) && b.Y == ssa.Value(prev) && !f.Val {
				ok = true
			}
		}
		c.Check(ok, "C06-S5", "rollover-strict(week)", ins.Pos(), "week advanced by AddDate(0,0,7) only when previous > current (strict)",
			"the week is advanced under a condition other than previous > current: equal timestamps (MSM4+MSM7 or multi-message epochs) or other cases advance the week wrongly")
	})
	if found != 1 {
		c.Fail("C06-S5", "rollover-strict(week):site", helper.Pos(), "refuted", fmt.Sprintf("expected exactly one AddDate(0,0,7) in the rollover helper, found %d", found))
	}
	// ... and whenever previous > current: the start of week is handed back unchanged only on a path
	// where previous > current is known to be false (an extra condition on the rollover, such as
	// "unless the timestamp is 0", leaves the week behind for good)
	isRolloverFact := func(f EdgeFact) (is, holds bool) {
		b, isB := f.Cond.(*ssa.BinOp)
		if !isB {
			return false, false
		}
		switch {
		case b.Op == token.GTR && b.X == ssa.Value(prev) && b.Y == ssa.Value(ts):
			return true, f.Val
		case b.Op == token.LSS && b.X == ssa.Value(ts) && b.Y == ssa.Value(prev):
			return true, f.Val
		case b.Op == token.LEQ && b.X == ssa.Value(prev) && b.Y == ssa.Value(ts):
			return true, !f.Val
		case b.Op == token.GEQ && b.X == ssa.Value(ts) && b.Y == ssa.Value(prev):
			return true, !f.Val
		}
		return false, false
	}
	for _, r := range returnsOf(helper) {
		if len(r.Results) != 3 || !isNilConst(r.Results[2]) {
			continue
		}
		phi, ok := r.Results[1].(*ssa.Phi)
		if !ok {
			continue
		}
		for i, e := range phi.Edges {
			if e != ssa.Value(helper.Params[2]) {
				continue // the advanced week (checked above) or something else
			}
			p := phi.Block().Preds[i]
			facts := dominatingFacts(p)
			if ifi, ok := lastInstr(p).(*ssa.If); ok && len(p.Succs) == 2 && p.Succs[0] != p.Succs[1] {
				facts = append(facts, EdgeFact{ifi.Cond, p.Succs[0] == phi.Block(), p})
			}
			notRolled := false
			for _, f := range facts {
				if is, holds := isRolloverFact(f); is && !holds {
					notRolled = true
				}
			}
			c.Check(notRolled, "C06-S5", fmt.Sprintf("rollover-complete(week)#%d", i+1), phi.Pos(), "the week is kept only when previous > current is false",
				"the week is kept although previous > current may hold: the rollover is subject to an extra condition, and a message that misses it leaves every later time a week early")
		}
	}
	// the range check precedes and uses '>' MaxTimestamp
	maxTS := int64(7*24*3600*1000 - 1)
	rc := false
	eachInstr(helper, func(ins ssa.Instruction) {
		if ifi, ok := ins.(*ssa.If); ok {
			if b, ok := ifi.Cond.(*ssa.BinOp); ok && b.X == ssa.Value(ts) {
				if k, ok := constInt(b.Y); ok {
					if (b.Op == token.GTR && k == maxTS) || (b.Op == token.GEQ && k == maxTS+1) {
						// true edge must lead to an error return only
						rc = true
					}
				}
			}
		}
	})
	c.Check(rc, "C06-S5", "range-check(week)", helper.Pos(), "timestamps of 7 days of ms or more are rejected (timestamp > 604799999)", "the range check of the week timestamp is missing or uses a different limit/operator")
	// time = newStartOfWeek.Add(Duration(timestamp) * Millisecond)
	addOK := false
	eachInstr(helper, func(ins ssa.Instruction) {
		call, ok := ins.(*ssa.Call)
		if !ok || call.Call.StaticCallee() == nil || calleeFullName(call.Call.StaticCallee()) != "(time.Time).Add" {
			return
		}
		if b, ok := call.Call.Args[1].(*ssa.BinOp); ok && b.Op == token.MUL {
			x, y := b.X, b.Y
			if _, isC := constInt(x); isC {
				x, y = y, x
			}
			if k, isC := constInt(y); isC && k == 1000000 && stripConv(x) == ssa.Value(ts) {
				addOK = true
			}
		}
	})
	c.Check(addOK, "C06-S5", "time=week+ms(week)", helper.Pos(), "reported time = (possibly advanced) week start + timestamp * 1 ms", "the reported time is not week start + timestamp milliseconds")
	// Glonass
	g := conv["Glonass"]
	gfound := 0
	eachInstr(g, func(ins ssa.Instruction) {
		st, ok := ins.(*ssa.Store)
		if !ok || !isAddDate(st.Val, 7) {
			return
		}
		gfound++
		ok2 := false
		for _, f := range dominatingFacts(ins.Block()) {
			b, isB := f.Cond.(*ssa.BinOp)
			if !isB {
				continue
			}
			fx, _ := loadedField(b.X)
			fy, _ := loadedField(b.Y)
			prevX := fx != nil && strings.Contains(strings.ToLower(fx.Name()), "day")
			prevY := fy != nil && strings.Contains(strings.ToLower(fy.Name()), "day")
			if b.Op == token.LSS && prevY && !prevX && f.Val {
				ok2 = true
			}
			if b.Op == token.GTR && prevX && !prevY && f.Val {
				ok2 = true
			}
		}
		c.Check(ok2, "C06-S5", "rollover-strict(glonass)", ins.Pos(), "Glonass week advanced only when day < previous day (strict)", "the Glonass week is advanced under a condition other than day < previous day")
	})
	if gfound != 1 {
		c.Fail("C06-S5", "rollover-strict(glonass):site", g.Pos(), "refuted", fmt.Sprintf("expected exactly one AddDate(0,0,7) store in the Glonass converter, found %d", gfound))
	}
}

// ruleGlonassResultShape: every successful result of the Glonass converter is
// <stored start of Glonass week>.AddDate(0,0,day).Add(ms), and the converter
// shifts dates by nothing else than the one-week advance.
func ruleGlonassResultShape(c *Ctx, rule string) {
	P := c.P
	var g *ssa.Function
	if disp, _ := P.Method("rtcm/handler", "Handler", "getTimeFromTimeStamp"); disp != nil {
		eachInstr(disp, func(ins ssa.Instruction) {
			if f := staticCallee(ins); f != nil && P.InModule(f) && f.Signature.Recv() != nil && strings.Contains(strings.ToLower(f.Name()), "glonass") {
				g = f
			}
		})
	}
	if g == nil {
		c.Unresolved(rule, "the Glonass converter called by the time dispatcher")
		return
	}
	addDate := func(v ssa.Value) (*ssa.Call, bool) {
		call, ok := v.(*ssa.Call)
		if !ok || call.Call.StaticCallee() == nil || calleeFullName(call.Call.StaticCallee()) != "(time.Time).AddDate" {
			return nil, false
		}
		return call, true
	}
	n := 0
	for _, r := range returnsOf(g) {
		if len(r.Results) != 2 || !isNilConst(r.Results[1]) {
			continue
		}
		n++
		good := false
		if add, ok := r.Results[0].(*ssa.Call); ok && add.Call.StaticCallee() != nil && calleeFullName(add.Call.StaticCallee()) == "(time.Time).Add" {
			if ad, ok := addDate(add.Call.Args[0]); ok {
				y, ok1 := constInt(ad.Call.Args[1])
				m, ok2 := constInt(ad.Call.Args[2])
				_, dayConst := constInt(ad.Call.Args[3])
				fv, _ := loadedField(ad.Call.Args[0])
				if ok1 && ok2 && y == 0 && m == 0 && !dayConst && fv != nil && strings.Contains(strings.ToLower(fv.Name()), "startofglonass") {
					good = true
				}
			}
		}
		c.Check(good, rule, "glonass:result=week+day+ms", r.Pos(), "the reported time is the stored start of the Glonass week plus the day and millisecond offsets of the timestamp",
			"a Glonass time is computed from something other than the stored start of week + day + milliseconds (e.g. shifted by a week in a special case): the reported time depends on the handler's history or start time")
	}
	if n == 0 {
		c.Fail(rule, "glonass:result=week+day+ms", g.Pos(), "unresolved", "no successful return in the Glonass converter")
	}
	// no other date shifts
	eachInstr(g, func(ins ssa.Instruction) {
		ad, ok := addDate(valueOf(ins))
		if !ok {
			return
		}
		if d, isC := constInt(ad.Call.Args[3]); isC && d != 7 {
			c.Fail(rule, "glonass:date-shift", ins.Pos(), "refuted", fmt.Sprintf("the Glonass converter shifts a date by the constant %d days: only the one-week advance at a rollover is part of the conversion", d))
		}
	})
}

func valueOf(ins ssa.Instruction) ssa.Value {
	v, _ := ins.(ssa.Value)
	return v
}

// initValueOfGlobal returns the constant stored into global g by its package
// initialiser, requiring that this is the only store in the module.
func initValueOfGlobal(P *Prog, g *ssa.Global) (constant.Value, bool) {
	var val constant.Value
	n := 0
	for _, fn := range P.ModFuncs() {
		eachInstr(fn, func(ins ssa.Instruction) {
			if st, ok := ins.(*ssa.Store); ok && st.Addr == ssa.Value(g) {
				n++
				if !isInitFn(fn) {
					n += 100
				}
				if k, ok := stripConv(st.Val).(*ssa.Const); ok {
					val = k.Value
				}
			}
		})
	}
	// the synthetic package init is not among ModFuncs unless named init
	if n == 0 && g.Pkg != nil {
		if initFn := g.Pkg.Func("init"); initFn != nil {
			eachInstr(initFn, func(ins ssa.Instruction) {
				if st, ok := ins.(*ssa.Store); ok && st.Addr == ssa.Value(g) {
					n++
					if k, ok := stripConv(st.Val).(*ssa.Const); ok {
						val = k.Value
					}
				}
			})
		}
	}
	return val, n == 1 && val != nil
}

func checkTimeConstants(c *Ctx) {
	P := c.P
	wantConst := map[string]int64{
		"GPSLeapSeconds":      -18,
		"MaxTimestamp":        7*24*3600*1000 - 1,
		"MaxTimestampGlonass": (6 << 27) + (24*3600*1000 - 1),
		"MillisIn24Hours":     24 * 3600 * 1000,
		"GlonassDayBitMask":   0x38000000,
		"GlonassInvalidDay":   7,
	}
	for _, n := range []string{"GPSLeapSeconds", "MaxTimestamp", "MaxTimestampGlonass", "MillisIn24Hours", "GlonassDayBitMask", "GlonassInvalidDay"} {
		k := P.Const("rtcm/utils", n)
		if k == nil {
			c.Unresolved("C06-S6", "const rtcm/utils."+n)
			continue
		}
		got, ok := constant.Int64Val(constant.ToInt(k.Val()))
		c.Check(ok && got == wantConst[n], "C06-S6", "const("+n+")", k.Pos(), fmt.Sprintf("%s == %d", n, wantConst[n]), fmt.Sprintf("%s is %v, required %d", n, k.Val(), wantConst[n]))
	}
	up := P.Pkg("rtcm/utils")
	wantVar := map[string]int64{
		"BeidouLeapSeconds": -4,
		"GPSTimeOffset":     -18 * 1000000000,
		"BeidouTimeOffset":  -4 * 1000000000,
		"GlonassTimeOffset": -3 * 3600 * 1000000000,
	}
	for _, n := range []string{"BeidouLeapSeconds", "GPSTimeOffset", "BeidouTimeOffset", "GlonassTimeOffset"} {
		g, _ := up.Members[n].(*ssa.Global)
		if g == nil {
			c.Unresolved("C06-S6", "var rtcm/utils."+n)
			continue
		}
		v, ok := offsetInitValue(P, g)
		c.Check(ok && v == wantVar[n], "C06-S6", "var("+n+")", g.Pos(), fmt.Sprintf("%s is initialised to %d and never reassigned", n, wantVar[n]),
			fmt.Sprintf("%s is not the init-only value %d (got %d, init-only=%v)", n, wantVar[n], v, ok))
	}
	// ParseTimestamp: Glonass range checks and field split
	pt := P.Func("rtcm/utils", "ParseTimestamp")
	if pt == nil {
		c.Unresolved("C06-S6", "func rtcm/utils.ParseTimestamp")
		return
	}
	ts := pt.Params[1]
	var sawMaxG, sawMax, sawMillis, sawShift, sawMask bool
	eachInstr(pt, func(ins ssa.Instruction) {
		b, ok := ins.(*ssa.BinOp)
		if !ok {
			return
		}
		k, isC := constInt(b.Y)
		// smallest value rejected by an upper-limit test: x > k  ==  x >= k+1 (also written k < x, k+1 <= x)
		rejX, rejFrom, isRej := ssa.Value(nil), int64(0), false
		switch {
		case b.Op == token.GTR && isC:
			rejX, rejFrom, isRej = b.X, k+1, true
		case b.Op == token.GEQ && isC:
			rejX, rejFrom, isRej = b.X, k, true
		default:
			if kx, isCX := constInt(b.X); isCX {
				switch b.Op {
				case token.LSS:
					rejX, rejFrom, isRej = b.Y, kx+1, true
				case token.LEQ:
					rejX, rejFrom, isRej = b.Y, kx, true
				}
			}
		}
		switch {
		case isRej && rejX == ssa.Value(ts) && rejFrom == wantConst["MaxTimestampGlonass"]+1:
			sawMaxG = true
		case isRej && rejX == ssa.Value(ts) && rejFrom == wantConst["MaxTimestamp"]+1:
			sawMax = true
		case isRej && rejFrom == wantConst["MillisIn24Hours"]:
			sawMillis = true
		case b.Op == token.SHR && b.X == ssa.Value(ts) && isC && k == 27:
			sawShift = true
		case b.Op == token.AND_NOT && b.X == ssa.Value(ts) && isC && k == wantConst["GlonassDayBitMask"]:
			sawMask = true
		case b.Op == token.AND && b.X == ssa.Value(ts) && isC && k == (1<<27)-1:
			sawMask = true
		}
	})
	c.Check(sawMaxG, "C06-S6", "glonass:range(timestamp)", pt.Pos(), "Glonass timestamp > 6<<27+86399999 rejected", "Glonass timestamp upper limit check missing or changed")
	c.Check(sawMillis, "C06-S6", "glonass:range(millis)", pt.Pos(), "Glonass milliseconds >= 24 h rejected", "Glonass millisecond limit check missing or not '>='")
	c.Check(sawShift && sawMask, "C06-S6", "glonass:split(day,millis)", pt.Pos(), "day = timestamp >> 27, millis = low 27 bits", "Glonass timestamp is not split into a 3-bit day and 27-bit milliseconds")
	c.Check(sawMax, "C06-S6", "week:range(timestamp)", pt.Pos(), "week timestamp > 604799999 rejected in ParseTimestamp", "week timestamp limit check missing or changed in ParseTimestamp")
}

// offsetInitValue evaluates the package initialiser of a time offset
// variable: a constant, or constant * constant, or Duration(load of another
// init-only var) * constant.
func offsetInitValue(P *Prog, g *ssa.Global) (int64, bool) {
	var stores []*ssa.Store
	outside := false
	scan := func(fn *ssa.Function, isInit bool) {
		eachInstr(fn, func(ins ssa.Instruction) {
			if st, ok := ins.(*ssa.Store); ok && st.Addr == ssa.Value(g) {
				if !isInit {
					outside = true
				}
				stores = append(stores, st)
			}
		})
	}
	for _, fn := range P.ModFuncs() {
		if fn.Name() == "init" && fn.Synthetic != "" {
			continue
		}
		scan(fn, isInitFn(fn))
	}
	if g.Pkg != nil {
		if initFn := g.Pkg.Func("init"); initFn != nil {
			scan(initFn, true)
		}
	}
	if outside || len(stores) != 1 {
		return 0, false
	}
	var eval func(v ssa.Value, depth int) (int64, bool)
	eval = func(v ssa.Value, depth int) (int64, bool) {
		if depth > 6 {
			return 0, false
		}
		if k, ok := constInt(v); ok {
			return k, true
		}
		switch x := v.(type) {
		case *ssa.Convert:
			return eval(x.X, depth+1)
		case *ssa.ChangeType:
			return eval(x.X, depth+1)
		case *ssa.BinOp:
			a, ok1 := eval(x.X, depth+1)
			b, ok2 := eval(x.Y, depth+1)
			if !ok1 || !ok2 {
				return 0, false
			}
			switch x.Op {
			case token.MUL:
				return a * b, true
			case token.ADD:
				return a + b, true
			case token.SUB:
				return a - b, true
			}
		case *ssa.UnOp:
			if x.Op == token.MUL {
				if g2, ok := x.X.(*ssa.Global); ok && g2 != g {
					return offsetInitValue(P, g2)
				}
			}
			if x.Op == token.SUB {
				a, ok := eval(x.X, depth+1)
				return -a, ok
			}
		}
		return 0, false
	}
	return eval(stores[0].Val, 0)
}

// checkSeedTimeBase (C06-S7): whatever New derives from the start time for a
// constellation's state is computed on that constellation's own time scale
// (it depends on the constellation's offset), not on raw UTC.
func checkSeedTimeBase(c *Ctx, rule string) {
	P := c.P
	newFn := P.Func("rtcm/handler", "New")
	H := P.Named("rtcm/handler", "Handler")
	if newFn == nil || H == nil {
		c.Unresolved(rule, "rtcm/handler.New")
		return
	}
	var startParam *ssa.Parameter
	for _, p := range newFn.Params {
		if isTimeTime(p.Type()) {
			startParam = p
		}
	}
	if startParam == nil {
		c.Unresolved(rule, "start time parameter")
		return
	}
	t := NewTaint(P)
	t.IsSource = func(v ssa.Value) bool { return v == ssa.Value(startParam) }
	t.Scope = func(fn *ssa.Function) bool { return fn == newFn }
	t.Run()
	token4 := map[string]string{"gps": "gps", "galileo": "gps", "glonass": "glonass", "beidou": "beidou"}
	n := 0
	eachInstr(newFn, func(ins ssa.Instruction) {
		st, ok := ins.(*ssa.Store)
		if !ok {
			return
		}
		fa, ok := st.Addr.(*ssa.FieldAddr)
		if !ok {
			return
		}
		f, _ := fieldOf(fa)
		if f == nil || !types.Identical(fa.X.Type().Underlying().(*types.Pointer).Elem(), H) {
			return
		}
		want := ""
		for k, v := range token4 {
			if strings.Contains(strings.ToLower(f.Name()), k) {
				want = v
			}
		}
		if want == "" || !t.Tainted(st.Val) {
			return
		}
		n++
		dep := dependsOn(st.Val, func(v ssa.Value) bool {
			g := loadOfGlobal(v)
			return g != nil && strings.Contains(strings.ToLower(g.Name()), want)
		})
		c.Check(dep, rule, "time-base("+f.Name()+")", ins.Pos(), "derived from the start time on the "+want+" time scale (depends on that constellation's offset)",
			"Handler field "+f.Name()+" is derived from the start time in UTC without the constellation's own offset: near the constellation's day/week boundary the state is seeded from the wrong day or week")
		// a start-of-week field is <Sunday midnight UTC from the quantiser>.Add(<the constellation's fixed offset>):
		// a fixed offset from UTC, not a civil-time zone whose rules change over the years
		if strings.Contains(strings.ToLower(f.Name()), "startof") {
			shape := false
			if add, ok := trivialPhi(st.Val).(*ssa.Call); ok && add.Call.StaticCallee() != nil && calleeFullName(add.Call.StaticCallee()) == "(time.Time).Add" {
				if q, ok := trivialPhi(add.Call.Args[0]).(*ssa.Call); ok {
					if qf := q.Call.StaticCallee(); qf != nil && qf.Pkg == newFn.Pkg && len(qf.Params) == 1 && isTimeTime(qf.Params[0].Type()) {
						off := trivialPhi(add.Call.Args[1])
						if g := loadOfGlobal(off); g != nil && strings.Contains(strings.ToLower(g.Name()), want) && strings.Contains(strings.ToLower(g.Name()), "offset") {
							shape = true
						}
						if _, isC := constInt(off); isC {
							shape = true
						}
					}
				}
			}
			c.Check(shape, rule, "week-start-shape("+f.Name()+")", ins.Pos(), "start of week = quantiser(...).Add(fixed "+want+" offset)",
				"the start of the "+want+" week is not the quantised Sunday midnight UTC plus the constellation's fixed offset (e.g. it is built in a civil time zone): times are wrong wherever that zone's rules differ from the fixed offset")
		}
	})
	if n == 0 {
		c.Fail(rule, "time-base", newFn.Pos(), "unresolved", "New derives no constellation state from the start time")
	}
}

// dependsOn: v is computed from some value satisfying pred.
func dependsOn(v ssa.Value, pred func(ssa.Value) bool) bool {
	seen := map[ssa.Value]bool{}
	var walk func(v ssa.Value, d int) bool
	walk = func(v ssa.Value, d int) bool {
		if v == nil || seen[v] || d > 40 {
			return false
		}
		seen[v] = true
		if pred(v) {
			return true
		}
		ins, ok := v.(ssa.Instruction)
		if !ok {
			return false
		}
		var ops []*ssa.Value
		for _, op := range ins.Operands(ops) {
			if op != nil && *op != nil && walk(*op, d+1) {
				return true
			}
		}
		return false
	}
	return walk(v, 0)
}

// ruleWallClockFree: the reported times must be a function of the start time and the frames only, so nothing
// reachable (inside the module) from the roots may read the machine's clock — neither by calling time.Now /
// time.Since / time.Until nor by taking one of them as a function value.
func ruleWallClockFree(c *Ctx, rule string, roots []*ssa.Function) {
	P := c.P
	reach := P.ReachableModule(roots)
	n := 0
	for fn := range reach {
		if !P.InModule(fn) {
			continue
		}
		n++
		bad := token.NoPos
		what := ""
		eachInstr(fn, func(ins ssa.Instruction) {
			for _, op := range ins.Operands(nil) {
				if op == nil || *op == nil {
					continue
				}
				f, ok := (*op).(*ssa.Function)
				if !ok {
					continue
				}
				for _, nm := range []string{"Now", "Since", "Until"} {
					if calleeIs(f, "time", nm) && bad == token.NoPos {
						bad, what = ins.Pos(), "time."+nm
						if bad == token.NoPos {
							bad = fn.Pos()
						}
					}
				}
			}
		})
		if bad != token.NoPos {
			c.Fail(rule, "wall-clock-free("+P.FnKey(fn)+")", bad, "refuted", what+" is used on the path that turns a start time and a frame into the reported times: the result then depends on when the program runs, not only on the start time and the data")
		} else {
			c.OK(rule, "wall-clock-free("+P.FnKey(fn)+")", fn.Pos(), "no use of the machine's clock")
		}
	}
	if n == 0 {
		c.Fail(rule, "wall-clock-free", token.NoPos, "unresolved", "no functions reachable from the handler constructor and decoder")
	}
}

// ruleTimestampInsideBody (C06-S11).
func ruleTimestampInsideBody(c *Ctx, rule string, getMsg *ssa.Function) {
	P := c.P
	tsF := P.Field("rtcm/handler", "Message", "Timestamp")
	if tsF == nil {
		c.Unresolved(rule, "rtcm/handler.Message.Timestamp")
		return
	}
	// the declared length: first result of the leader helper called by the decoder
	var ml ssa.Value
	eachInstr(getMsg, func(ins ssa.Instruction) {
		ex, ok := ins.(*ssa.Extract)
		if !ok || ex.Index != 0 {
			return
		}
		call, ok := ex.Tuple.(*ssa.Call)
		if !ok {
			return
		}
		f := call.Call.StaticCallee()
		if f == nil || !P.InModule(f) || f.Signature.Results().Len() != 3 {
			return
		}
		if b, ok := f.Signature.Results().At(0).Type().Underlying().(*types.Basic); ok && b.Info()&types.IsInteger != 0 && ml == nil {
			ml = ex
		}
	})
	if ml == nil {
		c.Fail(rule, "timestamp-inside-body", getMsg.Pos(), "unresolved", "the declared message length (first result of the leader helper) was not found in the decoder")
		return
	}
	A := NewAff(P)
	n := 0
	eachInstr(getMsg, func(ins ssa.Instruction) {
		st, ok := ins.(*ssa.Store)
		if !ok {
			return
		}
		if fv, _ := fieldOf(st.Addr); fv != tsF {
			return
		}
		// the stored value derives from a bit read
		var read *ssa.Call
		v := st.Val
		for i := 0; i < 4 && read == nil; i++ {
			switch x := v.(type) {
			case *ssa.Convert:
				v = x.X
			case *ssa.ChangeType:
				v = x.X
			case *ssa.Call:
				if f := x.Call.StaticCallee(); f != nil && (f.Name() == "GetBitsAsUint64") && len(x.Call.Args) == 3 {
					read = x
				}
				i = 4
			default:
				i = 4
			}
		}
		n++
		if read == nil {
			c.Fail(rule, "timestamp-inside-body", st.Pos(), "unproven", "the value stored into Message.Timestamp is not the result of a bit read")
			return
		}
		goal := LE(A.Lin(read.Call.Args[1]).Add(A.Lin(read.Call.Args[2])), A.Lin(ml).Scale(8).AddConst(24))
		if A.Prove(read.Block(), goal) {
			c.OK(rule, "timestamp-inside-body", read.Pos(), "position + width <= 24 + 8*length is entailed where the timestamp is read")
		} else {
			c.Fail(rule, "timestamp-inside-body", read.Pos(), "unproven", "the timestamp read is not confined to the message body by the guards before it ("+goal.String()+" does not follow): for a short message bits of the CRC are reported as a time and remembered as the previous timestamp")
		}
	})
	if n == 0 {
		c.Fail(rule, "timestamp-inside-body", getMsg.Pos(), "unresolved", "no store into Message.Timestamp in the decoder")
	}
}
