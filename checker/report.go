package main

// Reporting: obligations, findings, known findings, evidence files.

import (
	"bufio"
	"encoding/json"
	"fmt"
	"go/token"
	"os"
	"path/filepath"
	"sort"
	"strings"
	"time"
)

// Finding is one violated (refuted / unproven / unresolved) obligation.
type Finding struct {
	Property string   `json:"property"`
	Rule     string   `json:"rule"`
	Key      string   `json:"key"`  // rule + construct, line free
	Kind     string   `json:"kind"` // refuted | unproven | unresolved
	Pos      string   `json:"pos"`
	Msg      string   `json:"msg"`
	Path     []string `json:"path,omitempty"`
	Known    bool     `json:"known,omitempty"`
}

// Oblig is one examined rule instance.
type Oblig struct {
	Rule    string `json:"rule"`
	Key     string `json:"key"`
	Pos     string `json:"pos,omitempty"`
	How     string `json:"how"` // how it was discharged, or why not
	OK      bool   `json:"ok"`
	Trivial bool   `json:"trivial,omitempty"`
}

// Ctx is the per-run checking context.
type Ctx struct {
	P           *Prog
	RuleMap     func(string) string // set while another property's check runs inside this one (Compose)
	Property    string
	Tier        string
	Verifdir    string
	Start       time.Time
	Obligs      []Oblig
	Findings    []Finding
	Explanation string
	NotDecided  string
	Assumptions []string
	Lemmas      []string
	Extra       map[string]interface{}
	ruleCount   map[string]int
	seenKeys    map[string]bool
	Quiet       bool
	OutDir      string // evidence output directory (default <verif>/evidence)
}

func NewCtx(p *Prog, property, tier, verifdir string) *Ctx {
	return &Ctx{P: p, Property: property, Tier: tier, Verifdir: verifdir, Start: time.Now(),
		Extra: map[string]interface{}{}, ruleCount: map[string]int{}, seenKeys: map[string]bool{}}
}

// key builds the stable obligation key.
func key(rule, construct string) string { return rule + ":" + construct }

// OK records a discharged obligation.
func (c *Ctx) OK(rule, construct string, pos token.Pos, how string) {
	rule = c.mapRule(rule)
	c.add(Oblig{Rule: rule, Key: key(rule, construct), Pos: c.P.Pos(pos), How: how, OK: true})
}

// Trivial records an obligation discharged by a syntactic safe form.
func (c *Ctx) Trivial(rule, construct string, pos token.Pos, how string) {
	rule = c.mapRule(rule)
	c.add(Oblig{Rule: rule, Key: key(rule, construct), Pos: c.P.Pos(pos), How: how, OK: true, Trivial: true})
}

func (c *Ctx) add(o Oblig) {
	// de-duplicate keys by suffixing an ordinal (keys stay line free)
	k := o.Key
	for n := 2; c.seenKeys[k]; n++ {
		k = fmt.Sprintf("%s#%d", o.Key, n)
	}
	o.Key = k
	c.seenKeys[k] = true
	c.ruleCount[o.Rule]++
	c.Obligs = append(c.Obligs, o)
}

// Fail records a violated obligation.  kind: refuted | unproven | unresolved.
func (c *Ctx) Fail(rule, construct string, pos token.Pos, kind, msg string, path ...string) {
	rule = c.mapRule(rule)
	o := Oblig{Rule: rule, Key: key(rule, construct), Pos: c.P.Pos(pos), How: kind + ": " + msg, OK: false}
	c.add(o)
	k := c.Obligs[len(c.Obligs)-1].Key
	c.Findings = append(c.Findings, Finding{Property: c.Property, Rule: rule, Key: k, Kind: kind,
		Pos: c.P.Pos(pos), Msg: msg, Path: path})
}

// Check is OK or Fail(unproven) depending on cond.
func (c *Ctx) Check(cond bool, rule, construct string, pos token.Pos, how, failMsg string) bool {
	if cond {
		c.OK(rule, construct, pos, how)
	} else {
		c.Fail(rule, construct, pos, "refuted", failMsg)
	}
	return cond
}

// Unresolved reports a missing anchor (R-anchor): the check fails.
func (c *Ctx) Unresolved(rule, what string) {
	c.Fail(rule, "anchor("+what+")", token.NoPos, "unresolved", "anchor not found: "+what)
}

// MinInstances fails when a rule matched fewer instances than confirmed by hand.
func (c *Ctx) MinInstances(rule string, min int) {
	rule = c.mapRule(rule)
	if n := c.ruleCount[rule]; n < min {
		c.Fail(rule, "min-instances", token.NoPos, "unresolved",
			fmt.Sprintf("rule %s matched %d instances, expected at least %d (anchor drift: the rule would pass vacuously)", rule, n, min))
	}
}

func (c *Ctx) Count(rule string) int { return c.ruleCount[c.mapRule(rule)] }

// mapRule renames rule ids while another property's check runs as part of a composition (RuleMap).
func (c *Ctx) mapRule(rule string) string {
	if c.RuleMap != nil {
		return c.RuleMap(rule)
	}
	return rule
}

// Compose runs another property's whole check inside this one; its rule ids Cxx-... are reported as
// <as>-... and the explanation of the running property is kept.
func (c *Ctx) Compose(check func(*Ctx), from, as string) {
	expl, nd, asm := c.Explanation, c.NotDecided, c.Assumptions
	old := c.RuleMap
	c.RuleMap = func(r string) string {
		if strings.HasPrefix(r, from+"-") {
			return as + "-" + r[len(from)+1:]
		}
		if old != nil {
			return old(r)
		}
		return r
	}
	check(c)
	c.RuleMap = old
	c.Explanation, c.NotDecided, c.Assumptions = expl, nd, asm
}

// ---- known findings -------------------------------------------------------

type knownEntry struct {
	Property string
	Key      string
	Text     string
}

func loadKnown(verifdir string) ([]knownEntry, error) {
	f, err := os.Open(filepath.Join(verifdir, "KNOWN_FINDINGS.txt"))
	if err != nil {
		if os.IsNotExist(err) {
			return nil, nil
		}
		return nil, err
	}
	defer f.Close()
	var out []knownEntry
	sc := bufio.NewScanner(f)
	sc.Buffer(make([]byte, 1<<20), 1<<20)
	for sc.Scan() {
		line := strings.TrimSpace(sc.Text())
		if !strings.HasPrefix(line, "known:") {
			continue // "fixed:" entries and comments suppress nothing
		}
		rest := strings.TrimSpace(strings.TrimPrefix(line, "known:"))
		fs := strings.Fields(rest)
		e := knownEntry{}
		n := 0
		for _, w := range fs {
			if strings.HasPrefix(w, "property=") && e.Property == "" {
				e.Property = strings.TrimPrefix(w, "property=")
				n++
			} else if strings.HasPrefix(w, "key=") && e.Key == "" {
				e.Key = strings.TrimPrefix(w, "key=")
				n++
			} else {
				break
			}
		}
		e.Text = strings.TrimSpace(strings.Join(fs[n:], " "))
		if e.Property != "" && e.Key != "" {
			out = append(out, e)
		}
	}
	return out, sc.Err()
}

// ---- finish: print, evidence, exit code -----------------------------------

type evidence struct {
	PropertyID  string                 `json:"property_id"`
	Tier        string                 `json:"tier"`
	Seed        int                    `json:"seed"`
	Level       string                 `json:"level"`
	Coverage    map[string]interface{} `json:"coverage"`
	Assumptions []string               `json:"assumptions"`
	WallS       float64                `json:"wall_s"`
	Violations  int                    `json:"violations"`
}

// Finish writes evidence and replay files, prints the verdict lines and
// returns the process exit code.
func (c *Ctx) Finish(seed int) int {
	known, kerr := loadKnown(c.Verifdir)
	if kerr != nil {
		fmt.Printf("error: cannot read KNOWN_FINDINGS.txt: %v\n", kerr)
		return 1
	}
	exit := 0
	if c.OutDir == "" {
		c.OutDir = filepath.Join(c.Verifdir, "evidence")
	}
	vdir := filepath.Join(c.OutDir, "violations")
	// remove stale replay files of this property
	if ents, err := os.ReadDir(vdir); err == nil {
		for _, e := range ents {
			if strings.HasPrefix(e.Name(), c.Property+"-") {
				os.Remove(filepath.Join(vdir, e.Name()))
			}
		}
	}
	nviol := 0
	nknown := 0
	for i := range c.Findings {
		f := &c.Findings[i]
		for _, k := range known {
			if k.Property == c.Property && k.Key == f.Key {
				f.Known = true
				fmt.Printf("KNOWN-FINDING: property=%s %s [%s at %s]\n", c.Property, k.Text, f.Key, f.Pos)
				nknown++
				break
			}
		}
		if f.Known {
			continue
		}
		nviol++
		exit = 1
		os.MkdirAll(vdir, 0o755)
		rp := filepath.Join(vdir, fmt.Sprintf("%s-%d.json", c.Property, nviol))
		b, _ := json.MarshalIndent(f, "", " ")
		os.WriteFile(rp, append(b, '\n'), 0o644)
		fmt.Printf("VIOLATION property=%s replay=%s\n", c.Property, rp)
		fmt.Printf("  rule=%s kind=%s key=%s\n  at %s\n  %s\n", f.Rule, f.Kind, f.Key, f.Pos, f.Msg)
		for _, s := range f.Path {
			fmt.Printf("    path: %s\n", s)
		}
	}
	// evidence
	total := len(c.Obligs)
	ok, trivial := 0, 0
	rules := map[string][2]int{}
	for _, o := range c.Obligs {
		r := rules[o.Rule]
		r[0]++
		if o.OK {
			ok++
			r[1]++
			if o.Trivial {
				trivial++
			}
		}
		rules[o.Rule] = r
	}
	var samples []interface{}
	// samples: every failed obligation, then a spread of discharged ones (<= 40)
	for _, o := range c.Obligs {
		if !o.OK {
			samples = append(samples, o)
		}
	}
	perRule := map[string]int{}
	for _, o := range c.Obligs {
		if o.OK && !o.Trivial && perRule[o.Rule] < 3 && len(samples) < 60 {
			perRule[o.Rule]++
			samples = append(samples, o)
		}
	}
	if len(samples) == 0 {
		for _, o := range c.Obligs {
			if len(samples) < 5 {
				samples = append(samples, o)
			}
		}
	}
	ruleSummary := map[string]string{}
	var rnames []string
	for r := range rules {
		rnames = append(rnames, r)
	}
	sort.Strings(rnames)
	for _, r := range rnames {
		ruleSummary[r] = fmt.Sprintf("%d/%d", rules[r][1], rules[r][0])
	}
	cov := map[string]interface{}{
		"explanation":         c.Explanation + "  NOT DECIDED: " + c.NotDecided,
		"obligations":         total,
		"discharged":          ok,
		"evaluations":         total,
		"distinct_nontrivial": total - trivial,
		"rule":                "one evaluation per rule instance (rule + construct, keyed line-free) found in /repo's type-checked source on this run; an instance is trivial when a syntactic safe form discharges it without dominance, path, flow or arithmetic reasoning",
		"samples":             samples,
		"per_rule_discharged": ruleSummary,
		"analysed":            c.P.Stats(),
		"known_findings":      nknown,
		"exhaustive":          false,
	}
	if len(c.Lemmas) > 0 {
		cov["lemmas_used"] = c.Lemmas
	}
	if len(c.P.NormalizeLog) > 0 {
		cov["normalisation"] = c.P.NormalizeLog
	}
	for k, v := range c.Extra {
		cov[k] = v
	}
	ev := evidence{PropertyID: c.Property, Tier: c.Tier, Seed: seed, Level: "other", Coverage: cov,
		Assumptions: append([]string{
			"Go language semantics, go/types and go/ssa (x/tools v0.29.0) model the source faithfully",
			"buffer lengths and bit positions are below 2^28 (R-ranges)",
		}, c.Assumptions...),
		WallS: time.Since(c.Start).Seconds(), Violations: nviol}
	os.MkdirAll(c.OutDir, 0o755)
	b, _ := json.MarshalIndent(ev, "", " ")
	if err := os.WriteFile(filepath.Join(c.OutDir, c.Property+".json"), append(b, '\n'), 0o644); err != nil {
		fmt.Printf("error: cannot write evidence: %v\n", err)
		return 1
	}
	if !c.Quiet {
		fmt.Printf("%s tier=%s: %d rule instances, %d discharged (%d trivial), %d known findings, %d violations, %.1fs\n",
			c.Property, c.Tier, total, ok, trivial, nknown, nviol, time.Since(c.Start).Seconds())
		for _, r := range rnames {
			fmt.Printf("  %-14s %s\n", r, ruleSummary[r])
		}
	}
	return exit
}
