package main

// C13 — transient end-of-file or read timeouts on the input lose and
// duplicate nothing.

import (
	"fmt"
	"go/token"
	"go/types"
	"strings"

	"golang.org/x/tools/go/ssa"
)

// isCfgCall: v is a call of the jsonconfig.Config method `name`.
func isCfgCall(v ssa.Value, name string) bool {
	call, ok := v.(*ssa.Call)
	if !ok {
		return false
	}
	f := call.Call.StaticCallee()
	if f == nil || f.Name() != name || f.Signature.Recv() == nil {
		return false
	}
	return strings.HasSuffix(calleeFullName(f), "jsonconfig.Config)."+name)
}

func checkC13(c *Ctx) {
	c.Explanation = "Decides the retry structure of the file handler on every CFG path: (R1) classification — Handle returns only (a) at once for an error that is neither io.EOF nor an 'i/o timeout', (b) when the configured tolerance TimeoutOnEOF() is zero, (c) when the time since the first of a run of EOF/timeout results exceeds TimeoutOnEOF(); in every other case it loops to the next read; (R2) forward-once — every read that yields a byte is followed, before the next read or return, by exactly one send of that byte on the byte channel; the read buffer is a fresh one-byte slice, for which bufio.Reader.Read never returns data together with an error, so the error branch cannot hide a byte; (R3) the EOF clock is cleared on the success path and started only when it is clear; (R4) the byte channel is closed by a deferred close that covers every return, so the framer flushes the partial frame and closes its output (C02-R5, evaluated here too). R1 also requires Config.TimeoutOnEOF/WaitTimeOnEOF to be branch-free projections of one setting each, so a configured zero tolerance is zero. R4 also requires that the framer goroutine, which alone closes the output channel, is started once and unconditionally (C09 single-sender and confinement rules). R1 also requires that a retry pause is reached only with an end-of-file or time-out result and a non-zero tolerance; R2 that the send is reached only with n > 0 and that the reader is used by the one read call only."
	c.NotDecided = "real time (sleep durations, clock monotonicity); behaviour of readers other than *bufio.Reader (the parameter's static type)."
	c.Assumptions = append(c.Assumptions, "bufio.Reader.Read with a destination shorter than its internal buffer (>=16 bytes) returns n>0 only with a nil error (copy from the buffer), and (0, err) otherwise")
	pl := resolvePipeline(c, "C13-anchor")
	if pl == nil {
		return
	}
	_ = c.P
	fn := pl.handle
	// the read
	var read *ssa.Call
	eachInstr(fn, func(ins ssa.Instruction) {
		if call, ok := ins.(*ssa.Call); ok && call.Call.StaticCallee() != nil && calleeFullName(call.Call.StaticCallee()) == "(*bufio.Reader).Read" {
			read = call
		}
	})
	if read == nil {
		c.Fail("C13-R2", "Handle:read", fn.Pos(), "unresolved", "no (*bufio.Reader).Read call in Handle")
		return
	}
	var nVal, errVal ssa.Value
	for _, r := range referrers(read) {
		if ex, ok := r.(*ssa.Extract); ok {
			if ex.Index == 0 {
				nVal = ex
			} else {
				errVal = ex
			}
		}
	}
	if nVal == nil || errVal == nil {
		c.Fail("C13-R2", "Handle:read-results", read.Pos(), "refuted", "the count or the error of the read is discarded")
		return
	}
	ruleTransientGaps(c, fn, nVal, errVal, "C13-R1", "C13-R3")
	// the tolerance the classification consults is the configured one: "zero" means zero
	ruleToleranceAccessors(c, "C13-R1")
	// ---- R2 forward once
	ruleForwardOnce(c, pl, "C13-R2", read, nVal, errVal)
	// ---- R4 close and flush
	ruleCloseDiscipline(c, pl, "C13-R4")
	if f := newFraming(c, "C13-R4"); f != nil {
		// the partial frame is flushed: conservation rules of the framer (C02-R1/R2)
		conservationRules(f, "C13-R4", consOpts{eat: true, fetch: true, returns: true, fetchO: fetchOpts{inputErrorExitsOnly: true}})
		f.ruleStreamForward("C13-R4")
	}
	ruleTerminationChain(c, pl, "C13-R4")
	// the framer goroutine, which alone closes the output channel, is started once and
	// unconditionally before the read loop (C09-R2/R6 rules)
	ruleSingleSender(c, pl, "C13-R4")
	ruleConfinement(c, pl, "C13-R4")
	c.MinInstances("C13-R1", 6)
	c.MinInstances("C13-R2", 6)
	c.MinInstances("C13-R3", 4)
	c.MinInstances("C13-R4", 8)
}

// handleRead finds the reader.Read call of Handle and its results.
func handleRead(fn *ssa.Function) (read *ssa.Call, nVal, errVal ssa.Value) {
	eachInstr(fn, func(ins ssa.Instruction) {
		if call, ok := ins.(*ssa.Call); ok && call.Call.StaticCallee() != nil && calleeFullName(call.Call.StaticCallee()) == "(*bufio.Reader).Read" {
			read = call
		}
	})
	if read == nil {
		return
	}
	for _, r := range referrers(read) {
		if ex, ok := r.(*ssa.Extract); ok {
			if ex.Index == 0 {
				nVal = ex
			} else {
				errVal = ex
			}
		}
	}
	return
}

// ruleForwardOnce (C13-R2, C09-R8): every byte read by Handle is sent to the framer exactly once.
func ruleForwardOnce(c *Ctx, pl *pipeline, rule string, read *ssa.Call, nVal, errVal ssa.Value) {
	P := c.P
	fn := pl.handle
	buf := root(read.Call.Args[1])
	oneByte := false
	if isFreshSlice(buf) {
		if k, ok := NewAff(P).LenOf(buf).IsConst(); ok && k >= 1 && k < 16 {
			oneByte = true
		}
	}
	var sends []*ssa.Send
	eachInstr(fn, func(ins ssa.Instruction) {
		if sd, ok := ins.(*ssa.Send); ok {
			sends = append(sends, sd)
		}
	})
	isSend := func(i ssa.Instruction) bool {
		for _, s := range sends {
			if ssa.Instruction(s) == i {
				return true
			}
		}
		return false
	}
	isRead := func(i ssa.Instruction) bool { return i == ssa.Instruction(read) }
	prune := func(a, b *ssa.BasicBlock) bool {
		ifi, ok := lastInstr(a).(*ssa.If)
		if !ok || len(a.Succs) != 2 || a.Succs[0] == a.Succs[1] {
			return true
		}
		bo, ok := ifi.Cond.(*ssa.BinOp)
		if !ok {
			return true
		}
		taken := b == a.Succs[0]
		// n <= 0: nothing to forward
		if factNonPositive(bo, taken, nVal) {
			return false
		}
		// err != nil: with a short destination bufio returns no data together with an error
		if oneByte && (bo.X == errVal || bo.Y == errVal) && (isNilConst(bo.X) || isNilConst(bo.Y)) {
			if (bo.Op == token.NEQ && taken) || (bo.Op == token.EQL && !taken) {
				return false
			}
		}
		return true
	}
	until := func(i ssa.Instruction) bool { return isRead(i) || isReturn(i) }
	if path, _ := mustPass(read, isSend, until, prune); path != nil {
		msg := "a byte that was read can reach the next read or a return without being sent to the framer"
		if !oneByte {
			msg += " (the read buffer is not a fresh slice shorter than bufio's minimum buffer, so a read may return data together with EOF and the error branch skips the data)"
		}
		c.Fail(rule, "Handle:forward-every-byte", read.Pos(), "refuted", msg, P.blockPath(path)...)
	} else {
		c.OK(rule, "Handle:forward-every-byte", read.Pos(), "every read with n>0 is followed by the send before the next read/return")
	}
	if path, _ := atMostOnce(fn, isSend, isRead); path != nil {
		c.Fail(rule, "Handle:forward-once", read.Pos(), "refuted", "a byte can be sent twice", P.blockPath(path)...)
	} else {
		c.OK(rule, "Handle:forward-once", read.Pos(), "no second send without a new read")
	}
	c.Check(oneByte, rule, "Handle:short-read-buffer", read.Pos(), "the read destination is a fresh slice of constant length < 16 (bufio then never returns data with an error)",
		"the read destination is not a fresh short slice: bufio.Reader.Read may return the last bytes together with io.EOF, and Handle tests the error first")
	for _, sd := range sends {
		okv := false
		if ld, ok := sd.X.(*ssa.UnOp); ok && ld.Op == token.MUL {
			// the same storage: the slice itself, or the array variable the slice was cut from
			// (`var buf [1]byte; r.Read(buf[:]); ch <- buf[0]`)
			storage := func(v ssa.Value) ssa.Value {
				v = root(v)
				if sl, ok := v.(*ssa.Slice); ok {
					return root(sl.X)
				}
				return v
			}
			if ia, ok := ld.X.(*ssa.IndexAddr); ok && (root(ia.X) == buf || storage(ia.X) == storage(buf)) {
				if k, ok := constInt(ia.Index); ok && k == 0 {
					okv = true
				}
			}
		}
		_, isMk := root(sd.Chan).(*ssa.MakeChan)
		c.Check(okv && isMk, rule, "Handle:send-operand", sd.Pos(), "sends buf[0] of the buffer just read on the byte channel", "the value sent is not the byte just read, or goes to another channel")
		c.Check(instrDominates(read, sd), rule, "Handle:send-after-read", sd.Pos(), "the send follows the read", "the send is not dominated by the read")
		// only a byte that was actually read is forwarded: the send is reached with n > 0 (a read may
		// return no data and no error; the buffer then still holds zero or the previous byte)
		gotByte := onEveryPath(sd.Block(), func(f EdgeFact) bool {
			bo, ok := f.Cond.(*ssa.BinOp)
			if !ok {
				return false
			}
			k, isK := constInt(bo.Y)
			if bo.X != nVal || !isK {
				return false
			}
			switch {
			case bo.Op == token.GTR && k == 0 && f.Val, bo.Op == token.GEQ && k == 1 && f.Val,
				bo.Op == token.LEQ && k == 0 && !f.Val, bo.Op == token.LSS && k == 1 && !f.Val,
				bo.Op == token.NEQ && k == 0 && f.Val, bo.Op == token.EQL && k == 0 && !f.Val,
				bo.Op == token.EQL && k == 1 && f.Val:
				return true
			}
			return false
		})
		c.Check(gotByte, rule, "Handle:send-only-if-read", sd.Pos(), "the send is reached only when the read returned a byte (n > 0)",
			"the byte channel can be sent a byte although the read returned none: a spurious byte is inserted into the stream")
	}
	// the reader is consumed through this one read call only: a second call that reads (Peek, ReadByte,
	// Discard ...) takes bytes or read errors away from the loop's own classification
	{
		var rd ssa.Value
		if len(read.Common().Args) > 0 {
			rd = read.Common().Args[0]
		}
		extra := false
		eachInstr(fn, func(ins ssa.Instruction) {
			ci, ok := ins.(ssa.CallInstruction)
			if !ok || ins == ssa.Instruction(read) || rd == nil {
				return
			}
			cc := ci.Common()
			if cc.IsInvoke() {
				if cc.Value == rd {
					extra = true
					c.Fail(rule, "Handle:single-read-site", ins.Pos(), "refuted", "the reader is used by a second call ("+cc.Method.Name()+"): bytes or read errors can be consumed outside the read whose results the loop classifies")
				}
				return
			}
			if f := cc.StaticCallee(); f != nil && f.Signature.Recv() != nil && len(cc.Args) > 0 && cc.Args[0] == rd {
				extra = true
				c.Fail(rule, "Handle:single-read-site", ins.Pos(), "refuted", "the reader is used by a second call ("+f.Name()+"): bytes or read errors can be consumed outside the read whose results the loop classifies")
			}
		})
		if !extra {
			c.OK(rule, "Handle:single-read-site", read.Pos(), "the reader is used by the one read call only")
		}
	}
	// fresh buffer per iteration
	if bi, ok := sliceBase(buf).(ssa.Instruction); ok {
		// The buffer may be allocated once or per iteration: what leaves the function is the byte value
		// buf[0] (checked above: the send operand is a load of element 0 of this buffer, and the send
		// lies between the read and the next read), never the slice itself.  A shared buffer is unsafe
		// only if the slice escapes (handed to a goroutine, stored, sent): require that it does not.
		escapes := false
		var scan func(v ssa.Value, depth int)
		scan = func(v ssa.Value, depth int) {
			if depth > 4 {
				return
			}
			for _, r := range referrers(v) {
				switch x := r.(type) {
				case *ssa.IndexAddr, *ssa.DebugRef:
				case *ssa.Slice:
					scan(x, depth+1)
				case *ssa.Store:
					if x.Val == v {
						escapes = true
					}
				case *ssa.Send, *ssa.Go, *ssa.Defer, *ssa.MakeClosure, *ssa.MakeInterface, *ssa.Return:
					escapes = true
				case ssa.CallInstruction:
					if ssa.Instruction(x) != ssa.Instruction(read) {
						if _, isB := x.Common().Value.(*ssa.Builtin); !isB {
							escapes = true
						}
					}
				}
			}
		}
		scan(bi.(ssa.Value), 0)
		c.Check(blockInLoop(bi.Block()) || !escapes, rule, "Handle:fresh-buffer", read.Pos(), "the read buffer is private to the loop (allocated per read, or shared but never handed on as a slice)",
			"the read buffer is shared across iterations and handed on as a slice: a later read can overwrite bytes not yet consumed")
	}
}

// ruleTransientGaps (C13-R1/R3, C09-R9): how Handle classifies read errors
// (rule1) and how it times a run of EOF/timeout results (rule3).  Shared by
// C13 and C09: both properties quantify over how the input is chunked in time.
func ruleTransientGaps(c *Ctx, fn *ssa.Function, nVal, errVal ssa.Value, rule1, rule3 string) {
	// ---- R1 classification of returns
	isEOFNeq := func(v ssa.Value) (bool, token.Token) {
		bo, ok := v.(*ssa.BinOp)
		if !ok {
			return false, 0
		}
		x, y := bo.X, bo.Y
		if x != errVal {
			x, y = y, x
		}
		if x == errVal && isGlobalLoad(stripIface(y), "io", "EOF") {
			return true, bo.Op
		}
		return false, 0
	}
	isTimeoutText := func(v ssa.Value) bool {
		call, ok := v.(*ssa.Call)
		if !ok || !calleeIs(call.Call.StaticCallee(), "strings", "Contains") {
			return false
		}
		s, _ := constString(call.Call.Args[1])
		inv, ok := call.Call.Args[0].(*ssa.Call)
		return s == "i/o timeout" && ok && inv.Call.IsInvoke() && inv.Call.Value == errVal
	}
	kinds := map[string]int{}
	for i, r := range returnsOf(fn) {
		label := fmt.Sprintf("Handle:return#%d", i+1)
		// the error returned is the read error
		retErr := false
		for _, ins := range r.Block().Instrs {
			if st, ok := ins.(*ssa.Store); ok && st.Val == errVal {
				retErr = true
			}
		}
		if len(r.Results) == 1 && r.Results[0] == errVal {
			retErr = true
		}
		facts := dominatingFacts(r.Block())
		kind := ""
		var notEOF, notTimeout bool
		for _, f := range facts {
			if is, op := isEOFNeq(f.Cond); is && ((op == token.NEQ && f.Val) || (op == token.EQL && !f.Val)) {
				notEOF = true
			}
			if isTimeoutText(f.Cond) && !f.Val {
				notTimeout = true
			}
			// `r := err == io.EOF || timeout(err)` (an expanded predicate helper) found false: the value
			// false can only come over the edge that carries the second test, reached when the first failed
			{
				cv, val := f.Cond, f.Val
				if u, ok := cv.(*ssa.UnOp); ok && u.Op == token.NOT {
					cv, val = u.X, !val
				}
				if phi, ok := cv.(*ssa.Phi); ok && !val {
					ne, nt, good := false, false, true
					for i, e := range phi.Edges {
						if b, isC := constBool(e); isC {
							if !b {
								good = false
							}
							continue
						}
						switch {
						case isTimeoutText(e):
							nt = true
						default:
							if is, op := isEOFNeq(e); is && op == token.EQL {
								ne = true
							} else {
								good = false
							}
						}
						for _, pf := range dominatingFacts(phi.Block().Preds[i]) {
							if is, op := isEOFNeq(pf.Cond); is && ((op == token.NEQ && pf.Val) || (op == token.EQL && !pf.Val)) {
								ne = true
							}
							if isTimeoutText(pf.Cond) && !pf.Val {
								nt = true
							}
						}
						// the edge itself may be the false side of the first test
						pred := phi.Block().Preds[i]
						if ifi, ok := lastInstr(pred).(*ssa.If); ok && len(pred.Succs) == 2 {
							side := pred.Succs[0] == phi.Block()
							if is, op := isEOFNeq(ifi.Cond); is && ((op == token.NEQ && side) || (op == token.EQL && !side)) {
								ne = true
							}
						}
					}
					if good && ne && nt {
						notEOF, notTimeout = true, true
					}
				}
			}
			if bo, ok := f.Cond.(*ssa.BinOp); ok {
				if isCfgCall(bo.X, "TimeoutOnEOF") && isZero(bo.Y) && ((bo.Op == token.EQL && f.Val) || (bo.Op == token.NEQ && !f.Val)) {
					kind = "zero-tolerance"
				}
				if (bo.Op == token.GTR && f.Val) || (bo.Op == token.LEQ && !f.Val) {
					// time.Since(*first) is time.Now().Sub(*first)
					if since, ok := bo.X.(*ssa.Call); ok && calleeIs(since.Call.StaticCallee(), "time", "Since") && isCfgCall(bo.Y, "TimeoutOnEOF") {
						if ld, ok := since.Call.Args[0].(*ssa.UnOp); ok && ld.Op == token.MUL {
							if _, isPhi := ld.X.(*ssa.Phi); isPhi {
								kind = "tolerance-elapsed"
							}
						}
					}
					if sub, ok := bo.X.(*ssa.Call); ok && sub.Call.StaticCallee() != nil && calleeFullName(sub.Call.StaticCallee()) == "(time.Time).Sub" {
						if now, ok := sub.Call.Args[0].(*ssa.Call); ok && calleeIs(now.Call.StaticCallee(), "time", "Now") && isCfgCall(bo.Y, "TimeoutOnEOF") {
							// measured from the stored time of the first EOF
							if ld, ok := sub.Call.Args[1].(*ssa.UnOp); ok && ld.Op == token.MUL {
								if _, isPhi := ld.X.(*ssa.Phi); isPhi {
									kind = "tolerance-elapsed"
								}
							}
						}
					}
				}
			}
		}
		if kind == "" && notEOF && notTimeout {
			kind = "other-error"
		}
		if kind == "" {
			c.Fail(rule1, label+":unclassified", r.Pos(), "refuted", "Handle stops for a reason other than {non-retryable error, zero tolerance, tolerance elapsed}: a transient EOF/timeout ends the stream, or a retryable condition is treated as fatal")
			continue
		}
		kinds[kind]++
		// all three are on the error branch
		onErr := false
		for _, f := range facts {
			if bo, ok := f.Cond.(*ssa.BinOp); ok && (bo.X == errVal || bo.Y == errVal) && (isNilConst(bo.X) || isNilConst(bo.Y)) {
				if (bo.Op == token.NEQ && f.Val) || (bo.Op == token.EQL && !f.Val) {
					onErr = true
				}
			}
		}
		c.Check(onErr && retErr, rule1, label+":"+kind, r.Pos(), "returns the read error, on the error branch, for the reason: "+kind, "the return is not on the read-error branch or does not return the read error")
	}
	for _, k := range []string{"other-error", "zero-tolerance", "tolerance-elapsed"} {
		c.Check(kinds[k] >= 1, rule1, "exit-present("+k+")", fn.Pos(), "exit implemented", "the handler never stops for: "+k)
	}
	// zero-tolerance and elapsed exits are only for EOF/timeout errors: they are not reachable when the
	// error is neither (the other-error return dominates that case) — i.e. the other-error test comes first
	// (structure: the classification block dominates both)
	// and conversely: retrying (a pause before the next read) happens only for an end-of-file or time-out
	// result — every way into a Sleep on the error branch carries `err == io.EOF` or the time-out text test;
	// any other error reaches the other-error return whatever the state of the EOF clock
	eachInstr(fn, func(ins ssa.Instruction) {
		call, ok := ins.(*ssa.Call)
		if !ok || !calleeIs(call.Call.StaticCallee(), "time", "Sleep") {
			return
		}
		onErr := false
		for _, f := range dominatingFacts(call.Block()) {
			if bo, ok := f.Cond.(*ssa.BinOp); ok && (bo.X == errVal || bo.Y == errVal) && (isNilConst(bo.X) || isNilConst(bo.Y)) {
				if (bo.Op == token.NEQ && f.Val) || (bo.Op == token.EQL && !f.Val) {
					onErr = true
				}
			}
		}
		if !onErr {
			return
		}
		// cond has truth value val means "the error is end of file or a time-out": the two tests
		// themselves, their negations, and a boolean built from them (`r := a || b`)
		var retryCond func(v ssa.Value, val bool, depth int) bool
		retryCond = func(v ssa.Value, val bool, depth int) bool {
			if depth > 4 {
				return false
			}
			if is, op := isEOFNeq(v); is {
				return (op == token.EQL && val) || (op == token.NEQ && !val)
			}
			if isTimeoutText(v) {
				return val
			}
			switch x := v.(type) {
			case *ssa.UnOp:
				if x.Op == token.NOT {
					return retryCond(x.X, !val, depth+1)
				}
			case *ssa.Phi:
				if !val {
					return false
				}
				for i, e := range x.Edges {
					if b, isC := constBool(e); isC {
						// `true` on the edge taken when one of the tests succeeded
						pred, child := x.Block().Preds[i], x.Block()
						for k := 0; k < 3; k++ {
							if _, isJump := lastInstr(pred).(*ssa.Jump); isJump && len(pred.Preds) == 1 {
								pred, child = pred.Preds[0], pred
							}
						}
						ifi, ok := lastInstr(pred).(*ssa.If)
						if !b || !ok || len(pred.Succs) != 2 || !retryCond(ifi.Cond, pred.Succs[0] == child, depth+1) {
							return false
						}
						continue
					}
					if !retryCond(e, true, depth+1) {
						return false
					}
				}
				return true
			}
			return false
		}
		retryable := onEveryPath(call.Block(), func(f EdgeFact) bool { return retryCond(f.Cond, f.Val, 0) })
		tolerant := onEveryPath(call.Block(), func(f EdgeFact) bool {
			bo, ok := f.Cond.(*ssa.BinOp)
			if !ok || !isCfgCall(bo.X, "TimeoutOnEOF") || !isZero(bo.Y) {
				return false
			}
			return (bo.Op == token.EQL && !f.Val) || (bo.Op == token.NEQ && f.Val) || (bo.Op == token.GTR && f.Val)
		})
		c.Check(tolerant, rule1, "Handle:no-retry-with-zero-tolerance", call.Pos(), "the pause before a retry is reached only with a non-zero tolerance",
			"with tolerance zero some end-of-file or time-out result is retried instead of stopping the handler")
		c.Check(retryable, rule1, "Handle:retry-only-eof-or-timeout", call.Pos(), "the pause before a retry is reached only with an end-of-file or time-out result",
			"the handler can pause and retry after a read error that is neither end of file nor a time-out: such an error must stop it")
	})
	// ---- R3 EOF clock
	var clock *ssa.Phi
	eachInstr(fn, func(ins ssa.Instruction) {
		if phi, ok := ins.(*ssa.Phi); ok {
			if pt, ok := phi.Type().Underlying().(*types.Pointer); ok && isTimeTime(pt.Elem()) {
				clock = phi
			}
		}
	})
	if clock == nil {
		c.Fail(rule3, "Handle:eof-clock", fn.Pos(), "unresolved", "no *time.Time loop variable (time of first EOF) found")
	} else {
		for i, e := range clock.Edges {
			pred := clock.Block().Preds[i]
			label := fmt.Sprintf("Handle:eof-clock-edge#%d", i+1)
			switch {
			case e == ssa.Value(clock):
				// after a successful read the clock must not survive: a later, unrelated
				// interruption would be measured from the first one and end the stream at once
				afterSuccess := false
				for _, f := range dominatingFacts(pred) {
					if factPositive(f.Cond, f.Val, nVal) {
						afterSuccess = true
					}
				}
				c.Check(!afterSuccess, rule3, label+":kept", clock.Pos(), "clock unchanged (no data was read on this path)",
					"the EOF clock is not cleared after a successful read: the next transient EOF is timed from an earlier one and the handler gives up although the tolerance has not elapsed")
			case isNilConst(e):
				if pred.Index == 0 || !clock.Block().Dominates(pred) {
					c.OK(rule3, label+":initially-clear", clock.Pos(), "clock starts clear")
					continue
				}
				// cleared only on the success path (dominated by n > 0)
				okc := false
				for _, f := range dominatingFacts(pred) {
					if factPositive(f.Cond, f.Val, nVal) {
						okc = true
					}
				}
				if pred == clock.Block() {
					okc = false
				}
				c.Check(okc, rule3, label+":cleared-on-success", clock.Pos(), "clock cleared only after a successful read", "the EOF clock is cleared on a path that did not read data: the tolerance never elapses")
			default:
				al, ok := e.(*ssa.Alloc)
				good := false
				if ok {
					sv, _, one := singleStore(al)
					if call, isCall := sv.(*ssa.Call); one && isCall && calleeIs(call.Call.StaticCallee(), "time", "Now") {
						for _, f := range dominatingFacts(al.Block()) {
							if bo, ok := f.Cond.(*ssa.BinOp); ok && bo.X == ssa.Value(clock) && isNilConst(bo.Y) && ((bo.Op == token.EQL && f.Val) || (bo.Op == token.NEQ && !f.Val)) {
								good = true
							}
						}
					}
				}
				c.Check(good, rule3, label+":started-when-clear", clock.Pos(), "clock set to time.Now() only when it was clear (first EOF of a run)", "the EOF clock is restarted on every EOF (the tolerance never elapses) or set to something other than the current time")
			}
		}
	}
}

// ruleToleranceAccessors: Config.TimeoutOnEOF and Config.WaitTimeOnEOF are projections of one setting
// each — a branch-free `time.Duration(config.<field>) * <positive constant>` — so the value Handle tests
// against zero is zero exactly when the setting is (an accessor that clamps or combines settings turns
// "no tolerance" into some tolerance).
func ruleToleranceAccessors(c *Ctx, rule string) {
	P := c.P
	seenField := map[*types.Var]string{}
	for _, name := range []string{"TimeoutOnEOF", "WaitTimeOnEOF"} {
		fn := P.Func("jsonconfig", "(*Config)."+name)
		if fn == nil {
			c.Unresolved(rule, "jsonconfig.(*Config)."+name)
			continue
		}
		ok := true
		why := ""
		eachInstr(fn, func(ins ssa.Instruction) {
			if ifi, isIf := ins.(*ssa.If); isIf && !blockDead(ifi.Block()) {
				ok, why = false, "it branches"
			}
		})
		rets := returnsOf(fn)
		if len(rets) != 1 || len(rets[0].Results) != 1 {
			ok, why = false, "it has several returns"
		}
		if ok {
			var fld *types.Var
			v := stripConv(rets[0].Results[0])
			if bo, isB := v.(*ssa.BinOp); isB && bo.Op == token.MUL {
				x, y := bo.X, bo.Y
				if k, isC := constInt(x); isC && k > 0 {
					x, y = y, x
				}
				if k, isC := constInt(y); isC && k > 0 {
					if f, base := loadedField(stripConv(x)); f != nil && len(fn.Params) > 0 && root(base) == ssa.Value(fn.Params[0]) {
						fld = f
					}
				}
			} else if f, base := loadedField(v); f != nil && len(fn.Params) > 0 && root(base) == ssa.Value(fn.Params[0]) {
				fld = f
			}
			if fld == nil {
				ok, why = false, "its result is not one setting times a positive constant"
			} else if other, dup := seenField[fld]; dup {
				ok, why = false, "it reads the setting of "+other
			} else {
				seenField[fld] = name
			}
		}
		c.Check(ok, rule, "tolerance-accessor("+name+")", fn.Pos(), name+"() is its own setting times a positive constant",
			"Config."+name+"() is not a plain projection of its setting ("+why+"): a configured zero tolerance, or the configured limit, is replaced by another value")
	}
}
