package main

// Framing rules shared by C01, C02, C03, C10, C12: byte conservation in the
// framer, exact frame extent, gate dominance, CRC gate completeness,
// rejection-site enumeration.

import (
	"fmt"
	"go/constant"
	"go/token"
	"go/types"
	"os"
	"path/filepath"
	"sort"
	"strings"

	"golang.org/x/tools/go/ssa"
)

type readSite struct {
	call *ssa.Call
	b    ssa.Value // byte result
	err  ssa.Value // error result
}

type framing struct {
	c   *Ctx
	P   *Prog
	pl  *pipeline
	A   *Aff
	acc map[*ssa.Function]map[ssa.Value]bool
}

func newFraming(c *Ctx, rule string) *framing {
	pl := resolvePipeline(c, rule)
	if pl == nil {
		return nil
	}
	f := &framing{c: c, P: c.P, pl: pl, A: NewAff(c.P), acc: map[*ssa.Function]map[ssa.Value]bool{}}
	// L-helper-pure: the leader helper reads only the first five bytes of its
	// argument and no other state, so its results on any two members of one
	// accumulator chain that both hold at least five bytes are equal.  The
	// premises are verified by ruleHelperPure; the identification is used only
	// for the exact-count rule.
	return f
}

func (f *framing) reads(fn *ssa.Function) []readSite {
	var out []readSite
	eachInstr(fn, func(ins ssa.Instruction) {
		call, ok := ins.(*ssa.Call)
		if !ok || call.Call.StaticCallee() != f.pl.pbNext {
			return
		}
		rs := readSite{call: call}
		for _, r := range referrers(call) {
			if ex, ok := r.(*ssa.Extract); ok {
				if ex.Index == 0 {
					rs.b = ex
				} else {
					rs.err = ex
				}
			}
		}
		out = append(out, rs)
	})
	return out
}

// appendOne: v = append(base, e) with a single element e.
func appendOne(v ssa.Value) (base, elem ssa.Value, ok bool) {
	call, isCall := v.(*ssa.Call)
	if !isCall {
		return nil, nil, false
	}
	b, isB := call.Call.Value.(*ssa.Builtin)
	if !isB || b.Name() != "append" || len(call.Call.Args) != 2 {
		return nil, nil, false
	}
	sl, isSl := call.Call.Args[1].(*ssa.Slice)
	if !isSl {
		return nil, nil, false
	}
	al, isAl := sl.X.(*ssa.Alloc)
	if !isAl {
		return nil, nil, false
	}
	arr, isArr := al.Type().Underlying().(*types.Pointer).Elem().Underlying().(*types.Array)
	if !isArr || arr.Len() != 1 {
		return nil, nil, false
	}
	var stored ssa.Value
	n := 0
	for _, r := range referrers(al) {
		if ia, ok := r.(*ssa.IndexAddr); ok {
			for _, r2 := range referrers(ia) {
				if st, ok := r2.(*ssa.Store); ok && st.Addr == ssa.Value(ia) {
					stored = st.Val
					n++
				}
			}
		}
	}
	if n != 1 {
		return nil, nil, false
	}
	return call.Call.Args[0], stored, true
}

// accumulators computes the accumulator chain of fn from its initial values.
func (f *framing) accumulators(fn *ssa.Function, init []ssa.Value, readBytes map[ssa.Value]bool) map[ssa.Value]bool {
	// greatest fixpoint: start from every candidate (initial values, phis of
	// slice type, single-element appends of read bytes) and discard those whose
	// inputs are not candidates.
	A := map[ssa.Value]bool{}
	isInit := map[ssa.Value]bool{}
	for _, v := range init {
		A[v] = true
		isInit[v] = true
	}
	eachInstr(fn, func(ins ssa.Instruction) {
		switch x := ins.(type) {
		case *ssa.Phi:
			if _, ok := x.Type().Underlying().(*types.Slice); ok {
				A[x] = true
			}
		case *ssa.Call:
			if _, el, ok := appendOne(x); ok && readBytes[el] {
				A[x] = true
			}
		}
	})
	changed := true
	for changed {
		changed = false
		for v := range A {
			if isInit[v] {
				continue
			}
			ok := true
			switch x := v.(type) {
			case *ssa.Phi:
				for _, e := range x.Edges {
					if !A[e] {
						ok = false
					}
				}
			case *ssa.Call:
				base, _, _ := appendOne(x)
				if !A[base] {
					ok = false
				}
			}
			if !ok {
				delete(A, v)
				changed = true
			}
		}
	}
	// keep only what derives from an initial value
	reach := map[ssa.Value]bool{}
	for v := range isInit {
		reach[v] = true
	}
	changed = true
	for changed {
		changed = false
		for v := range A {
			if reach[v] {
				continue
			}
			switch x := v.(type) {
			case *ssa.Phi:
				for _, e := range x.Edges {
					if reach[e] {
						reach[v] = true
						changed = true
					}
				}
			case *ssa.Call:
				if base, _, _ := appendOne(x); reach[base] {
					reach[v] = true
					changed = true
				}
			}
		}
	}
	for v := range A {
		if !reach[v] {
			delete(A, v)
		}
	}
	return A
}

// superseded: a newer accumulator append(x, .) strictly dominates the use.
func (f *framing) superseded(A map[ssa.Value]bool, x ssa.Value, use ssa.Instruction) (ssa.Value, bool) {
	for y := range A {
		if base, _, ok := appendOne(y); ok && base == x {
			if yi, ok := y.(ssa.Instruction); ok && instrDominates(yi, use) {
				return y, true
			}
		}
	}
	return nil, false
}

// ruleAccumulator: byte conservation inside fn (fetcher or junk eater).
func (f *framing) ruleAccumulator(rule string, fn *ssa.Function, init []ssa.Value) map[ssa.Value]bool {
	c, P := f.c, f.P
	name := fn.Name()
	reads := f.reads(fn)
	rb := map[ssa.Value]bool{}
	for _, r := range reads {
		if r.b != nil {
			rb[r.b] = true
		}
	}
	A := f.accumulators(fn, init, rb)
	f.acc[fn] = A
	isRead := func(i ssa.Instruction) bool {
		for _, r := range reads {
			if ssa.Instruction(r.call) == i {
				return true
			}
		}
		return false
	}
	for k, r := range reads {
		label := fmt.Sprintf("%s:read#%d", name, k+1)
		if r.b == nil || r.err == nil {
			c.Fail(rule, label+":results", r.call.Pos(), "unproven", "the byte or error result of GetNextByte is discarded")
			continue
		}
		// the appends of this byte
		var apps []ssa.Instruction
		eachInstr(fn, func(ins ssa.Instruction) {
			if v, ok := ins.(ssa.Value); ok {
				if base, el, ok := appendOne(v); ok && el == r.b && A[base] && A[v] {
					apps = append(apps, ins)
				}
			}
		})
		isApp := func(i ssa.Instruction) bool {
			for _, a := range apps {
				if a == i {
					return true
				}
			}
			return false
		}
		// success edge: err != nil false
		edgeOK := func(a, b *ssa.BasicBlock) bool {
			ifi, ok := lastInstr(a).(*ssa.If)
			if !ok || len(a.Succs) != 2 {
				return true
			}
			if bo, ok := ifi.Cond.(*ssa.BinOp); ok && (bo.Op == token.NEQ || bo.Op == token.EQL) {
				x, y := bo.X, bo.Y
				if isNilConst(x) {
					x, y = y, x
				}
				if x == r.err && isNilConst(y) {
					failEdge := a.Succs[0]
					if bo.Op == token.EQL {
						failEdge = a.Succs[1]
					}
					if b == failEdge {
						return false
					}
				}
			}
			return true
		}
		until := func(i ssa.Instruction) bool {
			if isRead(i) || isReturn(i) {
				return true
			}
			// handing the accumulator to another function also ends the obligation window
			if call, ok := i.(*ssa.Call); ok {
				if fn2 := call.Call.StaticCallee(); fn2 != nil && P.InModule(fn2) && fn2 != f.pl.pbPush {
					for _, a := range call.Call.Args {
						if A[a] {
							return true
						}
					}
				}
			}
			return false
		}
		if path, _ := mustPass(r.call, isApp, until, edgeOK); path != nil {
			c.Fail(rule, label+":appended", r.call.Pos(), "refuted", "a byte obtained from the input can reach the next read, a return or the hand-over of the frame without having been appended to the frame buffer: it is lost", P.blockPath(path)...)
		} else {
			c.OK(rule, label+":appended", r.call.Pos(), "on the success edge every path to the next read/return/hand-over passes append(frame, b)")
		}
		if len(apps) > 1 {
			// at most once per read
			if path, _ := atMostOnce(fn, isApp, func(i ssa.Instruction) bool { return i == ssa.Instruction(r.call) }); path != nil {
				c.Fail(rule, label+":appended-once", r.call.Pos(), "refuted", "a byte can be appended twice", P.blockPath(path)...)
				continue
			}
		}
		// the append happens only when the read succeeded
		okNil := true
		for _, a := range apps {
			if !f.A.errKnownNil(r.err, a.Block()) {
				okNil = false
			}
		}
		c.Check(okNil && len(apps) > 0, rule, label+":appended-once", r.call.Pos(), "appended once, only on the success edge of its read",
			"the byte is appended without knowing that the read succeeded (a zero byte would be inserted at end of input), or never appended")
		// other uses of the byte: only comparisons with constants
		for _, u := range referrers(r.b) {
			switch x := u.(type) {
			case *ssa.Store, *ssa.DebugRef:
			case *ssa.BinOp:
				if _, isC := constInt(x.Y); !isC {
					c.Fail(rule, label+":byte-use", x.Pos(), "unproven", "unrecognised use of an input byte")
				}
			default:
				c.Fail(rule, label+":byte-use", u.Pos(), "unproven", "unrecognised use of an input byte: "+u.String())
			}
		}
	}
	// linearity: no use of a stale accumulator
	stale := 0
	eachInstr(fn, func(ins ssa.Instruction) {
		if _, isPhi := ins.(*ssa.Phi); isPhi {
			return
		}
		var ops []*ssa.Value
		for _, op := range ins.Operands(ops) {
			if op == nil || *op == nil || !A[*op] {
				continue
			}
			// len()/index reads do not consume the accumulator
			if call, ok := ins.(*ssa.Call); ok {
				if b, ok := call.Call.Value.(*ssa.Builtin); ok && b.Name() == "len" {
					continue
				}
			}
			if _, ok := ins.(*ssa.IndexAddr); ok {
				continue
			}
			if y, old := f.superseded(A, *op, ins); old {
				stale++
				c.Fail(rule, fmt.Sprintf("%s:stale-buffer(%s)", name, (*op).Name()), ins.Pos(), "refuted",
					"an older version of the frame buffer is used after bytes were appended to it ("+y.Name()+"): those bytes are lost")
			}
		}
	})
	if stale == 0 {
		c.OK(rule, name+":buffer-linear", fn.Pos(), fmt.Sprintf("no stale version of the frame buffer is used (%d buffer versions)", len(A)))
	}
	return A
}

// isNonRTCMOf: v = NewNonRTCM(x); returns x.
func (f *framing) nonRTCMArg(v ssa.Value) (ssa.Value, bool) {
	call, ok := v.(*ssa.Call)
	if !ok || call.Call.StaticCallee() != f.pl.newNon {
		return nil, false
	}
	return call.Call.Args[0], true
}

// ruleFetchReturns: every exit of the fetcher returns the whole buffer, or
// withholds exactly the pushed-back start byte, or hands the whole buffer to
// the single-frame decoder; no message is empty.
type fetchOpts struct {
	inputErrorExitsOnly bool // check only the exits taken on an input error (flush of the partial data)
	leaderOK            bool // require the decoder call to follow a successful leader check (C01/C10)
	skipPairing         bool // do not report unpaired push-backs
}

func (f *framing) ruleFetchReturns(rule string, o fetchOpts) {
	c, P, pl := f.c, f.P, f.pl
	fn := pl.fetch
	A := f.acc[fn]
	if A == nil {
		return
	}
	var pushes []ssa.Instruction
	eachInstr(fn, func(ins ssa.Instruction) {
		if staticCallee(ins) == pl.pbPush {
			pushes = append(pushes, ins)
		}
	})
	usedPush := map[ssa.Instruction]bool{}
	isInputErrExit := func(r *ssa.Return) bool {
		for _, ft := range dominatingFacts(r.Block()) {
			bo, ok := ft.Cond.(*ssa.BinOp)
			if !ok || !(isNilConst(bo.X) || isNilConst(bo.Y)) {
				continue
			}
			x := bo.X
			if isNilConst(x) {
				x = bo.Y
			}
			ex, ok := x.(*ssa.Extract)
			if !ok {
				continue
			}
			call, ok := ex.Tuple.(*ssa.Call)
			if !ok || (call.Call.StaticCallee() != pl.pbNext && call.Call.StaticCallee() != pl.eat) {
				continue
			}
			if (bo.Op == token.NEQ) == ft.Val {
				return true
			}
		}
		return false
	}
	for i, r := range returnsOf(fn) {
		label := fmt.Sprintf("fetch:return#%d", i+1)
		msg, errv := r.Results[0], r.Results[1]
		if o.inputErrorExitsOnly && !isInputErrExit(r) {
			continue
		}
		switch {
		case isNilConst(msg):
			// nothing delivered: nothing may have been consumed
			var cur ssa.Value
			for x := range A {
				if xi, ok := x.(ssa.Instruction); ok && instrDominates(xi, r) {
					if _, old := f.superseded(A, x, r); !old {
						cur = x
					}
				}
			}
			ok := cur != nil && f.A.Prove(r.Block(), LE(f.A.LenOf(cur), LinConst(0)))
			c.Check(ok, rule, label+":nil-message-empty-buffer", r.Pos(), "a nil message is returned only when no byte has been consumed (len(frame)==0)",
				"the fetcher can return no message although bytes have been consumed: they are lost")
			// its error must be the input error
		case func() bool { _, ok := f.nonRTCMArg(msg); return ok }():
			x0, _ := f.nonRTCMArg(msg)
			// the wrapped buffer may be a merge of alternatives (a helper that returns either the whole
			// buffer or the trimmed one): each incoming alternative is checked under its own path
			type altT struct {
				x  ssa.Value
				at *ssa.BasicBlock
			}
			alts := []altT{{x0, r.Block()}}
			if phi, ok := x0.(*ssa.Phi); ok && !A[x0] {
				alts = nil
				for i, e := range phi.Edges {
					alts = append(alts, altT{e, phi.Block().Preds[i]})
				}
			}
			for ai, al := range alts {
				x, at := al.x, al.at
				alt := ""
				if len(alts) > 1 {
					alt = fmt.Sprintf(":alt%d", ai+1)
				}
				if A[x] {
					_, old := f.superseded(A, x, r)
					c.Check(!old, rule, label+alt+":returns-whole-buffer", r.Pos(), "non-RTCM message carries the whole current frame buffer", "a stale frame buffer is returned")
				} else if sl, ok := x.(*ssa.Slice); ok && A[sl.X] {
					// frame[:len-1] with push-back of the withheld byte
					hiOK := sl.Low == nil && sl.High != nil && f.A.Lin(sl.High).Equal(f.A.LenOf(sl.X).AddConst(-1))
					var push ssa.Instruction
					for _, p := range pushes {
						if !(p.Block() == at || p.Block().Dominates(at) || (at == r.Block() && instrDominates(p, r))) {
							continue
						}
						// paired with this exit: no other return can follow the push
						rr := r
						q := pathQuery{goal: func(i ssa.Instruction) bool {
							x, ok := i.(*ssa.Return)
							return ok && x != rr
						}}
						if path, _ := q.search(p.Block(), instrIndex(p)); path == nil {
							push = p
						}
					}
					okPush := false
					if push != nil {
						usedPush[push] = true
						k, isC := constInt(push.(*ssa.Call).Call.Args[1])
						// the withheld byte equals the pushed constant
						for _, ft := range append(edgeFactsInto(at, r.Block()), dominatingFacts(at)...) {
							if fx, fy, equal, ok := eqFact(ft); ok && equal {
								if ld, ok := fx.(*ssa.UnOp); ok && ld.Op == token.MUL {
									if ia, ok := ld.X.(*ssa.IndexAddr); ok && trivialPhi(ia.X) == trivialPhi(sl.X) && f.A.Lin(ia.Index).Equal(f.A.LenOf(sl.X).AddConst(-1)) {
										if k2, ok := constInt(fy); ok && isC && k2 == k {
											okPush = true
										}
									}
								}
							}
						}
					}
					c.Check(hiOK && okPush, rule, label+alt+":withholds-pushed-back-byte", r.Pos(), "returns frame[:len-1] and pushes back the constant that frame[len-1] was found equal to",
						"the fetcher trims the buffer without pushing back exactly the trimmed byte: a byte is lost, duplicated or altered")
				} else {
					c.Fail(rule, label+alt+":returns-whole-buffer", r.Pos(), "refuted", "the non-RTCM message does not carry the whole frame buffer")
				}
			}
			c.Check(isNilConst(errv), rule, label+":nil-error", r.Pos(), "delivered with a nil error (the stream handler forwards it)",
				"a message is returned together with an input error: the stream handler treats \"done\" as end of input and drops the message")
			// non-empty
			if arg, _ := f.nonRTCMArg(msg); arg != nil {
				nonEmpty := f.A.Prove(r.Block(), GE(f.A.LenOf(arg), LinConst(1)))
				if !nonEmpty && len(alts) > 1 {
					// every alternative is non-empty on its own path
					nonEmpty = true
					for _, al := range alts {
						if !f.A.Prove(al.at, GE(f.A.LenOf(al.x), LinConst(1))) {
							nonEmpty = false
						}
					}
				}
				c.Check(nonEmpty, rule, label+":non-empty", r.Pos(), "len(RawData) >= 1", "an empty message can be delivered")
			}
		default:
			// result of the single-frame decoder on the current buffer
			ex, ok := msg.(*ssa.Extract)
			var call *ssa.Call
			if ok {
				call, _ = ex.Tuple.(*ssa.Call)
			}
			if call == nil || call.Call.StaticCallee() != pl.getMsg || ex.Index != 0 {
				c.Fail(rule, label+":message-origin", r.Pos(), "refuted", "the fetcher returns a message that is neither a non-RTCM wrapper of the buffer nor the single-frame decoder's result")
				continue
			}
			arg := call.Call.Args[1]
			_, old := f.superseded(A, arg, call)
			c.Check(A[arg] && !old, rule, label+":decoder-gets-whole-buffer", call.Pos(), "the single-frame decoder receives the whole current frame buffer", "the single-frame decoder is not given the whole current frame buffer")
			// the decoder is entered only after the leader helper accepted the same prefix: by
			// L-helper-pure its own leader check then succeeds too, so it can only deliver a
			// fully gated typed message or a non-RTCM wrapper (never a typed message that
			// merely carries a format error, which the stream handler would forward)
			leaderOK := false
			eachInstr(fn, func(i2 ssa.Instruction) {
				hc, ok := i2.(*ssa.Call)
				if !ok || hc.Call.StaticCallee() != pl.lenType || !A[hc.Call.Args[len(hc.Call.Args)-1]] {
					return
				}
				for _, rr := range referrers(hc) {
					if ex3, ok := rr.(*ssa.Extract); ok && ex3.Index == 2 && f.A.errKnownNil(ex3, call.Block()) {
						leaderOK = true
					}
				}
			})
			if !o.leaderOK {
				leaderOK = true
			}
			c.Check(leaderOK, rule, label+":decoder-after-leader-ok", call.Pos(), "the decoder is called only on the path where the leader helper accepted the frame's first five bytes",
				"the single-frame decoder is called although the leader was rejected (or not checked): its typed-message-with-format-error result would be forwarded by the stream handler as a typed message that is not a frame")
			// error returned is the decoder's own error (never "done")
			okErr := false
			if ex2, ok := errv.(*ssa.Extract); ok && ex2.Tuple == ssa.Value(call) && ex2.Index == 1 {
				okErr = true
			}
			c.Check(okErr, rule, label+":decoder-error", r.Pos(), "the decoder's message is returned with the decoder's own error", "the decoder's message is returned with a different error value")
		}
	}
	for _, p := range pushes {
		if o.inputErrorExitsOnly || o.skipPairing {
			break
		}
		if !usedPush[p] {
			c.Fail(rule, "fetch:unpaired-push-back", p.Pos(), "refuted", "a push-back that is not paired with the trimmed junk return: bytes are re-read, reordered or duplicated")
		}
	}
	// the decoder's errors are never the input-exhausted error
	reach := P.ReachableModule([]*ssa.Function{pl.getMsg})
	c.Check(!reach[pl.pbGet] && !reach[pl.pbNext], rule, "decoder-independent-of-input-channel", pl.getMsg.Pos(), "the single-frame decoder does not touch the push-back channel (its errors are never \"done\")",
		"the single-frame decoder reads from the input channel")
}

// ruleDecoderRawData: every message returned by the single-frame decoder
// carries the parameter itself or a prefix of it; prefix bounds are returned
// for the exact-count rule.
func (f *framing) ruleDecoderRawData(rule string) (prefixHigh []ssa.Value) {
	c, pl := f.c, f.pl
	fn := pl.getMsg
	param := fn.Params[1]
	for i, r := range returnsOf(fn) {
		label := fmt.Sprintf("GetMessage:return#%d", i+1)
		msg := r.Results[0]
		if isNilConst(msg) {
			c.Check(f.A.Prove(r.Block(), LE(f.A.LenOf(param), LinConst(0))), rule, label+":nil-only-for-empty", r.Pos(), "nil message only for an empty input", "the decoder can return no message for non-empty input")
			continue
		}
		call, ok := msg.(*ssa.Call)
		if !ok {
			c.Fail(rule, label+":rawdata", r.Pos(), "unproven", "returned message is not a direct constructor result")
			continue
		}
		var raw ssa.Value
		switch call.Call.StaticCallee() {
		case pl.newNon:
			raw = call.Call.Args[0]
		case pl.newMsg:
			raw = call.Call.Args[2]
		default:
			c.Fail(rule, label+":rawdata", r.Pos(), "unproven", "returned message is built by an unknown constructor")
			continue
		}
		if raw == ssa.Value(param) {
			c.OK(rule, label+":rawdata-is-input", r.Pos(), "RawData is the whole input")
			continue
		}
		if sl, ok := raw.(*ssa.Slice); ok && sl.X == ssa.Value(param) && sl.Low == nil && sl.High != nil {
			prefixHigh = append(prefixHigh, sl.High)
			c.OK(rule, label+":rawdata-is-prefix", r.Pos(), "RawData is input[:high]; high == len(input) is proved by the exact-count rule")
			continue
		}
		c.Fail(rule, label+":rawdata", r.Pos(), "refuted", "RawData is neither the input nor a prefix of it")
	}
	// no store to RawData after construction in the decoder or the fetcher
	for _, g := range []*ssa.Function{pl.getMsg, pl.fetch, pl.stream} {
		eachInstr(g, func(ins ssa.Instruction) {
			if st, ok := ins.(*ssa.Store); ok {
				if fv, _ := fieldOf(st.Addr); fv == pl.rawData {
					c.Fail(rule, g.Name()+":rawdata-reassigned", ins.Pos(), "refuted", "RawData is reassigned after construction")
				}
			}
		})
	}
	return
}

// ruleHelperPure (L-helper-pure premises): the leader helper reads only
// bytes 0..4 of its argument and no mutable state.
func (f *framing) ruleHelperPure(rule string) bool {
	c, P, pl := f.c, f.P, f.pl
	h := pl.lenType
	buf := h.Params[len(h.Params)-1]
	ok := true
	eachInstr(h, func(ins ssa.Instruction) {
		switch x := ins.(type) {
		case *ssa.IndexAddr:
			if x.X == ssa.Value(buf) {
				if k, isC := constInt(x.Index); !isC || k > 4 {
					ok = false
				}
			}
		case *ssa.Call:
			fn := x.Call.StaticCallee()
			if fn != nil && P.InModule(fn) {
				if fn.Name() == "GetBitsAsUint64" || fn.Name() == "GetBitsAsInt64" {
					p, ok1 := constInt(x.Call.Args[1])
					l, ok2 := constInt(x.Call.Args[2])
					if !ok1 || !ok2 || p+l > 40 || x.Call.Args[0] != ssa.Value(buf) {
						ok = false
					}
				} else if !pureOfArgs(P, fn, buf, x, 0) {
					// another module function: fine if it is a function of its (buffer-free) arguments only
					ok = false
				}
			}
		case *ssa.UnOp:
			if x.Op == token.MUL {
				if g, isG := x.X.(*ssa.Global); isG && !globalIsInitOnly(P, g) {
					ok = false
				}
				if fa, isFA := x.X.(*ssa.FieldAddr); isFA {
					// fields of a local value (a struct built here) are not state; receiver or
					// parameter fields would make the helper state dependent
					if _, local := root(fa.X).(*ssa.Alloc); !local {
						ok = false
					}
				}
			}
		case *ssa.Slice:
			if x.X == ssa.Value(buf) {
				ok = false
			}
		}
	})
	c.Check(ok, rule, "L-helper-pure", h.Pos(), "the leader helper reads only bytes 0..4 (bits 0..39) of its argument and no mutable state: equal results on every extension of the same 5-byte prefix",
		"the leader helper reads beyond the first five bytes or depends on mutable state: its two evaluations (framer, decoder) may disagree")
	if ok {
		c.Lemmas = append(c.Lemmas, "L-helper-pure: getMessageLengthAndType depends only on bytes 0..4 of its argument (premises re-verified on this run)")
	}
	return ok
}

// pureOfArgs: the call passes neither the buffer nor anything derived from it
// by reference, and the callee (transitively, within the module) reads no
// mutable package state, stores to nothing but its own locals and calls only
// such functions or reviewed external ones: its result depends on its argument
// values alone.
func pureOfArgs(P *Prog, fn *ssa.Function, buf ssa.Value, call *ssa.Call, depth int) bool {
	if call != nil {
		for _, a := range call.Call.Args {
			if root(a) == buf {
				return false
			}
		}
	}
	if depth > 4 || fn.Blocks == nil {
		return false
	}
	pure := true
	eachInstr(fn, func(ins ssa.Instruction) {
		switch x := ins.(type) {
		case *ssa.Store:
			if _, local := root(x.Addr).(*ssa.Alloc); !local {
				pure = false
			}
		case *ssa.UnOp:
			if x.Op == token.MUL {
				if g, isG := x.X.(*ssa.Global); isG && !globalIsInitOnly(P, g) {
					pure = false
				}
				if x.Op == token.ARROW {
					pure = false
				}
			}
		case *ssa.MapUpdate, *ssa.Send, *ssa.Go, *ssa.Defer, *ssa.Select:
			pure = false
		case *ssa.Call:
			if _, isB := x.Call.Value.(*ssa.Builtin); isB {
				return
			}
			g := x.Call.StaticCallee()
			if g == nil {
				pure = false
				return
			}
			if P.InModule(g) {
				if g != fn && !pureOfArgs(P, g, nil, nil, depth+1) {
					pure = false
				}
				return
			}
			full := calleeFullName(g)
			if _, ok := noPanicAllow[full]; !ok && !pkgNoPanic(g, full) {
				pure = false
			}
			if strings.HasPrefix(full, "log/slog.") || strings.HasPrefix(full, "time.Now") {
				// logging and the clock do not feed the result; accepted
			}
		}
	})
	return pure
}

// edgeFactsInto: the branch fact carried by the edge from block p into block b (if p ends in an If).
func edgeFactsInto(p, b *ssa.BasicBlock) []EdgeFact {
	if p == b {
		return nil
	}
	if ifi, ok := lastInstr(p).(*ssa.If); ok && len(p.Succs) == 2 && p.Succs[0] != p.Succs[1] {
		for k, s := range p.Succs {
			if s == b {
				return []EdgeFact{{ifi.Cond, k == 0, p}}
			}
		}
	}
	return nil
}

// ruleExactCount: the framer hands the decoder exactly L+6 bytes and the
// decoder delivers exactly L'+6 bytes with L' = L (L-helper-pure).
func (f *framing) ruleExactCount(rule string, prefixHigh []ssa.Value) {
	c, pl := f.c, f.pl
	leader, _ := f.P.frameConsts()
	// in the fetcher
	var helperLen ssa.Value
	var helperCall *ssa.Call
	eachInstr(pl.fetch, func(ins ssa.Instruction) {
		if call, ok := ins.(*ssa.Call); ok && call.Call.StaticCallee() == pl.lenType {
			helperCall = call
			for _, r := range referrers(call) {
				if ex, ok := r.(*ssa.Extract); ok && ex.Index == 0 {
					helperLen = ex
				}
			}
		}
	})
	var decCall *ssa.Call
	eachInstr(pl.fetch, func(ins ssa.Instruction) {
		if call, ok := ins.(*ssa.Call); ok && call.Call.StaticCallee() == pl.getMsg {
			decCall = call
		}
	})
	if helperLen == nil || decCall == nil {
		c.Fail(rule, "fetch:exact-count", pl.fetch.Pos(), "unresolved", "leader helper call or decoder call not found in the fetcher")
		return
	}
	want := f.A.Lin(helperLen).AddConst(2 * leader)
	got := f.A.LenOf(decCall.Call.Args[1])
	okEq := f.A.Prove(decCall.Block(), GE(got, want)) && f.A.Prove(decCall.Block(), LE(got, want))
	c.Check(okEq, rule, "fetch:exact-count", decCall.Pos(), "len(frame) handed to the decoder == L + 3 + 3 (loop invariants: 1 start byte + 4 + (L+6-5) appended bytes)",
		"the framer does not hand the decoder exactly L+6 bytes ("+got.String()+" vs "+want.String()+"): frames are cut short or run into their successor")
	// the helper was given at least 5 bytes in the fetcher
	c.Check(f.A.Prove(helperCall.Block(), GE(f.A.LenOf(helperCall.Call.Args[1]), LinConst(5))), rule, "fetch:helper-has-5-bytes", helperCall.Pos(), "the leader helper is evaluated on at least five bytes", "the leader helper may be evaluated on fewer than five bytes")
	// in the decoder: high == L' + 6
	var decLen ssa.Value
	eachInstr(pl.getMsg, func(ins ssa.Instruction) {
		if call, ok := ins.(*ssa.Call); ok && call.Call.StaticCallee() == pl.lenType {
			for _, r := range referrers(call) {
				if ex, ok := r.(*ssa.Extract); ok && ex.Index == 0 {
					decLen = ex
				}
			}
		}
	})
	if decLen == nil {
		c.Fail(rule, "GetMessage:extent", pl.getMsg.Pos(), "unresolved", "leader helper call not found in the decoder")
		return
	}
	for i, hi := range prefixHigh {
		w := f.A.Lin(decLen).AddConst(2 * leader)
		c.Check(f.A.Lin(hi).Equal(w), rule, fmt.Sprintf("GetMessage:extent#%d", i+1), hi.Pos(), "delivered extent == L + 3 + 3",
			"the decoder delivers "+f.A.Lin(hi).String()+" bytes, not L+6 ("+w.String()+")")
	}
}

func (p *Prog) frameConsts() (leader int64, start int64) {
	leader, start = 3, 0xd3
	if k := p.Const("rtcm/utils", "LeaderLengthBytes"); k != nil {
		if v, ok := constant.Int64Val(constant.ToInt(k.Val())); ok {
			leader = v
		}
	}
	if k := p.Const("rtcm/utils", "StartOfMessageFrame"); k != nil {
		if v, ok := constant.Int64Val(constant.ToInt(k.Val())); ok {
			start = v
		}
	}
	return
}

// ruleNoContentExit: after the start byte, the framer's loops are left only
// by their counters or by an input error; no branch depends on byte content
// and nothing is pushed back (C03-R2, C12-R2).
func (f *framing) ruleNoContentExit(rule string) {
	c := f.c
	fn := f.pl.fetch
	bad := 0
	for _, r := range f.reads(fn) {
		if r.b == nil {
			continue
		}
		for _, u := range referrers(r.b) {
			if bo, ok := u.(*ssa.BinOp); ok {
				bad++
				c.Fail(rule, "fetch:content-dependent-branch", bo.Pos(), "refuted", "while a candidate frame is being read the framer inspects byte content: a frame whose header, payload or CRC contains that value is split")
			}
		}
	}
	if bad == 0 {
		c.OK(rule, "fetch:no-content-dependent-branch", fn.Pos(), "bytes read in phases 2 and 3 are only appended; loop exits are counter or input-error edges")
	}
	// loop conditions: counter < invariant bound
	for _, b := range fn.Blocks {
		if !blockInLoop(b) {
			continue
		}
		ifi, ok := lastInstr(b).(*ssa.If)
		if !ok {
			continue
		}
		switch x := ifi.Cond.(type) {
		case *ssa.BinOp:
			isErr := isNilConst(x.X) || isNilConst(x.Y)
			isCount := isInteger(x.X.Type()) && (x.Op == token.LSS || x.Op == token.LEQ)
			c.Check(isErr || isCount, rule, "fetch:loop-exit-kind", ifi.Pos(), "loop branch is an input-error test or a counter test", "a loop in the framer branches on something other than its counter or an input error")
		default:
			c.Fail(rule, "fetch:loop-exit-kind", ifi.Pos(), "unproven", "unrecognised loop condition in the framer")
		}
	}
}

// ruleJunkDelimiting (C03-R3): the junk eater stops only on the start byte or
// on an input error, and returns everything it has read.
func (f *framing) ruleJunkDelimiting(rule string) {
	c, pl := f.c, f.pl
	fn := pl.eat
	A := f.acc[fn]
	_, start := f.P.frameConsts()
	reads := f.reads(fn)
	if len(reads) != 1 {
		c.Fail(rule, "eat:single-read-site", fn.Pos(), "unproven", fmt.Sprintf("expected one read site in the junk eater, found %d", len(reads)))
		return
	}
	r := reads[0]
	for i, ret := range returnsOf(fn) {
		label := fmt.Sprintf("eat:return#%d", i+1)
		buf, errv := ret.Results[0], ret.Results[1]
		_, old := f.superseded(A, buf, ret)
		c.Check(A[buf] && !old, rule, label+":returns-whole-buffer", ret.Pos(), "returns everything read so far", "the junk eater does not return everything it has read")
		if errv == r.err {
			c.Check(f.A.provablyNonNilError(r.err, ret.Block()), rule, label+":error-exit", ret.Pos(), "returns the input error only when the read failed", "returns the read's error value without having tested it")
			continue
		}
		if isNilConst(errv) {
			okStart := false
			for _, ft := range dominatingFacts(ret.Block()) {
				if fx, fy, equal, ok := eqFact(ft); ok && equal && fx == r.b {
					if k, ok := constInt(fy); ok && k == start {
						okStart = true
					}
				}
			}
			c.Check(okStart, rule, label+":start-byte-exit", ret.Pos(), fmt.Sprintf("nil-error exit only when the byte just read == 0x%x", start),
				"the junk eater can stop on a byte other than the start-of-frame byte: junk runs are split or frames are entered at the wrong byte")
			continue
		}
		c.Fail(rule, label+":exit-kind", ret.Pos(), "refuted", "the junk eater has an exit that is neither the start byte nor the input error")
	}
	// only those two conditions exist
	eachInstr(fn, func(ins ssa.Instruction) {
		ifi, ok := ins.(*ssa.If)
		if !ok {
			return
		}
		bo, ok := ifi.Cond.(*ssa.BinOp)
		good := false
		// a flag that only re-splits paths already separated by the two recognised conditions
		if src, xc, _ := phiBoolSourceX(ifi.Cond, true, ifi.Block()); src != nil {
			good = xc == nil
			if xb, isB := xc.(*ssa.BinOp); isB && xb.X == r.b && (xb.Op == token.EQL || xb.Op == token.NEQ) {
				if k, ok := constInt(xb.Y); ok && k == start {
					good = true
				}
			}
		}
		if ok {
			if (bo.X == r.err && isNilConst(bo.Y)) || (bo.Y == r.err && isNilConst(bo.X)) {
				good = true
			}
			if bo.X == r.b && (bo.Op == token.EQL || bo.Op == token.NEQ) {
				if k, ok := constInt(bo.Y); ok && k == start {
					good = true
				}
			}
		}
		c.Check(good, rule, "eat:condition-kind", ifi.Pos(), "branch is the input-error test or the start-byte test", "the junk eater branches on something other than the input error or the start byte")
	})
}

// ruleFetchPhases (C03-R3/R4 in the fetcher): junk classification and the
// allowed non-RTCM exits.
func (f *framing) ruleFetcherExits(rule string) {
	c, pl := f.c, f.pl
	fn := pl.fetch
	// every If in the fetcher is one of: eat error test, len(frame)==0, len(frame)>1,
	// frame[len-1]==start, read error tests, counter tests, helper error test
	_, start := f.P.frameConsts()
	retSet := func(b *ssa.BasicBlock) string {
		seen := map[*ssa.BasicBlock]bool{}
		var rs []int
		work := []*ssa.BasicBlock{b}
		for len(work) > 0 {
			x := work[len(work)-1]
			work = work[:len(work)-1]
			if seen[x] {
				continue
			}
			seen[x] = true
			if _, ok := lastInstr(x).(*ssa.Return); ok {
				rs = append(rs, x.Index)
			}
			work = append(work, x.Succs...)
		}
		sort.Ints(rs)
		return fmt.Sprint(rs)
	}
	eachInstr(fn, func(ins ssa.Instruction) {
		ifi, ok := ins.(*ssa.If)
		if !ok {
			return
		}
		// only conditions that decide which exit is taken matter (a branch whose
		// arms rejoin, e.g. logging, cannot reject or split anything)
		if blk := ifi.Block(); len(blk.Succs) == 2 && retSet(blk.Succs[0]) == retSet(blk.Succs[1]) {
			return
		}
		kind := ""
		// a flag that only re-splits paths already separated by recognised conditions
		if phiBoolSource(ifi.Cond, true, ifi.Block()) != nil || phiBoolSource(ifi.Cond, false, ifi.Block()) != nil {
			kind = "flag"
		}
		if bo, ok := ifi.Cond.(*ssa.BinOp); ok {
			switch {
			case isNilConst(bo.X) || isNilConst(bo.Y):
				kind = "error-test"
			case isInteger(bo.X.Type()):
				if call, ok := bo.X.(*ssa.Call); ok {
					if b, ok := call.Call.Value.(*ssa.Builtin); ok && b.Name() == "len" {
						if k, isC := constInt(bo.Y); isC && ((bo.Op == token.EQL && k == 0) || (bo.Op == token.GTR && k == 1) || (bo.Op == token.GEQ && k == 2)) {
							kind = "buffer-length-test"
						}
					}
				}
				if kind == "" && (bo.Op == token.LSS || bo.Op == token.LEQ) {
					kind = "counter-test"
				}
				if ld, ok := bo.X.(*ssa.UnOp); ok && ld.Op == token.MUL && (bo.Op == token.EQL || bo.Op == token.NEQ) {
					if _, isIA := ld.X.(*ssa.IndexAddr); isIA {
						if k, isC := constInt(bo.Y); isC && k == start {
							kind = "trailing-start-byte-test"
						}
					}
				}
			}
		}
		c.Check(kind != "", rule, "fetch:condition-kind", ifi.Pos(), "recognised framer condition ("+kind+")", "the framer branches on an unrecognised condition (possible extra rejection or split)")
	})
}

// ruleStreamForward (C02-R5): the stream handler forwards every fetched
// message before the next fetch, and stops only on "done".
func (f *framing) ruleStreamForward(rule string) {
	c, P, pl := f.c, f.P, f.pl
	fn := pl.stream
	var fetchCall *ssa.Call
	eachInstr(fn, func(ins ssa.Instruction) {
		if call, ok := ins.(*ssa.Call); ok && call.Call.StaticCallee() == pl.fetch {
			fetchCall = call
		}
	})
	if fetchCall == nil {
		c.Fail(rule, "stream:fetch-call", fn.Pos(), "unresolved", "the stream handler does not call the fetcher")
		return
	}
	var msgv ssa.Value
	for _, r := range referrers(fetchCall) {
		if ex, ok := r.(*ssa.Extract); ok && ex.Index == 0 {
			msgv = ex
		}
	}
	isSend := func(i ssa.Instruction) bool {
		sd, ok := i.(*ssa.Send)
		if !ok {
			return false
		}
		ld, ok := sd.X.(*ssa.UnOp)
		return ok && ld.Op == token.MUL && ld.X == msgv && root(sd.Chan) == ssa.Value(fn.Params[2])
	}
	// prune the done-exit edge
	edgeOK := func(a, b *ssa.BasicBlock) bool {
		ifi, ok := lastInstr(a).(*ssa.If)
		if ok && isErrorTextEquals(ifi.Cond, "done") && len(a.Succs) == 2 && b == a.Succs[0] {
			return false
		}
		return true
	}
	until := func(i ssa.Instruction) bool { return i == ssa.Instruction(fetchCall) || isReturn(i) }
	if path, _ := mustPass(fetchCall, isSend, until, edgeOK); path != nil {
		c.Fail(rule, "stream:forward-every-message", fetchCall.Pos(), "refuted", "a fetched message can be dropped without being sent to the output channel", P.blockPath(path)...)
	} else {
		c.OK(rule, "stream:forward-every-message", fetchCall.Pos(), "every fetched message is sent (by value, to the output parameter) before the next fetch")
	}
	if path, _ := atMostOnce(fn, isSend, func(i ssa.Instruction) bool { return i == ssa.Instruction(fetchCall) }); path != nil {
		c.Fail(rule, "stream:forward-once", fetchCall.Pos(), "refuted", "a message can be sent twice", P.blockPath(path)...)
	} else {
		c.OK(rule, "stream:forward-once", fetchCall.Pos(), "no second send without a new fetch")
	}
	// one push-back channel for the whole stream, created outside the loop from the input parameter
	var pb *ssa.Call
	eachInstr(fn, func(ins ssa.Instruction) {
		if call, ok := ins.(*ssa.Call); ok && call.Call.StaticCallee() != nil && call.Call.StaticCallee().Name() == "New" && call.Call.StaticCallee().Pkg == pl.pbNext.Pkg {
			pb = call
		}
	})
	okPB := pb != nil && !blockInLoop(pb.Block()) && pb.Call.Args[0] == ssa.Value(fn.Params[1]) && fetchCall.Call.Args[1] == ssa.Value(pb)
	c.Check(okPB, rule, "stream:one-pushback-channel", fn.Pos(), "a single push-back channel wraps the input for the whole stream (pushed-back bytes survive between fetches)",
		"the push-back channel is re-created per message or not built from the input parameter: pushed-back bytes are lost")
}

// rulePushbackFIFO (C02-R4).
func (f *framing) rulePushbackFIFO(rule string) {
	c, pl := f.c, f.pl
	buf := f.P.Field("rtcm/pushback", "ByteChannel", "pushBackBuffer")
	if buf == nil {
		c.Unresolved(rule, "pushback.ByteChannel.pushBackBuffer")
		return
	}
	next := pl.pbNext
	// buffered branch: returns buffer[0], stores buffer[1:]; else delegates to the channel reader
	okBuffered, okDelegate := false, false
	for _, r := range returnsOf(next) {
		if ld, ok := valueUnderFlags(r.Results[0], r.Block()).(*ssa.UnOp); ok && ld.Op == token.MUL {
			if ia, ok := ld.X.(*ssa.IndexAddr); ok {
				if fv, _ := loadedField(ia.X); fv == buf {
					if k, isC := constInt(ia.Index); isC && k == 0 && isNilConst(r.Results[1]) {
						// guarded by len(buffer) > 0 and followed by buffer = buffer[1:]
						g := false
						for _, ft := range dominatingFacts(r.Block()) {
							bo, ok := ft.Cond.(*ssa.BinOp)
							if !ok {
								continue
							}
							lc, ok := bo.X.(*ssa.Call)
							if !ok {
								continue
							}
							if bi, ok := lc.Call.Value.(*ssa.Builtin); !ok || bi.Name() != "len" {
								continue
							}
							if fv, _ := loadedField(lc.Call.Args[0]); fv != buf {
								continue
							}
							k, isC := constInt(bo.Y)
							if !isC {
								continue
							}
							// the fact means len(buffer) > 0
							switch {
							case bo.Op == token.GTR && k == 0 && ft.Val, bo.Op == token.GEQ && k == 1 && ft.Val, bo.Op == token.NEQ && k == 0 && ft.Val,
								bo.Op == token.EQL && k == 0 && !ft.Val, bo.Op == token.LEQ && k == 0 && !ft.Val, bo.Op == token.LSS && k == 1 && !ft.Val:
								g = true
							}
						}
						st := false
						eachInstr(next, func(ins ssa.Instruction) {
							if s, ok := ins.(*ssa.Store); ok {
								if fv, _ := fieldOf(s.Addr); fv == buf {
									if sl, ok := s.Val.(*ssa.Slice); ok && sl.High == nil && sl.Low != nil {
										if k, isC := constInt(sl.Low); isC && k == 1 {
											if fv2, _ := loadedField(sl.X); fv2 == buf && instrDominatesT(ins, r) {
												st = true
											}
										}
									}
								}
							}
						})
						okBuffered = g && st
					}
				}
			}
		}
		if ex, ok := r.Results[0].(*ssa.Extract); ok {
			if call, ok := ex.Tuple.(*ssa.Call); ok && call.Call.StaticCallee() == pl.pbGet {
				okDelegate = true
			}
		}
	}
	c.Check(okBuffered, rule, "pushback:buffer-first-FIFO", next.Pos(), "pushed-back bytes are returned first, oldest first (buffer[0], then buffer = buffer[1:])",
		"GetNextByte does not return the oldest pushed-back byte first")
	c.Check(okDelegate, rule, "pushback:then-channel", next.Pos(), "otherwise the next byte comes from the channel reader", "GetNextByte does not fall back to the channel reader")
	// PushBack appends its parameter
	okApp := false
	eachInstr(pl.pbPush, func(ins ssa.Instruction) {
		if s, ok := ins.(*ssa.Store); ok {
			if fv, _ := fieldOf(s.Addr); fv == buf {
				if base, el, ok := appendOne(s.Val); ok {
					if fv2, _ := loadedField(base); fv2 == buf && el == ssa.Value(pl.pbPush.Params[1]) {
						okApp = true
					}
				}
			}
		}
	})
	c.Check(okApp, rule, "pushback:append", pl.pbPush.Pos(), "PushBack appends its byte to the end of the buffer", "PushBack does not append its argument to the buffer")
	// channel reader: returns the received byte with nil error on the open edge
	rss := recvSites(pl.pbGet)
	okGet := false
	if len(rss) == 1 && rss[0].ok != nil {
		for _, r := range returnsOf(pl.pbGet) {
			if r.Results[0] == rss[0].val && isNilConst(r.Results[1]) && rss[0].dominatedByOpen(r.Block()) {
				okGet = true
			}
		}
	}
	c.Check(okGet, rule, "pushback:receive", pl.pbGet.Pos(), "the channel reader returns exactly the received byte on the open-channel edge", "the channel reader does not return the received byte unchanged")
}

// ---- C01 specific ------------------------------------------------------------------

// ruleConstructors (C01-R1): who may build or retype a Message.
func (f *framing) ruleConstructors(rule string) {
	c, P, pl := f.c, f.P, f.pl
	M := P.Named("rtcm/handler", "Message")
	copyFn := P.Func("rtcm/handler", "(*Message).Copy")
	allowed := map[*ssa.Function]bool{pl.newMsg: true, pl.newNon: true, copyFn: true}
	for _, fn := range P.ModFuncs() {
		eachInstr(fn, func(ins ssa.Instruction) {
			st, ok := ins.(*ssa.Store)
			if !ok {
				return
			}
			fv, base := fieldOf(st.Addr)
			if fv != pl.msgType {
				return
			}
			_ = base
			if allowed[fn] {
				c.OK(rule, "type-store("+P.FnKey(fn)+")", ins.Pos(), "constructor sets MessageType")
			} else {
				c.Fail(rule, "type-store("+P.FnKey(fn)+")", ins.Pos(), "refuted", "MessageType is assigned outside the three constructors: a message can be (re)typed without passing the frame checks")
			}
		})
		// struct-valued constructions: Alloc of Message outside constructors with a MessageType store are covered above
	}
	_ = M
	// typed constructor call sites (a call whose type argument is the non-RTCM constant builds an untyped message)
	for _, site := range P.Callers(pl.newMsg) {
		caller := site.Parent()
		if k, isC := constInt(site.Common().Args[0]); isC && k == -1 {
			c.OK(rule, "NewMessage-call("+P.FnKey(caller)+")", site.Pos(), "constructs a non-RTCM message (type argument is the constant -1)")
			continue
		}
		c.Check(caller == pl.getMsg, rule, "NewMessage-call("+P.FnKey(caller)+")", site.Pos(), "typed messages are constructed only by the single-frame decoder",
			"a typed message is constructed outside the single-frame decoder (bypassing the frame checks)")
	}
	msgFields := ctorStoresParam(pl.newMsg, 0, pl.msgType) && ctorStoresParam(pl.newMsg, 2, pl.rawData)
	// NewNonRTCM stores the NonRTCM constant and its raw-data parameter, directly or by delegating to NewMessage
	nonOK := false
	eachInstr(pl.newNon, func(ins ssa.Instruction) {
		if st, ok := ins.(*ssa.Store); ok {
			if fv, _ := fieldOf(st.Addr); fv == pl.msgType {
				if k, isC := constInt(st.Val); isC && k == -1 {
					nonOK = true
				}
			}
		}
	})
	rawOK := ctorStoresParam(pl.newNon, 0, pl.rawData)
	if rets := returnsOf(pl.newNon); len(rets) > 0 && msgFields {
		deleg := true
		for _, r := range rets {
			call, ok := r.Results[0].(*ssa.Call)
			if !ok || call.Call.StaticCallee() != pl.newMsg || len(call.Call.Args) < 3 {
				deleg = false
				continue
			}
			if k, isC := constInt(call.Call.Args[0]); !isC || k != -1 {
				deleg = false
			}
			if call.Call.Args[2] != ssa.Value(pl.newNon.Params[0]) {
				deleg = false
			}
		}
		if deleg {
			nonOK, rawOK = true, true
		}
	}
	c.Check(nonOK, rule, "NewNonRTCM:type", pl.newNon.Pos(), "NewNonRTCM sets the type to NonRTCMMessage (-1)", "NewNonRTCM does not set the non-RTCM type")
	c.Check(msgFields, rule, "NewMessage:fields", pl.newMsg.Pos(), "NewMessage stores its type and raw-data parameters", "NewMessage does not store its type / raw data parameters into the like-named fields")
	c.Check(rawOK, rule, "NewNonRTCM:rawdata", pl.newNon.Pos(), "NewNonRTCM stores its raw-data parameter", "NewNonRTCM does not store its raw data")
}

// helperGates: the helper's nil-error return is dominated by the four leader checks.
func (f *framing) ruleHelperGates(rule string) {
	c, pl := f.c, f.pl
	h := pl.lenType
	buf := h.Params[len(h.Params)-1]
	_, start := f.P.frameConsts()
	bitRead := func(v ssa.Value, pos, ln int64) bool {
		v = stripConv(v)
		call, ok := v.(*ssa.Call)
		if !ok || call.Call.StaticCallee() == nil || call.Call.StaticCallee().Name() != "GetBitsAsUint64" {
			return false
		}
		p, ok1 := constInt(call.Call.Args[1])
		l, ok2 := constInt(call.Call.Args[2])
		return ok1 && ok2 && p == pos && l == ln && call.Call.Args[0] == ssa.Value(buf)
	}
	n := 0
	for _, r := range returnsOf(h) {
		if !isNilConst(r.Results[2]) {
			continue
		}
		n++
		var gLen, gStart, gRes, gZero bool
		for _, ft := range dominatingFacts(r.Block()) {
			bo, ok := ft.Cond.(*ssa.BinOp)
			if !ok {
				continue
			}
			// len(buf) < 5 false
			if call, ok := bo.X.(*ssa.Call); ok {
				if b, ok := call.Call.Value.(*ssa.Builtin); ok && b.Name() == "len" && call.Call.Args[0] == ssa.Value(buf) {
					if k, isC := constInt(bo.Y); isC && ((bo.Op == token.LSS && k == 5 && !ft.Val) || (bo.Op == token.GEQ && k == 5 && ft.Val) || (bo.Op == token.LEQ && k == 4 && !ft.Val)) {
						gLen = true
					}
				}
			}
			if ld, ok := bo.X.(*ssa.UnOp); ok && ld.Op == token.MUL {
				if ia, ok := ld.X.(*ssa.IndexAddr); ok && ia.X == ssa.Value(buf) {
					if i0, isC := constInt(ia.Index); isC && i0 == 0 {
						if k, isC := constInt(bo.Y); isC && k == start && ((bo.Op == token.NEQ && !ft.Val) || (bo.Op == token.EQL && ft.Val)) {
							gStart = true
						}
					}
				}
			}
			if bitRead(bo.X, 8, 6) {
				if k, isC := constInt(bo.Y); isC && k == 0 && ((bo.Op == token.NEQ && !ft.Val) || (bo.Op == token.EQL && ft.Val)) {
					gRes = true
				}
			}
			if bitRead(bo.X, 14, 10) {
				if k, isC := constInt(bo.Y); isC && k == 0 && ((bo.Op == token.EQL && !ft.Val) || (bo.Op == token.NEQ && ft.Val) || (bo.Op == token.GTR && ft.Val)) {
					gZero = true
				}
			}
		}
		c.Check(gLen, rule, "helper:gate(len>=5)", r.Pos(), "success requires at least five bytes", "the leader helper can succeed on fewer than five bytes")
		c.Check(gStart, rule, "helper:gate(preamble)", r.Pos(), fmt.Sprintf("success requires byte 0 == 0x%x", start), "the leader helper can succeed without the 0xD3 preamble")
		c.Check(gRes, rule, "helper:gate(reserved==0)", r.Pos(), "success requires bits 8..13 == 0", "the leader helper can succeed with non-zero reserved bits")
		c.Check(gZero, rule, "helper:gate(length!=0)", r.Pos(), "success requires a non-zero 10-bit length", "the leader helper can succeed with a zero length")
		c.Check(bitRead(r.Results[0], 14, 10), rule, "helper:length=bits(14,10)", r.Pos(), "the length result is the 10 bits at bit 14", "the length result is not bits 14..23 of the leader")
		c.Check(bitRead(r.Results[1], 24, 12), rule, "helper:type=bits(24,12)", r.Pos(), "the type result is the 12 bits at bit 24", "the reported type is not the first 12 payload bits")
	}
	if n == 0 {
		c.Fail(rule, "helper:nil-error-return", h.Pos(), "unresolved", "the leader helper has no nil-error return")
	}
}

// ruleDecoderGates (C01-R2/R3/R5): gate dominance and extent agreement at the
// typed construction sites of the single-frame decoder.
func (f *framing) ruleDecoderGates(rule string) {
	c, pl := f.c, f.pl
	fn := pl.getMsg
	param := fn.Params[1]
	leader, start := f.P.frameConsts()
	var helper *ssa.Call
	var hLen, hType, hErr ssa.Value
	eachInstr(fn, func(ins ssa.Instruction) {
		if call, ok := ins.(*ssa.Call); ok && call.Call.StaticCallee() == pl.lenType {
			helper = call
			for _, r := range referrers(call) {
				if ex, ok := r.(*ssa.Extract); ok {
					switch ex.Index {
					case 0:
						hLen = ex
					case 1:
						hType = ex
					case 2:
						hErr = ex
					}
				}
			}
		}
	})
	if helper == nil || hLen == nil || hType == nil || hErr == nil {
		c.Fail(rule, "GetMessage:helper-call", fn.Pos(), "unresolved", "leader helper call (length, type, error) not found in the decoder")
		return
	}
	c.Check(helper.Call.Args[len(helper.Call.Args)-1] == ssa.Value(param), rule, "GetMessage:helper-on-input", helper.Pos(), "the leader helper is applied to the decoder's input", "the leader helper is applied to something other than the decoder's input")
	nTyped := 0
	for _, site := range f.P.Callers(pl.newMsg) {
		if site.Parent() != fn {
			continue
		}
		call := site.(*ssa.Call)
		// which returns use this message, and with which error?
		valid := false
		for _, r := range returnsOf(fn) {
			if r.Results[0] == ssa.Value(call) {
				if isNilConst(r.Results[1]) {
					valid = true
				} else if r.Results[1] != hErr {
					// e.g. the MSM time error: still a valid frame
					valid = true
				}
			}
		}
		if !valid {
			// typed message returned only together with the helper's error (zero-length frame etc.)
			okErr := false
			for _, r := range returnsOf(fn) {
				if r.Results[0] == ssa.Value(call) && r.Results[1] == hErr && f.A.provablyNonNilError(hErr, r.Block()) {
					okErr = true
				}
			}
			c.Check(okErr, rule, "GetMessage:typed-with-error", call.Pos(), "typed message for a malformed leader is returned only together with the (non-nil) format error", "a typed message for a malformed leader can be returned without an error")
			continue
		}
		nTyped++
		b := call.Block()
		var g0, g1, gh, g4, g5 bool
		var crcCall *ssa.Call
		for _, ft := range dominatingFacts(b) {
			bo, ok := ft.Cond.(*ssa.BinOp)
			if !ok {
				continue
			}
			// g0: len(input) == 0 false
			if cl, ok := bo.X.(*ssa.Call); ok {
				if bi, ok := cl.Call.Value.(*ssa.Builtin); ok && bi.Name() == "len" && cl.Call.Args[0] == ssa.Value(param) {
					if k, isC := constInt(bo.Y); isC && k == 0 && ((bo.Op == token.EQL && !ft.Val) || (bo.Op == token.NEQ && ft.Val) || (bo.Op == token.GTR && ft.Val)) {
						g0 = true
					}
				}
			}
			// g1: input[0] != start false
			if ld, ok := bo.X.(*ssa.UnOp); ok && ld.Op == token.MUL {
				if ia, ok := ld.X.(*ssa.IndexAddr); ok && ia.X == ssa.Value(param) {
					if i0, isC := constInt(ia.Index); isC && i0 == 0 {
						if k, isC := constInt(bo.Y); isC && k == start && ((bo.Op == token.NEQ && !ft.Val) || (bo.Op == token.EQL && ft.Val)) {
							g1 = true
						}
					}
				}
			}
			// gh: helper error nil
			if (bo.X == hErr && isNilConst(bo.Y)) || (bo.Y == hErr && isNilConst(bo.X)) {
				if (bo.Op == token.NEQ && !ft.Val) || (bo.Op == token.EQL && ft.Val) {
					gh = true
				}
			}
			// g5: CRC gate nil
			x := bo.X
			if isNilConst(x) {
				x = bo.Y
			}
			if cl, ok := x.(*ssa.Call); ok && cl.Call.StaticCallee() == pl.checkCRC && (isNilConst(bo.X) || isNilConst(bo.Y)) {
				if (bo.Op == token.NEQ && !ft.Val) || (bo.Op == token.EQL && ft.Val) {
					g5 = true
					crcCall = cl
				}
			}
		}
		// g4: L+6 <= len(input), by entailment
		g4 = f.A.Prove(b, LE(f.A.Lin(hLen).AddConst(2*leader), f.A.LenOf(param)))
		c.Check(g0, rule, "gate(non-empty)", call.Pos(), "typed construction dominated by len(input) != 0", "a typed message can be built from empty input")
		c.Check(g1, rule, "gate(preamble)", call.Pos(), "dominated by input[0] == 0xD3", "a typed message can be built without the preamble check")
		c.Check(gh, rule, "gate(leader helper ok)", call.Pos(), "dominated by the leader helper's nil error (reserved bits zero, length non-zero)", "a typed message can be built although the leader helper reported an error")
		c.Check(g4, rule, "gate(complete)", call.Pos(), "dominated by L + 3 + 3 <= len(input)", "a typed message can be built from an incomplete frame (the length guard is missing, weaker, or off by one)")
		c.Check(g5, rule, "gate(CRC)", call.Pos(), "dominated by a nil result of the CRC gate", "a typed message can be built without a passed CRC check")
		// R5 type provenance
		c.Check(call.Call.Args[0] == hType, rule, "type-provenance", call.Pos(), "the message type is the helper's (24,12) read, unmodified", "the message type does not come unmodified from bits 24..35 of the frame")
		// R3 extent agreement
		raw := call.Call.Args[2]
		if crcCall != nil {
			crcArg := crcCall.Call.Args[2]
			same := crcArg == raw
			if !same {
				// same (base, low, high)?
				s1, ok1 := raw.(*ssa.Slice)
				s2, ok2 := crcArg.(*ssa.Slice)
				if ok1 && ok2 && s1.X == s2.X && s1.Low == nil && s2.Low == nil && s1.High != nil && s2.High != nil && f.A.Lin(s1.High).Equal(f.A.Lin(s2.High)) {
					same = true
				}
				// whole input checked while a prefix is delivered: equal only if high == len(input)
				if !same && ok1 && crcArg == s1.X && s1.High != nil && f.A.Prove(b, GE(f.A.Lin(s1.High), f.A.LenOf(s1.X))) && f.A.Prove(b, LE(f.A.Lin(s1.High), f.A.LenOf(s1.X))) {
					same = true
				}
			}
			c.Check(same, rule, "extent-agreement(CRC vs RawData)", call.Pos(), "the bytes whose CRC was checked are exactly the bytes delivered as RawData",
				"the CRC is checked over "+describeExtent(f.A, crcArg)+" but RawData is "+describeExtent(f.A, raw)+": input longer than one frame is typed although the delivered bytes were not CRC-checked as a frame")
		}
		// delivered extent = L+6
		if sl, ok := raw.(*ssa.Slice); ok && sl.High != nil {
			c.Check(sl.X == ssa.Value(param) && sl.Low == nil && f.A.Lin(sl.High).Equal(f.A.Lin(hLen).AddConst(2*leader)), rule, "extent(RawData)", call.Pos(), "RawData == input[:L+6]", "RawData is not input[:L+6]")
		} else {
			c.Check(raw == ssa.Value(param) && f.A.Prove(b, LE(f.A.LenOf(param), f.A.Lin(hLen).AddConst(2*leader))), rule, "extent(RawData)", call.Pos(), "RawData is the whole input and len(input) == L+6", "RawData may be longer than one frame")
		}
	}
	if nTyped == 0 {
		c.Fail(rule, "GetMessage:typed-site", fn.Pos(), "unresolved", "no valid typed construction site found in the decoder")
	}
}

func describeExtent(a *Aff, v ssa.Value) string {
	if sl, ok := v.(*ssa.Slice); ok && sl.High != nil {
		return fmt.Sprintf("%s[:%s]", sl.X.Name(), a.Lin(sl.High).String())
	}
	return "the whole of " + v.Name()
}

// ruleCRCGate (C01-R4): the CRC gate returns nil only if all three CRC bytes
// of the frame's last three positions equal Hi/Mi/Lo of Hash(frame[:n-3]).
func (f *framing) ruleCRCGate(rule string) {
	c, pl := f.c, f.pl
	fn := pl.checkCRC
	frame := fn.Params[len(fn.Params)-1]
	n := 0
	for _, r := range returnsOf(fn) {
		if !isNilConst(r.Results[0]) {
			continue
		}
		n++
		got := map[string]bool{}
		var hashArg ssa.Value
		for _, ft := range dominatingFacts(r.Block()) {
			bo, ok := ft.Cond.(*ssa.BinOp)
			if !ok {
				continue
			}
			eq := (bo.Op == token.NEQ && !ft.Val) || (bo.Op == token.EQL && ft.Val)
			if !eq {
				continue
			}
			x, y := bo.X, bo.Y
			if _, isCall := y.(*ssa.Call); isCall {
				x, y = y, x
			}
			call, ok := x.(*ssa.Call)
			if !ok || call.Call.StaticCallee() == nil {
				continue
			}
			part := ""
			switch calleeFullName(call.Call.StaticCallee()) {
			case "github.com/goblimey/go-crc24q/crc24q.HiByte":
				part = "Hi"
			case "github.com/goblimey/go-crc24q/crc24q.MiByte":
				part = "Mi"
			case "github.com/goblimey/go-crc24q/crc24q.LoByte":
				part = "Lo"
			default:
				continue
			}
			hc, ok := call.Call.Args[0].(*ssa.Call)
			if !ok || calleeFullName(hc.Call.StaticCallee()) != "github.com/goblimey/go-crc24q/crc24q.Hash" {
				continue
			}
			hashArg = hc.Call.Args[0]
			ld, ok := y.(*ssa.UnOp)
			if !ok || ld.Op != token.MUL {
				continue
			}
			ia, ok := ld.X.(*ssa.IndexAddr)
			if !ok {
				continue
			}
			// the element of the frame parameter, possibly through a sub-slice frame[lo:]
			base, idx := ia.X, f.A.Lin(ia.Index)
			for {
				sl, isSl := base.(*ssa.Slice)
				if !isSl {
					break
				}
				if sl.Low != nil {
					idx = idx.Add(f.A.Lin(sl.Low))
				}
				base = sl.X
			}
			if base != ssa.Value(frame) {
				continue
			}
			off := map[string]int64{"Hi": -3, "Mi": -2, "Lo": -1}[part]
			if idx.Equal(f.A.LenOf(frame).AddConst(off)) {
				got[part] = true
			}
		}
		for _, p := range []string{"Hi", "Mi", "Lo"} {
			c.Check(got[p], rule, "crc-gate:byte("+p+")", r.Pos(), p+" byte of the computed CRC compared with frame[n"+map[string]string{"Hi": "-3", "Mi": "-2", "Lo": "-1"}[p]+"]",
				"the CRC gate can pass although the "+p+" byte of the CRC was not compared with its position in the frame")
		}
		okHash := false
		if sl, ok := hashArg.(*ssa.Slice); ok && sl.X == ssa.Value(frame) && sl.Low == nil && sl.High != nil && f.A.Lin(sl.High).Equal(f.A.LenOf(frame).AddConst(-3)) {
			okHash = true
		}
		c.Check(okHash, rule, "crc-gate:hash-extent", r.Pos(), "the CRC is computed over frame[:n-3] (leader and payload)", "the CRC is not computed over exactly frame[:n-3]")
	}
	if n != 1 {
		c.Fail(rule, "crc-gate:nil-return", fn.Pos(), "unproven", fmt.Sprintf("expected exactly one nil return in the CRC gate, found %d", n))
	}
}

// ruleFrameConstants (C01-R6).
func (f *framing) ruleFrameConstants(rule string) {
	c, P := f.c, f.P
	for name, want := range map[string]int64{"StartOfMessageFrame": 0xd3, "LeaderLengthBytes": 3, "CRCLengthBytes": 3, "LeaderLengthBits": 24, "CRCLengthBits": 24, "NonRTCMMessage": -1} {
		k := P.Const("rtcm/utils", name)
		if k == nil {
			c.Unresolved(rule, "const rtcm/utils."+name)
			continue
		}
		v, ok := constant.Int64Val(constant.ToInt(k.Val()))
		c.Check(ok && v == want, rule, "const("+name+")", k.Pos(), fmt.Sprintf("%s == %d", name, want), fmt.Sprintf("%s is %v, the frame definition requires %d", name, k.Val(), want))
	}
	// dependency pin of the CRC implementation
	want := map[string]string{}
	if b, err := os.ReadFile(filepath.Join(c.Verifdir, "oracles", "crc24q.pin")); err == nil {
		for _, l := range strings.Split(string(b), "\n") {
			l = strings.TrimSpace(l)
			if l != "" && !strings.HasPrefix(l, "#") {
				want[l] = "missing"
			}
		}
	}
	if len(want) == 0 {
		c.Fail(rule, "crc24q-pin", token.NoPos, "unresolved", "oracles/crc24q.pin missing")
		return
	}
	for _, file := range []string{"go.mod", "go.sum"} {
		if b, err := os.ReadFile(filepath.Join(P.Repo, file)); err == nil {
			for _, l := range strings.Split(string(b), "\n") {
				l = strings.TrimSpace(l)
				if _, ok := want[l]; ok {
					want[l] = "ok"
				}
			}
		}
	}
	good := true
	for l, st := range want {
		if st != "ok" {
			good = false
			c.Fail(rule, "crc24q-pin", token.NoPos, "refuted", "dependency pin changed: expected line not found in go.mod/go.sum: "+l)
		}
	}
	if good {
		c.OK(rule, "crc24q-pin", token.NoPos, "go.mod/go.sum pin the CRC-24Q implementation at the recorded version and hashes (its arithmetic is trusted at that pin)")
	}
}

// ruleRejectionSites (C03-R4): every exit of the single-frame path that does
// not deliver a valid typed message is guarded by one of the five standard
// reasons (or empty input); an unlisted rejection means some valid frame is
// not recognised.
func (f *framing) ruleRejectionSites(rule string) { f.ruleRejectionSitesOf(rule, false) }

// ruleRejectionSitesOf with helperOnly checks only the leader helper, which is
// evaluated on the first five bytes of a candidate frame: a rejection there
// that depends on anything but the leader splits a frame before it is complete.
func (f *framing) ruleRejectionSitesOf(rule string, helperOnly bool) {
	c, pl := f.c, f.pl
	_, start := f.P.frameConsts()
	leader := int64(3)
	leader, _ = f.P.frameConsts()
	innermost := func(b *ssa.BasicBlock) *EdgeFact {
		fs := dominatingFacts(b)
		if len(fs) == 0 {
			return nil
		}
		return &fs[0]
	}
	isLenOf := func(v ssa.Value, p ssa.Value) bool {
		call, ok := v.(*ssa.Call)
		if !ok {
			return false
		}
		b, ok := call.Call.Value.(*ssa.Builtin)
		return ok && b.Name() == "len" && call.Call.Args[0] == p
	}
	isByte0 := func(v ssa.Value, p ssa.Value) bool {
		ld, ok := v.(*ssa.UnOp)
		if !ok || ld.Op != token.MUL {
			return false
		}
		ia, ok := ld.X.(*ssa.IndexAddr)
		if !ok || ia.X != p {
			return false
		}
		k, isC := constInt(ia.Index)
		return isC && k == 0
	}
	seen := map[string]bool{}
	// --- decoder
	fn := pl.getMsg
	param := ssa.Value(fn.Params[1])
	var hLen, hErr ssa.Value
	eachInstr(fn, func(ins ssa.Instruction) {
		if call, ok := ins.(*ssa.Call); ok && call.Call.StaticCallee() == pl.lenType {
			for _, r := range referrers(call) {
				if ex, ok := r.(*ssa.Extract); ok {
					if ex.Index == 0 {
						hLen = ex
					}
					if ex.Index == 2 {
						hErr = ex
					}
				}
			}
		}
	})
	for i, r := range returnsOf(fn) {
		if helperOnly {
			break
		}
		label := fmt.Sprintf("GetMessage:exit#%d", i+1)
		msg := r.Results[0]
		valid := false
		if call, ok := msg.(*ssa.Call); ok && call.Call.StaticCallee() == pl.newMsg && r.Results[1] != hErr {
			valid = true
		}
		if valid {
			c.OK(rule, label+":valid", r.Pos(), "delivers the typed message")
			continue
		}
		ft := innermost(r.Block())
		kind := ""
		if ft != nil {
			if bo, ok := ft.Cond.(*ssa.BinOp); ok {
				switch {
				case isLenOf(bo.X, param) && isZero(bo.Y) && bo.Op == token.EQL && ft.Val:
					kind = "empty-input"
				case isByte0(bo.X, param) && ((bo.Op == token.NEQ && ft.Val) || (bo.Op == token.EQL && !ft.Val)):
					if k, isC := constInt(bo.Y); isC && k == start {
						kind = "preamble"
					}
				case hErr != nil && ((bo.X == hErr && isNilConst(bo.Y)) || (bo.Y == hErr && isNilConst(bo.X))) && ((bo.Op == token.NEQ && ft.Val) || (bo.Op == token.EQL && !ft.Val)):
					kind = "leader(reserved/length/short)"
				case hLen != nil && isInteger(bo.X.Type()) && (bo.Op == token.GTR || bo.Op == token.LSS || bo.Op == token.GEQ || bo.Op == token.LEQ):
					// incomplete: the rejecting edge must be exactly L+6 > len(input)
					cons := f.A.condCons(ft.Cond, ft.Val)
					want := GT(f.A.Lin(hLen).AddConst(2*leader), f.A.LenOf(param))
					if len(cons) == 1 && cons[0].L.Equal(want.L) {
						kind = "incomplete"
					}
				default:
					x := bo.X
					if isNilConst(x) {
						x = bo.Y
					}
					if call, ok := x.(*ssa.Call); ok && call.Call.StaticCallee() == pl.checkCRC && ((bo.Op == token.NEQ && ft.Val) || (bo.Op == token.EQL && !ft.Val)) {
						kind = "crc"
					}
				}
			}
		}
		if kind == "" {
			if f.A.Infeasible(r.Block()) {
				c.OK(rule, label+":unreachable", r.Pos(), "defensive exit that can never be taken (its guard contradicts what is known at that point)")
				continue
			}
			c.Fail(rule, label+":unlisted-rejection", r.Pos(), "refuted", "the single-frame decoder rejects input for a reason that is not one of {empty, preamble, reserved bits, zero length, incomplete, CRC}: some valid frame is not recognised")
			continue
		}
		seen[kind] = true
		c.OK(rule, label+":"+kind, r.Pos(), "rejection for a standard reason")
	}
	// --- helper
	h := pl.lenType
	buf := ssa.Value(h.Params[len(h.Params)-1])
	for i, r := range returnsOf(h) {
		if isNilConst(r.Results[2]) {
			continue
		}
		label := fmt.Sprintf("helper:exit#%d", i+1)
		ft := innermost(r.Block())
		kind := ""
		if ft != nil {
			if bo, ok := ft.Cond.(*ssa.BinOp); ok {
				readAt := func(v ssa.Value) (int64, int64, bool) {
					call, ok := stripConv(v).(*ssa.Call)
					if !ok || call.Call.StaticCallee() == nil || call.Call.StaticCallee().Name() != "GetBitsAsUint64" || call.Call.Args[0] != buf {
						return 0, 0, false
					}
					p, ok1 := constInt(call.Call.Args[1])
					l, ok2 := constInt(call.Call.Args[2])
					return p, l, ok1 && ok2
				}
				switch {
				case isLenOf(bo.X, buf):
					if k, isC := constInt(bo.Y); isC && bo.Op == token.LSS && k == 5 && ft.Val {
						kind = "short(<5)"
					}
				case isByte0(bo.X, buf) && bo.Op == token.NEQ && ft.Val:
					if k, isC := constInt(bo.Y); isC && k == start {
						kind = "preamble"
					}
				default:
					if p, l, ok := readAt(bo.X); ok && isZero(bo.Y) {
						if p == 8 && l == 6 && bo.Op == token.NEQ && ft.Val {
							kind = "reserved-bits"
						}
						if p == 14 && l == 10 && bo.Op == token.EQL && ft.Val {
							kind = "zero-length"
						}
					}
				}
			}
		}
		if kind == "" {
			if f.A.Infeasible(r.Block()) {
				c.OK(rule, label+":unreachable", r.Pos(), "defensive exit that can never be taken (its guard contradicts what is known at that point)")
				continue
			}
			c.Fail(rule, label+":unlisted-rejection", r.Pos(), "refuted", "the leader helper rejects for a reason other than {short, preamble, reserved bits, zero length}")
			continue
		}
		seen["helper:"+kind] = true
		c.OK(rule, label+":"+kind, r.Pos(), "rejection for a standard reason")
	}
	// --- CRC gate
	g := pl.checkCRC
	frame := ssa.Value(g.Params[len(g.Params)-1])
	for i, r := range returnsOf(g) {
		if isNilConst(r.Results[0]) || helperOnly {
			continue
		}
		label := fmt.Sprintf("crc-gate:exit#%d", i+1)
		kind := ""
		for _, ft := range dominatingFacts(r.Block()) {
			if bo, ok := ft.Cond.(*ssa.BinOp); ok {
				if isLenOf(bo.X, frame) && bo.Op == token.LSS && ft.Val {
					if k, isC := constInt(bo.Y); isC && k == 2*leader {
						kind = "short(<6)"
					}
				}
			}
		}
		if kind == "" {
			// mismatch exit: every edge into it is the "bytes differ" edge of a CRC byte comparison
			isByteCall := func(v ssa.Value) bool {
				call, ok := v.(*ssa.Call)
				return ok && call.Call.StaticCallee() != nil && strings.HasSuffix(calleeFullName(call.Call.StaticCallee()), "Byte")
			}
			okPreds := true
			for _, p := range r.Block().Preds {
				ifi, ok := lastInstr(p).(*ssa.If)
				if !ok || len(p.Succs) != 2 || p.Succs[0] == p.Succs[1] {
					okPreds = false
					continue
				}
				bo, ok := ifi.Cond.(*ssa.BinOp)
				taken := p.Succs[0] == r.Block()
				if !ok || !((bo.Op == token.NEQ && taken) || (bo.Op == token.EQL && !taken)) {
					okPreds = false
					continue
				}
				if !isByteCall(bo.X) && !isByteCall(bo.Y) {
					okPreds = false
				}
			}
			if okPreds && len(r.Block().Preds) > 0 {
				kind = "crc-mismatch"
			}
		}
		if kind == "" {
			if f.A.Infeasible(r.Block()) {
				c.OK(rule, label+":unreachable", r.Pos(), "defensive exit that can never be taken (its guard contradicts what is known at that point)")
				continue
			}
			c.Fail(rule, label+":unlisted-rejection", r.Pos(), "refuted", "the CRC gate rejects for a reason other than a short frame or a CRC byte mismatch")
			continue
		}
		seen["crc:"+kind] = true
		c.OK(rule, label+":"+kind, r.Pos(), "rejection for a standard reason")
	}
	want := []string{"preamble", "leader(reserved/length/short)", "incomplete", "crc", "helper:reserved-bits", "helper:zero-length", "crc:crc-mismatch"}
	if helperOnly {
		want = []string{"helper:reserved-bits", "helper:zero-length"}
	}
	for _, k := range want {
		c.Check(seen[k], rule, "reason-present("+k+")", token.NoPos, "the standard rejection reason is implemented", "standard rejection reason missing: "+k)
	}
}

// accumulatorsOnly computes the accumulator chain without emitting obligations.
func (f *framing) accumulatorsOnly(fn *ssa.Function, init []ssa.Value) map[ssa.Value]bool {
	rb := map[ssa.Value]bool{}
	for _, r := range f.reads(fn) {
		if r.b != nil {
			rb[r.b] = true
		}
	}
	return f.accumulators(fn, init, rb)
}

// prefixHighs: the high bounds of prefix slices of the decoder's input used as RawData.
func (f *framing) prefixHighs() []ssa.Value {
	var out []ssa.Value
	fn := f.pl.getMsg
	param := fn.Params[1]
	for _, r := range returnsOf(fn) {
		call, ok := r.Results[0].(*ssa.Call)
		if !ok || call.Call.StaticCallee() != f.pl.newMsg {
			continue
		}
		if sl, ok := call.Call.Args[2].(*ssa.Slice); ok && sl.X == ssa.Value(param) && sl.High != nil {
			out = append(out, sl.High)
		}
	}
	return out
}
