package main

// E-taint: forward information-flow analysis on SSA with explicit flows
// (def-use, stores to locals/fields, calls with context-insensitive
// parameter/return marking) and implicit flows through branches that are not
// error gates.

import (
	"go/token"
	"go/types"

	"golang.org/x/tools/go/ssa"
)

type Taint struct {
	P *Prog
	// configuration
	IsSource    func(v ssa.Value) bool
	IsSanitizer func(call *ssa.Call) bool // result is clean whatever the arguments
	Scope       func(fn *ssa.Function) bool
	Implicit    bool // propagate implicit flows through non-error-gate branches
	// state
	val     map[ssa.Value]bool
	fields  map[*types.Var]bool
	allocs  map[*ssa.Alloc]bool
	retT    map[*ssa.Function]map[int]bool
	funcs   []*ssa.Function
	changed bool
	// why: one predecessor in the flow graph, for explanations
	why      map[ssa.Value]ssa.Value
	allocSrc map[*ssa.Alloc]ssa.Value
	fieldSrc map[*types.Var]ssa.Value
}

func NewTaint(p *Prog) *Taint {
	return &Taint{P: p, val: map[ssa.Value]bool{}, fields: map[*types.Var]bool{}, allocs: map[*ssa.Alloc]bool{},
		retT: map[*ssa.Function]map[int]bool{}, why: map[ssa.Value]ssa.Value{}, allocSrc: map[*ssa.Alloc]ssa.Value{}, fieldSrc: map[*types.Var]ssa.Value{}}
}

func (t *Taint) mark(v ssa.Value, from ssa.Value) {
	if v == nil || t.val[v] {
		return
	}
	if _, isConst := v.(*ssa.Const); isConst {
		return
	}
	t.val[v] = true
	if from != nil {
		t.why[v] = from
	}
	t.changed = true
}

func (t *Taint) Tainted(v ssa.Value) bool { return v != nil && t.val[v] }

// Run computes the fixpoint over the functions in scope.
func (t *Taint) Run() {
	t.funcs = nil
	for _, fn := range t.P.ModFuncs() {
		if t.Scope == nil || t.Scope(fn) {
			t.funcs = append(t.funcs, fn)
		}
	}
	// seed
	for _, fn := range t.funcs {
		for _, p := range fn.Params {
			if t.IsSource(p) {
				t.mark(p, nil)
			}
		}
		eachInstr(fn, func(ins ssa.Instruction) {
			if v, ok := ins.(ssa.Value); ok && t.IsSource(v) {
				t.mark(v, nil)
			}
		})
	}
	for iter := 0; iter < 200; iter++ {
		t.changed = false
		for _, fn := range t.funcs {
			t.step(fn)
		}
		if !t.changed {
			break
		}
	}
}

func (t *Taint) anyOperandTainted(ins ssa.Instruction) ssa.Value {
	var ops []*ssa.Value
	for _, op := range ins.Operands(ops) {
		if op != nil && *op != nil && t.val[*op] {
			return *op
		}
	}
	return nil
}

func (t *Taint) step(fn *ssa.Function) {
	for _, b := range fn.Blocks {
		for _, ins := range b.Instrs {
			switch x := ins.(type) {
			case *ssa.Store:
				if !t.val[x.Val] {
					continue
				}
				switch a := x.Addr.(type) {
				case *ssa.FieldAddr:
					f, _ := fieldOf(a)
					if f != nil && !t.fields[f] {
						t.fields[f] = true
						t.fieldSrc[f] = x.Val
						t.changed = true
					}
				case *ssa.Alloc:
					if !t.allocs[a] {
						t.allocs[a] = true
						t.allocSrc[a] = x.Val
						t.changed = true
					}
				case *ssa.IndexAddr:
					// element store taints the container value
					t.mark(a.X, x.Val)
					if al, ok := a.X.(*ssa.Alloc); ok && !t.allocs[al] {
						t.allocs[al] = true
						t.changed = true
					}
				case *ssa.Global:
					t.mark(a, x.Val)
				default:
					t.mark(x.Addr, x.Val)
				}
			case *ssa.MapUpdate:
				if t.val[x.Value] || t.val[x.Key] {
					t.mark(x.Map, x.Value)
				}
			case *ssa.Call:
				t.call(fn, x)
			case *ssa.Return:
				for i, r := range x.Results {
					if t.val[r] {
						if t.retT[fn] == nil {
							t.retT[fn] = map[int]bool{}
						}
						if !t.retT[fn][i] {
							t.retT[fn][i] = true
							t.changed = true
						}
					}
				}
			case *ssa.UnOp:
				if x.Op == token.MUL {
					// loads
					switch a := x.X.(type) {
					case *ssa.FieldAddr:
						f, _ := fieldOf(a)
						if f != nil && t.fields[f] {
							t.mark(x, t.fieldSrc[f])
						}
						if t.val[a.X] && false {
							t.mark(x, a.X)
						}
					case *ssa.Alloc:
						if t.allocs[a] {
							t.mark(x, t.allocSrc[a])
						}
					case *ssa.IndexAddr:
						if t.val[a.X] {
							t.mark(x, a.X)
						}
						if al, ok := a.X.(*ssa.Alloc); ok && t.allocs[al] {
							t.mark(x, nil)
						}
					default:
						if t.val[x.X] {
							t.mark(x, x.X)
						}
					}
					continue
				}
				if t.val[x.X] {
					t.mark(x, x.X)
				}
			case *ssa.Field:
				f, _ := fieldOf(x)
				if (f != nil && t.fields[f]) || t.val[x.X] {
					t.mark(x, x.X)
				}
			case *ssa.FieldAddr, *ssa.IndexAddr:
				// addresses are not data; loads are handled above
			case *ssa.Phi:
				for _, e := range x.Edges {
					if t.val[e] {
						t.mark(x, e)
					}
				}
			case *ssa.Extract:
				if call, ok := x.Tuple.(*ssa.Call); ok {
					callee := call.Call.StaticCallee()
					if callee != nil && t.P.InModule(callee) && callee.Blocks != nil && (t.Scope == nil || t.Scope(callee)) {
						if t.retT[callee][x.Index] {
							t.mark(x, nil)
						}
						continue
					}
				}
				if t.val[x.Tuple] {
					t.mark(x, x.Tuple)
				}
			case ssa.Value:
				if from := t.anyOperandTainted(ins); from != nil {
					t.mark(x, from)
				}
			}
		}
	}
	if t.Implicit {
		t.implicit(fn)
	}
}

func (t *Taint) call(fn *ssa.Function, c *ssa.Call) {
	if t.IsSanitizer != nil && t.IsSanitizer(c) {
		return
	}
	if b, ok := c.Call.Value.(*ssa.Builtin); ok {
		switch b.Name() {
		case "len", "cap", "append", "min", "max":
			for _, a := range c.Call.Args {
				if t.val[a] {
					t.mark(c, a)
				}
			}
		case "copy":
			if len(c.Call.Args) == 2 && t.val[c.Call.Args[1]] {
				t.mark(c.Call.Args[0], c.Call.Args[1])
			}
		}
		return
	}
	callee := c.Call.StaticCallee()
	if callee != nil && t.P.InModule(callee) && callee.Blocks != nil && (t.Scope == nil || t.Scope(callee)) {
		for i, a := range c.Call.Args {
			if t.val[a] && i < len(callee.Params) {
				t.mark(callee.Params[i], a)
			}
		}
		if callee.Signature.Results().Len() == 1 && t.retT[callee][0] {
			t.mark(c, nil)
		}
		return
	}
	// closures / dynamic / external: conservative
	for _, a := range c.Call.Args {
		if t.val[a] {
			t.mark(c, a)
			return
		}
	}
	if c.Call.IsInvoke() && t.val[c.Call.Value] {
		t.mark(c, c.Call.Value)
	}
}

// isErrorGate: one successor of the If can only reach returns with a non-nil
// error (or no return at all); such a branch does not make the continuing
// path depend on the condition beyond "the gate passed".
func isErrorGate(ifi *ssa.If) bool {
	b := ifi.Block()
	if len(b.Succs) != 2 {
		return false
	}
	for _, s := range b.Succs {
		q := pathQuery{goal: func(i ssa.Instruction) bool {
			r, ok := i.(*ssa.Return)
			if !ok {
				return false
			}
			if len(r.Results) == 0 {
				return true
			}
			last := r.Results[len(r.Results)-1]
			if !isErrorType(last.Type()) {
				return true
			}
			return isNilConst(last)
		}}
		if path, _ := q.search(s, -1); path == nil {
			return true
		}
	}
	return false
}

// implicit: phis whose incoming edge depends on a tainted, non-gate branch.
func (t *Taint) implicit(fn *ssa.Function) {
	for _, b := range fn.Blocks {
		ifi, ok := lastInstr(b).(*ssa.If)
		if !ok || !t.val[ifi.Cond] || len(b.Succs) != 2 || isErrorGate(ifi) {
			continue
		}
		for _, j := range fn.Blocks {
			var phis []*ssa.Phi
			for _, ins := range j.Instrs {
				if p, ok := ins.(*ssa.Phi); ok {
					phis = append(phis, p)
				} else {
					break
				}
			}
			if len(phis) == 0 {
				continue
			}
			r0 := predsReachable(b.Succs[0], b, j)
			r1 := predsReachable(b.Succs[1], b, j)
			same := len(r0) == len(r1)
			if same {
				for k := range r0 {
					if !r1[k] {
						same = false
					}
				}
			}
			if !same {
				for _, p := range phis {
					t.mark(p, ifi.Cond)
				}
			}
		}
	}
}

// predsReachable: which predecessors of j are reachable from start without
// passing through j; when start is j itself (or reaching j directly from the
// branch block) the edge from `from` counts as predecessor `from`.
func predsReachable(start, from, j *ssa.BasicBlock) map[*ssa.BasicBlock]bool {
	out := map[*ssa.BasicBlock]bool{}
	if start == j {
		out[from] = true
		return out
	}
	seen := map[*ssa.BasicBlock]bool{}
	work := []*ssa.BasicBlock{start}
	for len(work) > 0 {
		x := work[len(work)-1]
		work = work[:len(work)-1]
		if seen[x] {
			continue
		}
		seen[x] = true
		for _, s := range x.Succs {
			if s == j {
				out[x] = true
				continue
			}
			work = append(work, s)
		}
	}
	return out
}

// Explain returns a short flow chain for a tainted value.
func (t *Taint) Explain(v ssa.Value) []string {
	var out []string
	for i := 0; v != nil && i < 12; i++ {
		out = append(out, t.P.Pos(v.Pos())+" "+valueName(v))
		v = t.why[v]
	}
	return out
}
