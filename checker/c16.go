package main

// C16 — rtcmlogger passes its input through unchanged and records an
// identical copy.

import (
	"fmt"
	"go/token"
	"go/types"
	"strings"

	"golang.org/x/tools/go/ssa"
)

// mustWriteFn: module function that performs a write on every path to every
// return (a write call dominates each Return).
func (p *Prog) mustWriteFn(f *ssa.Function) bool {
	if f == nil || !p.InModule(f) || f.Blocks == nil {
		return false
	}
	var writes []ssa.Instruction
	eachInstr(f, func(ins ssa.Instruction) {
		if isWriteCall(p, ins) {
			writes = append(writes, ins)
		}
	})
	if len(writes) == 0 {
		return false
	}
	for _, r := range returnsOf(f) {
		ok := false
		for _, w := range writes {
			if instrDominates(w, r) {
				ok = true
			}
		}
		if !ok && !p.nilGuardNeverTaken(f, r) {
			return false
		}
	}
	return true
}

// nilGuardNeverTaken: return r of f is guarded by `param == nil` for a pointer
// parameter that every call site in the module supplies with the address of a
// variable (so the guard is a defensive check that cannot fire).
func (p *Prog) nilGuardNeverTaken(f *ssa.Function, r *ssa.Return) bool {
	for _, ft := range dominatingFacts(r.Block()) {
		bo, ok := ft.Cond.(*ssa.BinOp)
		if !ok || (bo.Op != token.EQL && bo.Op != token.NEQ) || (bo.Op == token.EQL) != ft.Val {
			continue
		}
		x, y := bo.X, bo.Y
		if isNilConst(x) {
			x, y = y, x
		}
		prm, ok := x.(*ssa.Parameter)
		if !ok || !isNilConst(y) {
			continue
		}
		idx := -1
		for i, q := range f.Params {
			if q == prm {
				idx = i
			}
		}
		sites := p.Callers(f)
		if idx < 0 || len(sites) == 0 {
			continue
		}
		all := true
		for _, site := range sites {
			args := site.Common().Args
			if idx >= len(args) {
				all = false
				continue
			}
			if _, isAlloc := args[idx].(*ssa.Alloc); !isAlloc {
				all = false
			}
		}
		if all {
			return true
		}
	}
	return false
}

// isGlobalLoad: v is a load of the named package-level variable of pkgPath.
func isGlobalLoad(v ssa.Value, pkgPath, name string) bool {
	g := loadOfGlobal(v)
	return g != nil && g.Pkg != nil && g.Pkg.Pkg.Path() == pkgPath && g.Name() == name
}

func checkC16(c *Ctx) {
	c.Explanation = "Decides the structure that makes rtcmlogger a lossless tee: (R1) in the copy loop every successful read of n>0 bytes from standard input is followed, before the next read and on every path, by exactly one write of readBuffer[:n] (same buffer, same n) to standard output and then exactly one send to the recorder; the only edges that bypass them are end-of-file and n==0; (R2) what is sent to the recorder is a fresh buffer of length n filled by copy from readBuffer[:n], so the recorder never aliases the buffer that the next read overwrites; (R3) the recorder writes every block it receives, unmodified, before its next receive and leaves its loop only when the channel is closed; (R4) start closes the recorder channel and waits for the recorder goroutine before returning, on every path (join rule of C11). R1 also requires that every return of the copy loop is reached over an err == io.EOF edge on every path. (R6) the copy loop, the recorder, start and the module functions they call outside the logger package are free of index, slice, bit-read, division, shift, assertion and make panics (the arithmetic obligations of C07, discharged by linear entailment). (R7) nothing reachable from start closes standard input or output, or wraps a descriptor in a second os.File (os.NewFile: the new object's finalizer closes the descriptor at the next garbage collection), calls syscall.Close/Dup2, or renames/removes files from the tee itself. (R8) the record writer is created for the configured message directory with a file-name pattern that no writer for another directory shares (two daily writers with one pattern and equal directories append to one file), and the configured directory is replaced by a default only when it is empty."
	c.NotDecided = "dailylogger's own file handling and midnight gating (dependency); what os.File.Read/Write do; partial writes to stdout (ignored by design); a read that returns n>0 together with io.EOF (os.File never does)."
	c.Assumptions = append(c.Assumptions, "os.File.Read returns (0, io.EOF) at end of file, never n>0 together with io.EOF", "io.Reader contract: n, err := r.Read(p) gives 0 <= n <= len(p)")
	P := c.P
	pkg := "apps/rtcmlogger"
	rw := P.Func(pkg, "readAndWrite")
	rec := P.Func(pkg, "recorder")
	start := P.Func(pkg, "start")
	if rw == nil || rec == nil || start == nil {
		c.Unresolved("C16-anchor", pkg+".readAndWrite/recorder/start")
		return
	}
	// ---- R1
	var read *ssa.Call
	var writes, sends []ssa.Instruction
	eachInstr(rw, func(ins ssa.Instruction) {
		switch x := ins.(type) {
		case *ssa.Call:
			f := x.Call.StaticCallee()
			if f != nil && calleeFullName(f) == "(*os.File).Read" && isGlobalLoad(x.Call.Args[0], "os", "Stdin") {
				read = x
			}
			if f != nil && calleeFullName(f) == "(*os.File).Write" && isGlobalLoad(x.Call.Args[0], "os", "Stdout") {
				writes = append(writes, x)
			}
		case *ssa.Send:
			sends = append(sends, x)
		case *ssa.Select:
			for _, st := range x.States {
				if st.Dir == types.SendOnly {
					c.Fail("C16-R1", "readAndWrite:record-send-is-select", x.Pos(), "refuted", "the hand-over to the recorder is one arm of a select: when another arm (timeout, default) wins, the block is never recorded")
				}
			}
		}
	})
	if read == nil || len(writes) == 0 || len(sends) == 0 {
		c.Fail("C16-R1", "readAndWrite:shape", rw.Pos(), "unresolved", fmt.Sprintf("copy loop not recognised: stdin read %v, stdout writes %d, recorder sends %d", read != nil, len(writes), len(sends)))
		return
	}
	var nVal, errVal ssa.Value
	for _, r := range referrers(read) {
		if ex, ok := r.(*ssa.Extract); ok {
			if ex.Index == 0 {
				nVal = ex
			} else {
				errVal = ex
			}
		}
	}
	buf := root(read.Call.Args[1])
	isW := func(i ssa.Instruction) bool {
		for _, w := range writes {
			if w == i {
				return true
			}
		}
		return false
	}
	isS := func(i ssa.Instruction) bool {
		for _, s := range sends {
			if s == i {
				return true
			}
		}
		return false
	}
	isRead := func(i ssa.Instruction) bool { return i == ssa.Instruction(read) }
	// allowed bypass edges: errRead == io.EOF (true edge) and n == 0 (true edge)
	bypass := func(a, b *ssa.BasicBlock) bool {
		ifi, ok := lastInstr(a).(*ssa.If)
		if !ok || len(a.Succs) != 2 || a.Succs[0] == a.Succs[1] {
			return true
		}
		cmp, ok := ifi.Cond.(*ssa.BinOp)
		if !ok {
			return true
		}
		taken := b == a.Succs[0]
		// n == 0
		if cmp.X == nVal || cmp.Y == nVal {
			other := cmp.Y
			if cmp.Y == nVal {
				other = cmp.X
			}
			if k, ok := constInt(other); ok && k == 0 {
				if (cmp.Op == token.EQL && taken) || (cmp.Op == token.NEQ && !taken) {
					return false
				}
			}
			if factNonPositive(cmp, taken, nVal) {
				return false
			}
		}
		// err == io.EOF
		if cmp.X == errVal || cmp.Y == errVal {
			other := cmp.Y
			if cmp.Y == errVal {
				other = cmp.X
			}
			if isGlobalLoad(stripIface(other), "io", "EOF") {
				if (cmp.Op == token.EQL && taken) || (cmp.Op == token.NEQ && !taken) {
					return false
				}
			}
		}
		return true
	}
	until := func(i ssa.Instruction) bool { return isRead(i) || isReturn(i) }
	if path, _ := mustPass(read, isW, until, bypass); path != nil {
		c.Fail("C16-R1", "readAndWrite:write-every-block", read.Pos(), "refuted", "a block read from stdin can reach the next read (or the end) without being written to stdout", P.blockPath(path)...)
	} else {
		c.OK("C16-R1", "readAndWrite:write-every-block", read.Pos(), "every path from a read with n>0 to the next read/return passes the stdout write")
	}
	if path, _ := mustPass(read, isS, until, bypass); path != nil {
		c.Fail("C16-R1", "readAndWrite:record-every-block", read.Pos(), "refuted", "a block read from stdin can reach the next read (or the end) without being sent to the recorder", P.blockPath(path)...)
	} else {
		c.OK("C16-R1", "readAndWrite:record-every-block", read.Pos(), "every path from a read with n>0 to the next read/return passes the recorder send")
	}
	// the copy loop ends only at the end of the input: every return is reached over an
	// `err == io.EOF` edge (a read error that is not EOF is reported and the read retried; stopping
	// there drops everything that arrives afterwards from stdout and from the record)
	isEOFFact := func(f EdgeFact) bool {
		cmp, ok := f.Cond.(*ssa.BinOp)
		if !ok || (cmp.X != errVal && cmp.Y != errVal) {
			return false
		}
		other := cmp.Y
		if cmp.Y == errVal {
			other = cmp.X
		}
		if !isGlobalLoad(stripIface(other), "io", "EOF") {
			return false
		}
		return (cmp.Op == token.EQL && f.Val) || (cmp.Op == token.NEQ && !f.Val)
	}
	eofOnly := true
	for _, r := range returnsOf(rw) {
		if !onEveryPath(r.Block(), isEOFFact) {
			eofOnly = false
			c.Fail("C16-R1", "readAndWrite:stops-only-at-EOF", r.Pos(), "refuted", "the copy loop can end for a reason other than end of input: what arrives after a transient read error is neither passed on nor recorded")
		}
	}
	if eofOnly {
		c.OK("C16-R1", "readAndWrite:stops-only-at-EOF", rw.Pos(), "every return follows an err == io.EOF edge")
	}
	if path, _ := atMostOnce(rw, isW, isRead); path != nil {
		c.Fail("C16-R1", "readAndWrite:write-once", read.Pos(), "refuted", "a block can be written to stdout twice", P.blockPath(path)...)
	} else {
		c.OK("C16-R1", "readAndWrite:write-once", read.Pos(), "no second stdout write without a new read")
	}
	if path, _ := atMostOnce(rw, isS, isRead); path != nil {
		c.Fail("C16-R1", "readAndWrite:record-once", read.Pos(), "refuted", "a block can be sent to the recorder twice", P.blockPath(path)...)
	} else {
		c.OK("C16-R1", "readAndWrite:record-once", read.Pos(), "no second recorder send without a new read")
	}
	// operands: Write(readBuffer[:n])
	isBufPrefix := func(v ssa.Value) bool {
		sl, ok := v.(*ssa.Slice)
		if !ok {
			return false
		}
		if root(sl.X) != buf {
			return false
		}
		if sl.Low != nil {
			if k, ok := constInt(sl.Low); !ok || k != 0 {
				return false
			}
		}
		return sl.High == nVal
	}
	for _, w := range writes {
		c.Check(isBufPrefix(w.(*ssa.Call).Call.Args[1]), "C16-R1", "readAndWrite:write-operand", w.Pos(), "stdout receives readBuffer[:n] of the same read",
			"the bytes written to stdout are not exactly readBuffer[:n] of the preceding read")
	}
	// the read fills the whole buffer variable (no offset): Read(readBuffer)
	if !isFreshSlice(buf) {
		c.Fail("C16-R1", "readAndWrite:read-buffer", read.Pos(), "unproven", "the read buffer is not a locally made slice")
	} else if root(read.Call.Args[1]) != buf || sliceBase(root(read.Call.Args[1])) != sliceBase(buf) {
		c.Fail("C16-R1", "readAndWrite:read-buffer", read.Pos(), "unproven", "the read targets a sub-slice of the buffer; prefix [:n] would not hold the data")
	} else {
		c.OK("C16-R1", "readAndWrite:read-buffer", read.Pos(), "stdin is read into the start of the local buffer")
	}
	// no store through the buffer between read and write (unchanged bytes)
	storeToBuf := false
	eachInstr(rw, func(ins ssa.Instruction) {
		if st, ok := ins.(*ssa.Store); ok {
			if ia, ok := st.Addr.(*ssa.IndexAddr); ok && root(ia.X) == buf {
				storeToBuf = true
				c.Fail("C16-R1", "readAndWrite:buffer-unmodified", ins.Pos(), "refuted", "the copy loop modifies the read buffer")
			}
		}
		if cc, ok := builtinCall(ins, "copy"); ok && root(sliceBase(cc.Args[0])) == buf {
			storeToBuf = true
			c.Fail("C16-R1", "readAndWrite:buffer-unmodified", ins.Pos(), "refuted", "the copy loop copies into the read buffer")
		}
	})
	if !storeToBuf {
		c.OK("C16-R1", "readAndWrite:buffer-unmodified", rw.Pos(), "no store or copy into the read buffer in the loop")
	}
	// order: write before send on every path (the pass-through is never delayed by the recorder)
	for _, s := range sends {
		okOrder := false
		for _, w := range writes {
			if instrDominates(w, s) {
				okOrder = true
			}
		}
		c.Check(okOrder, "C16-R1", "readAndWrite:write-before-record", s.Pos(), "the stdout write dominates the recorder send",
			"a block can be handed to the recorder before it has been passed through to stdout")
	}
	// ---- R2 private copy
	for _, s := range sends {
		sd := s.(*ssa.Send)
		mk, isMk := root(sd.X).(*ssa.MakeSlice)
		okCopy := false
		lenOK := isMk && stripConv(mk.Len) == nVal
		if isMk && !lenOK {
			// len(readBuffer[:n]) is n
			if lc, ok := stripConv(mk.Len).(*ssa.Call); ok {
				if b, isB := lc.Call.Value.(*ssa.Builtin); isB && b.Name() == "len" && len(lc.Call.Args) == 1 && isBufPrefix(lc.Call.Args[0]) {
					lenOK = true
				}
			}
		}
		if lenOK {
			eachInstr(rw, func(ins ssa.Instruction) {
				if cc, ok := builtinCall(ins, "copy"); ok {
					if root(cc.Args[0]) == ssa.Value(mk) && isBufPrefix(cc.Args[1]) && instrDominates(ins, s) {
						okCopy = true
					}
				}
			})
		}
		c.Check(okCopy, "C16-R2", "readAndWrite:private-copy", s.Pos(), "the recorder receives a fresh slice of length n filled by copy(readBuffer[:n])",
			"the value sent to the recorder is not a fresh complete copy of readBuffer[:n] (aliasing the read buffer lets the next read overwrite unrecorded data)")
		// no write into the copy after the copy()
	}
	// ---- R3 recorder loop
	consumerLoopRuleX(c, "C16-R3", rec, "rtcmlogger.recorder")
	// ---- R4 join
	n := 0
	for _, g := range goStatements(start) {
		body := callTarget(g)
		if body == nil {
			continue
		}
		syncFns, _ := P.reachSync(body)
		if !syncFns[rec] {
			continue
		}
		n++
		res := P.checkJoin(start, g)
		if len(res.Problems) == 0 {
			c.OK("C16-R4", "start:join(recorder)", g.Pos(), fmt.Sprintf("recorder joined through %s: signalled after its last write, waited for on every return path after the channel is closed", res.Kind))
		} else {
			msg := ""
			for i, pr := range res.Problems {
				if i > 0 {
					msg += "; "
				}
				msg += pr
			}
			var paths []string
			for _, p := range res.Paths {
				paths = append(paths, p...)
			}
			c.Fail("C16-R4", "start:join(recorder)", g.Pos(), "refuted", msg, paths...)
		}
		// the copy loop runs between the go and the close (synchronously)
		var loopCall ssa.Instruction
		eachInstr(start, func(ins ssa.Instruction) {
			if staticCallee(ins) == rw {
				if _, isGo := ins.(*ssa.Go); !isGo {
					loopCall = ins
				}
			}
		})
		c.Check(loopCall != nil && instrDominates(g, loopCall), "C16-R4", "start:recorder-before-loop", g.Pos(), "the recorder is started before the synchronous copy loop",
			"the copy loop is not run synchronously after the recorder has been started")
		// channel passed to the loop is the channel the recorder receives from
		if loopCall != nil {
			chs := P.inputChannelsOfGo(g)
			same := false
			for _, ch := range chs {
				if root(ch) == root(loopCall.(*ssa.Call).Call.Args[0]) {
					same = true
				}
			}
			c.Check(same, "C16-R4", "start:same-channel", loopCall.Pos(), "the copy loop sends on the channel the recorder receives from", "copy loop and recorder use different channels")
		}
	}
	if n == 0 {
		c.Fail("C16-R4", "start:go(recorder)", start.Pos(), "unresolved", "start does not run the recorder in a goroutine")
	}
	// ---- R5 the event logger exists only when event logging is configured: every use of it is
	// dominated by a test that LogEvents is set (an unguarded report - a progress line, say - is a
	// nil dereference that stops pass-through and recording when logging is off)
	nUses, badUses := 0, 0
	for _, g := range P.FuncsIn("apps/rtcmlogger") {
		eachInstr(g, func(ins ssa.Instruction) {
			call, ok := ins.(*ssa.Call)
			if !ok || len(call.Call.Args) == 0 {
				return
			}
			recv := call.Call.Args[0]
			if call.Call.IsInvoke() {
				recv = call.Call.Value
			}
			gl := loadOfGlobal(recv)
			if gl == nil || gl.Name() != "eventLogger" {
				return
			}
			nUses++
			guarded := false
			for _, f := range dominatingFacts(call.Block()) {
				cond, val := f.Cond, f.Val
				if u, isNot := cond.(*ssa.UnOp); isNot && u.Op == token.NOT {
					cond, val = u.X, !val
				}
				if fv, _ := loadedField(cond); fv != nil && fv.Name() == "LogEvents" && val {
					guarded = true
				}
			}
			if !guarded {
				badUses++
				c.Fail("C16-R5", "event-logger-guarded("+P.FnKey(g)+")", call.Pos(), "refuted", "the event logger is used without a LogEvents test: it is nil when event logging is off, so this call stops the copy loop (or the recorder) with a panic")
			}
		})
	}
	if nUses > 0 && badUses == 0 {
		c.OK("C16-R5", "event-logger-guarded", rw.Pos(), fmt.Sprintf("all %d uses of the event logger follow a LogEvents test", nUses))
	}
	// ---- R6 no run-time panic in the copy loop, the recorder and what they call (a panic ends the tee)
	runBoundsLite(c, "C16-R6", []*ssa.Function{rw, rec, start}, func(fn *ssa.Function) bool {
		// the logger package (midnight rotation, pushing old logs) runs beside the tee, not in it
		return fn.Pkg == nil || !strings.HasSuffix(fn.Pkg.Pkg.Path(), "apps/rtcmlogger/logger")
	})
	// ---- R7 the standard descriptors stay as the runtime opened them
	ruleStdDescriptorsLeftAlone(c, "C16-R7", []*ssa.Function{start})
	// ---- R8 the record goes to the configured directory under a name of its own
	ruleRecordDestination(c, "C16-R8", pkg)
	c.MinInstances("C16-R5", 1)
	c.MinInstances("C16-R1", 8)
	c.MinInstances("C16-R2", 1)
	c.MinInstances("C16-R3", 4)
	c.MinInstances("C16-R4", 3)
}

func sliceBase(v ssa.Value) ssa.Value {
	for {
		if s, ok := v.(*ssa.Slice); ok {
			v = s.X
			continue
		}
		return v
	}
}

// consumerLoopRuleX: like consumerLoopRule, for a consumer whose write is
// delegated to a must-write helper that is handed the received block.
func consumerLoopRuleX(c *Ctx, rule string, fn *ssa.Function, label string) {
	P := c.P
	rss := recvSites(fn)
	if len(rss) != 1 || rss[0].ok == nil {
		c.Fail(rule, label+":receive", fn.Pos(), "unproven", fmt.Sprintf("expected one comma-ok receive, found %d", len(rss)))
		return
	}
	rs := rss[0]
	if prm, ok := root(rs.ins.X).(*ssa.Parameter); !ok || prm.Parent() != fn {
		c.Fail(rule, label+":receive-channel", rs.ins.Pos(), "unproven", "consumer does not receive from its channel parameter")
		return
	}
	isWrite := func(i ssa.Instruction) bool {
		if _, isGo := i.(*ssa.Go); isGo {
			return false
		}
		if isWriteCall(P, i) {
			return true
		}
		if f := staticCallee(i); f != nil && P.mustWriteFn(f) {
			return true
		}
		return false
	}
	nw := 0
	eachInstr(fn, func(i ssa.Instruction) {
		if isWrite(i) {
			nw++
			// operand: the received block (value, or address of its slot)
			ci := i.(ssa.CallInstruction)
			okArg := false
			for _, a := range ci.Common().Args {
				if rs.isMsg(a) || (rs.slot != nil && a == ssa.Value(rs.slot)) {
					okArg = true
				}
			}
			if okArg {
				// the helper must write the block it is handed, unmodified
				if f := staticCallee(i); f != nil && P.InModule(f) {
					okArg = helperWritesParam(P, f)
				}
			}
			c.Check(okArg, rule, label+":write-operand", i.Pos(), "the received block itself is written", "the recorder writes something other than the received block")
		}
	})
	if nw == 0 {
		c.Fail(rule, label+":write", fn.Pos(), "unproven", "no write in the consumer loop")
		return
	}
	// returns reachable from the receive only on the closed edge
	for _, r := range returnsOf(fn) {
		q := pathQuery{goal: func(i ssa.Instruction) bool { return i == ssa.Instruction(r) }}
		if path, _ := q.search(rs.ins.Block(), instrIndex(rs.ins)); path == nil {
			continue // pre-loop guard return
		}
		c.Check(rs.dominatedByClosed(r.Block()), rule, label+":return(closed)", r.Pos(), "loop left only on the closed-channel edge",
			"the recorder can stop while its channel is still open: later blocks are lost and the copy loop blocks")
	}
	edgeOK := func(a, b *ssa.BasicBlock) bool {
		ifi, ok := lastInstr(a).(*ssa.If)
		if ok && ifi.Cond == rs.ok && len(a.Succs) == 2 && b == a.Succs[1] {
			return false
		}
		return true
	}
	until := func(i ssa.Instruction) bool { return i == ssa.Instruction(rs.ins) || isReturn(i) }
	if path, _ := mustPass(rs.ins, isWrite, until, edgeOK); path != nil {
		c.Fail(rule, label+":write-every-block", rs.ins.Pos(), "refuted", "a received block can be dropped without being written", P.blockPath(path)...)
	} else {
		c.OK(rule, label+":write-every-block", rs.ins.Pos(), "every received block is written before the next receive")
	}
	if path, _ := atMostOnce(fn, isWrite, func(i ssa.Instruction) bool { return i == ssa.Instruction(rs.ins) }); path != nil {
		c.Fail(rule, label+":write-once", rs.ins.Pos(), "refuted", "a block can be written twice", P.blockPath(path)...)
	} else {
		c.OK(rule, label+":write-once", rs.ins.Pos(), "no second write without a new receive")
	}
}

// helperWritesParam: the must-write helper passes (the pointee of) one of its
// parameters, unmodified, to the write call.
func helperWritesParam(P *Prog, f *ssa.Function) bool {
	ok := false
	eachInstr(f, func(ins ssa.Instruction) {
		if !isWriteCall(P, ins) {
			return
		}
		arg := writeArg(ins.(ssa.CallInstruction))
		if arg == nil {
			return
		}
		v := arg
		if u, isU := v.(*ssa.UnOp); isU && u.Op == token.MUL {
			v = u.X
		}
		if prm, isP := v.(*ssa.Parameter); isP {
			// no store through the parameter in the helper
			stored := false
			for _, r := range referrers(prm) {
				if st, isSt := r.(*ssa.Store); isSt && st.Addr == ssa.Value(prm) {
					stored = true
				}
			}
			if _, isPtr := prm.Type().Underlying().(*types.Pointer); isPtr || true {
				ok = !stored
			}
		}
	})
	return ok
}

// isFreshSlice: v is make([]T, n) (MakeSlice, or for a constant length the
// whole-array slice of a fresh heap array).
func isFreshSlice(v ssa.Value) bool {
	switch x := v.(type) {
	case *ssa.MakeSlice:
		return true
	case *ssa.Slice:
		if al, ok := x.X.(*ssa.Alloc); ok && al.Heap && x.Low == nil {
			if x.High == nil {
				return true
			}
			if arr, ok := al.Type().Underlying().(*types.Pointer).Elem().Underlying().(*types.Array); ok {
				if k, ok := constInt(x.High); ok && k == arr.Len() {
					return true
				}
			}
		}
	}
	return false
}

// ruleStdDescriptorsLeftAlone (C16-R7): the tee reads descriptor 0 and writes descriptor 1 through os.Stdin and
// os.Stdout for as long as it runs.  A second os.File made for one of them with os.NewFile closes it when it
// is garbage collected; Close on the standard files and raw syscall.Close/Dup2/Dup3 end the stream likewise.
func ruleStdDescriptorsLeftAlone(c *Ctx, rule string, roots []*ssa.Function) {
	P := c.P
	n, bad := 0, 0
	for fn := range P.ReachableModule(roots) {
		if !P.InModule(fn) {
			continue
		}
		n++
		eachInstr(fn, func(ins ssa.Instruction) {
			ci, ok := ins.(ssa.CallInstruction)
			if !ok {
				return
			}
			f := ci.Common().StaticCallee()
			if f == nil {
				return
			}
			full := calleeFullName(f)
			switch {
			case full == "os.NewFile":
				// kept alive for the life of the process in a package-level variable: harmless
				if v, ok := ins.(ssa.Value); ok {
					for _, r := range referrers(v) {
						if st, ok := r.(*ssa.Store); ok {
							if _, isG := st.Addr.(*ssa.Global); isG {
								return
							}
						}
					}
				}
				bad++
				c.Fail(rule, "std-descriptors("+P.FnKey(fn)+")", ins.Pos(), "refuted", "os.NewFile wraps a descriptor in a second os.File whose finalizer closes it at a later garbage collection: if it is a standard descriptor the pass-through stops in mid-stream")
			case full == "syscall.Close" || full == "syscall.Dup2" || full == "syscall.Dup3":
				bad++
				c.Fail(rule, "std-descriptors("+P.FnKey(fn)+")", ins.Pos(), "refuted", full+" in the tee: a descriptor can be closed or replaced under os.Stdin/os.Stdout")
			case (full == "os.Rename" || full == "os.Remove" || full == "os.RemoveAll" || full == "os.Truncate") && !strings.HasSuffix(fn.Pkg.Pkg.Path(), "apps/rtcmlogger/logger"):
				bad++
				c.Fail(rule, "std-descriptors("+P.FnKey(fn)+")", ins.Pos(), "refuted", full+" in the tee itself: a record file can be moved or removed while (or just after) it is opened for today's data")
			case full == "(*os.File).Close":
				a := ci.Common().Args
				if len(a) > 0 && (isGlobalLoad(a[0], "os", "Stdin") || isGlobalLoad(a[0], "os", "Stdout")) {
					bad++
					c.Fail(rule, "std-descriptors("+P.FnKey(fn)+")", ins.Pos(), "refuted", "a standard stream is closed while the tee may still use it")
				}
			}
		})
	}
	if n == 0 {
		c.Fail(rule, "std-descriptors", token.NoPos, "unresolved", "no functions reachable from start")
	} else if bad == 0 {
		c.OK(rule, "std-descriptors", roots[0].Pos(), fmt.Sprintf("no os.NewFile, syscall.Close/Dup2/Dup3 or Close of a standard stream in the %d module functions reachable from start", n))
	}
}

// ruleRecordDestination (C16-R8): "the day's record file in the configured directory contains the same bytes".
//   - every dailylogger.New in the program has constant leader and trailer; two writers made for different
//     directory settings never share a (leader, trailer) pair — with equal directories they would write one file;
//   - the configured record directory is overwritten only under the test that it is empty.
func ruleRecordDestination(c *Ctx, rule, pkg string) {
	P := c.P
	type site struct {
		dir  string
		pat  string
		call *ssa.Call
	}
	var sites []site
	for _, fn := range P.FuncsIn(pkg) {
		eachInstr(fn, func(ins ssa.Instruction) {
			call, ok := ins.(*ssa.Call)
			if !ok || len(call.Call.Args) != 3 {
				return
			}
			f := call.Call.StaticCallee()
			if f == nil || f.Name() != "New" || f.Pkg == nil || !strings.HasSuffix(f.Pkg.Pkg.Path(), "go-tools/dailylogger") {
				return
			}
			lead, ok1 := constString(call.Call.Args[1])
			trail, ok2 := constString(call.Call.Args[2])
			dir := "?"
			if fv, _ := loadedField(call.Call.Args[0]); fv != nil {
				dir = fv.Name()
			}
			if !ok1 || !ok2 {
				c.Fail(rule, "record-name("+P.FnKey(fn)+")", call.Pos(), "unproven", "a daily writer is created with a file-name pattern that is not constant")
				return
			}
			sites = append(sites, site{dir, lead + "*" + trail, call})
		})
	}
	nRec := 0
	for _, a := range sites {
		if a.dir != "MessageLogDirectory" {
			continue
		}
		nRec++
		clash := ""
		for _, b := range sites {
			if b.dir != a.dir && b.pat == a.pat {
				clash = b.dir
			}
		}
		c.Check(clash == "", rule, "record-name", a.call.Pos(), "the record's file-name pattern "+a.pat+" is used for no other directory setting",
			"the record writer uses the file-name pattern "+a.pat+" that the writer for "+clash+" uses too: when the two directories are the same both append to one file and the record is not a copy of the input")
	}
	if nRec == 0 {
		c.Fail(rule, "record-name", token.NoPos, "unresolved", "no daily writer created for the configured message directory")
	}
	// the configured directory is replaced only when empty
	for _, fn := range P.FuncsIn(pkg) {
		eachInstr(fn, func(ins ssa.Instruction) {
			st, ok := ins.(*ssa.Store)
			if !ok {
				return
			}
			fv, _ := fieldOf(st.Addr)
			if fv == nil || fv.Name() != "MessageLogDirectory" {
				return
			}
			emptyFact := func(f EdgeFact) bool {
				bo, ok := f.Cond.(*ssa.BinOp)
				if !ok || !((bo.Op == token.EQL && f.Val) || (bo.Op == token.NEQ && !f.Val)) {
					return false
				}
				// len(dir) == 0
				if ln, ok := bo.X.(*ssa.Call); ok {
					if b, ok := ln.Call.Value.(*ssa.Builtin); ok && b.Name() == "len" && isZero(bo.Y) {
						f2, _ := loadedField(ln.Call.Args[0])
						return f2 == fv
					}
				}
				// dir == ""
				if s2, ok := constString(bo.Y); ok && s2 == "" {
					f2, _ := loadedField(bo.X)
					return f2 == fv
				}
				return false
			}
			empty := onEveryPath(st.Block(), emptyFact)
			if !empty {
				// `dir = defaulted(dir)`: the stored value is the setting itself, or a default chosen on
				// the edge of the emptiness test
				var same func(v ssa.Value, depth int) bool
				same = func(v ssa.Value, depth int) bool {
					if depth > 4 {
						return false
					}
					if f2, _ := loadedField(v); f2 == fv {
						return true
					}
					phi, ok := v.(*ssa.Phi)
					if !ok {
						return false
					}
					for i, e := range phi.Edges {
						if same(e, depth+1) {
							continue
						}
						pred := phi.Block().Preds[i]
						if onEveryPath(pred, emptyFact) {
							continue
						}
						if ifi, ok := lastInstr(pred).(*ssa.If); ok && len(pred.Succs) == 2 && emptyFact(EdgeFact{ifi.Cond, pred.Succs[0] == phi.Block(), pred}) {
							continue
						}
						return false
					}
					return true
				}
				empty = same(st.Val, 0)
			}
			c.Check(empty, rule, "record-directory("+P.FnKey(fn)+")", st.Pos(), "the configured record directory is given a default only when it is empty",
				"the configured record directory is replaced although it is not empty: the record does not appear in the configured directory")
		})
	}
}
