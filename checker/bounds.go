package main

// E-bounds: obligation generator and discharger for C07 (and the C19 subset):
// every panic-capable operation and every loop in the code reachable from the
// decode/display roots carries an obligation.

import (
	"fmt"
	"go/token"
	"go/types"
	"os"
	"sort"
	"strings"

	"golang.org/x/tools/go/ssa"
)

// external callees that cannot panic for the arguments this code base gives
// them (one line of reason each).  A callee not listed is an open obligation.
var noPanicAllow = map[string]string{
	"fmt.Sprintf":                    "formats any operands; operands are basic values, strings, errors",
	"fmt.Sprint":                     "formats any operands",
	"errors.New":                     "allocates an error",
	"context.Background":             "returns the empty context",
	"context.TODO":                   "returns the empty context",
	"log/slog.Default":               "returns the default logger",
	"log/slog.Debug":                 "logging; malformed key/value lists are reported as !BADKEY, not by panicking",
	"log/slog.Info":                  "logging",
	"log/slog.Warn":                  "logging",
	"log/slog.Error":                 "logging",
	"fmt.Errorf":                     "formats any operands (panics of operand methods are recovered by fmt)",
	"fmt.Sprintln":                   "formats any operands",
	"errors.Is":                      "walks the error chain",
	"errors.Unwrap":                  "pure",
	"strings.HasPrefix":              "pure",
	"strings.HasSuffix":              "pure",
	"strings.TrimSpace":              "pure",
	"strings.ToLower":                "pure",
	"strings.ToUpper":                "pure",
	"strings.Join":                   "pure",
	"strings.Split":                  "pure",
	"strings.Fields":                 "pure",
	"strings.Index":                  "pure",
	"(*strings.Builder).WriteString": "appends to a buffer",
	"(*strings.Builder).WriteByte":   "appends to a buffer",
	"(*strings.Builder).String":      "pure",
	"strconv.Itoa":                   "pure",
	"strconv.Quote":                  "pure",
	"(time.Time).Sub":                "pure arithmetic on a value",
	"(time.Time).Before":             "pure",
	"(time.Time).After":              "pure",
	"(time.Time).Equal":              "pure",
	"(time.Time).Weekday":            "pure",
	"(time.Time).Year":               "pure",
	"(time.Time).Month":              "pure",
	"(time.Time).Day":                "pure",
	"(time.Time).Date":               "pure",
	"(time.Time).UTC":                "pure",
	"(time.Time).Unix":               "pure",
	"(time.Time).UnixMilli":          "pure",
	"(time.Duration).Seconds":        "pure",
	"(time.Duration).String":         "pure",
	"math.Abs":                       "pure",
	"math.Floor":                     "pure",
	"math.Round":                     "pure",
	"math.Pow":                       "pure",
	"math.Ldexp":                     "pure",
	"encoding/hex.Dump":              "pure function of a byte slice",
	"strings.Replace":                "pure",
	"strings.ReplaceAll":             "pure",
	"strings.Contains":               "pure",
	"(time.Time).Add":                "pure arithmetic on a value",
	"(time.Time).AddDate":            "pure arithmetic on a value",
	"(time.Time).Format":             "pure; layout is a constant",
	"(time.Time).In":                 "panics only on a nil Location; LocationUTC is set in init",
	"(time.Duration).Milliseconds":   "pure",
	"github.com/goblimey/go-crc24q/crc24q.Hash":   "table-driven loop over the slice",
	"github.com/goblimey/go-crc24q/crc24q.HiByte": "shift and mask",
	"github.com/goblimey/go-crc24q/crc24q.MiByte": "shift and mask",
	"github.com/goblimey/go-crc24q/crc24q.LoByte": "shift and mask",
	"sort.Ints":               "pure",
	"(*sync.RWMutex).Lock":    "lock",
	"(*sync.RWMutex).Unlock":  "unlock after lock (C18)",
	"(*sync.RWMutex).RLock":   "lock",
	"(*sync.RWMutex).RUnlock": "unlock after lock (C18)",
}

// noPanicPackages: standard-library packages whose functions and methods do not
// panic for any argument values of their static types (formatting, string and
// number handling, time arithmetic, logging), except the few listed in
// panicProne.  Calls into them are accepted without individual review; every
// other package outside the module still needs an entry in noPanicAllow.
var noPanicPackages = map[string]bool{
	"fmt": true, "errors": true, "strings": true, "strconv": true, "unicode": true, "unicode/utf8": true,
	"math": true, "math/bits": true, "time": true, "log/slog": true, "sort": true, "encoding/hex": true,
	"path": true, "path/filepath": true,
}

var panicProne = map[string]string{
	"strings.Repeat":               "negative count / overflow",
	"time.Date":                    "nil *Location",
	"(time.Time).In":               "nil *Location",
	"time.NewTicker":               "non-positive interval",
	"time.Tick":                    "leaks; negative interval returns nil",
	"(*time.Ticker).Reset":         "non-positive interval",
	"(*strings.Builder).Grow":      "negative count",
	"(*strings.Reader).UnreadByte": "misuse returns error, listed for review",
	"strconv.FormatInt":            "base out of range",
	"strconv.FormatUint":           "base out of range",
	"strconv.AppendInt":            "base out of range",
	"sort.Slice":                   "non-slice argument",
	"sort.SliceStable":             "non-slice argument",
}

func pkgNoPanic(callee *ssa.Function, full string) bool {
	if callee == nil || callee.Pkg == nil || callee.Pkg.Pkg == nil {
		return false
	}
	if _, bad := panicProne[full]; bad {
		return false
	}
	return noPanicPackages[callee.Pkg.Pkg.Path()]
}

type boundsRun struct {
	c             *Ctx
	P             *Prog
	A             *Aff
	rule          string
	reach         map[*ssa.Function]bool
	roots         []*ssa.Function
	fns           []*ssa.Function
	loadRep       map[string]ssa.Value
	stableField   map[*types.Var]bool
	fieldNonNil   map[*types.Var]int // 0 unknown, 1 yes, 2 no
	derefParams   map[*ssa.Function]map[int]bool
	requires      map[*ssa.Function]func(call ssa.CallInstruction) []Con // what the call site must establish
	stats         map[string]int
	external      map[string]int
	hdr           *headerLemma
	ldone         *pipeline                  // non-nil when lemma L-done holds
	sortLessSlice map[*ssa.FreeVar]ssa.Value // captured slice of a sort.Slice callback -> representative load
	// lite mode (runBoundsLite): only obligations of these kinds, only in functions accepted by fnOK
	kinds map[string]bool
	fnOK  func(*ssa.Function) bool
}

// fieldStores lists every Store to field f in module code.
func (p *Prog) fieldStores(f *types.Var) []*ssa.Store {
	var out []*ssa.Store
	for _, fn := range p.ModFuncs() {
		eachInstr(fn, func(ins ssa.Instruction) {
			if st, ok := ins.(*ssa.Store); ok {
				if fv, _ := fieldOf(st.Addr); fv == f {
					out = append(out, st)
				}
			}
		})
	}
	return out
}

func newBoundsRun(c *Ctx, rule string, roots []*ssa.Function) *boundsRun {
	b := &boundsRun{c: c, P: c.P, A: NewAff(c.P), rule: rule, roots: roots, loadRep: map[string]ssa.Value{},
		stableField: map[*types.Var]bool{}, fieldNonNil: map[*types.Var]int{}, derefParams: map[*ssa.Function]map[int]bool{},
		requires: map[*ssa.Function]func(ssa.CallInstruction) []Con{}, stats: map[string]int{}, external: map[string]int{}}
	// call-backs from fmt etc.: methods String/Error/Format of module types that are boxed into interfaces
	all := append([]*ssa.Function{}, roots...)
	for iter := 0; iter < 4; iter++ {
		b.reach = c.P.ReachableModule(all)
		added := false
		for fn := range b.reach {
			eachInstr(fn, func(ins ssa.Instruction) {
				mi, ok := ins.(*ssa.MakeInterface)
				if !ok {
					return
				}
				t := mi.X.Type()
				ms := c.P.SSA.MethodSets.MethodSet(t)
				for _, name := range []string{"String", "Error", "Format", "GoString"} {
					if sel := ms.Lookup(nil, name); sel != nil {
						if m := c.P.SSA.MethodValue(sel); m != nil && c.P.InModule(m) && !b.reach[m] {
							all = append(all, m)
							added = true
						}
					}
				}
			})
		}
		if !added {
			break
		}
	}
	for fn := range b.reach {
		if fn.Synthetic != "" && !isInitFn(fn) {
			// wrappers/thunks: analysed through their targets
			continue
		}
		b.fns = append(b.fns, fn)
	}
	sort.Slice(b.fns, func(i, j int) bool { return c.P.FnKey(b.fns[i]) < c.P.FnKey(b.fns[j]) })
	b.A.Equate = b.equate
	return b
}

// equate: loads of the same field of the same base object within one function
// denote the same value when no reachable code stores to that field after
// construction ("stable field").
func (b *boundsRun) equate(v ssa.Value) ssa.Value {
	u, ok := v.(*ssa.UnOp)
	if !ok || u.Op != token.MUL {
		return v
	}
	if ia, ok := u.X.(*ssa.IndexAddr); ok {
		return b.equateElem(u, ia)
	}
	if fv, ok := u.X.(*ssa.FreeVar); ok {
		// loads of a captured variable inside a comparison callback of sort.Slice: the slice is not
		// reassigned while the callback runs (the callback itself does not store to it)
		if rep := b.sortLessSlice[fv]; rep != nil {
			return rep
		}
		return v
	}
	fa, ok := u.X.(*ssa.FieldAddr)
	if !ok {
		return v
	}
	if f, _ := fieldOf(fa); f != nil && !b.isStableField(f) {
		return b.forwardLoad(u, fa)
	}
	f, base := fieldOf(fa)
	if f == nil || !b.isStableField(f) {
		return v
	}
	rb := root(base)
	if _, isLoad := rb.(*ssa.UnOp); isLoad {
		rb = b.equate(rb)
	}
	key := fmt.Sprintf("%p|%p|%s", u.Parent(), rb, f.Name())
	if rep, ok := b.loadRep[key]; ok {
		return rep
	}
	// the object comes straight from a constructor that initialises f from one of its
	// parameters, and this function does not store to f itself: the load is that argument
	if call, ok := rb.(*ssa.Call); ok {
		if g := call.Call.StaticCallee(); g != nil && b.P.InModule(g) {
			if k, ok := ctorFieldParam(g, f); ok && k < len(call.Call.Args) {
				own := false
				eachInstr(u.Parent(), func(ins ssa.Instruction) {
					if st, ok := ins.(*ssa.Store); ok {
						if fv, _ := fieldOf(st.Addr); fv == f {
							own = true
						}
					}
				})
				if !own {
					rep := b.equate(call.Call.Args[k])
					b.loadRep[key] = rep
					return rep
				}
			}
		}
	}
	b.loadRep[key] = v
	return v
}

// ctorFieldParam: g returns (on every path) the same freshly allocated struct
// whose field f is stored exactly once, from parameter k, and the object is
// not handed to anything else inside g.
func ctorFieldParam(g *ssa.Function, f *types.Var) (int, bool) {
	var obj *ssa.Alloc
	for _, r := range returnsOf(g) {
		if len(r.Results) == 0 {
			return 0, false
		}
		a, ok := r.Results[0].(*ssa.Alloc)
		if !ok || (obj != nil && obj != a) {
			return 0, false
		}
		obj = a
	}
	if obj == nil {
		return 0, false
	}
	k, n := -1, 0
	for _, r := range referrers(obj) {
		switch x := r.(type) {
		case *ssa.Return, *ssa.DebugRef:
		case *ssa.FieldAddr:
			fv, _ := fieldOf(x)
			for _, rr := range referrers(x) {
				st, ok := rr.(*ssa.Store)
				if !ok || st.Addr != ssa.Value(x) {
					if _, isDbg := rr.(*ssa.DebugRef); isDbg {
						continue
					}
					if _, isLoad := rr.(*ssa.UnOp); isLoad {
						continue
					}
					return 0, false
				}
				if fv == f {
					n++
					if p, ok := st.Val.(*ssa.Parameter); ok {
						for i, q := range g.Params {
							if q == p {
								k = i
							}
						}
					}
				}
			}
		default:
			return 0, false
		}
	}
	if n != 1 || k < 0 {
		return 0, false
	}
	return k, true
}

// isStableField: every store to f in module code initialises a fresh object
// (store through a FieldAddr of a local Alloc in a constructor-like function,
// or in the function that just obtained the object from its constructor and
// has not yet published it).
func (b *boundsRun) isStableField(f *types.Var) bool {
	if v, ok := b.stableField[f]; ok {
		return v
	}
	stable := true
	for _, st := range b.P.fieldStores(f) {
		fn := st.Parent()
		if !b.reach[fn] {
			continue // writers outside the analysed region (tests excluded by load; apps not reachable) do not run
		}
		_, base := fieldOf(st.Addr)
		rb := root(base)
		switch x := rb.(type) {
		case *ssa.Alloc:
			_ = x // fresh local object
		case *ssa.Call:
			// object just returned by a module constructor in the same function
			if callee := x.Call.StaticCallee(); callee == nil || !b.P.InModule(callee) {
				stable = false
			}
		default:
			stable = false
		}
	}
	b.stableField[f] = stable
	return stable
}

func (b *boundsRun) ok(kind, key string, pos token.Pos, how string) {
	if b.kinds != nil && !b.kinds[kind] {
		return
	}
	b.stats[kind+":ok"]++
	b.c.OK(b.rule, key, pos, how)
}
func (b *boundsRun) trivial(kind, key string, pos token.Pos, how string) {
	if b.kinds != nil && !b.kinds[kind] {
		return
	}
	b.stats[kind+":trivial"]++
	b.c.Trivial(b.rule, key, pos, how)
}
func (b *boundsRun) fail(kind, key string, pos token.Pos, k, msg string) {
	if b.kinds != nil && !b.kinds[kind] {
		return
	}
	b.stats[kind+":open"]++
	b.c.Fail(b.rule, key, pos, k, msg)
}

func (b *boundsRun) fnName(fn *ssa.Function) string { return b.P.FnKey(fn) }

// ---- nil-ness ---------------------------------------------------------------------

// fieldAlwaysNonNil: all stores to pointer/interface field f store non-nil values.
func (b *boundsRun) fieldAlwaysNonNil(f *types.Var) bool {
	if v := b.fieldNonNil[f]; v != 0 {
		return v == 1
	}
	b.fieldNonNil[f] = 2
	stores := b.P.fieldStores(f)
	if len(stores) == 0 {
		return false
	}
	for _, st := range stores {
		v := st.Val
		if mi, ok := v.(*ssa.MakeInterface); ok {
			// interface holding a non-nil pointer or a non-pointer value
			if _, isPtr := mi.X.Type().Underlying().(*types.Pointer); !isPtr {
				continue
			}
			v = mi.X
		}
		if !b.valueNonNil(v, st.Block(), 0) {
			return false
		}
	}
	b.fieldNonNil[f] = 1
	return true
}

// valueNonNil: pointer (or interface) value v is non-nil at block blk.
func (b *boundsRun) valueNonNil(v ssa.Value, blk *ssa.BasicBlock, depth int) bool {
	if depth > 6 {
		return false
	}
	if b.A.nonNil(v, blk) {
		return true
	}
	switch x := v.(type) {
	case *ssa.Parameter:
		// lifted: every module call site passes a non-nil value; roots are an assumption
		return b.paramNonNil(x, depth)
	case *ssa.FreeVar:
		return true // captured variables are addresses of locals
	case *ssa.UnOp:
		if x.Op == token.MUL {
			if f, _ := loadedField(x); f != nil {
				return b.fieldAlwaysNonNil(f)
			}
			// load from a local holding a pointer: all stores non-nil
			if al, ok := x.X.(*ssa.Alloc); ok {
				n := 0
				for _, r := range referrers(al) {
					if st, ok := r.(*ssa.Store); ok && st.Addr == ssa.Value(al) {
						n++
						if !b.valueNonNil(st.Val, st.Block(), depth+1) {
							return false
						}
					}
				}
				return n > 0
			}
		}
	case *ssa.MakeInterface:
		if _, isPtr := x.X.Type().Underlying().(*types.Pointer); !isPtr {
			return true
		}
		return b.valueNonNil(x.X, blk, depth+1)
	case *ssa.Extract:
		// comma-ok type assertion to a pointer type that succeeded
		if ta, ok := x.Tuple.(*ssa.TypeAssert); ok && ta.CommaOk && x.Index == 0 {
			okv := ssa.Value(nil)
			for _, r := range referrers(ta) {
				if ex, ok := r.(*ssa.Extract); ok && ex.Index == 1 {
					okv = ex
				}
			}
			succeeded := false
			for _, f := range dominatingFacts(blk) {
				if f.Cond == okv && f.Val {
					succeeded = true
				}
			}
			if succeeded {
				if fld, _ := loadedField(ta.X); fld != nil && b.fieldAlwaysNonNil(fld) {
					return true
				}
			}
		}
	case *ssa.Phi:
		for _, e := range x.Edges {
			if !b.valueNonNil(e, blk, depth+1) {
				return false
			}
		}
		return true
	case *ssa.Slice, *ssa.MakeSlice:
		return true
	}
	return false
}

var paramNonNilMemo = map[*ssa.Parameter]int{}

func (b *boundsRun) paramNonNil(p *ssa.Parameter, depth int) bool {
	if v, ok := paramNonNilMemo[p]; ok {
		return v == 1
	}
	paramNonNilMemo[p] = 1 // optimistic for recursion
	fn := p.Parent()
	idx := -1
	for i, q := range fn.Params {
		if q == p {
			idx = i
		}
	}
	for _, r := range b.roots {
		if r == fn {
			// documented API precondition: receivers and pointer arguments of the entry points are non-nil
			return true
		}
	}
	sites := b.P.Callers(fn)
	n := 0
	for _, site := range sites {
		caller := site.Parent()
		if !b.reach[caller] {
			continue
		}
		n++
		args := site.Common().Args
		if site.Common().IsInvoke() {
			// receiver is Value
			if idx == 0 {
				if !b.valueNonNil(site.Common().Value, site.Block(), depth+1) {
					paramNonNilMemo[p] = 2
					return false
				}
				continue
			}
			args = append([]ssa.Value{site.Common().Value}, args...)
		}
		if idx >= len(args) || !b.valueNonNil(args[idx], site.Block(), depth+1) {
			paramNonNilMemo[p] = 2
			return false
		}
	}
	if n == 0 {
		// reached only as a call-back (String methods via fmt): receiver is the boxed value
		return true
	}
	return true
}

// ---- loops ---------------------------------------------------------------------------

func (b *boundsRun) loopHeaders(fn *ssa.Function) []*ssa.BasicBlock {
	var out []*ssa.BasicBlock
	for _, h := range fn.Blocks {
		for _, p := range h.Preds {
			if h.Dominates(p) {
				out = append(out, h)
				break
			}
		}
	}
	return out
}

// loopBody: blocks of the natural loop of header h.
func loopBody(h *ssa.BasicBlock) map[*ssa.BasicBlock]bool {
	body := map[*ssa.BasicBlock]bool{h: true}
	var work []*ssa.BasicBlock
	for _, p := range h.Preds {
		if h.Dominates(p) {
			work = append(work, p)
		}
	}
	for len(work) > 0 {
		x := work[len(work)-1]
		work = work[:len(work)-1]
		if body[x] {
			continue
		}
		body[x] = true
		work = append(work, x.Preds...)
	}
	return body
}

func (b *boundsRun) consumesInput(ins ssa.Instruction, depth int) bool {
	if u, ok := ins.(*ssa.UnOp); ok && u.Op == token.ARROW {
		return true
	}
	if _, ok := ins.(*ssa.Next); ok {
		return true
	}
	if depth > 3 {
		return false
	}
	if ci, ok := ins.(ssa.CallInstruction); ok {
		if f := ci.Common().StaticCallee(); f != nil && b.P.InModule(f) && f.Blocks != nil {
			// callee receives on every path to a nil-error/any return?  We require: a receive
			// (or deeper consuming call) dominates every return of the callee.
			for _, r := range returnsOf(f) {
				found := false
				eachInstr(f, func(i2 ssa.Instruction) {
					if i2 != ins && b.consumesInput(i2, depth+1) && instrDominatesT(i2, r) {
						found = true
					}
				})
				if !found {
					// a return that consumed nothing: acceptable only if it is the buffered (push-back) branch
					// which is bounded by the number of pushed-back bytes (one per fetch)
					if f.Name() == "GetNextByte" {
						continue
					}
					return false
				}
			}
			return true
		}
	}
	return false
}

func (b *boundsRun) checkLoop(fn *ssa.Function, h *ssa.BasicBlock, n int) {
	key := fmt.Sprintf("%s:loop#%d:terminates", b.fnName(fn), n)
	pos := token.NoPos
	for _, ins := range h.Instrs {
		if ins.Pos().IsValid() {
			pos = ins.Pos()
			break
		}
	}
	body := loopBody(h)
	// (a) range over map / string iterator
	for blk := range body {
		for _, ins := range blk.Instrs {
			if _, ok := ins.(*ssa.Next); ok {
				b.trivial("loop", key, pos, "range over a map/string iterator")
				return
			}
		}
	}
	// (b) counted: some exit test in the loop compares a phi advancing by a non-zero constant with a loop-invariant bound
	for blk := range body {
		ifi, ok := lastInstr(blk).(*ssa.If)
		if !ok {
			continue
		}
		exits := false
		for _, s := range blk.Succs {
			if !body[s] {
				exits = true
			}
		}
		if !exits {
			continue
		}
		cmp, ok := ifi.Cond.(*ssa.BinOp)
		if !ok || !isInteger(cmp.X.Type()) {
			continue
		}
		stay := blk.Succs[0]
		stayOnTrue := body[stay]
		if b.countedExit(cmp, h, body, stayOnTrue) {
			// the test must be passed on every iteration: its block dominates all back edges
			domAll := true
			for _, p := range h.Preds {
				if h.Dominates(p) && !blk.Dominates(p) && blk != h {
					domAll = false
				}
			}
			if domAll {
				if strings.Contains(h.Comment, "rangeindex") {
					b.trivial("loop", key, pos, "range loop over a slice")
				} else {
					b.ok("loop", key, pos, "counted loop: "+cmp.String()+" with a constant step towards a loop-invariant bound")
				}
				return
			}
		}
	}
	// (c) input consuming: every cycle passes a receive or a call that always consumes input
	consuming := false
	for blk := range body {
		for _, ins := range blk.Instrs {
			if b.consumesInput(ins, 0) {
				dom := true
				for _, p := range h.Preds {
					if h.Dominates(p) && !ins.Block().Dominates(p) {
						dom = false
					}
				}
				if dom {
					consuming = true
				}
			}
		}
	}
	if consuming {
		b.ok("loop", key, pos, "input-consuming loop: every iteration passes a channel receive (or a call that receives on all its paths); terminates when the finite input is exhausted and the channel closed")
		return
	}
	b.fail("loop", key, pos, "unproven", "no termination certificate for this loop (not a range/counted loop, not input consuming)")
}

// countedExit: cmp tests phi (+const) against a loop-invariant bound and the phi moves towards the exit.
func (b *boundsRun) countedExit(cmp *ssa.BinOp, h *ssa.BasicBlock, body map[*ssa.BasicBlock]bool, stayOnTrue bool) bool {
	step := func(v ssa.Value) (int64, bool) {
		// v is phi or phi+const defined at the header
		base := v
		if bo, ok := v.(*ssa.BinOp); ok && (bo.Op == token.ADD || bo.Op == token.SUB) {
			if _, isC := constInt(bo.Y); isC {
				base = bo.X
			}
		}
		phi, ok := base.(*ssa.Phi)
		if !ok || phi.Block() != h {
			return 0, false
		}
		var st int64
		n := 0
		for i, e := range phi.Edges {
			if !h.Dominates(h.Preds[i]) {
				continue
			}
			d := b.A.Lin(e).Sub(LinSym(b.A.sym(phi)))
			k, isC := d.IsConst()
			if !isC || (n > 0 && k != st) {
				return 0, false
			}
			st = k
			n++
		}
		return st, n > 0
	}
	var invariant func(v ssa.Value, d int) bool
	invariant = func(v ssa.Value, d int) bool {
		if _, ok := v.(*ssa.Const); ok {
			return true
		}
		ins, ok := v.(ssa.Instruction)
		if !ok {
			return true // parameters
		}
		if !body[ins.Block()] {
			return true
		}
		if d > 4 {
			return false
		}
		// recomputed in the loop from invariant operands by a pure operator
		switch x := v.(type) {
		case *ssa.BinOp:
			return invariant(x.X, d+1) && invariant(x.Y, d+1)
		case *ssa.Convert:
			return invariant(x.X, d+1)
		case *ssa.Call:
			if bi, ok := x.Call.Value.(*ssa.Builtin); ok && bi.Name() == "len" {
				return invariant(x.Call.Args[0], d+1)
			}
		}
		return false
	}
	op := cmp.Op
	x, y := cmp.X, cmp.Y
	if sx, ok := step(x); ok && invariant(y, 0) {
		if !stayOnTrue {
			op = negateCmp(op)
		}
		switch op {
		case token.LSS, token.LEQ, token.NEQ:
			return sx > 0
		case token.GTR, token.GEQ:
			return sx < 0
		}
	}
	if sy, ok := step(y); ok && invariant(x, 0) {
		if !stayOnTrue {
			op = negateCmp(op)
		}
		switch op {
		case token.GTR, token.GEQ, token.NEQ:
			return sy > 0
		case token.LSS, token.LEQ:
			return sy < 0
		}
	}
	return false
}

func negateCmp(op token.Token) token.Token {
	switch op {
	case token.LSS:
		return token.GEQ
	case token.LEQ:
		return token.GTR
	case token.GTR:
		return token.LEQ
	case token.GEQ:
		return token.LSS
	case token.EQL:
		return token.NEQ
	case token.NEQ:
		return token.EQL
	}
	return op
}

// ---- main pass ------------------------------------------------------------------------

// installSortContracts: for every `sort.Slice(s, func(i, j int) bool {...})` whose callback captures exactly the
// variable that holds s and does not store to it, assume 0 <= i, j < len(s) at the callback's entry.
func (b *boundsRun) installSortContracts() {
	b.sortLessSlice = map[*ssa.FreeVar]ssa.Value{}
	for _, fn := range b.fns {
		eachInstr(fn, func(ins ssa.Instruction) {
			call, ok := ins.(*ssa.Call)
			if !ok || len(call.Call.Args) != 2 {
				return
			}
			f := call.Call.StaticCallee()
			if f == nil || (calleeFullName(f) != "sort.Slice" && calleeFullName(f) != "sort.SliceStable") {
				return
			}
			mc, ok := call.Call.Args[1].(*ssa.MakeClosure)
			if !ok {
				return
			}
			less, ok := mc.Fn.(*ssa.Function)
			if !ok || len(less.Params) != 2 {
				return
			}
			a0 := call.Call.Args[0]
			if mi, ok := a0.(*ssa.MakeInterface); ok {
				a0 = mi.X
			}
			ld, ok := a0.(*ssa.UnOp)
			if !ok || ld.Op != token.MUL {
				return
			}
			for k, bnd := range mc.Bindings {
				if bnd != ld.X || k >= len(less.FreeVars) {
					continue
				}
				fv := less.FreeVars[k]
				stored := false
				var rep ssa.Value
				eachInstr(less, func(i2 ssa.Instruction) {
					if st, ok := i2.(*ssa.Store); ok && st.Addr == ssa.Value(fv) {
						stored = true
					}
					if u, ok := i2.(*ssa.UnOp); ok && u.Op == token.MUL && u.X == ssa.Value(fv) && rep == nil {
						rep = u
					}
				})
				if stored || rep == nil {
					continue
				}
				b.sortLessSlice[fv] = rep
				for _, p := range less.Params {
					b.A.Assume[less] = append(b.A.Assume[less], GE(b.A.Lin(p), LinConst(0)), LT(b.A.Lin(p), b.A.LenOf(rep)))
				}
				b.c.Lemmas = append(b.c.Lemmas, "sort.Slice contract: the comparison callback "+b.P.FnKey(less)+" is called with 0 <= i, j < len(slice) (assumed at its entry)")
			}
		})
	}
}

func (b *boundsRun) run() {
	b.installRequires()
	b.installSortContracts()
	b.recursionCheck()
	for _, fn := range b.fns {
		if fn.Blocks == nil || (b.fnOK != nil && !b.fnOK(fn)) {
			continue
		}
		name := b.fnName(fn)
		for n, h := range b.loopHeaders(fn) {
			b.checkLoop(fn, h, n+1)
		}
		counter := map[string]int{}
		mk := func(kind, detail string) string {
			k := fmt.Sprintf("%s:%s(%s)", name, kind, detail)
			counter[k]++
			if counter[k] > 1 {
				k = fmt.Sprintf("%s#%d", k, counter[k])
			}
			return k
		}
		eachInstr(fn, func(ins ssa.Instruction) {
			if blockDead(ins.Block()) {
				return // under a branch on a constant condition taken the impossible way: never executed
			}
			switch x := ins.(type) {
			case *ssa.IndexAddr:
				b.checkIndex(fn, x, x.X, x.Index, mk)
			case *ssa.Index:
				b.checkIndex(fn, x, x.X, x.Index, mk)
			case *ssa.Slice:
				b.checkSlice(fn, x, mk)
			case *ssa.BinOp:
				switch x.Op {
				case token.QUO, token.REM:
					if isInteger(x.Type()) {
						if k, isC := constInt(x.Y); isC && k != 0 {
							b.trivial("div", mk("div", "const"), x.Pos(), "constant non-zero divisor")
						} else {
							ly := b.A.Lin(x.Y)
							if b.A.Prove(x.Block(), GE(ly, LinConst(1))) || b.A.Prove(x.Block(), LE(ly, LinConst(-1))) {
								b.ok("div", mk("div", x.Y.Name()), x.Pos(), "divisor proved non-zero")
							} else {
								b.fail("div", mk("div", x.Y.Name()), x.Pos(), "unproven", "integer division by a value not proved non-zero")
							}
						}
					}
				case token.SHL, token.SHR:
					if !isUnsigned(x.Y.Type()) {
						if k, isC := constInt(x.Y); isC && k >= 0 {
							b.trivial("shift", mk("shift", "const"), x.Pos(), "constant non-negative shift count")
						} else if b.A.Prove(x.Block(), GE(b.A.Lin(x.Y), LinConst(0))) {
							b.ok("shift", mk("shift", x.Y.Name()), x.Pos(), "signed shift count proved non-negative")
						} else if b.hdr != nil && b.hdr.shiftOK(x) {
							b.ok("shift", mk("shift", x.Y.Name()), x.Pos(), "lemma L-cells-shift")
						} else {
							b.fail("shift", mk("shift", x.Y.Name()), x.Pos(), "unproven", "signed shift count not proved non-negative (a negative count panics)")
						}
					}
				}
			case *ssa.FieldAddr:
				b.checkDeref(fn, x, x.X, mk)
			case *ssa.UnOp:
				if x.Op == token.MUL {
					switch x.X.(type) {
					case *ssa.FieldAddr, *ssa.IndexAddr, *ssa.Alloc, *ssa.Global, *ssa.FreeVar:
						// address computed from a checked base / always valid
					default:
						b.checkDeref(fn, x, x.X, mk)
					}
				}
			case *ssa.Store:
				switch x.Addr.(type) {
				case *ssa.FieldAddr, *ssa.IndexAddr, *ssa.Alloc, *ssa.Global, *ssa.FreeVar:
				default:
					b.checkDeref(fn, x, x.Addr, mk)
				}
			case *ssa.TypeAssert:
				if !x.CommaOk {
					b.fail("assert", mk("type-assert", x.AssertedType.String()), x.Pos(), "unproven", "type assertion without comma-ok can panic")
				} else {
					b.trivial("assert", mk("type-assert", "comma-ok"), x.Pos(), "comma-ok form cannot panic")
				}
			case *ssa.MakeSlice:
				if b.A.Prove(x.Block(), GE(b.A.Lin(x.Len), LinConst(0))) {
					b.ok("make", mk("make", "len"), x.Pos(), "length proved non-negative")
				} else {
					b.fail("make", mk("make", "len"), x.Pos(), "unproven", "make with a length not proved non-negative")
				}
			case *ssa.MapUpdate:
				if _, ok := x.Map.(*ssa.MakeMap); ok {
					b.trivial("map", mk("map-update", "fresh"), x.Pos(), "update of a freshly made map")
				} else if g := loadOfGlobal(x.Map); g != nil && isInitFn(fn) {
					b.trivial("map", mk("map-update", g.Name()), x.Pos(), "init-time table construction")
				} else {
					b.fail("map", mk("map-update", x.Map.Name()), x.Pos(), "unproven", "map update on a map not known to be non-nil")
				}
			case *ssa.Panic:
				b.fail("panic", mk("panic", "explicit"), x.Pos(), "refuted", "explicit panic reachable from the decode/display entry points")
			case *ssa.Go:
				b.fail("go", mk("go", "stmt"), x.Pos(), "unproven", "goroutine started in decode/display code")
			case *ssa.Send:
				// send on the output parameter: blocks only while the consumer is absent (API contract)
				b.trivial("chan", mk("send", "out"), x.Pos(), "send on the caller-supplied output channel")
			case ssa.CallInstruction:
				b.checkCall(fn, x, mk)
			}
		})
	}
}

func (b *boundsRun) recursionCheck() {
	// Tarjan-free: DFS for a cycle in the static call graph restricted to reach
	state := map[*ssa.Function]int{}
	var cyc []string
	var dfs func(f *ssa.Function)
	dfs = func(f *ssa.Function) {
		state[f] = 1
		eachInstr(f, func(ins ssa.Instruction) {
			ci, ok := ins.(ssa.CallInstruction)
			if !ok {
				return
			}
			for _, t := range b.P.targets(ci) {
				if !b.reach[t] {
					continue
				}
				switch state[t] {
				case 0:
					dfs(t)
				case 1:
					cyc = append(cyc, b.fnName(f)+" -> "+b.fnName(t))
				}
			}
		})
		state[f] = 2
	}
	for _, f := range b.fns {
		if state[f] == 0 {
			dfs(f)
		}
	}
	if len(cyc) == 0 {
		b.ok("rec", "call-graph:acyclic", token.NoPos, fmt.Sprintf("no recursion among the %d reachable functions", len(b.fns)))
	} else {
		b.fail("rec", "call-graph:acyclic", token.NoPos, "unproven", "recursion without a termination argument: "+strings.Join(cyc, "; "))
	}
}

func (b *boundsRun) checkIndex(fn *ssa.Function, ins ssa.Instruction, x, idx ssa.Value, mk func(string, string) string) {
	pos := ins.Pos()
	// length of the indexed object
	var ln *Lin
	switch t := x.Type().Underlying().(type) {
	case *types.Pointer:
		if arr, ok := t.Elem().Underlying().(*types.Array); ok {
			ln = LinConst(arr.Len())
		}
	case *types.Array:
		ln = LinConst(t.Len())
	}
	if ln == nil {
		ln = b.A.LenOf(x)
	}
	li := b.A.Lin(idx)
	if k, isC := li.IsConst(); isC {
		if n, isN := ln.IsConst(); isN && k >= 0 && k < n {
			b.trivial("index", mk("index", "const"), pos, "constant index into a fixed-size array")
			return
		}
	}
	lo := b.A.Prove(ins.Block(), GE(li, LinConst(0)))
	hi := b.A.Prove(ins.Block(), LT(li, ln))
	desc := fmt.Sprintf("%s[%s]", x.Name(), li.String())
	if lo && hi {
		if strings.Contains(idxComment(idx), "rangeindex") {
			b.trivial("index", mk("index", desc), pos, "range index of the same slice")
		} else {
			b.ok("index", mk("index", desc), pos, "0 <= "+li.String()+" < "+ln.String()+" entailed by dominating facts and loop invariants")
		}
		return
	}
	b.fail("index", mk("index", desc), pos, "unproven", fmt.Sprintf("index %s not proved within [0, %s) (lower bound %v, upper bound %v)", li.String(), ln.String(), lo, hi))
}

func idxComment(v ssa.Value) string {
	if bo, ok := v.(*ssa.BinOp); ok {
		if phi, ok := bo.X.(*ssa.Phi); ok {
			return phi.Comment
		}
	}
	return ""
}

func (b *boundsRun) checkSlice(fn *ssa.Function, s *ssa.Slice, mk func(string, string) string) {
	var capLin *Lin
	switch t := s.X.Type().Underlying().(type) {
	case *types.Pointer:
		if arr, ok := t.Elem().Underlying().(*types.Array); ok {
			capLin = LinConst(arr.Len())
		}
	}
	if capLin == nil {
		capLin = b.A.LenOf(s.X) // len <= cap: proving against len is sufficient
	}
	lo := LinConst(0)
	if s.Low != nil {
		lo = b.A.Lin(s.Low)
	}
	hi := capLin
	if s.High != nil {
		hi = b.A.Lin(s.High)
	}
	if s.Low == nil && s.High == nil {
		b.trivial("slice", mk("slice", "whole"), s.Pos(), "whole-object slice")
		return
	}
	ok1 := b.A.Prove(s.Block(), GE(lo, LinConst(0)))
	ok2 := b.A.Prove(s.Block(), LE(lo, hi))
	ok3 := b.A.Prove(s.Block(), LE(hi, capLin))
	desc := fmt.Sprintf("%s[%s:%s]", s.X.Name(), lo.String(), hi.String())
	if ok1 && ok2 && ok3 {
		b.ok("slice", mk("slice", desc), s.Pos(), "0 <= low <= high <= len entailed")
		return
	}
	b.fail("slice", mk("slice", desc), s.Pos(), "unproven", fmt.Sprintf("slice bounds not proved: 0<=low %v, low<=high %v, high<=len(%s) %v", ok1, ok2, capLin.String(), ok3))
}

func (b *boundsRun) checkDeref(fn *ssa.Function, ins ssa.Instruction, ptr ssa.Value, mk func(string, string) string) {
	if _, isPtr := ptr.Type().Underlying().(*types.Pointer); !isPtr {
		return
	}
	switch ptr.(type) {
	case *ssa.Alloc, *ssa.FieldAddr, *ssa.IndexAddr, *ssa.Global:
		b.stats["deref:trivial"]++
		return // counted, not listed individually (address-of forms)
	}
	desc := ptr.Name()
	if p, ok := ptr.(*ssa.Parameter); ok {
		desc = "param " + p.Name()
	}
	// L-done: the fetcher's message in the stream handler, off the "done" edge
	if b.ldone != nil && fn == b.ldone.stream {
		if ex, ok := ptr.(*ssa.Extract); ok && ex.Index == 0 {
			if call, ok := ex.Tuple.(*ssa.Call); ok && call.Call.StaticCallee() == b.ldone.fetch {
				// the "done" edge of the test on this call's error never reaches the dereference
				offDone := false
				eachInstr(fn, func(i2 ssa.Instruction) {
					ifi, ok := i2.(*ssa.If)
					if !ok || !isErrorTextEquals(ifi.Cond, "done") {
						return
					}
					q := pathQuery{goal: func(i ssa.Instruction) bool { return i == ins }}
					if path, _ := q.search(ifi.Block().Succs[0], -1); path == nil {
						offDone = true
					}
				})
				if offDone {
					b.ok("deref", mk("deref", "fetched message"), ins.Pos(), "lemma L-done: the \"done\" edge never reaches the dereference; otherwise the fetched message is non-nil")
					return
				}
			}
		}
	}
	if b.valueNonNil(ptr, ins.Block(), 0) {
		b.stats["deref:ok"]++
		// one aggregated obligation per (function, pointer) to keep the evidence readable
		k := fmt.Sprintf("%s:deref(%s)", b.fnName(fn), desc)
		if !b.c.seenKeys[key(b.rule, k)] {
			b.c.OK(b.rule, k, ins.Pos(), "pointer proved non-nil (constructor result, address-of, checked error, lifted to call sites, or field invariant)")
		}
		return
	}
	b.fail("deref", mk("deref", desc), ins.Pos(), "unproven", "dereference of a pointer not proved non-nil")
}

func (b *boundsRun) checkCall(fn *ssa.Function, ci ssa.CallInstruction, mk func(string, string) string) {
	cc := ci.Common()
	pos := ci.Pos()
	if bi, ok := cc.Value.(*ssa.Builtin); ok {
		switch bi.Name() {
		case "close":
			b.trivial("chan", mk("close", "out"), pos, "close of the output channel (once: C02-R5/C09-R1)")
		case "panic":
			b.fail("panic", mk("panic", "builtin"), pos, "refuted", "explicit panic")
		}
		return
	}
	if cc.IsInvoke() {
		// interface method call: receiver must be non-nil; targets inside the module are analysed
		name := cc.Method.Name()
		if b.valueNonNil(cc.Value, ci.Block(), 0) || b.ifaceNonNilByFact(cc.Value, ci.Block()) {
			b.ok("invoke", mk("invoke", name), pos, "interface receiver proved non-nil")
		} else {
			b.fail("invoke", mk("invoke", name), pos, "unproven", "method call on an interface value not proved non-nil")
		}
		if isErrorType(cc.Value.Type()) && name == "Error" {
			return
		}
		for _, t := range b.P.Callees(ci) {
			if !b.P.InModule(t) {
				full := calleeFullName(t)
				if _, ok := noPanicAllow[full]; !ok {
					b.external[full]++
				}
			}
		}
		return
	}
	callee := cc.StaticCallee()
	if callee == nil {
		if _, isClosure := cc.Value.(*ssa.MakeClosure); isClosure {
			return
		}
		b.fail("call", mk("dynamic-call", cc.Value.Name()), pos, "unproven", "call through a function value")
		return
	}
	if b.P.InModule(callee) {
		if req, ok := b.requires[callee]; ok {
			for i, goal := range req(ci) {
				if b.A.Prove(ci.Block(), goal) {
					b.ok("requires", mk("requires", fmt.Sprintf("%s#%d", callee.Name(), i+1)), pos, "callee precondition "+goal.String()+" entailed at the call site")
				} else {
					if os.Getenv("VERIF_DEBUG_FACTS") != "" {
						fmt.Println("FACTS at", b.P.Pos(pos), "goal", goal.String())
						for _, f := range b.A.FactsAt(ci.Block()) {
							fmt.Println("    ", f.String())
						}
					}
					b.fail("requires", mk("requires", fmt.Sprintf("%s#%d", callee.Name(), i+1)), pos, "unproven",
						"precondition of "+callee.Name()+" not established: "+goal.String()+" (read or access beyond the end of the buffer is possible)")
				}
			}
		}
		return
	}
	full := calleeFullName(callee)
	if (full == "sort.Slice" || full == "sort.SliceStable") && len(cc.Args) == 2 {
		// sort.Slice(x, less) panics only if x is not a slice; less is called with 0 <= i, j < len(x).
		// When less is a function literal over the captured variable that holds x, its index
		// obligations are discharged under that contract (installed before the functions are walked).
		a0 := cc.Args[0]
		if mi, ok := a0.(*ssa.MakeInterface); ok {
			a0 = mi.X
		}
		if _, isSlice := a0.Type().Underlying().(*types.Slice); isSlice {
			b.external[full]++
			b.ok("requires", mk("requires", "sort.Slice(slice)"), pos, "the first argument is a slice")
		} else {
			b.fail("requires", mk("requires", "sort.Slice(slice)"), pos, "unproven", "sort.Slice panics unless its first argument is a slice")
		}
		return
	}
	if full == "(*strings.Builder).Grow" && len(cc.Args) == 2 {
		// panics for a negative count only
		if b.A.Prove(ci.Block(), GE(b.A.Lin(cc.Args[1]), LinConst(0))) {
			b.external[full]++
			b.ok("requires", mk("requires", "Builder.Grow(n>=0)"), pos, "the capacity hint is proved non-negative")
		} else {
			b.fail("requires", mk("requires", "Builder.Grow(n>=0)"), pos, "unproven", "strings.Builder.Grow panics for a negative count; the argument is not proved non-negative")
		}
		return
	}
	if why, ok := noPanicAllow[full]; ok {
		b.external[full]++
		b.stats["external:allowed"]++
		_ = why
		return
	}
	if pkgNoPanic(callee, full) {
		b.external[full]++
		b.stats["external:allowed-by-package"]++
		return
	}
	if full == "log.Fatal" || full == "log.Fatalf" || full == "os.Exit" || strings.HasPrefix(full, "log.Panic") {
		b.fail("exit", mk("exit", full), pos, "refuted", "process termination reachable from decode/display code")
		return
	}
	b.fail("external", mk("external", full), pos, "unproven", "call leaves the module to a function that is not on the reviewed no-panic list: "+full)
}

func (b *boundsRun) ifaceNonNilByFact(v ssa.Value, blk *ssa.BasicBlock) bool {
	for _, f := range dominatingFacts(blk) {
		if bo, ok := f.Cond.(*ssa.BinOp); ok && (bo.Op == token.NEQ || bo.Op == token.EQL) {
			x, y := bo.X, bo.Y
			if isNilConst(x) {
				x, y = y, x
			}
			if isNilConst(y) && x == v && (bo.Op == token.NEQ) == f.Val {
				return true
			}
		}
	}
	return false
}

// installRequires: verified preconditions of the bit readers (lemma L-bitread).
func (b *boundsRun) installRequires() {
	P := b.P
	for _, name := range []string{"GetBitsAsUint64", "GetBitsAsInt64"} {
		f := P.Func("rtcm/utils", name)
		if f == nil {
			b.c.Unresolved(b.rule, "rtcm/utils."+name)
			continue
		}
		fn := f
		// assume at entry: pos + len <= 8*len(buff) (and len >= 1 for the signed reader)
		buf, pos, ln := fn.Params[0], fn.Params[1], fn.Params[2]
		asm := []Con{LE(b.A.Lin(pos).Add(b.A.Lin(ln)), b.A.LenOf(buf).Scale(8))}
		if name == "GetBitsAsInt64" {
			asm = append(asm, GE(b.A.Lin(ln), LinConst(1)))
		}
		b.A.Assume[fn] = asm
		signed := name == "GetBitsAsInt64"
		b.requires[fn] = func(ci ssa.CallInstruction) []Con {
			a := ci.Common().Args
			goals := []Con{LE(b.A.Lin(a[1]).Add(b.A.Lin(a[2])), b.A.LenOf(a[0]).Scale(8))}
			if signed {
				goals = append(goals, GE(b.A.Lin(a[2]), LinConst(1)))
			}
			return goals
		}
	}
	b.c.Lemmas = append(b.c.Lemmas, "L-bitread: GetBitsAsUint64/Int64(buff,pos,len) are safe when pos+len <= 8*len(buff) (len>=1 for the signed reader): assumed at their entry, under which their own index obligations are discharged, and proved at every call site")
}

// equateElem: two loads of X[i] (same slice value after equate, same index
// value) in one function denote the same value when the function stores to
// no element of X.
func (b *boundsRun) equateElem(u *ssa.UnOp, ia *ssa.IndexAddr) ssa.Value {
	if _, isSlice := ia.X.Type().Underlying().(*types.Slice); !isSlice {
		return u
	}
	x := b.equate(ia.X)
	fn := u.Parent()
	stored := false
	eachInstr(fn, func(ins ssa.Instruction) {
		if st, ok := ins.(*ssa.Store); ok {
			if ia2, ok := st.Addr.(*ssa.IndexAddr); ok && b.equate(ia2.X) == x {
				stored = true
			}
		}
		// append into an element of x through another alias is not possible without such a store
	})
	if stored {
		return u
	}
	key := fmt.Sprintf("elem|%p|%p|%p", fn, x, ia.Index)
	if rep, ok := b.loadRep[key]; ok {
		return rep
	}
	b.loadRep[key] = u
	return u
}

// forwardLoad: a load of base.f equals an earlier load of the same field of
// the same object when no store to f and no call lies between them.
func (b *boundsRun) forwardLoad(u *ssa.UnOp, fa *ssa.FieldAddr) ssa.Value {
	f, base := fieldOf(fa)
	rb := root(base)
	fn := u.Parent()
	var best ssa.Value = u
	eachInstr(fn, func(ins ssa.Instruction) {
		l1, ok := ins.(*ssa.UnOp)
		if !ok || l1 == u || l1.Op != token.MUL {
			return
		}
		fa1, ok := l1.X.(*ssa.FieldAddr)
		if !ok {
			return
		}
		f1, base1 := fieldOf(fa1)
		if f1 != f || root(base1) != rb || !instrDominates(l1, u) {
			return
		}
		// anything that may change the field between l1 and u?
		q := pathQuery{
			avoid: func(i ssa.Instruction) bool { return i == ssa.Instruction(u) },
			goal: func(i ssa.Instruction) bool {
				bad := false
				switch x := i.(type) {
				case *ssa.Store:
					if fv, _ := fieldOf(x.Addr); fv == f {
						bad = true
					}
					if _, isFA := x.Addr.(*ssa.FieldAddr); !isFA {
						if _, isAl := x.Addr.(*ssa.Alloc); !isAl {
							if _, isIA := x.Addr.(*ssa.IndexAddr); !isIA {
								bad = true // store through an unknown pointer
							}
						}
					}
				case ssa.CallInstruction:
					if _, isB := x.Common().Value.(*ssa.Builtin); !isB {
						bad = true
					}
				}
				// only what lies on a path that goes on to the later load matters
				return bad && pathBetween(i, u)
			}}
		if path, _ := q.search(l1.Block(), instrIndex(l1)); path == nil {
			// choose the earliest such load as representative
			if rep := b.forwardLoad(l1, fa1); rep != nil {
				best = rep
			}
		}
	})
	return best
}
