package main

// C17 — any start time within the week of the first observation gives
// correct times: non-interference of the start time modulo the week quantiser.

import (
	"fmt"
	"go/token"
	"go/types"
	"strings"

	"golang.org/x/tools/go/ssa"
)

func isTimeTime(t types.Type) bool {
	n, ok := t.(*types.Named)
	return ok && n.Obj().Pkg() != nil && n.Obj().Pkg().Path() == "time" && n.Obj().Name() == "Time"
}

func checkC17(c *Ctx) {
	c.Explanation = "Decides a non-interference statement: the only way the handler's start time may influence the state that the time computation reads is through the week quantiser (the function that maps an instant to 00:00:00 UTC of the Sunday on or before it).  Source = the startTime parameter of handler.New; sanitiser = results of the quantiser; sinks = every Handler field stored by New.  Any flow from the source to a sink that bypasses the quantiser makes the reported times depend on where in the week the start time lies and is reported.  Also checks that the quantiser really truncates to midnight UTC of a Sunday (time.Date(...,0,0,0,0,UTC) after a loop that stops on Weekday()==Sunday) and that all four start-of-week fields are derived from it.  (R4) every successful Glonass result is the stored start of week plus the day and millisecond offsets of the timestamp: no special case re-bases a time on the handler's initial day state. (R6) from handler.New back to the entry points every caller hands on its own start-time parameter (or time.Now()) unchanged. (R7) no use of the machine's clock reachable from New or the decoder. (R8) inside New the quantiser's argument is the start time itself after zone conversions and a shift by an amount independent of it: no Round/Truncate/AddDate on the way."
	c.NotDecided = "that two instants of the same constellation week always quantise to the same Sunday once the leap-second shift is applied (calendar arithmetic; exercised by TestGetLastSundayUTC); the conversion arithmetic itself (C06)."
	P := c.P
	newFn := P.Func("rtcm/handler", "New")
	H := P.Named("rtcm/handler", "Handler")
	if newFn == nil || H == nil {
		c.Unresolved("C17-anchor", "rtcm/handler.New / Handler")
		return
	}
	var startParam *ssa.Parameter
	for _, p := range newFn.Params {
		if isTimeTime(p.Type()) {
			startParam = p
		}
	}
	if startParam == nil {
		c.Unresolved("C17-anchor", "time.Time parameter of handler.New")
		return
	}
	// quantiser by role: package-level callee of New, time.Time -> time.Time
	var quant *ssa.Function
	eachInstr(newFn, func(ins ssa.Instruction) {
		f := staticCallee(ins)
		if f == nil || f.Pkg != newFn.Pkg || f.Signature.Recv() != nil {
			return
		}
		if len(f.Params) == 1 && isTimeTime(f.Params[0].Type()) && f.Signature.Results().Len() == 1 && isTimeTime(f.Signature.Results().At(0).Type()) {
			quant = f
		}
	})
	if quant == nil {
		c.Fail("C17-R1", "quantiser", newFn.Pos(), "unresolved", "New calls no week quantiser (func(time.Time) time.Time of the handler package)")
		return
	}
	// R2: the quantiser truncates to Sunday 00:00:00.000 UTC
	qOK := 0
	quantClosedForm := false
	for _, r := range returnsOf(quant) {
		call, ok := r.Results[0].(*ssa.Call)
		good := false
		if ok && calleeIs(call.Call.StaticCallee(), "time", "Date") && len(call.Call.Args) == 8 {
			z := true
			for i := 3; i <= 6; i++ {
				if k, ok := constInt(call.Call.Args[i]); !ok || k != 0 {
					z = false
				}
			}
			utc := false
			if g := loadOfGlobal(call.Call.Args[7]); g != nil && (g.Name() == "LocationUTC" || g.Name() == "UTC") {
				utc = true
			}
			// year/month/day come from the same time value: t.Year(), t.Month(), t.Day() or y, m, d := t.Date()
			ymd := true
			var base ssa.Value
			closedForm := false
			for i, m := range []string{"Year", "Month", "Day"} {
				var recv ssa.Value
				arg := call.Call.Args[i]
				// day - int(weekday) of the same instant: the closed form of "step back to Sunday"
				// (time.Date normalises a day number before the first of the month)
				if sub, isSub := arg.(*ssa.BinOp); isSub && i == 2 && sub.Op == token.SUB {
					if w, ok := stripConv(sub.Y).(*ssa.Call); ok && w.Call.StaticCallee() != nil && calleeFullName(w.Call.StaticCallee()) == "(time.Time).Weekday" {
						closedForm = true
						quantClosedForm = true
						arg = sub.X
						if base != nil && trivialPhi(w.Call.Args[0]) != trivialPhi(base) {
							ymd = false
						}
					}
				}
				switch a := arg.(type) {
				case *ssa.Call:
					if a.Call.StaticCallee() != nil && calleeFullName(a.Call.StaticCallee()) == "(time.Time)."+m {
						recv = a.Call.Args[0]
					}
				case *ssa.Extract:
					if dc, ok := a.Tuple.(*ssa.Call); ok && a.Index == i && dc.Call.StaticCallee() != nil && calleeFullName(dc.Call.StaticCallee()) == "(time.Time).Date" {
						recv = dc.Call.Args[0]
					}
				}
				if recv == nil {
					ymd = false
					continue
				}
				if base == nil {
					base = recv
				} else if trivialPhi(recv) != trivialPhi(base) {
					ymd = false
				}
			}
			// reached only when Weekday()==Sunday - or, as a defensive bound that cannot be hit, after a
			// loop counter has reached a constant >= 6 (lemma L-sunday: at most six single-day steps back
			// reach a Sunday; the stepping is checked below)
			sunday := onEveryPath(r.Block(), func(f EdgeFact) bool {
				if fx, fy, equal, ok := eqFact(f); ok && equal {
					if w, ok := fx.(*ssa.Call); ok && w.Call.StaticCallee() != nil && w.Call.StaticCallee().Name() == "Weekday" {
						if k, ok := constInt(fy); ok && k == 0 && (base == nil || trivialPhi(w.Call.Args[0]) == trivialPhi(base)) {
							return true
						}
					}
				}
				if bo, ok := f.Cond.(*ssa.BinOp); ok && bo.Op == token.LSS && !f.Val {
					if bound, isCount := countingLoopIndex(bo.X); isCount && bound == bo.Y {
						if k, isC := constInt(bo.Y); isC && k >= 6 {
							return true
						}
					}
				}
				return false
			})
			// the other closed form: the instant itself stepped back by its own weekday number,
			// `t.AddDate(0, 0, -int(t.Weekday()))`, unconditionally or skipped when that number is zero
			if !sunday && !closedForm && base != nil && ymd {
				if steppedBackByWeekday(trivialPhi(base)) {
					closedForm = true
					quantClosedForm = true
				}
			}
			good = z && utc && ymd && (sunday || closedForm)
		}
		if good {
			qOK++
		}
		c.Check(good, "C17-R2", "quantiser:sunday-midnight-utc", r.Pos(), "returns time.Date(y,m,d,0,0,0,0,UTC) of a value whose Weekday()==Sunday",
			"the week quantiser does not return midnight UTC of a Sunday")
	}
	// the walk back is by whole days (AddDate(0,0,-1)) after converting to UTC
	stepOK := false
	eachInstr(quant, func(ins ssa.Instruction) {
		if call, ok := ins.(*ssa.Call); ok && call.Call.StaticCallee() != nil && calleeFullName(call.Call.StaticCallee()) == "(time.Time).AddDate" {
			y, _ := constInt(call.Call.Args[1])
			m, _ := constInt(call.Call.Args[2])
			d, ok3 := constInt(call.Call.Args[3])
			if ok3 && y == 0 && m == 0 && d == -1 {
				stepOK = true
			}
		}
	})
	c.Check(stepOK || quantClosedForm, "C17-R2", "quantiser:steps-back-one-day", quant.Pos(), "searches backwards one day at a time", "the quantiser does not step back by single days")

	// R1: taint
	t := NewTaint(P)
	t.IsSource = func(v ssa.Value) bool { return v == ssa.Value(startParam) }
	t.IsSanitizer = func(call *ssa.Call) bool { return call.Call.StaticCallee() == quant }
	t.Scope = func(fn *ssa.Function) bool { return fn == newFn }
	t.Run()
	// sinks: the Handler fields that the decode path reads (a field that only a new getter reads
	// cannot influence any reported time)
	readOnPath := map[*types.Var]bool{}
	if getMsg := P.Func("rtcm/handler", "(*Handler).GetMessage"); getMsg != nil {
		for g := range P.ReachableModule([]*ssa.Function{getMsg}) {
			eachInstr(g, func(ins ssa.Instruction) {
				if fa, ok := ins.(*ssa.FieldAddr); ok {
					if fv, _ := fieldOf(fa); fv != nil {
						for _, r := range referrers(fa) {
							if _, isStore := r.(*ssa.Store); !isStore {
								readOnPath[fv] = true
							}
						}
					}
				}
				if fl, ok := ins.(*ssa.Field); ok {
					if st, ok := fl.X.Type().Underlying().(*types.Struct); ok {
						readOnPath[st.Field(fl.Field)] = true
					}
				}
			})
		}
	}
	stores := 0
	eachInstr(newFn, func(ins ssa.Instruction) {
		st, ok := ins.(*ssa.Store)
		if !ok {
			return
		}
		fa, ok := st.Addr.(*ssa.FieldAddr)
		if !ok {
			return
		}
		f, _ := fieldOf(fa)
		if f == nil || !types.Identical(fa.X.Type().Underlying().(*types.Pointer).Elem(), H) {
			return
		}
		if !readOnPath[f] {
			c.OK("C17-R1", "not-read-by-decoding("+f.Name()+")", ins.Pos(), "no function reachable from the single-frame decoder reads this field")
			return
		}
		stores++
		if t.Tainted(st.Val) {
			c.Fail("C17-R1", "unquantised-flow("+f.Name()+")", ins.Pos(), "refuted",
				"Handler field "+f.Name()+" is initialised from the start time without passing the week quantiser: reported times depend on where in the week the handler was started",
				t.Explain(st.Val)...)
		} else {
			c.OK("C17-R1", "quantised-or-independent("+f.Name()+")", ins.Pos(), "value is independent of the start time or derived from it only through the week quantiser")
		}
		if strings.Contains(strings.ToLower(f.Name()), "startof") {
			dep := dependsOnCallResult(st.Val, func(i ssa.Instruction) bool { return staticCallee(i) == quant })
			c.Check(dep, "C17-R3", "week-from-quantiser("+f.Name()+")", ins.Pos(), "start of week derives from the quantised start time", "start-of-week field "+f.Name()+" is not derived from the week quantiser")
		}
	})
	if stores == 0 {
		c.Fail("C17-R1", "handler-init", newFn.Pos(), "unresolved", "New stores no Handler fields")
	}
	// other writers of the Handler time fields outside New and the converters are covered by C06-S2
	// R4: beyond the quantised week state, a reported Glonass time depends on the timestamp only
	// (no special case that re-bases it on the handler's initial day state)
	ruleGlonassResultShape(c, "C17-R4")
	// ---- R6 the instant that reaches New is the caller's start time itself: on the way from an
	// entry point to New it is only handed on (a caller that rounds or shifts it first moves start
	// times near the week boundary into the neighbouring week before the quantiser sees them)
	ruleStartTimeHandedOn(c, "C17-R6", newFn)
	// R7: the week is taken from the start time, never from the machine's clock (rule S9 of C06)
	if gm := c.P.Func("rtcm/handler", "(*Handler).GetMessage"); gm != nil {
		ruleWallClockFree(c, "C17-R7", []*ssa.Function{newFn, gm})
	}
	// R8: inside New the instant handed to the quantiser is the start time itself in another zone, shifted
	// by an amount that does not depend on it (the leap-second offsets): no rounding, truncation or
	// calendar arithmetic in between (which moves instants near a week boundary across it)
	{
		var stParam *ssa.Parameter
		for _, prm := range newFn.Params {
			if isTimeTime(prm.Type()) {
				stParam = prm
			}
		}
		nq := 0
		eachInstr(newFn, func(ins ssa.Instruction) {
			call, ok := ins.(*ssa.Call)
			if !ok || call.Call.StaticCallee() != quant || len(call.Call.Args) != 1 {
				return
			}
			nq++
			v := call.Call.Args[0]
			why := ""
			for depth := 0; depth < 8 && why == ""; depth++ {
				v = trivialPhi(v)
				if v == ssa.Value(stParam) {
					break
				}
				cl, isCall := v.(*ssa.Call)
				if !isCall || cl.Call.StaticCallee() == nil {
					why = "the quantiser's argument is not derived from the start time by method calls only"
					break
				}
				switch calleeFullName(cl.Call.StaticCallee()) {
				case "(time.Time).In", "(time.Time).UTC", "(time.Time).Local":
					v = cl.Call.Args[0]
				case "(time.Time).Add":
					if dependsOn(cl.Call.Args[1], func(x ssa.Value) bool { return x == ssa.Value(stParam) }) {
						why = "the start time is shifted by an amount that depends on the start time itself"
					}
					v = cl.Call.Args[0]
				default:
					why = "the start time passes through " + calleeFullName(cl.Call.StaticCallee()) + " before it is quantised"
				}
			}
			c.Check(why == "", "C17-R8", fmt.Sprintf("quantiser-input#%d", nq), call.Pos(), "the quantiser is given the start time itself, zone-converted and shifted by a fixed offset",
				why+": an instant close to a week boundary can be moved into the neighbouring week")
		})
		if nq == 0 {
			c.Fail("C17-R8", "quantiser-input", newFn.Pos(), "unresolved", "New does not call the quantiser")
		}
	}
	// R9: each type's timestamp is converted on its own constellation's week state (the dispatch table of
	// C06-S3): a type routed to another constellation's converter shares that constellation's history
	if or, err := loadClassOracle(c.Verifdir); err == nil {
		checkTimeDispatch(c, NewTables(P), or, "C17-R9")
	} else {
		c.Fail("C17-R9", "oracle", token.NoPos, "unresolved", err.Error())
	}
	c.MinInstances("C17-R6", 2)
	c.MinInstances("C17-R4", 1)
	// R5: the week state is seeded on each constellation's own fixed-offset time scale (shared with C06-S7)
	checkSeedTimeBase(c, "C17-R5")
	c.MinInstances("C17-R5", 4)
	c.MinInstances("C17-R1", 5)
	c.MinInstances("C17-R2", 2)
	c.MinInstances("C17-R3", 4)
	_ = fmt.Sprint
}

// ruleStartTimeHandedOn (C17-R6): at every call of handler.New in non-test module code the start-time
// argument is time.Now(), or a parameter of the calling function, unchanged — and then the same holds
// for that parameter at every call of the calling function, up to the functions nobody in the module
// calls (the exported entry points and main).
func ruleStartTimeHandedOn(c *Ctx, rule string, newFn *ssa.Function) {
	P := c.P
	type site struct {
		fn  *ssa.Function
		idx int
	}
	seen := map[site]bool{}
	var check func(callee *ssa.Function, idx int, depth int)
	check = func(callee *ssa.Function, idx int, depth int) {
		if seen[site{callee, idx}] || depth > 6 {
			return
		}
		seen[site{callee, idx}] = true
		for _, g := range P.ModFuncs() {
			eachInstr(g, func(ins ssa.Instruction) {
				ci, ok := ins.(ssa.CallInstruction)
				if !ok || ci.Common().StaticCallee() != callee || idx >= len(ci.Common().Args) {
					return
				}
				a := ci.Common().Args[idx]
				label := fmt.Sprintf("start-time-handed-on(%s→%s)", P.FnKey(g), callee.Name())
				// outside main the hand-over is unconditional: a caller that creates the handler only
				// "if there is none yet" keeps the week of an earlier stream and ignores the start time
				if !(g.Name() == "main" && g.Signature.Recv() == nil) {
					uncond := true
					for _, r := range returnsOf(g) {
						if !(ins.Block() == r.Block() || ins.Block().Dominates(r.Block())) {
							uncond = false
						}
					}
					if !uncond {
						c.Fail(rule, label+":unconditional", ins.Pos(), "refuted", P.FnKey(g)+" passes its start time to "+callee.Name()+" only on some paths: on the others the start time it was given is ignored and the times follow an earlier one")
						return
					}
				}
				switch x := a.(type) {
				case *ssa.Parameter:
					c.OK(rule, label, ins.Pos(), "the caller's own start-time parameter, unchanged")
					for i, prm := range g.Params {
						if prm == x {
							check(g, i, depth+1)
						}
					}
					return
				case *ssa.Call:
					if calleeFullName(x.Call.StaticCallee()) == "time.Now" {
						c.OK(rule, label, ins.Pos(), "time.Now()")
						return
					}
				}
				// captured by a closure that starts the pipeline: the free variable's binding
				if fv, ok := a.(*ssa.FreeVar); ok {
					c.Fail(rule, label, ins.Pos(), "unproven", "the start time reaches "+callee.Name()+" through a captured variable ("+fv.Name()+"); not followed")
					return
				}
				if g.Name() == "main" && g.Signature.Recv() == nil {
					// a date given on the command line is an instant in UTC: the module function that
					// parses it does not consult the local time zone
					okZone := true
					if ex, isEx := a.(*ssa.Extract); isEx {
						a = ex.Tuple
					}
					if pc, isCall := a.(*ssa.Call); isCall {
						if pf := pc.Call.StaticCallee(); pf != nil && P.InModule(pf) && pf.Blocks != nil {
							eachInstr(pf, func(i2 ssa.Instruction) {
								for _, op := range i2.Operands(nil) {
									if gl, isG := (*op).(*ssa.Global); isG && gl.Pkg != nil && gl.Pkg.Pkg.Path() == "time" && gl.Name() == "Local" {
										okZone = false
									}
								}
								if f2 := staticCallee(i2); f2 != nil {
									switch calleeFullName(f2) {
									case "(time.Time).Local", "(time.Time).In", "time.LoadLocation":
										okZone = false
									}
								}
							})
							if !okZone {
								c.Fail(rule, label+":utc", ins.Pos(), "refuted", pf.Name()+" interprets the start time given to the program in a local time zone: a date near the week boundary then falls into the neighbouring constellation week on machines east or west of Greenwich")
								return
							}
						}
					}
					c.OK(rule, label, ins.Pos(), "chosen by main (command line or clock)")
					return
				}
				c.Fail(rule, label, ins.Pos(), "refuted", P.FnKey(g)+" does not hand its start time on unchanged: the value given to "+callee.Name()+" is computed from it (rounded, shifted or converted), so a start time near a week boundary can land in the neighbouring week")
			})
		}
	}
	check(newFn, 0, 0)
}

// steppedBackByWeekday: v is x.AddDate(0, 0, -int(x.Weekday())), or the merge of that value with x itself
// over the edge on which the weekday number was found to be zero.
func steppedBackByWeekday(v ssa.Value) bool {
	isStep := func(v ssa.Value) (ssa.Value, ssa.Value, bool) { // (x, day count value, ok)
		call, ok := v.(*ssa.Call)
		if !ok || call.Call.StaticCallee() == nil || calleeFullName(call.Call.StaticCallee()) != "(time.Time).AddDate" || len(call.Call.Args) != 4 {
			return nil, nil, false
		}
		if y, ok := constInt(call.Call.Args[1]); !ok || y != 0 {
			return nil, nil, false
		}
		if m, ok := constInt(call.Call.Args[2]); !ok || m != 0 {
			return nil, nil, false
		}
		neg, ok := call.Call.Args[3].(*ssa.UnOp)
		if !ok || neg.Op != token.SUB {
			return nil, nil, false
		}
		w, ok := stripConv(neg.X).(*ssa.Call)
		if !ok || w.Call.StaticCallee() == nil || calleeFullName(w.Call.StaticCallee()) != "(time.Time).Weekday" {
			return nil, nil, false
		}
		if trivialPhi(w.Call.Args[0]) != trivialPhi(call.Call.Args[0]) {
			return nil, nil, false
		}
		return trivialPhi(call.Call.Args[0]), neg.X, true
	}
	if _, _, ok := isStep(v); ok {
		return true
	}
	phi, ok := v.(*ssa.Phi)
	if !ok || len(phi.Edges) != 2 {
		return false
	}
	for i := 0; i < 2; i++ {
		x, days, ok := isStep(phi.Edges[i])
		if !ok || trivialPhi(phi.Edges[1-i]) != x {
			continue
		}
		// the unstepped edge is taken only when the day count is zero (it is never negative)
		pred := phi.Block().Preds[1-i]
		ifi, ok := lastInstr(pred).(*ssa.If)
		if !ok || len(pred.Succs) != 2 {
			continue
		}
		taken := pred.Succs[0] == phi.Block()
		cmp, ok := ifi.Cond.(*ssa.BinOp)
		if !ok || cmp.X != days {
			continue
		}
		if k, isC := constInt(cmp.Y); !isC || k != 0 {
			continue
		}
		switch {
		case cmp.Op == token.GTR && !taken, cmp.Op == token.NEQ && !taken, cmp.Op == token.EQL && taken, cmp.Op == token.LEQ && taken:
			return true
		}
	}
	return false
}
