package main

import "golang.org/x/tools/go/ssa"

// consOpts selects which conservation rules a property needs (each rule must
// be a necessary condition of the property that includes it).
type consOpts struct {
	eat        bool // junk eater accumulates every byte
	fetch      bool // fetcher accumulates every byte
	returns    bool // every exit returns the whole buffer
	fetchO     fetchOpts
	decoderRaw bool // decoder returns its whole input / prefix
	exactCount bool // L+6 bytes handed over and delivered
}

var consAll = consOpts{eat: true, fetch: true, returns: true, decoderRaw: true, exactCount: true}

// conservationRules: C02-R1..R3, selectable.
func conservationRules(f *framing, rule string, o consOpts) []ssa.Value {
	pl := f.pl
	// junk eater: initial accumulator = the fresh empty slice it makes
	var eatInit []ssa.Value
	eachInstr(pl.eat, func(ins ssa.Instruction) {
		if v, ok := ins.(ssa.Value); ok && isFreshSlice(v) {
			if f.A.LenOf(v).Equal(LinConst(0)) {
				eatInit = append(eatInit, v)
			}
		}
	})
	// fetcher: initial accumulator = the junk eater's result
	var fetchInit []ssa.Value
	eachInstr(pl.fetch, func(ins ssa.Instruction) {
		if ex, ok := ins.(*ssa.Extract); ok && ex.Index == 0 {
			if call, ok := ex.Tuple.(*ssa.Call); ok && call.Call.StaticCallee() == pl.eat {
				fetchInit = append(fetchInit, ex)
			}
		}
	})
	if len(fetchInit) != 1 || len(eatInit) != 1 {
		f.c.Fail(rule+"-R1", "accumulator-roots", pl.fetch.Pos(), "unresolved", "frame buffer roots not found (junk eater result / fresh empty slice)")
		return nil
	}
	if o.eat {
		f.ruleAccumulator(rule+"-R1", pl.eat, eatInit)
	} else {
		f.acc[pl.eat] = f.accumulatorsOnly(pl.eat, eatInit)
	}
	if o.fetch {
		f.ruleAccumulator(rule+"-R1", pl.fetch, fetchInit)
	} else {
		f.acc[pl.fetch] = f.accumulatorsOnly(pl.fetch, fetchInit)
	}
	if o.returns {
		f.ruleFetchReturns(rule+"-R2", o.fetchO)
	}
	var high []ssa.Value
	if o.decoderRaw {
		high = f.ruleDecoderRawData(rule + "-R2")
	}
	if o.exactCount {
		if !o.decoderRaw {
			high = f.prefixHighs()
		}
		f.ruleHelperPure(rule + "-R2")
		f.ruleExactCount(rule+"-R2", high)
	}
	return high
}

func checkC02(c *Ctx) {
	c.Explanation = "Decides byte conservation of the framer on every CFG path: (R1) each byte successfully obtained from the input is appended exactly once to the frame buffer, on the success edge of its read, before the next read, return or hand-over, and no stale version of the buffer is ever used; (R2) every exit of the fetcher returns the whole buffer as a non-RTCM message with a nil error, or trims exactly the trailing start byte that it pushes back, or hands the whole buffer to the single-frame decoder, whose every return carries its whole input or the prefix input[:L+6] — and the framer hands it exactly L+6 bytes (affine loop invariants; the two evaluations of the leader helper agree by the reviewed lemma L-helper-pure whose premises are re-checked); a nil message is returned only when nothing was consumed; (R3) no delivered message is empty; (R4) the push-back channel returns pushed-back bytes first, oldest first, then channel bytes unchanged; (R5) the stream handler forwards every fetched message by value before the next fetch, through one push-back channel for the whole stream, and closes its output exactly once, on 'done', which only a closed input produces; (R6) the framing stage contains no select, goroutine start, clock or mutable package state, so its output is a function of the byte sequence alone (Kahn determinism: independent of channel capacities and timings). (R6) nothing reachable from the stream handler can panic (the C07 obligations restricted to that root): an input that aborts the handler loses every byte after it."
	c.NotDecided = "that append, slicing and channels behave as the language specifies; the numerical meaning of the 10-bit length (C03/C14)."
	f := newFraming(c, "C02-anchor")
	if f == nil {
		return
	}
	conservationRules(f, "C02", consAll)
	f.rulePushbackFIFO("C02-R4")
	f.ruleStreamForward("C02-R5")
	ruleStreamClose(c, f.pl, "C02-R5")
	ruleStreamTermination(c, f.pl, "C02-R5")
	ruleKahn(c, f.pl, "C02-R6")
	// the stream handler cannot be made to abort by any input: the no-panic obligations (C07 engine)
	// of everything reachable from it
	if hm := c.P.Func("rtcm/handler", "(*Handler).HandleMessages"); hm != nil {
		runBounds(c, "C02-R6", []*ssa.Function{hm})
		c.MinInstances("C02-R6", 50)
	} else {
		c.Unresolved("C02-R6", "rtcm/handler.(*Handler).HandleMessages")
	}
	c.MinInstances("C02-R1", 8)
	c.MinInstances("C02-R2", 25)
	c.MinInstances("C02-R4", 4)
	c.MinInstances("C02-R5", 7)
	c.MinInstances("C02-R6", 1)
}

func checkC03(c *Ctx) {
	c.Explanation = "Decides the structure of frame recognition: (R1) the leader helper reads exactly reserved bits (8,6), length (14,10) and type (24,12) of a buffer of at least five bytes and succeeds only for preamble 0xD3, zero reserved bits and non-zero length; (R2) after the start byte the framer appends exactly 4 + (L+6-5) bytes, leaves its loops only by counter or input error, inspects no byte content and pushes nothing back, so a frame is delimited by its own length field alone; (R3) the junk eater stops only on 0xD3 or end of input and returns all it read; junk followed by a start byte is returned without that byte, which is pushed back, so adjacent junk is one message and the frame starts a fresh fetch; (R4) every rejection on the single-frame path is for one of the standard reasons {empty, preamble, reserved bits, zero length, incomplete, CRC} and each of them is present — no valid frame is rejected for another reason; (R5) the conservation rules of C02 hold (a split or merge would breach them); (R6) nothing reachable from the stream handler can panic on any input (the C07 obligations restricted to that root), so no frame makes the handler abandon the frames after it."
	c.NotDecided = "the bit reader's arithmetic (C14) and the CRC arithmetic (dependency pin, C01); numerical equality of delivered segments with inputs is implied by conservation + delimiting, not replayed."
	f := newFraming(c, "C03-anchor")
	if f == nil {
		return
	}
	f.ruleHelperGates("C03-R1")
	conservationRules(f, "C03-R5", consAll)
	f.ruleNoContentExit("C03-R2")
	f.ruleJunkDelimiting("C03-R3")
	f.ruleFetcherExits("C03-R3")
	f.ruleRejectionSites("C03-R4")
	f.ruleStreamForward("C03-R5")
	// R6: recognising a frame cannot abort the stream: the no-panic obligations (C07 engine) of
	// everything reachable from the stream handler, which includes the single-frame decoder
	if hm := c.P.Func("rtcm/handler", "(*Handler).HandleMessages"); hm != nil {
		runBounds(c, "C03-R6", []*ssa.Function{hm})
		c.MinInstances("C03-R6", 50)
	} else {
		c.Unresolved("C03-R6", "rtcm/handler.(*Handler).HandleMessages")
	}
	c.MinInstances("C03-R1", 6)
	c.MinInstances("C03-R2", 3)
	c.MinInstances("C03-R3", 8)
	c.MinInstances("C03-R4", 15)
}

func checkC01(c *Ctx) {
	c.Explanation = "Decides that a message with a non-negative type and no format error can only be built after all frame checks, over exactly the bytes delivered: (R1) MessageType is assigned only in the three constructors and typed messages are constructed only by the single-frame decoder; (R2) each valid typed construction is dominated by: non-empty input, preamble 0xD3, the leader helper's success (itself dominated by len>=5, preamble, reserved bits zero, length non-zero), L+3+3 <= len(input) (by entailment from the dominating branch facts, so a weakened or off-by-one guard is refuted), and a nil result of the CRC gate; (R3) the bytes handed to the CRC gate are exactly the bytes stored as RawData, and RawData is input[:L+6]; (R4) the CRC gate returns nil only on a path where Hi, Mi and Lo of Hash(frame[:n-3]) were each found equal to frame[n-3], frame[n-2], frame[n-1]; (R5) the type is the helper's unmodified (24,12) read; (R6) frame constants and the dependency pin of the CRC-24Q implementation; (R7) the stream path delivers only non-RTCM wrappers or the decoder's result."
	c.NotDecided = "the CRC-24Q arithmetic itself (trusted at the pinned version) and the bit reader (C14)."
	f := newFraming(c, "C01-anchor")
	if f == nil {
		return
	}
	f.ruleConstructors("C01-R1")
	f.ruleHelperGates("C01-R2")
	f.ruleDecoderGates("C01-R2")
	f.ruleCRCGate("C01-R4")
	f.ruleFrameConstants("C01-R6")
	// R3 (continued): the bytes stay what the CRC was computed over: nothing reachable from the
	// single-frame decoder writes into the frame
	if gm := c.P.Func("rtcm/handler", "(*Handler).GetMessage"); gm != nil {
		roots := []*ssa.Function{gm}
		// ... nor does the stream path between the decoder and the delivery
		if hm := c.P.Func("rtcm/handler", "(*Handler).HandleMessages"); hm != nil {
			roots = append(roots, hm)
		}
		ruleRawBuffersReadOnly(c, "C01-R3", c.P.ReachableModule(roots))
	}
	// R7: stream path: typed messages reach the stream only as the decoder's result on the
	// path where the leader was accepted
	o := consOpts{returns: true, fetchO: fetchOpts{leaderOK: true, skipPairing: true}}
	conservationRules(f, "C01-R7", o)
	c.MinInstances("C01-R1", 8)
	c.MinInstances("C01-R2", 14)
	c.MinInstances("C01-R4", 4)
	c.MinInstances("C01-R6", 7)
}

func checkC12(c *Ctx) {
	c.Explanation = "Decides that a CRC failure costs exactly one frame: (R1) on the CRC-failure edge the single-frame decoder returns a non-RTCM message holding its whole input, which is the whole candidate frame of exactly L+6 bytes (exact-count rule); (R2) while the candidate is read the framer has no content-dependent exit and no push-back, so corruption inside payload or CRC (including new 0xD3 bytes) cannot move the frame boundary; the leader is untouched by assumption, so L is the same; (R3) the fetcher returns the decoder's message unchanged, and the stream handler closes its output and stops only at the end of its input (never because of rejections); (R4) the CRC gate compares all three bytes (a corrupted frame is not accepted) and the conservation rules of C02 hold, so the neighbours are delivered exactly as without the corruption; the five-byte leader helper rejects on leader content only (R2), and (R5) every call in the decoder that can change the handler's week state is dominated by the CRC-success edge, so the neighbours' reported times are untouched as well. (R6) nothing reachable from the stream handler can panic (the C07 obligations restricted to that root), so a corrupted frame cannot take the frames after it down with it."
	c.NotDecided = "that a corrupted frame's CRC really differs (probability 2^-24 of an undetected error is inherent to the CRC)."
	f := newFraming(c, "C12-anchor")
	if f == nil {
		return
	}
	pl := f.pl
	// R1
	n := 0
	for _, r := range returnsOf(pl.getMsg) {
		crcFail := false
		for _, ft := range dominatingFacts(r.Block()) {
			if bo, ok := ft.Cond.(*ssa.BinOp); ok {
				x := bo.X
				if isNilConst(x) {
					x = bo.Y
				}
				if call, ok := x.(*ssa.Call); ok && call.Call.StaticCallee() == pl.checkCRC && f.A.provablyNonNilError(call, r.Block()) {
					crcFail = true
				}
			}
		}
		if !crcFail {
			continue
		}
		n++
		arg, isNon := f.nonRTCMArg(r.Results[0])
		c.Check(isNon && arg == ssa.Value(pl.getMsg.Params[1]), "C12-R1", "crc-failure:whole-frame-as-non-RTCM", r.Pos(), "on CRC failure the whole input is returned as one non-RTCM message",
			"on CRC failure the decoder does not return its whole input as a single non-RTCM message")
	}
	if n == 0 {
		c.Fail("C12-R1", "crc-failure:exit", pl.getMsg.Pos(), "unresolved", "no CRC-failure exit found in the decoder")
	}
	f.ruleNoContentExit("C12-R2")
	// the leader helper (run on the first five bytes) rejects on leader content only
	f.ruleRejectionSitesOf("C12-R2", true)
	// boundaries independent of content: exact count; the decoder's message is returned unchanged;
	// no push-back other than the junk one
	conservationRules(f, "C12-R4", consOpts{returns: true, decoderRaw: true, exactCount: true})
	f.ruleCRCGate("C12-R4")
	f.ruleStreamForward("C12-R3")
	// "...alone": the stream handler goes on after a rejected frame — it closes its output and stops only
	// when its input is exhausted, however many rejections came before (rules of C02-R5)
	ruleStreamClose(c, f.pl, "C12-R3")
	ruleStreamTermination(c, f.pl, "C12-R3")
	// the neighbours' reported times too: a rejected frame must not advance the week state
	ruleStateOnlyForVerifiedFrames(c, "C12-R5")
	// the stream handler cannot be made to abort by any input: the no-panic obligations (C07 engine)
	// of everything reachable from it
	if hm := c.P.Func("rtcm/handler", "(*Handler).HandleMessages"); hm != nil {
		runBounds(c, "C12-R6", []*ssa.Function{hm})
		c.MinInstances("C12-R6", 50)
	} else {
		c.Unresolved("C12-R6", "rtcm/handler.(*Handler).HandleMessages")
	}
	c.MinInstances("C12-R5", 1)
	c.MinInstances("C12-R1", 1)
	c.MinInstances("C12-R2", 3)
}
