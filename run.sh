#!/bin/sh
# usage: ./run.sh <property> <quick|thorough>
# Rebuilds the analyser if needed and analyses /repo's current working tree.
set -u
here=$(cd "$(dirname "$0")" && pwd)
prop=${1:?property id}
tier=${2:-quick}
export GOFLAGS=-mod=vendor GOPROXY=off GOSUMDB=off GOTOOLCHAIN=local GOWORK=off CGO_ENABLED=0
bin="$here/bin/ntripcheck"
need=0
[ -x "$bin" ] || need=1
if [ $need -eq 0 ]; then
  if [ -n "$(find "$here/checker" -name '*.go' -not -path '*/vendor/*' -newer "$bin" 2>/dev/null | head -1)" ]; then need=1; fi
fi
if [ $need -eq 1 ]; then
  mkdir -p "$here/bin"
  (cd "$here/checker" && go build -o "$bin.tmp.$$" . && mv "$bin.tmp.$$" "$bin") || { echo "error: cannot build analyser"; exit 1; }
fi
exec "$bin" -property "$prop" -tier "$tier" -repo "${VERIF_REPO:-/repo}" -verif "$here"
