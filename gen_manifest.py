#!/usr/bin/env python3
"""Regenerates MANIFEST.json from the table below (kept in one place so that the
claimed / not-applicable lists can never drift apart)."""
import json, os, subprocess

HERE = os.path.dirname(os.path.abspath(__file__))

# id -> (technique, level text, level note, design ref)
CLAIMED = {
    "C01": (
        "static gate-dominance analysis with affine entailment: who-may-construct, dominance of the five frame gates over every typed construction, CRC-extent agreement, CRC gate completeness (three byte pairs at n-3..n-1), type provenance, constants and dependency pin",
        "Decides for every input that reaches a typed construction (all paths) that the five frame checks dominate it and cover exactly the delivered bytes; the length guard is checked by entailment, so weakened or off-by-one guards are refuted. CRC arithmetic is trusted at the pinned dependency version.",
        "crc24q at the pinned version; bit reader (C14) trusted",
        "DESIGN.md 4.1",
    ),
    "C02": (
        "static byte-conservation analysis of the framer: accumulator discipline (append-once on the success edge, no stale buffer), return-all / push-back pairing, exact frame extent by affine loop invariants and callee ensures, FIFO push-back structure, forward-all/close-once path rules, Kahn-determinism effect check; composed with the no-panic obligations (affine bounds engine of C07) of everything reachable from the stream handler",
        "Decides losslessness structurally on every CFG path of the framer (all byte streams, all truncation points, all channel capacities/timings via determinism of the sequential stage).",
        "append/slice/channel semantics; lemma L-helper-pure (premises re-verified each run)",
        "DESIGN.md 4.2",
    ),
    "C03": (
        "static layout and exit-site analysis: leader field reads and gates, exact L+6 byte count, no content-dependent exit, junk delimiting only at 0xD3/EOF, rejection sites enumerated and matched against the five standard reasons, plus the C02 conservation rules; composed with the no-panic obligations (affine bounds engine of C07) of everything reachable from the stream handler",
        "Decides that frames are delimited by their own length field only and rejected only for standard reasons, on all paths; segment equality follows from conservation + delimiting.",
        "bit reader and CRC arithmetic trusted",
        "DESIGN.md 4.3",
    ),
    "C12": (
        "static path/dominance rules: CRC-failure exit returns the whole candidate as one non-RTCM message, no content-dependent exit or push-back while a candidate is read, leader-only rejection sites of the five-byte helper, CRC gate completeness, week-state changes dominated by the CRC-success edge, C02 conservation; composed with the no-panic obligations of the stream handler; who-may-call rule: no fmt.Print*/os.Stdout in module code reachable from the entry point; no-panic obligations and raw-buffer read-only rule over all decode/display entry points",
        "Decides that a CRC failure cannot move a frame boundary and costs exactly the candidate frame, on every path.",
        "the corrupted frame's CRC differs (2^-24 residual inherent to CRC)",
        "DESIGN.md 4.12",
    ),
    "C04": (
        "static bit-layout extraction (order, width, signedness, multiplicity, contiguity, destination field of every bit read) compared with the oracle layout; structural checks of mask expansion and cell attachment; information-flow analysis for padding non-interference; rejection-site enumeration; type-domain partition for the family gates; successful returns dominated by complete reader loops and assembled from the three readers; capacity-from-length check of the overrun exit; composed with the no-panic obligations of the two family decoders",
        "Decides that the MSM4/MSM7 decoders read the standard's layout into the right fields for every mask shape and that the result cannot depend on trailing padding; value-level bit arithmetic is C14's (not claimed).",
        "bit reader correct (C14); oracle layout transcribed from the bundled RTKLIB decoder",
        "DESIGN.md 4.4",
    ),
    "C05": (
        "static bit-layout extraction for 1005/1006, rejection-site enumeration against the two stated reasons, constant/format-verb analysis of the display (scale 1/10000, %.4f, X-Y-Z order) with a must-pass rule (no path through the display goes round the formatting call), padding non-interference; bit-read extents of both decoders discharged by affine entailment",
        "Decides layout, guards and display formatting structurally for all field values; float rounding argued, not computed.",
        "bit reader correct (C14); fmt formats %.4f correctly",
        "DESIGN.md 4.5",
    ),
    "C06": (
        "static dataflow/dominance rules: lost-update (copy-of-receiver) analysis, per-constellation field separation, type-dispatch table extraction, no-store-on-error paths, strict rollover comparison, result-shape rule of the Glonass converter, state changes only after the CRC gate, constant evaluation; must-pass rule: the remembered timestamp is stored on every successful path; who-may-call rule: no use of time.Now/Since/Until reachable from the handler constructor or the decoder; composed with the stream-delivers-decoder-result rules of C01; entailment rule: the timestamp read lies inside the declared message body",
        "Decides structural necessary conditions of the week bookkeeping (state persistence, constellation separation, dispatch tables over the whole type domain, no state write on error paths, strict rollover test with +7 days, offset/limit constants). Does not decide numerical equality of reported times.",
        "time.Time arithmetic and calendar trusted; oracle constants from the property statement",
        "DESIGN.md 4.6",
    ),
    "C07": (
        "static obligation generation over the root-reachable call graph (index/slice bounds, bit-read extents lifted to call sites, division, shifts, nil dereference, type assertions, external calls, recursion, loop termination) discharged by affine abstract interpretation: dominating-branch facts, path joins, loop-phi invariants, quotient facts, callee ensures/requires, Fourier-Motzkin entailment; three reviewed lemmas with machine-checked premises",
        "Every panic-capable operation and loop reachable from the five entry points carries an obligation; all must be discharged (undischarged = violation). Covers all inputs because the argument is over symbolic lengths, not sampled frames.",
        "allow-listed stdlib/crc24q callees do not panic; API preconditions (non-nil receivers/channel); lengths < 2^28",
        "DESIGN.md 4.7",
    ),
    "C08": (
        "static dimensional/fixed-point typing of the formula methods over SSA (unit, binary exponent, decimal exponent, sign, bit ranges for |), sentinel constants against the layout widths, marker tests (==/!= against exactly the field's marker), zero-result guards, numeric constants, frequency-table partition over all signal ids, operand ownership (no package-level storage in the cell packages); parameter-dependence analysis of the shared scale helpers and of the wavelength dispatcher; a formula tests only the fine field it uses; no in-place append to decoded slices in the MSM packages; composed with all rules of C04",
        "Decides for all field values that each formula has the standard's scale/unit/sign and that invalid markers are handled as stated; floating-point rounding is not computed.",
        "field units from the oracle (RTCM DF definitions); documented frequency table taken as given",
        "DESIGN.md 4.8",
    ),
    "C09": (
        "static concurrency-structure analysis: channel close-site ownership, single-sender, fan-out path rule, completion-on-close dominance, termination chain, go-operand confinement, Kahn-determinism effect check, forward-once and transient-gap (EOF clock / error classification) rules of the reader stage; fresh-buffer and retained-reference rules for delivered messages; configuration accessors as projections; stop path of the fan-out guarded by an out-of-domain sentinel",
        "Decides the ownership/ordering/completion/confinement discipline that makes the pipeline schedule-independent (all schedules, all chunkings): one closer per channel, one sender per channel, synchronous in-order fan-out of the received value to every non-nil consumer, return only on closed channel, no shared mutable state. Does not execute schedules.",
        "Go channel semantics and memory model trusted; consumers supplied by callers are outside",
        "DESIGN.md 4.9",
    ),
    "C11": (
        "static happens-before (join) analysis on SSA CFG: signal-after-last-write (deferred calls in LIFO order, Flush/Sync count as writes), wait-on-every-return-path, close-before-wait, WaitGroup.Add-before-go with Add/go counting (also for goroutines that only share the writers' WaitGroup); consumer-loop path rules; use-site rule: the entry point leaves the writer alone between the first go statement and the last join; forward-every-byte-once path rule of the reader stage",
        "Decides whether a close->wait join exists between every writer goroutine and every return of the entry point: with it no schedule can lose output, without it some schedule does. All schedules and writer latencies are covered by the happens-before argument, not sampled.",
        "writer.Write is synchronous (true of os.Stdout, files, bytes.Buffer); Go memory model",
        "DESIGN.md 4.11",
    ),
    "C10": (
        "static consumer-loop path rules (filter gate, write-once, RawData operand), wiring-table extraction (which consumer gets which writer under which switch, fan-out list membership), composition with the C01/C03/C09 rule sets, join analysis for all consumer goroutines; reader stage forward-every-byte-once path rule; no-panic obligations of the stream handler",
        "Decides the filter/wiring/join structure of rtcmfilter on every path and schedule, composed with the framing rules; numerical equality of output and input frames is implied, not replayed.",
        "dailylogger dependency; CRC arithmetic at the pinned version",
        "DESIGN.md 4.10",
    ),
    "C13": (
        "static classification of every return of the file handler by its dominating conditions (retryable vs fatal, zero tolerance, tolerance elapsed), forward-once path rule with the bufio short-read argument, EOF-clock phi analysis (cleared on success, started only when clear), close/flush rules; configuration accessors as projections; single-sender/confinement rules for the framer goroutine; every-path rules: a retry pause is reached only with an EOF or time-out result and a non-zero tolerance, the send only with n > 0; the reader has a single read site",
        "Decides the retry structure for all placements of EOF/timeout results: which conditions stop the handler, that every byte read is forwarded exactly once, that the partial frame is flushed and the channel closed.",
        "bufio.Reader.Read contract for short destinations; real time not modelled",
        "DESIGN.md 4.13",
    ),
    "C15": (
        "static effect/mod analysis: package variables written only in init, no store through raw frame buffers, display stores confined to Readable/ErrorMessage and idempotent (no read-modify-write), handler holds no references, by-value fan-out before any display, no reads of mutable package state; Copy independence; dependence analysis of error exits of the time converters on handler state; no map iteration order on the decode/display path (collect-and-sort form only); no in-place append to a truncated view of a decoded slice",
        "Decides absence of hidden state and of shared mutable data on the decode/display path for all orders, repetitions and concurrent handlers (effect analysis over every reachable function).",
        "fmt/hex/time formatting is pure; time lines excluded by the property",
        "DESIGN.md 4.15",
    ),
    "C16": (
        "static path rules (read->write->send exactly once, in order, same buffer and n), private-copy dataflow, consumer-loop rule, join analysis; every-path rule: the copy loop returns only over an err == io.EOF edge; arithmetic no-panic obligations (index, slice, bit-read extents, division, shift) of the copy loop, recorder and their callees discharged by affine entailment; who-may-call rule: no os.NewFile, syscall.Close/Dup2, Close of a standard stream, or os.Rename/Remove in the tee reachable from start; constant-argument rule for the daily writers (record name pattern unique to its directory setting) and guarded-store rule for the record directory",
        "Decides the tee structure of rtcmlogger on every CFG path: each block read is written to stdout and sent as a fresh copy to the recorder exactly once, the recorder writes every block and is joined before start returns. Does not decide dailylogger's file handling.",
        "os.File Read/Write contracts; dailylogger is a dependency",
        "DESIGN.md 4.16",
    ),
    "C17": (
        "static information-flow (taint) analysis: start-time parameter as source, week quantiser as sanitiser, Handler fields as sinks; structural check of the quantiser; result-shape rule of the Glonass converter (no history-dependent re-basing); call-graph rule: the start time is handed on unchanged from the entry points to handler.New; no use of the machine's clock reachable from the constructor or the decoder; def-use rule on the quantiser's argument (zone conversions and a fixed shift only); time-dispatch table rule of C06",
        "Decides non-interference of the start time modulo the week quantiser for all start times: any unquantised flow into handler state is reported with its def-use chain. Calendar arithmetic of the quantiser is assumed.",
        "time package semantics; quantiser granularity argued structurally (Sunday 00:00:00 UTC) and tested by the suite",
        "DESIGN.md 4.17",
    ),
    "C19": (
        "static path rules on both relay loops (read->peer write exactly once, same buffer and n, fresh buffer, no write deadline or non-negative SetLinger on a relay connection), non-mutation scan over every module function reachable from the proxy package (store, copy, in-place append into a buffer not allocated there), taint analysis of traffic-derived text (hex dumps, message text, strings made from recorded bytes) to the status page with the escape helper as sanitiser, provenance (who may call Add / send on the byte channel); no relay loop closes a connection; composed with all rules of C18 for the queue the parser side feeds and all rules of C02 for the parser's segmentation",
        "Decides the relay and escaping structure on every CFG path and every flow into the page; TCP/HTTP behaviour is outside.",
        "net.Conn Read/Write contracts; statusreporter dependency; escape helper adequacy = replaces '<' and '>' throughout",
        "DESIGN.md 4.19",
    ),
    "C18": (
        "static lock-discipline analysis (every field access dominated by the queue's lock, writes under the write lock, helpers called with the lock held), encapsulation check, structural FIFO rules (monotone key, evict-before-insert with >=, ascending sorted snapshot); call-site rules: every Add is synchronous, and a loop feeding the queue from a channel ends only when the channel is closed; use-site rule: the snapshot slice is only appended to and returned",
        "Decides for all operation sequences and interleavings the structural conditions of a bounded FIFO under a readers-writer lock; linearizability follows from atomic critical sections and is not enumerated.",
        "sync.RWMutex, sort.Ints and map semantics trusted",
        "DESIGN.md 4.18",
    ),
    "C20": (
        "static table extraction: set-wise abstract interpretation of every classifier over the complete 4098-value type domain, compared with sibling tables and the oracle; guard analysis of the display entry point (analysis skipped only when already done); composed with the leader-type layout rule and the stream-delivers-decoder-result rules of C01, the rules of C04 and the fan-out rule of C09",
        "All classification tables are extracted from the SSA of the current source and compared over the whole domain {-2,-1,0..4095}; exhaustive over message types. Decides table agreement, not that the reached decoders behave.",
        "go/types+go/ssa model of the source; oracle sets in oracles/classification.json; an unrecognised predicate form fails the check (sound, incomplete)",
        "DESIGN.md 4.20",
    ),
}

NOT_BUILT_REASON = "check not built yet in this revision (planned, see DESIGN.md section 4); not claimed until its rules run silent on the tree and kill seeded mutants"

NA = {
    "C14": "value-level functional correctness of a 12-line bit loop over all (buffer, position, width): needs concrete or symbolic evaluation, which is outside static analysis; the only structural clause (reads stay inside pos..pos+len, proved under C07) is untouched by every realistic fault, so claiming C14 through it would be a label without power (DESIGN.md 4.14)",
}

ALL = ["C%02d" % i for i in range(1, 21)]


def main():
    checks = []
    for pid in ALL:
        if pid not in CLAIMED:
            continue
        tech, text, note, ref = CLAIMED[pid]
        checks.append({
            "property_id": pid,
            "quick_cmd": "./run.sh %s quick" % pid,
            "thorough_cmd": "./run.sh %s thorough" % pid,
            "evidence_file": "/verif/evidence/%s.json" % pid,
            "replay_cmd_template": "cat {path}; ./run.sh %s quick" % pid,
            "engine": "ntripcheck",
            "level_claimed": {"category": "other", "text": text, "design_ref": ref},
            "level_note": note,
            "technique": tech,
        })
    na = []
    for pid in ALL:
        if pid in CLAIMED:
            continue
        na.append({"property_id": pid, "reason": NA.get(pid, NOT_BUILT_REASON)})
    m = {
        "version": 1,
        "setup_cmd": "cd /verif/checker && GOFLAGS=-mod=vendor GOPROXY=off GOSUMDB=off GOTOOLCHAIN=local GOWORK=off CGO_ENABLED=0 go build -o /verif/bin/ntripcheck .",
        "hooks": {
            "guard": "verif",
            "enable": "none needed: the checks read source only; no build-tagged hooks exist in /repo",
            "baseline_off_cmd": "cd /repo && go test -vet=off -count=1 -timeout 25m ./...",
            "source_commits": [],
            "add_only": True,
        },
        "engines": [{
            "name": "ntripcheck",
            "path": "/verif/checker",
            "serves_properties": sorted(CLAIMED),
            "kind_free_text": "repository-specific static analyser over go/packages + go/types + go/ssa + CHA call graph (golang.org/x/tools v0.29.0, vendored); dominance, path, dataflow, table and affine-bound rules; never builds or runs the code under test",
        }],
        "checks": checks,
        "not_applicable": na,
        "notes": "Every check loads /repo's current working tree afresh. Known genuine defects are listed in /verif/KNOWN_FINDINGS.txt (known:/fixed: lines).",
    }
    with open(os.path.join(HERE, "MANIFEST.json"), "w") as f:
        json.dump(m, f, indent=1)
        f.write("\n")


if __name__ == "__main__":
    main()
