#!/usr/bin/env python3
"""Regenerates MANIFEST.json from the table below (kept in one place so that the
claimed / not-applicable lists can never drift apart)."""
import json, os, subprocess

HERE = os.path.dirname(os.path.abspath(__file__))

# id -> (technique, level text, level note, design ref)
CLAIMED = {
    "C20": (
        "static table extraction: set-wise abstract interpretation of every classifier over the complete 4098-value type domain, compared with sibling tables and the oracle",
        "All classification tables are extracted from the SSA of the current source and compared over the whole domain {-2,-1,0..4095}; exhaustive over message types. Decides table agreement, not that the reached decoders behave.",
        "go/types+go/ssa model of the source; oracle sets in oracles/classification.json; an unrecognised predicate form fails the check (sound, incomplete)",
        "DESIGN.md 4.20",
    ),
}

NOT_BUILT_REASON = "check not built yet in this revision (planned, see DESIGN.md section 4); not claimed until its rules run silent on the tree and kill seeded mutants"

NA = {
    "C14": "value-level functional correctness of a 12-line bit loop over all (buffer, position, width): needs concrete or symbolic evaluation, which is outside static analysis; the only structural clause (reads stay inside pos..pos+len, proved under C07) is untouched by every realistic fault, so claiming C14 through it would be a label without power (DESIGN.md 4.14)",
}

ALL = ["C%02d" % i for i in range(1, 21)]


def main():
    checks = []
    for pid in ALL:
        if pid not in CLAIMED:
            continue
        tech, text, note, ref = CLAIMED[pid]
        checks.append({
            "property_id": pid,
            "quick_cmd": "./run.sh %s quick" % pid,
            "thorough_cmd": "./run.sh %s thorough" % pid,
            "evidence_file": "/verif/evidence/%s.json" % pid,
            "replay_cmd_template": "cat {path}; ./run.sh %s quick" % pid,
            "engine": "ntripcheck",
            "level_claimed": {"category": "other", "text": text, "design_ref": ref},
            "level_note": note,
            "technique": tech,
        })
    na = []
    for pid in ALL:
        if pid in CLAIMED:
            continue
        na.append({"property_id": pid, "reason": NA.get(pid, NOT_BUILT_REASON)})
    m = {
        "version": 1,
        "setup_cmd": "cd /verif/checker && GOFLAGS=-mod=vendor GOPROXY=off GOSUMDB=off GOTOOLCHAIN=local GOWORK=off CGO_ENABLED=0 go build -o /verif/bin/ntripcheck .",
        "hooks": {
            "guard": "verif",
            "enable": "none needed: the checks read source only; no build-tagged hooks exist in /repo",
            "baseline_off_cmd": "cd /repo && go test -vet=off -count=1 -timeout 25m ./...",
            "source_commits": [],
            "add_only": True,
        },
        "engines": [{
            "name": "ntripcheck",
            "path": "/verif/checker",
            "serves_properties": sorted(CLAIMED),
            "kind_free_text": "repository-specific static analyser over go/packages + go/types + go/ssa + CHA call graph (golang.org/x/tools v0.29.0, vendored); dominance, path, dataflow, table and affine-bound rules; never builds or runs the code under test",
        }],
        "checks": checks,
        "not_applicable": na,
        "notes": "Every check loads /repo's current working tree afresh. Known genuine defects are listed in /verif/KNOWN_FINDINGS.txt (known:/fixed: lines).",
    }
    with open(os.path.join(HERE, "MANIFEST.json"), "w") as f:
        json.dump(m, f, indent=1)
        f.write("\n")


if __name__ == "__main__":
    main()
