#!/bin/sh
# usage: tools/mut.sh <patch.diff> <property> [property...]
# Applies a seeded change to a scratch worktree of /repo (never to /repo
# itself), runs the named checks against it, prints one verdict line per
# property, and removes the change again.  Evidence goes to a scratch dir.
here=$(cd "$(dirname "$0")/.." && pwd)
patch=$(realpath "$1"); shift
wt=${MUT_WT:-/tmp/wt/scratch-$$}
git -C /repo worktree add --detach -q "$wt" HEAD || exit 2
trap 'git -C /repo worktree remove --force "$wt" >/dev/null 2>&1; rm -rf "$out"' EXIT
out=$(mktemp -d /tmp/mutout.XXXXXX)
if ! git -C "$wt" apply "$patch" 2>/dev/null; then
  if ! git -C "$wt" apply --3way "$patch" >/dev/null 2>&1; then echo "APPLY-FAILED $patch"; exit 3; fi
fi
for p in "$@"; do
  res=$(VERIF_REPO="$wt" VERIF_OUT="$out" "$here/run.sh" "$p" quick 2>&1)
  rc=$?
  n=$(printf '%s\n' "$res" | grep -c '^VIOLATION')
  echo "== $p exit=$rc violations=$n"
  printf '%s\n' "$res" | grep -A3 '^VIOLATION' | grep -E 'rule=|^  [a-zA-Z]' | sed "s#$wt/##g" | head -${MUT_LINES:-12}
done
