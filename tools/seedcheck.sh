#!/bin/bash
# usage: tools/seedcheck.sh <seed-id> <property> : development aid - applies a stored seeded change to a scratch
# worktree and prints the violations the given property's quick check reports on it.
here=$(cd "$(dirname "$0")/.." && pwd)
wt=/tmp/wt/sc-$$
git -C /repo worktree add --detach -q "$wt" HEAD || exit 2
trap 'git -C /repo worktree remove --force "$wt" 2>/dev/null' EXIT
trap 'exit 1' PIPE INT TERM
git -C "$wt" apply "$here/seeded/$1/patch.diff" || { git -C /repo worktree remove --force "$wt"; exit 3; }
mkdir -p /tmp/vo
VERIF_OUT=/tmp/vo "${BIN:-$here/bin/ntripcheck}" -property "$2" -tier quick -repo "$wt" -verif "$here" 2>&1 | grep -v '^  *ok' | sed "s#$wt/##g" | cut -c1-${W:-400}
git -C /repo worktree remove --force "$wt"
