#!/bin/bash
# usage: tools/refcheck.sh <diff> : applies a behaviour-preserving refactoring to a scratch worktree and
# runs every claimed check; any non-zero exit is a false alarm.
here=$(cd "$(dirname "$0")/.." && pwd)
d=$(realpath "$1")
props=$(python3 -c "import json;print(' '.join(c['property_id'] for c in json.load(open('$here/MANIFEST.json'))['checks']))")
wt=/tmp/wt/rc-$$
git -C /repo worktree add --detach -q "$wt" HEAD || exit 2
out=""
trap 'rm -rf "$out"; git -C /repo worktree remove --force "$wt" 2>/dev/null' EXIT
trap 'exit 1' PIPE INT TERM
if ! git -C "$wt" apply "$d" 2>/dev/null && ! git -C "$wt" apply --3way "$d" >/dev/null 2>&1; then echo "$1 APPLY-FAILED"; git -C /repo worktree remove --force "$wt"; exit 3; fi
out=$(mktemp -d /tmp/rcout.XXXXXX)
alarms=""
# one process runs every check (development mode); the alarmed ones are re-run singly for their report
cand=$(VERIF_OUT="$out" "${BIN:-$here/bin/ntripcheck}" -property all -repo "$wt" -verif "$here" 2>&1 | awk '/^ALL .* (ALARM|PANIC)/{print $2} /^ALL load-error/{print "LOAD"}')
case "$cand" in *LOAD*) cand="$props";; esac
for p in $cand; do
  r=$(VERIF_OUT="$out" "${BIN:-$here/bin/ntripcheck}" -property $p -tier quick -repo "$wt" -verif "$here" 2>&1) || { alarms="$alarms $p"; printf '%s\n' "$r" | grep -A3 '^VIOLATION' | grep -E 'key=|^  [a-zA-Z]' | sed "s#$wt/##g" | head -${RC_LINES:-6} > "$out/$p.txt"; [ -s "$out/$p.txt" ] || printf '%s\n' "$r" | tail -5 | sed 's/^/  RAW: /' > "$out/$p.txt"; }
done
echo "$1 alarms=[$alarms ]"
for p in $alarms; do echo "  -- $p"; cat "$out/$p.txt"; done
rm -rf "$out"; git -C /repo worktree remove --force "$wt"
