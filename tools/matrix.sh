#!/bin/bash
# usage: tools/matrix.sh [seed-id ...]   (default: all under seeded/)
# For every seeded change: apply to a scratch worktree, run every claimed check, print
# "<seed> <own property> caught-by=<list> own=<CAUGHT|MISSED>".
here=$(cd "$(dirname "$0")/.." && pwd)
cd "$here"
props=$(python3 -c "import json;print(' '.join(c['property_id'] for c in json.load(open('MANIFEST.json'))['checks']))")
seeds=${*:-$(ls seeded)}
one() {
  s=$1
  own=$(python3 -c "import json;print(json.load(open('seeded/$s/meta.json'))['property'])")
  wt=/tmp/wt/mx-$s
  git -C /repo worktree add --detach -q "$wt" HEAD 2>/dev/null || { echo "$s worktree-failed"; return; }
  if ! git -C "$wt" apply "$here/seeded/$s/patch.diff" 2>/dev/null && ! git -C "$wt" apply --3way "$here/seeded/$s/patch.diff" >/dev/null 2>&1; then
    echo "$s $own APPLY-FAILED"; git -C /repo worktree remove --force "$wt"; return
  fi
  out=$(mktemp -d /tmp/mxout.XXXXXX)
  caught=""
  # one process runs every check (development mode of the checker)
  caught=" $(VERIF_OUT="$out" "${BIN:-$here/bin/ntripcheck}" -property all -repo "$wt" -verif "$here" 2>&1 | awk '/^ALL .* (ALARM|PANIC)/{printf "%s ", $2} /^ALL load-error/{printf "LOAD "}')"
  caught=${caught% }
  rm -rf "$out"
  git -C /repo worktree remove --force "$wt"
  case " $caught " in *" $own "*) st=CAUGHT;; *) st=MISSED;; esac
  echo "$s own=$own $st caught-by=[$caught ]"
}
export -f one 2>/dev/null
for s in $seeds; do
  ( one $s ) &
  # at most 8 in parallel
  while [ $(jobs -r | wc -l) -ge 8 ]; do sleep 0.5; done
done
wait
