#!/bin/bash
# usage: tools/dbg.sh <diff> <property> : development aid - applies a diff to the scratch worktree /tmp/wt/dbg
# and runs one property's quick check on it (evidence goes to a scratch directory).
here=$(cd "$(dirname "$0")/.." && pwd)
wt=/tmp/wt/dbg
[ -d "$wt" ] || git -C /repo worktree add --detach -q "$wt" HEAD
git -C "$wt" checkout -q -- . && git -C "$wt" clean -fdq
git -C "$wt" apply "$(realpath "$1")" || exit 2
mkdir -p /tmp/vo
VERIF_OUT=/tmp/vo "${BIN:-$here/bin/ntripcheck}" -property "$2" -tier quick -repo "$wt" -verif "$here" 2>&1 | grep -v '^  *ok' | sed "s#$wt/##g" | cut -c1-${W:-400}
