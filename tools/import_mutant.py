#!/usr/bin/env python3
"""Confirm a sub-agent's seeded change and store it under /verif/seeded/<id>/.

usage: import_mutant.py <agent-out-dir> <seed-id>

Confirms, in a scratch worktree of /repo HEAD (removed afterwards):
  1. the patch applies and the tree builds;
  2. the existing suite gives the same failures as the clean tree
     (rtcm/handler TestString is in BASELINE always_fail);
  3. the demonstration fails with the patch and passes without it.
Only then is the change copied to /verif/seeded/<id>/ (patch.diff, demo, meta.json).
"""
import json, os, re, shutil, subprocess, sys, tempfile

FLAGS = os.environ.get("MUT_TEST_FLAGS", "")
# MUT_BASE=<refactoring diff>: the change was made on top of that behaviour-preserving commit; "clean tree"
# below is then /repo HEAD plus the refactoring, and the stored patch is the combined diff against /repo HEAD
BASE = os.environ.get("MUT_BASE", "")
ENV = dict(os.environ, GOFLAGS="-mod=readonly -buildvcs=false", GOPROXY="off", GOSUMDB="off", GOTOOLCHAIN="local")


def sh(cmd, cwd, timeout=1500):
    p = subprocess.run(cmd, shell=True, cwd=cwd, env=ENV, capture_output=True, text=True, timeout=timeout)
    return p.returncode, p.stdout + p.stderr


def failing(out):
    return sorted(set(re.findall(r"--- FAIL: (\S+)", out)) | set("PKG " + m for m in re.findall(r"^FAIL\s+(\S+)\s+\[build failed\]", out, re.M)))


def main():
    src, sid = sys.argv[1], sys.argv[2]
    patch = os.path.join(src, "patch.diff")
    demo = os.path.join(src, "demo_test.go")
    demo_path = open(os.path.join(src, "demo_path.txt")).read().split()[0].strip()
    meta = json.load(open(os.path.join(src, "meta.json")))
    wt = tempfile.mkdtemp(prefix="imp-", dir="/tmp/wt")
    os.rmdir(wt)
    ran = []
    try:
        rc, out = sh("git -C /repo worktree add --detach -q %s HEAD" % wt, "/")
        assert rc == 0, out
        if BASE:
            rc, out = sh("git apply %s" % os.path.abspath(BASE), wt)
            assert rc == 0, "base refactoring does not apply: " + out
            ran.append("base: /repo HEAD + %s" % os.path.basename(BASE))
        # clean tree: suite + demo passes
        rc, base = sh("go test -vet=off -count=1 ./... 2>&1", wt)
        base_fail = failing(base)
        ran.append("clean tree: go test -vet=off -count=1 ./... -> failing: %s" % base_fail)
        os.makedirs(os.path.dirname(os.path.join(wt, demo_path)), exist_ok=True)
        shutil.copy(demo, os.path.join(wt, demo_path))
        pkg = "./" + os.path.dirname(demo_path)
        rc_clean, out_clean = sh("go test -vet=off -count=1 %s %s 2>&1" % (FLAGS, pkg), wt)
        demo_clean_fail = [f for f in failing(out_clean) if f not in base_fail]
        ran.append("clean tree + demo: go test %s -> new failures: %s" % (pkg, demo_clean_fail))
        os.remove(os.path.join(wt, demo_path))
        # mutant
        rc, out = sh("git apply %s" % os.path.abspath(patch), wt)
        if rc != 0:
            rc, out = sh("git apply --3way %s" % os.path.abspath(patch), wt)
        assert rc == 0, "patch does not apply: " + out
        rc, out = sh("go build ./... 2>&1", wt)
        assert rc == 0, "mutant does not build: " + out
        rc, mut = sh("go test -vet=off -count=1 ./... 2>&1", wt)
        mut_fail = failing(mut)
        ran.append("mutant: go build ./... ok; go test -vet=off -count=1 ./... -> failing: %s" % mut_fail)
        shutil.copy(demo, os.path.join(wt, demo_path))
        rc_mut, out_mut = sh("go test -vet=off -count=1 %s %s 2>&1" % (FLAGS, pkg), wt)
        demo_mut_fail = [f for f in failing(out_mut) if f not in base_fail]
        if rc_mut != 0 and not demo_mut_fail and ("panic:" in out_mut or "DATA RACE" in out_mut or "fatal error:" in out_mut):
            demo_mut_fail = ["panic"]
        ran.append("mutant + demo: go test %s -> new failures: %s" % (pkg, demo_mut_fail))
        ok = (mut_fail == base_fail) and not demo_clean_fail and bool(demo_mut_fail)
        print("suite same as clean:", mut_fail == base_fail, "| demo passes clean:", not demo_clean_fail, "| demo fails on mutant:", bool(demo_mut_fail))
        if not ok:
            print("NOT CONFIRMED", sid)
            print("\n".join(ran))
            return 1
        dst = os.path.join("/verif/seeded", sid)
        os.makedirs(dst, exist_ok=True)
        # store the patch as it applies to the current /repo HEAD
        sh("git add -A -N .", wt)  # files the refactoring created count as changes too
        rc, diff = sh("git diff -- . ':(exclude)%s'" % demo_path, wt)
        open(os.path.join(dst, "patch.diff"), "w").write(diff)
        shutil.copy(demo, os.path.join(dst, "demo_test.go"))
        head = subprocess.check_output("git -C /repo rev-parse --short HEAD", shell=True, text=True).strip()
        meta2 = {
            "id": sid,
            "property": meta.get("property"),
            "summary": meta.get("summary"),
            "needs_to_manifest": meta.get("needs_to_manifest"),
            "files_changed": meta.get("files_changed"),
            "demo_path": demo_path,
            "demo_cmd": "go test -vet=off -count=1 %s %s" % (FLAGS, pkg),
            "repo_head_when_confirmed": head,
            "on_top_of_refactoring": os.path.basename(BASE) if BASE else None,
            "confirmed_by_me": ran,
            "author_ran": meta.get("ran"),
        }
        json.dump(meta2, open(os.path.join(dst, "meta.json"), "w"), indent=1)
        print("CONFIRMED", sid)
        return 0
    finally:
        subprocess.run("git -C /repo worktree remove --force %s" % wt, shell=True, capture_output=True)
        shutil.rmtree(wt, ignore_errors=True)


if __name__ == "__main__":
    sys.exit(main())
