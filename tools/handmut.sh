#!/bin/sh
# usage: tools/handmut.sh <name> <file> <old> <new>   -> writes /tmp/hm/<name>.diff (single textual edit on a scratch worktree)
name=$1; file=$2; old=$3; new=$4
mkdir -p /tmp/hm
w=/tmp/hm/w-$$
git -C /repo worktree add --detach -q "$w" HEAD || exit 2
python3 - "$w/$file" "$old" "$new" <<'PY'
import sys
p=sys.argv[1]; s=open(p).read()
assert s.count(sys.argv[2])>=1, "pattern not found: "+sys.argv[2]
open(p,'w').write(s.replace(sys.argv[2],sys.argv[3],1))
PY
git -C "$w" diff > /tmp/hm/$name.diff
(cd "$w" && GOFLAGS=-mod=readonly go build ./... 2>&1 | head -3)
git -C /repo worktree remove --force "$w"
