#!/bin/sh
# usage: tools/normtest.sh <diff>
# Development aid for the normaliser (normalize.go): applies a refactoring to a scratch worktree,
# overwrites the rewritten packages with their normalised source and runs the repository's own
# tests on the result.  A failure means the normaliser changed behaviour (or produced code that
# does not compile).  Not part of any registered check.
here=$(cd "$(dirname "$0")/.." && pwd)
d=$(realpath "$1")
wt=/tmp/wt/nt-$$
git -C /repo worktree add --detach -q "$wt" HEAD || exit 2
git -C "$wt" apply "$d" || { git -C /repo worktree remove --force "$wt"; exit 3; }
"$here/bin/ntripcheck" -repo "$wt" -verif "$here" -dump-normalised "$wt" | sed "s#$wt/##"
( cd "$wt" && GOFLAGS=-mod=readonly GOPROXY=off GOSUMDB=off go build ./... 2>&1 | head -20 && GOFLAGS=-mod=readonly GOPROXY=off GOSUMDB=off go test ./... 2>&1 | grep -v "^ok\|no test files" | head -30 )
git -C /repo worktree remove --force "$wt"
