#!/usr/bin/env python3
"""Development aid: replace a block of text in a file, tolerating a uniform difference in tab indentation.
usage: patch.py FILE OLDFILE NEWFILE"""
import sys
p, oldf, newf = sys.argv[1:4]
s = open(p).read(); old = open(oldf).read().rstrip('\n'); new = open(newf).read().rstrip('\n')
def shift(t, k):
    out = []
    for l in t.split('\n'):
        if k >= 0: out.append('\t'*k + l if l else l)
        else:
            if l.startswith('\t'*(-k)): out.append(l[-k:])
            elif not l: out.append(l)
            else: return None
    return '\n'.join(out)
for k in [0, 1, 2, 3, 4, 5, -1, -2, -3, -4]:
    o = shift(old, k)
    if o is not None and s.count(o) == 1:
        s = s.replace(o, shift(new, k), 1); open(p, 'w').write(s); print('patched (indent %+d)' % k); sys.exit(0)
print('NOT FOUND or ambiguous'); sys.exit(1)
