#!/bin/bash
# runs every claimed check against every stored behaviour-preserving refactoring (8 in parallel)
here=$(cd "$(dirname "$0")/.." && pwd); cd "$here"
for d in refactorings/*.diff; do
  ( RC_LINES=${RC_LINES:-3} tools/refcheck.sh "$d" 2>&1 | cut -c1-200 > /tmp/refall.$(basename $d).out ) &
  while [ $(jobs -r | wc -l) -ge 8 ]; do sleep 0.3; done
done
wait
cat /tmp/refall.*.out; rm -f /tmp/refall.*.out
